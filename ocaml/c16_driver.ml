(* C16 driver: evaluates the extracted Model/Enforce.v and Model/EnforceLagrange.v on the case lines printed by harness/src/bin/c16.rs
   and prints results in the same canonical format. *)
open Zio
open Enforce
open EnforceLagrange

let z = z_of_hex
let h = hex_of_z
let cat = Stdlib.String.concat
let lmap = Stdlib.List.map

let ops_of = function
  | "f64" -> ZpOps.zp_ops ZpOps.coq_P64
  | "f62" -> ZpOps.zp_ops ZpOps.coq_P62
  | "f128" -> ZpOps.zp_ops ZpOps.coq_P128
  | f -> failwith ("field " ^ f)

let ctor k col first stride nvals =
  match k with
  | "s" -> mk_single (z col) (z first)
  | "p" -> mk_periodic (z col) (z first) (z stride)
  | "q" -> mk_sequence (z col) (z first) (z stride) (z nvals)
  | _ -> failwith "kind"

let inv_cache : (string * BinNums.coq_Z, BinNums.coq_Z) Stdlib.Hashtbl.t = Stdlib.Hashtbl.create 16
let inv_of fld o g =
  match Stdlib.Hashtbl.find_opt inv_cache (fld, g) with
  | Some v -> v
  | None -> let v = o.FieldOps.finv g in Stdlib.Hashtbl.add inv_cache (fld, g) v; v

let get = function Some a -> a | None -> failwith "unconstructible assertion in a case that needs one"

let show_a a = Stdlib.Printf.sprintf "ok %s %s %s %s" (h a.a_col) (h a.a_first) (h a.a_stride) (h a.a_nvals)

let show_div d =
  let num = lmap (fun (k, c) -> h k ^ ":" ^ h c) d.d_num in
  let ex = lmap h d.d_ex in
  Stdlib.Printf.sprintf "num=%s ex=%s" (if num = [] then "-" else cat "," num) (if ex = [] then "-" else cat "," ex)

let bits l = cat "" (lmap (fun b -> if b then "1" else "0") l)
let is0 v = (v = BinNums.Z0)
let range n = Stdlib.List.init n (fun i -> z_of_int i)

let vres = function
  | VOk -> "ok" | VNotPow2 -> "not_pow2" | VTooShort -> "too_short" | VNotExact -> "not_exact" | VOverflow -> "panic"

let split_on c s = if s = "-" || s = "" then [] else Stdlib.String.split_on_char c s


(* ---- Lagrange kernel constraints (Model/EnforceLagrange.v) *)
(* rows 4j..4j+3 -> hex digit j, row 4j most significant, padded with zeros (same as the harness) *)
let hexbits (a : bool array) : string =
  let n = Stdlib.Array.length a in
  let nd = (n + 3) / 4 in
  Stdlib.String.init nd (fun j ->
      let d = ref 0 in
      for i = 0 to 3 do
        let idx = (4 * j) + i in
        d := (2 * !d) + if idx < n && a.(idx) then 1 else 0
      done;
      "0123456789abcdef".[!d])

let oh = function Some x -> h x | None -> "panic"
let hl l = if l = [] then "-" else cat "," (lmap h l)

(* the constraints an AIR builds for a trace of length n: lag_num_coefficients n coefficients handed to new() *)
let lag_for o n =
  let m = lag_num_coefficients n in
  (m, lag_new o (Stdlib.List.init (int_of_z m) (fun _ -> o.FieldOps.fone)))

let eval = function
  | [ "ctor"; k; col; first; stride; nvals ] ->
    (match ctor k col first stride nvals with Some a -> show_a a | None -> "panic")
  | [ "len"; k; col; first; stride; nvals; n; want ] ->
    let a = get (ctor k col first stride nvals) in
    let n = z n in
    let v = vres (validate_trace_length a n) in
    let g = match get_num_steps a n with Some m -> h m | None -> "panic" in
    let st =
      if want = "0" then "-"
      else match apply_steps a n with
        | Some l -> cat "," (lmap (fun (s, i) -> h s ^ ":" ^ h i) l)
        | None -> "panic" in
    v ^ " " ^ g ^ " " ^ st
  | [ "ovl"; k1; c1; f1; s1; v1; k2; c2; f2; s2; v2 ] ->
    let a = get (ctor k1 c1 f1 s1 v1) and b = get (ctor k2 c2 f2 s2 v2) in
    (match overlaps_with a b with Some true -> "1" | Some false -> "0" | None -> "panic")
  | "ft" :: fld :: n :: k :: g :: xs ->
    let o = ops_of fld and g = z g and n = z n in
    let xs = lmap z xs in
    (match from_transition o g n (z k) with
     | None -> "panic"
     | Some d ->
       Stdlib.Printf.sprintf "%s deg=%s ev=%s" (show_div d)
         (match d_degree d with Some x -> h x | None -> "panic")
         (if xs = [] then "-" else cat "," (lmap (fun x -> h (evaluate_at o d x) ^ "/" ^ h (eval_exemptions o d x)) xs)))
  | "fa" :: fld :: n :: k :: col :: first :: stride :: nvals :: g :: xs ->
    let o = ops_of fld and g = z g and n = z n in
    let xs = lmap z xs in
    (match ctor k col first stride nvals with
     | None -> "panic"
     | Some a ->
       match from_assertion o g a n with
       | None -> "panic"
       | Some d ->
         Stdlib.Printf.sprintf "%s deg=%s ev=%s" (show_div d)
           (match d_degree d with Some x -> h x | None -> "panic")
           (if xs = [] then "-" else cat "," (lmap (fun x -> h (evaluate_at o d x)) xs)))
  | [ "bc"; fld; n; k; col; first; stride; nvals; g; x; tv; vals ] ->
    let o = ops_of fld and g = z g and n = z n in
    let a = get (ctor k col first stride nvals) in
    let vals = lmap z (split_on ',' vals) in
    (match prepare_assertions [ a ] (z "1") n with
     | Datatypes.Coq_inl PEWidth -> "width" | Datatypes.Coq_inl PELength -> "length"
     | Datatypes.Coq_inl PEOverlap -> "overlap" | Datatypes.Coq_inl PEPanic -> "panic"
     | Datatypes.Coq_inr _ ->
       let inv_g = inv_of fld o g in
       let c = bc_new o a vals inv_g in
       Stdlib.Printf.sprintf "poly=%s off=%s:%s at=%s steps=%s"
         (cat "," (lmap h c.bc_poly)) (h c.bc_off_steps) (h c.bc_off)
         (h (bc_evaluate_at o c (z x) (z tv)))
         (cat "," (lmap (fun st -> h (bc_evaluate_at o c (fpow o g st) BinNums.Z0)) (steps a n))))
  | [ "prep"; fld; n; width; g; lst ] ->
    let o = ops_of fld and g = z g and n = z n in
    let specs = lmap (fun s -> match split_on ',' s with
        | [ k; col; first; stride; nvals ] -> get (ctor k col first stride nvals)
        | _ -> failwith "spec") (split_on ';' lst) in
    (match prepare_assertions specs (z width) n with
     | Datatypes.Coq_inl PEWidth -> "width" | Datatypes.Coq_inl PELength -> "length"
     | Datatypes.Coq_inl PEOverlap -> "overlap" | Datatypes.Coq_inl PEPanic -> "panic"
     | Datatypes.Coq_inr sorted ->
       (* group consecutive assertions with the same key; the divisor is built from the first member *)
       let rec groups = function
         | [] -> []
         | a :: r ->
           let key = group_key a in
           let same, rest = Stdlib.List.partition (fun b -> group_key b = key) r in
           (a :: same) :: groups rest in
       cat "" (lmap (fun grp ->
           let a0 = Stdlib.List.hd grp in
           let d = match from_assertion o g a0 n with Some d -> show_div d | None -> "panic" in
           let cols = lmap (fun a ->
               let off = bc_poly_offset o a a.a_nvals (inv_of fld o g) in
               Stdlib.Printf.sprintf "%s/%s/%s" (h a.a_col) (h (fst off)) (h a.a_nvals)) grp in
           Stdlib.Printf.sprintf "[%s cols=%s]" d (cat "," cols)) (groups sorted)))
  | [ "evd"; n; base; cycles ] -> h (eval_degree (z n) (z base) (lmap z (split_on ',' cycles)))
  | [ "ex"; n; k; ce; degs ] ->
    if exemptions_ok (z n) (z k) (z ce) (lmap z (split_on ',' degs)) then "ok " ^ h (z k) else "panic"
  | [ "lagn"; fld; n ] ->
    let o = ops_of fld in
    (match lag_for o (z n) with
     | _, None -> "panic"
     | m, Some t ->
       Stdlib.Printf.sprintf "ncoef=%s nc=%s ndiv=%s" (h m) (h (lag_num_constraints t))
         (h (z_of_int (Stdlib.List.length t.l_div))))
  | [ "lagd"; fld; n; k; g; mode; x1; x2 ] ->
    let o = ops_of fld and g = z g and n = z n and k = z k in
    (match lag_for o n with
     | _, None -> "panic"
     | _, Some t ->
       let idx = BinInt.Z.sub k (z "1") in
       (match zidx t.l_div idx with
        | None -> "panic"
        | Some d ->
          let ni = int_of_z n in
          let pat =
            if mode = "f" then begin
              (* the model's divisor evaluated at every point of the trace domain *)
              let a = Stdlib.Array.make ni false in
              let x = ref o.FieldOps.fone in
              for i = 0 to ni - 1 do
                a.(i) <- is0 (evaluate_at o d !x);
                x := o.FieldOps.fmul !x g
              done;
              a
            end else begin
              (* the row set proved equal to the divisor's zero set (C16_lagrange_enforcement_exact) *)
              let a = Stdlib.Array.make ni false in
              Stdlib.List.iter (fun r -> a.(int_of_z r) <- true) (lag_rows n k);
              a
            end in
          Stdlib.Printf.sprintf "pat=%s ev=%s,%s" (hexbits pat) (oh (lag_ith_divisor o t idx (z x1))) (oh (lag_ith_divisor o t idx (z x2)))))
  | [ "lagc"; fld; n; g; zz; x; cb; coefs; rs; poly ] ->
    let o = ops_of fld and g = z g and n = z n in
    let coefs = lmap z (split_on ',' coefs) and rs = lmap z (split_on ',' rs) and poly = lmap z (split_on ',' poly) in
    let v = lag_num_coefficients n in
    (match lag_new o coefs with
     | None -> "panic"
     | Some t ->
       let frame = lag_frame_from_poly o g v poly (z zz) in
       let nums = lmap (fun i -> oh (lag_ith_numerator o t frame rs (z_of_int i))) (Stdlib.List.init (int_of_z v) (fun i -> i)) in
       Stdlib.Printf.sprintf "frame=%s nums=%s comb=%s bnd=%s/%s/%s" (hl frame) (cat "," nums)
         (oh (lag_evaluate_and_combine o t frame rs (z x)))
         (oh (lag_boundary_numerator o rs frame (z cb))) (h (lag_boundary_denominator o (z x)))
         (oh (lag_boundary_evaluate_at o rs frame (z cb) (z x))))
  | [ "lagm"; fld; x; coefs; rs; frame ] ->
    let o = ops_of fld in
    let coefs = lmap z (split_on ',' coefs) and rs = lmap z (split_on ',' rs) and frame = lmap z (split_on ',' frame) in
    (match lag_new o coefs with
     | None -> "panic"
     | Some t ->
       let cl = Stdlib.List.length coefs in
       let nums = lmap (fun i -> oh (lag_ith_numerator o t frame rs (z_of_int i))) (Stdlib.List.init (cl + 1) (fun i -> i)) in
       Stdlib.Printf.sprintf "nc=%s nums=%s comb=%s" (h (lag_num_constraints t)) (cat "," nums)
         (oh (lag_evaluate_and_combine o t frame rs (z x))))
  | [ "glue"; fld; n; mw; aw; g; tag; ml; al ] ->
    (* BoundaryConstraints::new on a two-segment context: each list validated against its OWN segment's width *)
    ignore (fld, g, tag);
    let parse lst = lmap (fun s -> match split_on ',' s with
        | [ k; col; first; stride; nvals ] -> ctor k col first stride nvals
        | _ -> failwith "spec") (split_on ';' lst) in
    let m = parse ml and a = parse al in
    if Stdlib.List.exists (fun x -> x = None) (m @ a) then "panic"
    else
      (match boundary_prepare (lmap get m) (lmap get a) (z mw) (z aw) (z n) with
       | Datatypes.Coq_inl PEWidth -> "width" | Datatypes.Coq_inl PELength -> "length"
       | Datatypes.Coq_inl PEOverlap -> "overlap" | Datatypes.Coq_inl PEPanic -> "panic"
       | Datatypes.Coq_inr (pm, pa) ->
         Stdlib.Printf.sprintf "ok %x %x" (Stdlib.List.length pm) (Stdlib.List.length pa))
  | op :: _ -> "driver-error:unknown-op:" ^ op
  | [] -> "driver-error:empty"

let () = run eval
