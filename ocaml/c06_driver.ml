(* C06 driver: evaluates the extracted model (coq/Model/Untrusted.v over coq/Model/Codec.v) on the cases produced by
   harness/src/bin/c06.rs (grammar: see the head of that file).
     V ... -> the SET of outcomes the model allows, joined by '|' (one run per first failing value-dependent check, per
              count mismatch of the drawn / folded positions): parse-err | ok | err:<Variant> | panic:<site>
     P ... -> ok|parse-err alloc<=<model total> bound=<closed-form bound>
     O Q F C D -> ok <shape> | parse-err | err | panic *)
open Zio
open BinNums
open Codec
open Untrusted

let rec int_of_pos = function Coq_xH -> 1 | Coq_xO p -> 2 * int_of_pos p | Coq_xI p -> (2 * int_of_pos p) + 1
let small = function Z0 -> 0 | Zpos p -> int_of_pos p | Zneg p -> -int_of_pos p
let byte_tab = Stdlib.Array.init 256 (fun i -> z_of_int i)
let hexval c = match c with '0' .. '9' -> Stdlib.Char.code c - 48 | 'a' .. 'f' -> Stdlib.Char.code c - 87 | 'A' .. 'F' -> Stdlib.Char.code c - 55 | _ -> failwith "bad hex"
let bytes_of_hex_fast (s : string) : coq_Z list =
  if s = "-" then []
  else begin
    let n = Stdlib.String.length s / 2 in
    let r = ref [] in
    for i = n - 1 downto 0 do r := byte_tab.((16 * hexval s.[2 * i]) + hexval s.[(2 * i) + 1]) :: !r done;
    !r
  end
let zi (s : string) : coq_Z = z_of_hex (Stdlib.Printf.sprintf "%x" (int_of_string s))
(* decimal strings beyond 2^62 (usize::MAX) *)
let z_of_dec (s : string) : coq_Z =
  if Stdlib.String.length s < 18 then zi s
  else begin
    let ten = z_of_int 10 in
    let acc = ref Z0 in
    Stdlib.String.iter (fun c -> acc := BinInt.Z.add (BinInt.Z.mul !acc ten) (z_of_int (Stdlib.Char.code c - 48))) s;
    !acc
  end
let dec (v : coq_Z) : string = string_of_int (small v)

let field = function "f64" -> coq_F64P | "f128" -> coq_F128P | "f62" -> coq_F62P | f -> failwith ("field " ^ f)

let frierr = function
  | F_LayerCommitmentMismatch -> "LayerCommitmentMismatch" | F_InvalidLayerFolding -> "InvalidLayerFolding"
  | F_RemainderCommitmentMismatch -> "RemainderCommitmentMismatch" | F_RemainderDegreeMismatch -> "RemainderDegreeMismatch"
  | F_InvalidRemainderFolding -> "InvalidRemainderFolding" | F_DegreeTruncation -> "DegreeTruncation"
  | F_UnsupportedFoldingFactor -> "UnsupportedFoldingFactor" | F_NumPositionEvaluationMismatch -> "NumPositionEvaluationMismatch"
let verr = function
  | E_InconsistentBaseField -> "InconsistentBaseField" | E_UnacceptableProofOptions -> "UnacceptableProofOptions"
  | E_UnsupportedFieldExtension -> "UnsupportedFieldExtension" | E_ProofDeserializationError -> "ProofDeserializationError"
  | E_RandomCoinError -> "RandomCoinError" | E_InconsistentOodConstraintEvaluations -> "InconsistentOodConstraintEvaluations"
  | E_TraceQueryDoesNotMatchCommitment -> "TraceQueryDoesNotMatchCommitment"
  | E_ConstraintQueryDoesNotMatchCommitment -> "ConstraintQueryDoesNotMatchCommitment"
  | E_QuerySeedProofOfWorkVerificationFailed -> "QuerySeedProofOfWorkVerificationFailed"
  | E_Fri f -> "Fri." ^ frierr f
let why = function
  | W_air_new_layout -> "air-new-layout" | W_air_new_blowup -> "air-new-blowup" | W_root_of_unity -> "root-of-unity"
  | W_seed_padding -> "seed-padding" | W_typed_parser -> "typed-parser" | W_trace_queries_len -> "trace-queries-len"
  | W_num_partitions -> "num-partitions" | W_commitment_index -> "commitment-index" | W_main_frame_slice -> "main-frame-slice"
  | W_aux_frame -> "aux-frame" | W_lagrange_expect -> "lagrange-expect" | W_ood_exponent -> "ood-exponent"
  | W_draw_integers -> "draw-integers" | W_composer_rows -> "composer-rows" | W_fold_zero -> "fold-zero"
  | W_layer_remove -> "layer-remove" | W_degree_underflow -> "degree-underflow"

let vres = function VOk _ -> "ok" | VErr e -> "err:" ^ verr e | VPanic w -> "panic:" ^ why w

let rec nat_to_int = function Datatypes.O -> 0 | Datatypes.S n -> 1 + nat_to_int n

let eval_v (t : string list) : string =
  match t with
  | [ fld; hd; mw; aw; nr; logn; ceb; ncols; pol; hex ] ->
      let a = { ap_field = field fld; ap_dl = nat_of_int (int_of_string hd); ap_main = zi mw; ap_aux = zi aw; ap_rands = zi nr;
                ap_length = BinInt.Z.pow (z_of_int 2) (zi logn); ap_ceb = zi ceb; ap_ncols = zi ncols; ap_lagrange = false } in
      let policy =
        if pol = "all" then Pol_All
        else
          let h = Stdlib.String.sub pol 4 (Stdlib.String.length pol - 4) in
          match read_ProofOptions (bytes_of_hex_fast h) with Ok (o, _) -> Pol_Set [ o ] | _ -> Pol_Set []
      in
      let bs = bytes_of_hex_fast hex in
      (match parse bs with
       | Err _ -> "parse-err"
       | Panic -> "panic:parse"
       | Ok p ->
           let nuq = p.pr_num_unique_queries in
           (* the layer query counts, when the channel can be built *)
           let lq = match channel_new a p with VOk ch -> Stdlib.List.map (fun l -> l.ls_queries) ch.ch_layers | _ -> [] in
           let nl = Stdlib.List.length lq in
           let kf_match (i : Datatypes.nat) = match Stdlib.List.nth_opt lq (nat_to_int i) with Some q -> q | None -> Z0 in
           let all_true (_ : Datatypes.nat) = true in
           let outs = ref [] in
           let add r = let s = vres r in if not (Stdlib.List.mem s !outs) then outs := s :: !outs in
           (* every value-dependent check succeeds *)
           add (verify a policy p all_true nuq kf_match);
           (* the j-th one fails *)
           for j = 0 to 6 + (2 * nl) do
             add (verify a policy p (fun i -> nat_to_int i <> j) nuq kf_match)
           done;
           (* the number of distinct positions differs from the number of opened rows *)
           add (verify a policy p all_true (BinInt.Z.add nuq (z_of_int 1)) kf_match);
           (* the number of distinct folded positions of layer i differs from the number of rows of the layer *)
           for i = 0 to nl - 1 do
             add (verify a policy p all_true nuq (fun n -> if nat_to_int n = i then BinInt.Z.add (kf_match n) (z_of_int 1) else kf_match n))
           done;
           Stdlib.String.concat "|" (Stdlib.List.sort compare !outs))
  | _ -> failwith "V: arity"

let res_str (show : 'a -> string) (r : 'a coq_Result) : string = match r with Ok a -> "ok" ^ show a | Err _ -> "err" | Panic -> "panic"
let ints l = Stdlib.String.concat "," (Stdlib.List.map dec l)

let eval (t : string list) : string =
  match t with
  | "V" :: rest -> eval_v rest
  | [ "P"; hex ] ->
      let bs = bytes_of_hex_fast hex in
      let n = dec (parse_alloc bs) and b = dec (alloc_bound (z_of_int (Stdlib.List.length bs))) in
      (* the accounting run must take the same path as the reader *)
      let cls = function Ok _ -> "ok" | Err _ -> "parse-err" | Panic -> "panic" in
      if cls (parse bs) <> cls (parse_alloc_result bs) then "driver-error:accounting-diverges"
      else (match parse bs with Ok _ -> "ok alloc<=" ^ n ^ " bound=" ^ b | Err _ -> "parse-err alloc<=" ^ n ^ " bound=" ^ b | Panic -> "panic")
  | [ "O"; fld; ext; mw; aw; ncols; hex ] ->
      (match parse_prefix read_OodFrame (bytes_of_hex_fast hex) with
       | Err _ -> "parse-err" | Panic -> "panic"
       | Ok f ->
           res_str (fun s -> Stdlib.Printf.sprintf " %s %s %s" (dec s.os_cur) (match s.os_lagrange with Some n -> dec n | None -> "-") (dec s.os_evals))
             (coq_OodFrame_parse (field fld) (nat_of_int (int_of_string ext)) f (z_of_dec mw) (z_of_dec aw) (z_of_dec ncols)))
  | [ "Q"; fld; ext; hd; dom; nq; vpq; hex ] ->
      (match parse_prefix read_Queries (bytes_of_hex_fast hex) with
       | Err _ -> "parse-err" | Panic -> "panic"
       | Ok q ->
           res_str (fun s -> Stdlib.Printf.sprintf " %s %s %s %s" (dec s.qs_rows) (dec s.qs_cols) (dec s.qs_depth) (ints s.qs_nodes))
             (coq_Queries_parse (field fld) (nat_of_int (int_of_string ext)) (nat_of_int (int_of_string hd)) q (z_of_dec dom) (z_of_dec nq) (z_of_dec vpq)))
  | [ "F"; fld; ext; hd; dom; ff; hex ] ->
      (match parse_prefix read_FriProof (bytes_of_hex_fast hex) with
       | Err _ -> "parse-err" | Panic -> "panic"
       | Ok p ->
           let f = field fld and deg = nat_of_int (int_of_string ext) and dl = nat_of_int (int_of_string hd) in
           (match coq_Fri_num_partitions p with
            | Panic | Err _ -> "panic"
            | Ok _ ->
                (match coq_Fri_parse_remainder f deg p with
                 | Panic -> "panic" | Err _ -> "err"
                 | Ok rem ->
                     res_str (fun ls -> Stdlib.Printf.sprintf " %s %s [%s]" (dec p.fri_num_partitions) (dec rem)
                                 (Stdlib.String.concat "," (Stdlib.List.map (fun l -> dec (BinInt.Z.mul l.ls_queries (z_of_dec ff)) ^ ":" ^ dec l.ls_depth) ls)))
                       (coq_Fri_parse_layers f deg dl p (z_of_dec dom) (z_of_dec ff)))))
  | [ "C"; hd; nseg; nl; hex ] ->
      (match parse_prefix read_Commitments (bytes_of_hex_fast hex) with
       | Err _ -> "parse-err" | Panic -> "panic"
       | Ok c -> res_str (fun (a, b) -> " " ^ dec a ^ " " ^ dec b) (coq_Commitments_parse (nat_of_int (int_of_string hd)) c (z_of_dec nseg) (z_of_dec nl)))
  | [ "D"; nq; dom ] -> res_str (fun n -> " " ^ dec n) (draw_integers_shape (z_of_dec nq) (z_of_dec dom))
  | _ -> failwith "unknown case"

let () = run eval
