(* C09 driver: runs the extracted FFT models (coq/Model/FFT.v at zp_ops p) on the cases produced by
   harness/src/bin/c09.rs.  One case per line; `spec:<op>` runs the spec-level definitions (fft_rec, peval, rev_bits)
   instead of the faithful index-level model. *)
open Zio

let z = z_of_hex
let h = hex_of_z
let z_of_dec (s : string) : BinNums.coq_Z = z_of_hex (Stdlib.Printf.sprintf "%Lx" (Stdlib.Int64.of_string ("0u" ^ s)))
let dec_of_z (x : BinNums.coq_Z) : string = Stdlib.Printf.sprintf "%Lu" (Stdlib.Int64.of_string ("0x" ^ hex_of_z x))
let n_of_z (x : BinNums.coq_Z) : BinNums.coq_N = match x with BinNums.Zpos p -> BinNums.Npos p | _ -> BinNums.N0
let z_of_n (x : BinNums.coq_N) : BinNums.coq_Z = match x with BinNums.Npos p -> BinNums.Zpos p | BinNums.N0 -> BinNums.Z0
let nat s = nat_of_int (int_of_string s)
let rec int_of_nat (n : Datatypes.nat) : int = match n with Datatypes.O -> 0 | Datatypes.S m -> 1 + int_of_nat m
let int_of_nat n = let rec go acc = function Datatypes.O -> acc | Datatypes.S m -> go (acc + 1) m in go 0 n
let vec s = if s = "-" then [] else Stdlib.List.map z (Stdlib.String.split_on_char ',' s)
let show_vec l = if l = [] then "-" else Stdlib.String.concat "," (Stdlib.List.map h l)
let cols s = Stdlib.List.map vec (Stdlib.String.split_on_char ';' s)
let show_cols l = Stdlib.String.concat ";" (Stdlib.List.map show_vec l)
let opt_vec = function None -> "panic" | Some l -> show_vec l
let rec log2i n = if n <= 1 then 0 else 1 + log2i (n / 2)

type fld = { p : BinNums.coq_Z; root : BinNums.coq_Z; ad : int }
let fld_of = function
  | "f64" -> { p = ZpOps.coq_P64; root = z_of_dec "7277203076849721926"; ad = 32 }
  | "f62" -> { p = ZpOps.coq_P62; root = z_of_dec "4421547261963328785"; ad = 39 }
  | "f128" -> { p = ZpOps.coq_P128; root = z "120532e7b364080a86b8723e1920f4aa"; ad = 40 }
  | s -> failwith ("unknown field " ^ s)

(* 23953097886125630542083529559205016746 = 0x120532e7b364080a86b8723e1920f4aa is checked by the twiddles correspondence *)

let ops f = ZpOps.zp_ops f.p
let adn f = nat_of_int f.ad
let rootf f = fun k -> C09.zp_root f.p f.root (adn f) k

let std_tw f n = FFT.get_twiddles (ops f) (adn f) (rootf f) (nat_of_int n)
let std_itw f n = FFT.get_inv_twiddles (ops f) (adn f) (rootf f) (nat_of_int n)
(* TW token: `std` or explicit vector; None = computing the standard twiddles panics *)
let tw_of f tok n inv = if tok = "std" then (if inv then std_itw f n else std_tw f n) else Some (vec tok)

(* the CHECKED model (explicit panics, debug profile) must agree with the model that is compared with the crate;
   run for small cases only (it re-checks lengths at every access) *)
let small n = n <= 256
let agree (a : string) (b : string) = if a = b then a else "model-mismatch checked=" ^ b ^ " total=" ^ a

let mulp f a b = (ops f).FieldOps.fmul a b
let inv f a = ZpOps.zp_inv f.p a

let eval = function
  | [ "twiddles"; fl; n ] ->
    let f = fld_of fl in
    let r = opt_vec (std_tw f (int_of_string n)) in
    if small (int_of_string n) then agree r (opt_vec (FFT.get_twiddles_c (ops f) true (adn f) (rootf f) (nat n))) else r
  | [ "inv_twiddles"; fl; n ] ->
    let f = fld_of fl in
    let r = opt_vec (std_itw f (int_of_string n)) in
    if small (int_of_string n) then agree r (opt_vec (FFT.get_inv_twiddles_c (ops f) true (adn f) (rootf f) (nat n))) else r
  | [ "spec:twiddles"; fl; n ] | [ "spec:inv_twiddles"; fl; n ] as l ->
    let f = fld_of fl in
    let n = int_of_string n in
    let k = log2i n in
    let w = rootf f (nat_of_int k) in
    let w = if Stdlib.List.hd l = "spec:inv_twiddles" then inv f w else w in
    show_vec (Stdlib.List.init (n / 2) (fun i ->
      FFT.fpow_N (ops f) w (n_of_z (z_of_int (int_of_nat (FFT.rev_bits (nat_of_int (k - 1)) (nat_of_int i)))))))
  | [ "permute_index"; size; idx ] ->
    let sz = z_of_dec size and ix = z_of_dec idx in
    let r64 = FFT.permute_index_u64 (n_of_z sz) (n_of_z ix) in
    let s64 = match r64 with None -> "panic" | Some r -> dec_of_z (z_of_n r) in
    (* the term rs2v generates from math/src/fft/mod.rs *)
    let gen = dec_of_z (FftIndex.fftidx_permute_index sz ix) in
    let s64 = if r64 <> None && (gen <> s64 || not (FftIndex.fftidx_permute_index_ok sz ix)) then "model-mismatch generated=" ^ gen ^ " model=" ^ s64 else s64 in
    (* the nat-level model used by the rest of the development must agree where it is computable *)
    if Stdlib.String.length size <= 5 && r64 <> None then begin
      let rn = string_of_int (int_of_nat (FFT.permute_index (nat size) (nat idx))) in
      if rn <> s64 then "model-mismatch u64=" ^ s64 ^ " nat=" ^ rn else s64
    end else s64
  | [ "permute"; fl; v ] ->
    let f = fld_of fl in
    let v = vec v in
    let r = show_vec (FFT.permute (ops f) v) in
    if small (Stdlib.List.length v) then agree r (opt_vec (FFT.permute_c (ops f) true v)) else r
  | [ "spec:permute"; fl; v ] ->
    let a = Stdlib.Array.of_list (vec v) in
    let n = Stdlib.Array.length a in
    let k = nat_of_int (log2i n) in
    show_vec (Stdlib.List.init n (fun i -> a.(int_of_nat (FFT.rev_bits k (nat_of_int i)))))
  | [ "fft_raw"; fl; count; stride; offset; tw; v ] ->
    let f = fld_of fl in
    let v = vec v in
    let size = Stdlib.List.length v / int_of_string stride in
    (match tw_of f tw size false with
     | None -> "panic"
     | Some t ->
       let fuel = nat_of_int (Stdlib.List.length v) in
       let r = show_vec (FFT.fft_in_place (ops f) fuel v t (nat count) (nat stride) (nat offset)) in
       if small (Stdlib.List.length v) then agree r (opt_vec (FFT.fft_in_place_c (ops f) true fuel v t (nat count) (nat stride) (nat offset))) else r)
  | [ "evalt"; fl; tw; v ] ->
    let f = fld_of fl in
    let v = vec v in
    (match tw_of f tw (Stdlib.List.length v) false with
     | None -> "panic"
     | Some t ->
       let r = opt_vec (FFT.evaluate_poly (ops f) (adn f) v t) in
       if small (Stdlib.List.length v) then agree r (opt_vec (FFT.evaluate_poly_c (ops f) true (adn f) v t)) else r)
  | [ "spec:evalt"; fl; "std"; v ] ->
    let f = fld_of fl in
    let v = vec v in
    let k = nat_of_int (log2i (Stdlib.List.length v)) in
    show_vec (FFT.fft_rec (ops f) k (rootf f k) v)
  | [ "eval_off"; fl; tw; off; blowup; v ] ->
    let f = fld_of fl in
    let v = vec v in
    (match tw_of f tw (Stdlib.List.length v) false with
     | None -> "panic"
     | Some t ->
       let r = opt_vec (FFT.evaluate_poly_with_offset (ops f) (adn f) (rootf f) v t (z off) (nat blowup)) in
       if small (Stdlib.List.length v * (try int_of_string blowup with _ -> 1))
       then agree r (opt_vec (FFT.evaluate_poly_with_offset_c (ops f) true (adn f) (rootf f) v t (z off) (nat blowup))) else r)
  | [ "spec:eval_off"; fl; "std"; off; blowup; v ] ->
    let f = fld_of fl in
    let v = vec v in
    let k = nat_of_int (log2i (Stdlib.List.length v * int_of_string blowup)) in
    show_vec (FFT.spec_eval_offset (ops f) k (rootf f k) v (z off))
  | [ "split_eval"; fl; v ] ->
    (* concurrent::evaluate_poly = permute (split_radix_fft p twiddles), std twiddles *)
    let f = fld_of fl in
    let v = vec v in
    (match std_tw f (Stdlib.List.length v) with
     | None -> "panic"
     | Some t -> opt_vec (FFTSplit.evaluate_poly_concurrent (ops f) v t))
  | [ "split_interp"; fl; v ] ->
    let f = fld_of fl in
    let v = vec v in
    (match std_itw f (Stdlib.List.length v) with
     | None -> "panic"
     | Some t -> opt_vec (FFTSplit.interpolate_poly_concurrent (ops f) v t))
  | [ "split_eval_off"; fl; "std"; off; blowup; v ] ->
    let f = fld_of fl in
    let v = vec v in
    (match std_tw f (Stdlib.List.length v) with
     | None -> "panic"
     | Some t -> opt_vec (FFTSplit.evaluate_poly_with_offset_concurrent (ops f) (rootf f) v t (z off) (nat blowup)))
  | [ "split_interp_off"; fl; "std"; off; v ] ->
    let f = fld_of fl in
    let v = vec v in
    (match std_itw f (Stdlib.List.length v) with
     | None -> "panic"
     | Some t -> opt_vec (FFTSplit.interpolate_poly_with_offset_concurrent (ops f) v t (z off)))
  | [ "split_rowmat"; fl; n; off; blowup; cs ] ->
    let f = fld_of fl in
    let cs = cols cs in
    (match std_tw f (Stdlib.List.length (Stdlib.List.hd cs)) with
     | None -> "panic"
     | Some t ->
       (match FFTSplit.evaluate_polys_over_concurrent (ops f) (rootf f) (nat n) cs t (z off) (nat blowup) with
        | None -> "panic"
        | Some m ->
          Stdlib.Printf.sprintf "%d %d %s" (int_of_nat (FFT.rm_num_rows m))
            (int_of_nat m.FFT.rm_elements_per_row) (show_vec m.FFT.rm_data)))
  | [ "interpt"; fl; tw; v ] ->
    let f = fld_of fl in
    let v = vec v in
    (match tw_of f tw (Stdlib.List.length v) true with
     | None -> "panic"
     | Some t ->
       let r = opt_vec (FFT.interpolate_poly (ops f) (adn f) v t) in
       if small (Stdlib.List.length v) then agree r (opt_vec (FFT.interpolate_poly_c (ops f) true (adn f) v t)) else r)
  | [ "spec:interpt"; fl; "std"; v ] ->
    let f = fld_of fl in
    let v = vec v in
    let n = Stdlib.List.length v in
    let k = nat_of_int (log2i n) in
    show_vec (FFT.spec_interpolate (ops f) k (inv f (rootf f k)) (inv f (z_of_int n)) v)
  | [ "interp_off"; fl; tw; off; v ] ->
    let f = fld_of fl in
    let v = vec v in
    (match tw_of f tw (Stdlib.List.length v) true with
     | None -> "panic"
     | Some t ->
       let r = opt_vec (FFT.interpolate_poly_with_offset (ops f) (adn f) v t (z off)) in
       if small (Stdlib.List.length v) then agree r (opt_vec (FFT.interpolate_poly_with_offset_c (ops f) true (adn f) v t (z off))) else r)
  | [ "spec:interp_off"; fl; "std"; off; v ] ->
    let f = fld_of fl in
    let v = vec v in
    let n = Stdlib.List.length v in
    let k = nat_of_int (log2i n) in
    show_vec (FFT.spec_interpolate_offset (ops f) k (inv f (rootf f k)) (inv f (z_of_int n)) (inv f (z off)) v)
  | [ "degree"; fl; off; v ] ->
    let f = fld_of fl in
    let sd = function None -> "panic" | Some d -> string_of_int (int_of_nat d) in
    let v = vec v in
    let r = sd (FFT.infer_degree (ops f) (adn f) (rootf f) v (z off)) in
    if small (Stdlib.List.length v) then agree r (sd (FFT.infer_degree_c (ops f) true (adn f) (rootf f) v (z off))) else r
  | [ "spec:degree"; fl; off; v ] ->
    let f = fld_of fl in
    let v = vec v in
    let n = Stdlib.List.length v in
    let k = nat_of_int (log2i n) in
    let c = FFT.spec_interpolate_offset (ops f) k (inv f (rootf f k)) (inv f (z_of_int n)) (inv f (z off)) v in
    string_of_int (int_of_nat (FFT.degree_of (ops f) c))
  | [ "colmat_eval"; fl; off; blowup; cs ] ->
    let f = fld_of fl in
    let cs = cols cs in
    (match std_tw f (Stdlib.List.length (Stdlib.List.hd cs)) with
     | None -> "panic"
     | Some t ->
       (match FFT.evaluate_columns_over (ops f) (adn f) (rootf f) cs t (z off) (nat blowup) with
        | None -> "panic"
        | Some r -> show_cols r))
  | [ "colmat_interp"; fl; cs ] ->
    let f = fld_of fl in
    (match FFT.interpolate_columns (ops f) (adn f) (rootf f) (cols cs) with
     | None -> "panic"
     | Some r -> show_cols r)
  | [ "rowmat"; fl; n; off; blowup; cs ] ->
    let f = fld_of fl in
    let cs = cols cs in
    (match std_tw f (Stdlib.List.length (Stdlib.List.hd cs)) with
     | None -> "panic"
     | Some t ->
       (match FFT.evaluate_polys_over (ops f) (rootf f) (nat n) cs t (z off) (nat blowup) with
        | None -> "panic"
        | Some m ->
          Stdlib.Printf.sprintf "%d %d %s" (int_of_nat (FFT.rm_num_rows m))
            (int_of_nat m.FFT.rm_elements_per_row) (show_vec m.FFT.rm_data)))
  | [ "spec:rowmat"; fl; n; off; blowup; cs ] ->
    (* per-column evaluation by the spec, laid out row-major with zero padding to a multiple of N *)
    let f = fld_of fl in
    let cs = cols cs in
    let nn = int_of_string n in
    let ncols = Stdlib.List.length cs in
    let rows = Stdlib.List.length (Stdlib.List.hd cs) * int_of_string blowup in
    let k = nat_of_int (log2i rows) in
    let ev = Stdlib.List.map (fun c -> Stdlib.Array.of_list (FFT.spec_eval_offset (ops f) k (rootf f k) c (z off))) cs in
    let width = (ncols + nn - 1) / nn * nn in
    let data = Stdlib.List.concat (Stdlib.List.init rows (fun r ->
      Stdlib.List.map (fun a -> a.(r)) ev @ Stdlib.List.init (width - ncols) (fun _ -> BinNums.Z0))) in
    Stdlib.Printf.sprintf "%d %d %s" rows ncols (show_vec data)
  | op :: _ -> "driver-error:unknown-op:" ^ op
  | [] -> "driver-error:empty"

let () = run eval
