(* C13 driver: runs the extracted ReadAdapter model on "<d|r> <chunks> <ops>" and prints the ';'-separated results
   in the harness' canonical form.  With a leading "S" instead of d/r the extracted SliceReader model is run on the
   concatenated chunks, with a leading "C<p>" the extracted std::io::Cursor model positioned at p.  `drain` is glue (repeat read_u8 until it fails), not a model operation. *)
open Zio
open ReadAdapter

let split_on c s = Stdlib.String.split_on_char c s
let chunks_of s = if s = "/" then [] else Stdlib.List.map bytes_of_hex (split_on ',' s)

let num s k = nat_of_int (int_of_string (Stdlib.String.sub s k (Stdlib.String.length s - k)))
let starts s p = Stdlib.String.length s >= Stdlib.String.length p && Stdlib.String.sub s 0 (Stdlib.String.length p) = p

type xop = Op of op | Drain

let elt_of = function 0 -> EU8 | 1 -> EU16 | 2 -> EU32 | 3 -> EU64 | 4 -> EU128 | _ -> EUsize

let parse_op s =
  match s with
  | "u8" -> Op ReadU8 | "pk" -> Op PeekU8 | "bool" -> Op ReadBool | "u16" -> Op ReadU16 | "u32" -> Op ReadU32
  | "u64" -> Op ReadU64 | "u128" -> Op ReadU128 | "usz" -> Op ReadUsize | "more" -> Op HasMore | "drain" -> Drain
  | _ when starts s "rs" -> Op (ReadSlice (num s 2))
  | _ when starts s "ra" -> Op (ReadArray (num s 2))
  | _ when starts s "rv" -> Op (ReadVec (num s 2))
  | _ when starts s "str" -> Op (ReadString (num s 3))
  | _ when starts s "eor" -> Op (CheckEor (num s 3))
  | _ when starts s "many" ->
      (match split_on 'x' (Stdlib.String.sub s 4 (Stdlib.String.length s - 4)) with
       | [ k; n ] -> Op (ReadMany (elt_of (int_of_string k), nat_of_int (int_of_string n)))
       | _ -> failwith ("bad op " ^ s))
  | _ -> failwith ("bad op " ^ s)

let show_val o v =
  match o, v with
  | (ReadU8 | PeekU8), VInt z -> Stdlib.Printf.sprintf "ok:%02x" (int_of_z z)
  | _, VInt z -> "ok:" ^ hex_of_z z
  | HasMore, VBool b -> if b then "t" else "f"
  | _, VBool b -> if b then "ok:t" else "ok:f"
  | _, VBytes l -> "ok:" ^ hex_of_bytes l
  | _, VInts l -> "ok:[" ^ Stdlib.String.concat "." (Stdlib.List.map hex_of_z l) ^ "]"
  | _, VUnit -> "ok"

let show o = function
  | Ok v -> show_val o v
  | Err EOF -> "err:eof"
  | Err Invalid -> "err:inv"
  | Panic -> "panic"
  | UB -> "UB"
  | Fuel -> "FUEL"

(* ---- path coverage of the adapter model (C13_COV=1): which branches of read_slice / read_exact the cases reach ---- *)
let cov : (string, int) Stdlib.Hashtbl.t = Stdlib.Hashtbl.create 32
let hit k = Stdlib.Hashtbl.replace cov k (1 + try Stdlib.Hashtbl.find cov k with Not_found -> 0)
let ilen l = Stdlib.List.length l
let rec int_of_nat = function Datatypes.O -> 0 | Datatypes.S n -> 1 + int_of_nat n

let classify (o : op) (s : astate) =
  let bl = ilen (buffer s) and pos = int_of_nat s.a_pos and cap = int_of_nat s.a_cap in
  let s1 = fill s in
  let m = ilen s1.a_rbuf in
  let pulled = s.a_rbuf = [] in
  (match o with
   | ReadSlice n | ReadVec n | ReadString n ->
       let n = int_of_nat n in
       if n = 0 then hit "read_slice:len0"
       else begin
         if pos >= 16 && cap - bl < n then hit (if bl = 0 then "read_slice:compact-empty" else "read_slice:compact-move");
         if pos >= 16 && cap - bl >= n then hit "read_slice:pos>=16-no-compact";
         if bl >= n then hit "read_slice:local-enough"
         else if m = 0 then hit "read_slice:eof-immediately"
         else if bl + m >= n then hit (if bl = 0 then "read_slice:absorb-1-fresh" else "read_slice:absorb-1-append")
         else hit "read_slice:absorb-several-or-eof"
       end
   | ReadArray n ->
       let n = int_of_nat n in
       if n = 0 then hit "read_array:N0"
       else if bl = 0 then (if m = 0 then hit "read_exact:empty-local,eof" else if m < n then hit "read_exact:empty-local,short-reader->fallback" else hit (if m = n then "read_exact:reader-direct-exact" else "read_exact:reader-direct"))
       else if bl >= n then hit (if bl = n then "read_exact:local-exact(reset)" else "read_exact:local")
       else if m = 0 then hit "read_exact:partial-local,eof"
       else if m + bl >= n then hit (if m + bl = n then "read_exact:two-copies-exact" else "read_exact:two-copies")
       else hit "read_exact:partial-local->fallback"
   | ReadU8 -> if bl > 0 then hit "pop:local" else if m = 0 then hit "pop:eof" else hit "pop:reader"
   | PeekU8 -> if bl > 0 then hit "peek:local" else if m = 0 then hit "peek:eof" else hit "peek:reader"
   | CheckEor n ->
       let n = int_of_nat n in
       if bl >= n then hit "check_eor:local" else if m = 0 then hit "check_eor:eof"
       else if bl + m >= n then hit "check_eor:local+reader" else if s1.a_geof then hit "check_eor:guaranteed_eof" else hit "check_eor:optimistic"
   | HasMore -> if bl > 0 then hit "has_more:local" else if m = 0 then hit "has_more:eof" else hit "has_more:reader"
   | _ -> ());
  if pulled && s.a_chunks <> [] then begin
    let c = ilen (Stdlib.List.hd s.a_chunks) in
    (match o with ReadU8 when bl > 0 -> () | _ ->
      if c > 256 then hit "source:chunk>256-truncated" else if c = 0 then hit "source:empty-read-with-chunks-left" else ())
  end

let cov_mode = (try Stdlib.Sys.getenv "C13_COV" = "1" with Not_found -> false)

(* generic runner over a step function *)
let run_ops (stepf : op -> 's -> value outcome * 's) (s0 : 's) (ops : xop list) : string list =
  let rec go s ops acc =
    match ops with
    | [] -> Stdlib.List.rev acc
    | Op o :: rest ->
        let r, s' = stepf o s in
        let acc = show o r :: acc in
        if aborts r then Stdlib.List.rev acc else go s' rest acc
    | Drain :: rest ->
        let rec drain s bs =
          match stepf ReadU8 s with
          | Ok (VInt z), s' -> drain s' (z :: bs)
          | Ok _, s' -> failwith "drain"
          | Err _, s' -> (Stdlib.List.rev bs, s', None)
          | r, s' -> (Stdlib.List.rev bs, s', Some r)
        in
        (match drain s [] with
         | bs, s', None -> go s' rest (("ok:" ^ hex_of_bytes bs) :: acc)
         | _, _, Some r -> Stdlib.List.rev (show ReadU8 r :: acc))
  in
  go s0 ops []

let eval = function
  | [ prof; chunks; ops ] ->
      let cs = chunks_of chunks in
      let ops = if ops = "-" then [] else Stdlib.List.map parse_op (split_on ',' ops) in
      let res =
        if prof = "S" then run_ops slice_step (s_init (Stdlib.List.concat cs)) ops
        else if starts prof "C" then
          (* "C<p>": the extracted Cursor model over the concatenated chunks, positioned at p (p may exceed the length) *)
          run_ops cursor_step (c_init (Stdlib.List.concat cs) (num prof 1)) ops
        else run_ops (fun o s -> if cov_mode then classify o s; adapter_step (prof = "d") o s) (a_init cs) ops
      in
      if cov_mode then "" else Stdlib.String.concat ";" res
  | _ -> "driver-error:bad-case"

let () =
  run eval;
  if cov_mode then begin
    let l = Stdlib.List.sort compare (Stdlib.Hashtbl.fold (fun k v acc -> (k, v) :: acc) cov []) in
    print_string ("#cov {" ^ Stdlib.String.concat "," (Stdlib.List.map (fun (k, v) -> Stdlib.Printf.sprintf "\"%s\":%d" k v) l) ^ "}");
    print_newline ()
  end
