(* C20 driver: runs the extracted Polynom model (coq/Model/Polynom.v) over
     f64 / f62 / f128          zp_ops P64 / P62 / P128                      (carrier Z)
     q64 / q62 / q128          PolynomExt.quad64_ops / quad62_ops / quad128_ops   (carrier Z*Z)
     c64 / c62                 PolynomExt.cube64_ops / cube62_ops            (carrier Z*Z*Z)
   One case per line: "<field> <op> <args...>".  A base element is a lowercase hex residue; an extension element is
   its base coordinates (to_base_elements order) joined by ':' ("7:1", "7:1:1").  Vectors are comma separated
   ("-" = empty), sizes are decimal.  Output: element, vector ("-" = empty), nat -> decimal, Panic -> "panic",
   list of polynomials -> polys joined by ';' ("-" when the list is empty).
   Mixed instantiations (extension tokens only; the *_base vectors hold plain base residues):
     eval_mixed <p_base> <x_ext> | eval_many_mixed <p_base> <xs_ext> | mul_acc_mixed <a_ext> <b_base> <c_ext>
   = PolynomExt.eval_mixed_quad / _cube etc. applied to zp_ops p and the ExtensibleField vtable of that field. *)
open Zio

let z = z_of_hex
let h = hex_of_z
let join (sep : string) (l : string list) : string = Stdlib.String.concat sep l

(* element syntax per carrier *)
let pe1 (s : string) : BinNums.coq_Z = z s
let se1 (v : BinNums.coq_Z) : string = h v

let pe2 (s : string) : BinNums.coq_Z * BinNums.coq_Z =
  match Stdlib.String.split_on_char ':' s with [ a; b ] -> (z a, z b) | _ -> failwith ("bad quadratic element " ^ s)

let se2 ((a, b) : BinNums.coq_Z * BinNums.coq_Z) : string = h a ^ ":" ^ h b

let pe3 (s : string) : (BinNums.coq_Z * BinNums.coq_Z) * BinNums.coq_Z =
  match Stdlib.String.split_on_char ':' s with
  | [ a; b; c ] -> ((z a, z b), z c)
  | _ -> failwith ("bad cubic element " ^ s)

let se3 (((a, b), c) : (BinNums.coq_Z * BinNums.coq_Z) * BinNums.coq_Z) : string = h a ^ ":" ^ h b ^ ":" ^ h c

let nat (s : string) : Datatypes.nat =
  let n = int_of_string s in
  let rec go k acc = if k <= 0 then acc else go (k - 1) (Datatypes.S acc) in
  go n Datatypes.O

let int_of_nat (n : Datatypes.nat) : int =
  let rec go n acc = match n with Datatypes.O -> acc | Datatypes.S m -> go m (acc + 1) in
  go n 0

let flag (s : string) : bool =
  match s with "1" -> true | "0" -> false | _ -> failwith ("bad flag " ^ s)

(* cnt consecutive chunks of n elements of the flat vector *)
let chunks (n : int) (cnt : int) (l : 'a list) : 'a list list =
  let a = Stdlib.Array.of_list l in
  if Stdlib.Array.length a <> n * cnt then failwith "flat vector length <> count * N"
  else Stdlib.List.init cnt (fun i -> Stdlib.List.init n (fun j -> a.((i * n) + j)))

(* base-residue vector of the mixed ops *)
let bvec (s : string) : BinNums.coq_Z list =
  if s = "-" then [] else Stdlib.List.rev (Stdlib.List.rev_map z (Stdlib.String.split_on_char ',' s))

(* the three mixed model functions of an extension carrier a over base carrier Z *)
type 'a mixed = {
  m_eval : BinNums.coq_Z list -> 'a -> 'a;
  m_eval_many : BinNums.coq_Z list -> 'a list -> 'a list;
  m_mul_acc : 'a list -> BinNums.coq_Z list -> 'a -> 'a list Polynom.coq_Result;
}

(* the op dispatch, written once for every carrier: o = field operations, pe / se = element parser / printer,
   mx = the mixed instantiations (extension fields only) *)
let eval_with (type a) (o : a FieldOps.coq_FOps) (mx : a mixed option) (pe : string -> a) (se : a -> string)
    (op : string) (args : string list) : string =
  (* tail-recursive list helpers: vectors can hold 1025+ elements *)
  let vec (s : string) : a list =
    if s = "-" then [] else Stdlib.List.rev (Stdlib.List.rev_map pe (Stdlib.String.split_on_char ',' s))
  in
  let poly (l : a list) : string = join "," (Stdlib.List.rev (Stdlib.List.rev_map se l)) in
  let sv (l : a list) : string = match l with [] -> "-" | _ -> poly l in
  let res = function Polynom.Ok v -> sv v | Polynom.Panic -> "panic" in
  let res_polys = function
    | Polynom.Panic -> "panic"
    | Polynom.Ok [] -> "-"
    | Polynom.Ok l -> join ";" (Stdlib.List.map poly l)
  in
  match (op, args, mx) with
  | "eval_mixed", [ p; x ], Some m -> se (m.m_eval (bvec p) (pe x))
  | "eval_many_mixed", [ p; xs ], Some m -> sv (m.m_eval_many (bvec p) (vec xs))
  | "mul_acc_mixed", [ a; b; c ], Some m -> res (m.m_mul_acc (vec a) (bvec b) (pe c))
  | _ -> (
  match (op, args) with
  | "eval", [ p; x ] -> se (Polynom.eval o (vec p) (pe x))
  | "eval_many", [ p; xs ] -> sv (Polynom.eval_many o (vec p) (vec xs))
  | "add", [ a; b ] -> sv (Polynom.add o (vec a) (vec b))
  | "sub", [ a; b ] -> sv (Polynom.sub o (vec a) (vec b))
  | "mul", [ a; b ] -> res (Polynom.mul o (vec a) (vec b))
  | "mul_by_scalar", [ p; k ] -> sv (Polynom.mul_by_scalar o (vec p) (pe k))
  | "div", [ a; b ] -> res (Polynom.div o (vec a) (vec b))
  | "syn_div", [ p; a; b ] -> res (Polynom.syn_div o (vec p) (nat a) (pe b))
  | "syn_div_in_place", [ p; a; b ] -> res (Polynom.syn_div_in_place o (vec p) (nat a) (pe b))
  | "syn_div_roots_in_place", [ p; roots ] -> res (Polynom.syn_div_roots_in_place o (vec p) (vec roots))
  | "degree_of", [ p ] -> string_of_int (int_of_nat (Polynom.degree_of o (vec p)))
  | "remove_leading_zeros", [ p ] -> sv (Polynom.remove_leading_zeros o (vec p))
  | "poly_from_roots", [ xs ] -> res (Polynom.poly_from_roots o (vec xs))
  | "interpolate", [ dbg; xs; ys; rlz ] -> res (Polynom.interpolate o (flag dbg) (vec xs) (vec ys) (flag rlz))
  | "interpolate_batch", [ dbg; n; nx; ny; xs; ys ] ->
      let ni = int_of_string n in
      let xss = chunks ni (int_of_string nx) (vec xs) in
      let yss = chunks ni (int_of_string ny) (vec ys) in
      res_polys (Polynom.interpolate_batch o (flag dbg) (nat n) xss yss)
  | "get_power_series", [ b; n ] -> res (Polynom.get_power_series o (pe b) (nat n))
  | "get_power_series_with_offset", [ b; s; n ] -> res (Polynom.get_power_series_with_offset o (pe b) (pe s) (nat n))
  | "add_in_place", [ a; b ] -> res (Polynom.add_in_place o (vec a) (vec b))
  | "mul_acc", [ a; b; c ] -> res (Polynom.mul_acc o (vec a) (vec b) (pe c))
  | "batch_inversion", [ v ] -> sv (Polynom.batch_inversion o (vec v))
  | _ -> "driver-error:unknown-op-or-arity:" ^ op)

let o64 = ZpOps.zp_ops ZpOps.coq_P64
let o62 = ZpOps.zp_ops ZpOps.coq_P62
let o128 = ZpOps.zp_ops ZpOps.coq_P128

let quad_mixed o i =
  Some
    {
      m_eval = PolynomExt.eval_mixed_quad o i;
      m_eval_many = PolynomExt.eval_many_mixed_quad o i;
      m_mul_acc = PolynomExt.mul_acc_mixed_quad o i;
    }

let cube_mixed o i =
  Some
    {
      m_eval = PolynomExt.eval_mixed_cube o i;
      m_eval_many = PolynomExt.eval_many_mixed_cube o i;
      m_mul_acc = PolynomExt.mul_acc_mixed_cube o i;
    }

let mq64 = quad_mixed o64 (ExtField.f64_x2 o64)
let mq62 = quad_mixed o62 (ExtField.f62_x2 o62)
let mq128 = quad_mixed o128 (ExtField.f128_x2 o128)
let mc64 = cube_mixed o64 (ExtField.f64_x3 o64)
let mc62 = cube_mixed o62 (ExtField.f62_x3 o62)

let eval = function
  | fld :: op :: args -> (
      match fld with
      | "f64" -> eval_with o64 None pe1 se1 op args
      | "f62" -> eval_with o62 None pe1 se1 op args
      | "f128" -> eval_with o128 None pe1 se1 op args
      | "q64" -> eval_with PolynomExt.quad64_ops mq64 pe2 se2 op args
      | "q62" -> eval_with PolynomExt.quad62_ops mq62 pe2 se2 op args
      | "q128" -> eval_with PolynomExt.quad128_ops mq128 pe2 se2 op args
      | "c64" -> eval_with PolynomExt.cube64_ops mc64 pe3 se3 op args
      | "c62" -> eval_with PolynomExt.cube62_ops mc62 pe3 se3 op args
      | f -> "driver-error:unknown-field:" ^ f)
  | _ -> "driver-error:short-line"

let () = run eval
