(* C20 driver: runs the extracted Polynom model (coq/Model/Polynom.v) over zp_ops P64 / P62 / P128.
   One case per line: "<field> <op> <args...>"; elements are lowercase hex residues, vectors are comma
   separated ("-" = empty), sizes are decimal.  Output: element -> hex, vector -> hex,hex,.. or "-",
   nat -> decimal, Panic -> "panic", list of polynomials -> polys joined by ';' ("-" when the list is empty). *)
open Zio

let z = z_of_hex
let h = hex_of_z

(* tail-recursive list helpers: vectors can hold 1025+ elements *)
let vec (s : string) : BinNums.coq_Z list =
  if s = "-" then [] else Stdlib.List.rev (Stdlib.List.rev_map z (Stdlib.String.split_on_char ',' s))

let join (sep : string) (l : string list) : string = Stdlib.String.concat sep l
let poly (l : BinNums.coq_Z list) : string = join "," (Stdlib.List.rev (Stdlib.List.rev_map h l))
let sv (l : BinNums.coq_Z list) : string = match l with [] -> "-" | _ -> poly l
let res = function Polynom.Ok v -> sv v | Polynom.Panic -> "panic"

let res_polys = function
  | Polynom.Panic -> "panic"
  | Polynom.Ok [] -> "-"
  | Polynom.Ok l -> join ";" (Stdlib.List.map poly l)

let nat (s : string) : Datatypes.nat =
  let n = int_of_string s in
  let rec go k acc = if k <= 0 then acc else go (k - 1) (Datatypes.S acc) in
  go n Datatypes.O

let int_of_nat (n : Datatypes.nat) : int =
  let rec go n acc = match n with Datatypes.O -> acc | Datatypes.S m -> go m (acc + 1) in
  go n 0

let flag (s : string) : bool =
  match s with "1" -> true | "0" -> false | _ -> failwith ("bad flag " ^ s)

(* cnt consecutive chunks of n elements of the flat vector *)
let chunks (n : int) (cnt : int) (l : BinNums.coq_Z list) : BinNums.coq_Z list list =
  let a = Stdlib.Array.of_list l in
  if Stdlib.Array.length a <> n * cnt then failwith "flat vector length <> count * N"
  else Stdlib.List.init cnt (fun i -> Stdlib.List.init n (fun j -> a.((i * n) + j)))

let ops = function
  | "f64" -> ZpOps.zp_ops ZpOps.coq_P64
  | "f62" -> ZpOps.zp_ops ZpOps.coq_P62
  | "f128" -> ZpOps.zp_ops ZpOps.coq_P128
  | f -> failwith ("unknown field " ^ f)

let eval = function
  | fld :: op :: args -> (
      let o = ops fld in
      match (op, args) with
      | "eval", [ p; x ] -> h (Polynom.eval o (vec p) (z x))
      | "eval_many", [ p; xs ] -> sv (Polynom.eval_many o (vec p) (vec xs))
      | "add", [ a; b ] -> sv (Polynom.add o (vec a) (vec b))
      | "sub", [ a; b ] -> sv (Polynom.sub o (vec a) (vec b))
      | "mul", [ a; b ] -> res (Polynom.mul o (vec a) (vec b))
      | "mul_by_scalar", [ p; k ] -> sv (Polynom.mul_by_scalar o (vec p) (z k))
      | "div", [ a; b ] -> res (Polynom.div o (vec a) (vec b))
      | "syn_div", [ p; a; b ] -> res (Polynom.syn_div o (vec p) (nat a) (z b))
      | "syn_div_in_place", [ p; a; b ] -> res (Polynom.syn_div_in_place o (vec p) (nat a) (z b))
      | "syn_div_roots_in_place", [ p; roots ] -> res (Polynom.syn_div_roots_in_place o (vec p) (vec roots))
      | "degree_of", [ p ] -> string_of_int (int_of_nat (Polynom.degree_of o (vec p)))
      | "remove_leading_zeros", [ p ] -> sv (Polynom.remove_leading_zeros o (vec p))
      | "poly_from_roots", [ xs ] -> res (Polynom.poly_from_roots o (vec xs))
      | "interpolate", [ dbg; xs; ys; rlz ] -> res (Polynom.interpolate o (flag dbg) (vec xs) (vec ys) (flag rlz))
      | "interpolate_batch", [ dbg; n; nx; ny; xs; ys ] ->
          let ni = int_of_string n in
          let xss = chunks ni (int_of_string nx) (vec xs) in
          let yss = chunks ni (int_of_string ny) (vec ys) in
          res_polys (Polynom.interpolate_batch o (flag dbg) (nat n) xss yss)
      | "get_power_series", [ b; n ] -> res (Polynom.get_power_series o (z b) (nat n))
      | "get_power_series_with_offset", [ b; s; n ] -> res (Polynom.get_power_series_with_offset o (z b) (z s) (nat n))
      | "add_in_place", [ a; b ] -> res (Polynom.add_in_place o (vec a) (vec b))
      | "mul_acc", [ a; b; c ] -> res (Polynom.mul_acc o (vec a) (vec b) (z c))
      | "batch_inversion", [ v ] -> sv (Polynom.batch_inversion o (vec v))
      | _ -> "driver-error:unknown-op-or-arity:" ^ op)
  | _ -> "driver-error:short-line"

let () = run eval
