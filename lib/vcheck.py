"""Shared machinery of /verif/bin/check (see DESIGN.md section 1)."""
import fcntl
import hashlib
import json
import os
import re
import shutil
import subprocess
import sys
import time

VERIF = os.path.abspath(os.path.join(os.path.dirname(__file__), ".."))
REPO = os.environ.get("VERIF_REPO", "/repo")
COQ = os.path.join(VERIF, "coq")
CACHE = os.path.join(VERIF, ".cache")
TARGET = os.path.join(CACHE, "target")
GUARD = "winterfell_verif"

ALLOWED_AXIOMS = {
    # axioms declared by the Coq standard library / installed libraries; none is declared here
    "functional_extensionality_dep", "FunctionalExtensionality.functional_extensionality_dep",
    "Eqdep.Eq_rect_eq.eq_rect_eq", "eq_rect_eq", "JMeq_eq", "JMeq.JMeq_eq",
    "Classical_Prop.classic", "classic", "proof_irrelevance", "ProofIrrelevance.proof_irrelevance",
    "ClassicalEpsilon.constructive_indefinite_description", "propositional_extensionality",
}

FORBIDDEN = [r"\bAdmitted\b", r"\badmit\b", r"\bAxiom\b", r"\bAxioms\b", r"\bParameter\b", r"\bParameters\b",
             r"\bConjecture\b", r"Unset\s+Guard", r"bypass_check", r"type-in-type", r"impredicative-set",
             r"Admit\s+Obligations", r"Unset\s+Positivity", r"Unset\s+Universe", r"\bnative_compute\b"]


def sh(cmd, cwd=None, timeout=1800, env=None, input_=None):
    e = dict(os.environ)
    e.update({"CARGO_NET_OFFLINE": "true", "GOPROXY": "off", "PIP_NO_INDEX": "1"})
    if env:
        e.update(env)
    t0 = time.time()
    try:
        p = subprocess.run(cmd, cwd=cwd, shell=isinstance(cmd, str), stdout=subprocess.PIPE, stderr=subprocess.STDOUT,
                           timeout=timeout, env=e, input=input_, text=True, errors="replace")
        return p.returncode, p.stdout, time.time() - t0
    except subprocess.TimeoutExpired as ex:
        out = ex.stdout or ""
        if isinstance(out, bytes):
            out = out.decode(errors="replace")
        return 124, out + f"\n[timeout after {timeout}s]", time.time() - t0


class Lock:
    def __init__(self, name, shared=False):
        os.makedirs(CACHE, exist_ok=True)
        self.path = os.path.join(CACHE, name + ".lock")
        self.shared = shared

    def __enter__(self):
        self.f = open(self.path, "a")
        fcntl.flock(self.f, fcntl.LOCK_SH if self.shared else fcntl.LOCK_EX)

    def __exit__(self, *a):
        fcntl.flock(self.f, fcntl.LOCK_UN)
        self.f.close()


def strip_coq_comments(s):
    out, depth, i, n = [], 0, 0, len(s)
    in_str = False
    while i < n:
        if not in_str and s.startswith("(*", i):
            depth += 1
            i += 2
            continue
        if not in_str and depth and s.startswith("*)", i):
            depth -= 1
            i += 2
            continue
        if depth == 0:
            if s[i] == '"':
                in_str = not in_str
            out.append(s[i])
        elif s[i] == "\n":
            out.append("\n")
        i += 1
    return "".join(out)


class Ctx:
    def __init__(self, pid, tier, seed, level="proof"):
        self.pid, self.tier, self.seed, self.level = pid, tier, seed, level
        self.t0 = time.time()
        self.obligations = []      # (name, ok, detail)
        self.findings = []         # concrete failing inputs (dicts)
        self.known_hits = []
        self.samples = []
        self.evaluations = 0
        self.distinct = set()
        self.notes = {}
        self.trusted = []
        self.assumptions = []
        self.checker_cmds = []
        self.logs = []
        self.rule = ""
        kf = os.path.join(VERIF, "known_findings.json")
        self.known = [k for k in json.load(open(kf)).get("findings", []) if k.get("property") == pid] if os.path.exists(kf) else []

    # ------------------------------------------------------------ obligations
    def ob(self, name, ok, detail=""):
        self.obligations.append((name, bool(ok), detail))
        if not ok:
            print(f"[{self.pid}] obligation BROKEN: {name}: {detail[:400]}")
        return ok

    def broken(self):
        return [o for o in self.obligations if not o[1]]

    def log(self, msg):
        print(f"[{self.pid}] {msg}")
        sys.stdout.flush()

    # ------------------------------------------------------------ translator
    def rs2v(self, units):
        with Lock("coq"):
            rc, out, _ = sh([sys.executable, os.path.join(VERIF, "rs2v", "rs2v.py"), "--repo", REPO] + list(units), timeout=300)
        st = {}
        sp = os.path.join(COQ, "Gen", "status.json")
        if os.path.exists(sp):
            st = json.load(open(sp))
        for u in units:
            s = st.get(u, {"ok": False, "error": "no status: " + out[-300:]})
            self.ob(f"translate:{u}", s.get("ok", False), s.get("error", ""))
        self.trusted.append("rs2v translator (/verif/rs2v): Rust subset -> Gallina over Z with explicit wrap; every generated function is also run against the implementation")
        return all(st.get(u, {}).get("ok") for u in units)

    # ------------------------------------------------------------ Coq
    def audit_sources(self):
        bad = []
        for root, _, files in os.walk(COQ):
            for f in files:
                if not f.endswith(".v"):
                    continue
                p = os.path.join(root, f)
                txt = strip_coq_comments(open(p, errors="replace").read())
                for pat in FORBIDDEN:
                    for m in re.finditer(pat, txt):
                        bad.append(f"{os.path.relpath(p, VERIF)}: {m.group(0)}")
                # Variable / Hypothesis / Context outside a Section declare axioms
                depth = 0
                for line in txt.split("\n"):
                    ls = line.strip()
                    if re.match(r"^(Section|Module Type)\b", ls):
                        depth += 1
                    elif re.match(r"^End\b", ls) and depth > 0:
                        depth -= 1
                    elif depth == 0 and re.match(r"^(Variable|Variables|Hypothesis|Hypotheses|Context)\b", ls):
                        bad.append(f"{os.path.relpath(p, VERIF)}: {ls[:40]} outside a Section")
        self.ob("audit:no-admit-no-axiom", not bad, "; ".join(bad[:10]))
        return not bad

    def coq_build(self, props_file, timeout=1500, jobs=16):
        """Build the .vo closure of Props/<file>.v; parse Print Assumptions output."""
        target = f"Props/{props_file}.vo"
        with Lock("coq-proj"):
            sh(["sh", os.path.join(COQ, "mkproject.sh")], cwd=COQ, timeout=120)
        with Lock("coq", shared=True), Lock("coq-" + props_file):
            vo = os.path.join(COQ, target)
            if os.path.exists(vo):
                os.remove(vo)
            cmd = f"make -f Makefile.coq -j{jobs} {target}"
            rc, out, dt = sh(cmd, cwd=COQ, timeout=timeout)
        self.checker_cmds.append(f"cd coq && {cmd}  (coqc 8.16.1, full .vo build)")
        self.logs.append(out[-6000:])
        src = strip_coq_comments(open(os.path.join(COQ, "Props", props_file + ".v")).read())
        thms = re.findall(r"^\s*(?:Theorem|Lemma|Corollary)\s+([A-Za-z0-9_']+)", src, re.M)
        printed = re.findall(r"Print\s+Assumptions\s+([A-Za-z0-9_']+)", src)
        if rc != 0:
            m = re.search(r'File "([^"]+)", line (\d+).*?\n(Error:.*?)(?:\n\n|\nmake|$)', out, re.S)
            where = f"{m.group(1)}:{m.group(2)} {m.group(3)[:300]}" if m else out[-400:]
            self.ob(f"coq:{target}", False, where)
            # attribute failure to theorems: those not compiled are all undischarged
            for t in thms:
                self.ob(f"thm:{t}", False, "closure did not compile: " + where[:120])
            return False
        self.ob(f"coq:{target}", True)
        # split the output of Props file into assumption blocks
        idx = out.rfind(f"COQC Props/{props_file}.v")
        tail = out[idx:] if idx >= 0 else out
        blocks = []
        cur = None
        for line in tail.split("\n"):
            if line.startswith("Closed under the global context"):
                blocks.append([])
                cur = None
            elif line.startswith("Axioms:"):
                cur = []
                blocks.append(cur)
            elif cur is not None:
                m = re.match(r"^([A-Za-z_][A-Za-z0-9_'.]*)\s*:", line)
                if m:
                    cur.append(m.group(1))
                elif line and not line.startswith(" "):
                    cur = None
        missing = [t for t in thms if t not in printed]
        self.ob("audit:print-assumptions-under-every-theorem", not missing and len(blocks) == len(printed),
                f"missing={missing} blocks={len(blocks)} printed={len(printed)}")
        for t, axs in zip(printed, blocks):
            badax = [a for a in axs if a not in ALLOWED_AXIOMS and a.split(".")[-1] not in ALLOWED_AXIOMS]
            self.ob(f"thm:{t}", not badax, "depends on non-allow-listed axioms: " + ", ".join(badax) if badax else "")
            for a in axs:
                tb = f"axiom (library-declared) used by {t}: {a}"
                if tb not in self.trusted:
                    self.trusted.append(tb)
        self.notes["theorems"] = printed
        return rc == 0

    def coqchk(self, props_file, timeout=2400):
        cmd = f"coqchk -o -silent -Q Base VBase -Q Gen VGen -Q Model VModel -Q Proofs VProofs -Q Props VProps VProps.{props_file}"
        with Lock("coq", shared=True):
            rc, out, dt = sh(cmd, cwd=COQ, timeout=timeout)
        self.checker_cmds.append("cd coq && " + cmd)
        axs = []
        m = re.search(r"Axioms:(.*?)(?:\n\S|\Z)", out, re.S)
        if m:
            axs = [a.strip() for a in m.group(1).split("\n") if a.strip() and "<none>" not in a]
        bad = [a for a in axs if a.split(".")[-1] not in ALLOWED_AXIOMS and a not in ALLOWED_AXIOMS]
        self.ob(f"coqchk:{props_file}", rc == 0 and not bad, (out[-300:] if rc else "axioms: " + ",".join(bad)))
        self.notes["coqchk_axioms"] = axs
        return rc == 0

    # ------------------------------------------------------------ extraction / OCaml driver
    def build_driver(self, pid_l, timeout=600):
        """Extract coq/Extract/<ID>.v into ocaml/gen/<id>/ and build <id>_driver."""
        gen = os.path.join(VERIF, "ocaml", "gen", pid_l)
        with Lock("coq", shared=True), Lock("extract-" + pid_l):
            os.makedirs(gen, exist_ok=True)
            for f in os.listdir(gen):
                if f.endswith((".ml", ".mli", ".cmx", ".cmi", ".o", ".cmo")):
                    os.remove(os.path.join(gen, f))
            cmd = (f"coqc -Q {COQ}/Base VBase -Q {COQ}/Gen VGen -Q {COQ}/Model VModel "
                   f"{COQ}/Extract/{pid_l.upper()}.v")
            rc, out, _ = sh(cmd, cwd=gen, timeout=timeout)
            if rc != 0:
                self.ob(f"extract:{pid_l}", False, out[-400:])
                return None
            shutil.copy(os.path.join(VERIF, "ocaml", "zio.ml"), gen)
            shutil.copy(os.path.join(VERIF, "ocaml", f"{pid_l}_driver.ml"), gen)
            rc, out, _ = sh(f"ocamlfind ocamlopt -O3 -w -a $(ocamlfind ocamldep -sort *.mli *.ml) -o {pid_l}_driver",
                            cwd=gen, timeout=timeout)
        if rc != 0:
            self.ob(f"extract:{pid_l}", False, out[-400:])
            return None
        self.ob(f"extract:{pid_l}", True)
        tb = "Coq extraction to OCaml (ExtrOcamlBasic directives only; Z/N/nat stay inductive), ocamlopt 4.13.1, ocaml/zio.ml + driver"
        if tb not in self.trusted:
            self.trusted.append(tb)
        return os.path.join(gen, f"{pid_l}_driver")

    # ------------------------------------------------------------ harness
    def build_harness(self, binname, profile="debug", features=(), hooks=False, timeout=1500):
        h = os.path.join(VERIF, "harness")
        with Lock("cargo"):
            lock = os.path.join(h, "Cargo.lock")
            if not os.path.exists(lock):
                shutil.copy(os.path.join(REPO, "Cargo.lock"), lock)
            cmd = ["cargo", "build", "--offline", "--bin", binname]
            if profile == "release":
                cmd.append("--release")
            if features:
                cmd += ["--features", ",".join(features)]
            env = {"CARGO_TARGET_DIR": TARGET + ("-conc" if features else "")}
            if hooks:
                env["RUSTFLAGS"] = f"--cfg {GUARD}"
                env["CARGO_TARGET_DIR"] += "-hooks"
            if os.environ.get("VERIF_COV"):
                # bin/coverage: source-based coverage of /repo under the harness runs of a check (measurement of the
                # generators, not part of any verdict); needs the nightly toolchain's llvm-tools
                cmd.insert(1, "+nightly")
                env["RUSTFLAGS"] = (env.get("RUSTFLAGS", "") + " -C instrument-coverage").strip()
                env["CARGO_TARGET_DIR"] += "-cov"
            rc, out, dt = sh(cmd, cwd=h, timeout=timeout, env=env)
        if rc != 0:
            errs = "\n".join(l for l in out.split("\n") if l.startswith("error"))[:600]
            self.ob(f"harness-build:{binname}:{profile}", False, errs or out[-400:])
            return None
        return os.path.join(env["CARGO_TARGET_DIR"], profile, binname)

    # ------------------------------------------------------------ correspondence
    def correspondence(self, name, impl_lines, driver, compare=None, timeout=900, shards=1):
        """impl_lines: list of '<case> => <impl result>'.  Runs the model driver on the cases.
        shards > 1: the driver is stateless per line, so the cases are split over that many driver processes."""
        cases, impl = [], []
        for l in impl_lines:
            if " => " not in l:
                continue
            c, r = l.split(" => ", 1)
            cases.append(c)
            impl.append(r.strip())
        if shards > 1 and len(cases) >= 4 * shards:
            from concurrent.futures import ThreadPoolExecutor
            step = (len(cases) + shards - 1) // shards
            chunks = [cases[i:i + step] for i in range(0, len(cases), step)]
            with ThreadPoolExecutor(len(chunks)) as ex:
                res = list(ex.map(lambda ch: sh([driver], input_="\n".join(ch) + "\n", timeout=timeout), chunks))
            rc = max((r[0] for r in res), key=abs)
            model = []
            for r in res:
                part = r[1].split("\n")
                if part and part[-1] == "":
                    part.pop()
                model += part
            out = res[-1][1]
        else:
            rc, out, _ = sh([driver], input_="\n".join(cases) + "\n", timeout=timeout)
            model = out.split("\n")
            if model and model[-1] == "":
                model.pop()
        diffs = []
        if rc != 0 or len(model) != len(cases):
            self.ob(f"corr:{name}", False, f"driver rc={rc} produced {len(model)} lines for {len(cases)} cases: {out[-200:]}")
            return diffs
        for c, a, b in zip(cases, impl, model):
            same = compare(c, a, b) if compare else (a == b)
            if not same:
                diffs.append({"case": c, "impl": a, "model": b})
        self.evaluations += len(cases)
        for c in cases:
            self.distinct.add(hashlib.sha1(c.encode()).hexdigest())
        self.notes.setdefault("correspondence", {})[name] = {"cases": len(cases), "disagreements": len(diffs)}
        if cases and len(self.samples) < 12:
            for k in (0, len(cases) // 2, len(cases) - 1):
                self.samples.append({"corr": name, "case": cases[k], "impl": impl[k], "model": model[k]})
        self.ob(f"corr:{name}", not diffs, json.dumps(diffs[:3]))
        return diffs

    # ------------------------------------------------------------ findings
    def add_failure(self, f):
        """f: dict with at least 'what' and 'input'.  Sorted into known / new findings."""
        for k in self.known:
            if k.get("status") != "open" or not k.get("match"):
                continue   # only OPEN findings with a signature suppress anything; fixed entries suppress nothing
            sig = k.get("match", {})
            if all(re.search(v, str(f.get(key, ""))) for key, v in sig.items()):
                if k["id"] not in [x["id"] for x in self.known_hits]:
                    self.known_hits.append(k)
                return False
        self.findings.append(f)
        return True

    # ------------------------------------------------------------ verdict
    def finish(self, extra_coverage=None, level_note=None):
        wall = time.time() - self.t0
        broken = self.broken()
        for k in self.known_hits:
            print(f"KNOWN-FINDING: property={self.pid} {k['id']}: {k['what']}")
        violations = 0
        replay = None
        if self.findings or broken:
            violations = max(1, len(self.findings))
            rdir = os.path.join(VERIF, "replays", self.pid)
            os.makedirs(rdir, exist_ok=True)
            n = len(os.listdir(rdir))
            replay = os.path.join(rdir, f"{n}.json")
            rec = {"property": self.pid, "seed": self.seed, "tier": self.tier,
                   "kind": "counterexample" if self.findings else "obligation",
                   "obligations_broken": [{"name": o[0], "detail": o[2]} for o in broken],
                   "counterexamples": self.findings[:20],
                   "replay_cmd": f"VERIF_SEED={self.seed} /verif/bin/check {self.pid} --tier {self.tier}"}
            with open(replay, "w") as f:
                json.dump(rec, f, indent=1)
        cov = {
            "obligations": len(self.obligations),
            "discharged": len(self.obligations) - len(broken),
            "checker_cmd": " ; ".join(self.checker_cmds) or "n/a",
            "trusted_base": self.trusted,
            "evaluations": max(self.evaluations, 1),
            "distinct_nontrivial": len(self.distinct),
            "rule": self.rule,
            "samples": self.samples[:12] or [{"obligation": o[0]} for o in self.obligations[:5]],
            "obligation_list": [{"name": o[0], "ok": o[1]} for o in self.obligations],
            "known_findings_reproduced": [k["id"] for k in self.known_hits],
            "notes": self.notes,
        }
        if extra_coverage:
            cov.update(extra_coverage)
        ev = {"property_id": self.pid, "tier": self.tier, "seed": self.seed, "level": self.level,
              "coverage": cov, "assumptions": self.assumptions, "wall_s": round(wall, 2), "violations": violations}
        os.makedirs(os.path.join(VERIF, "evidence"), exist_ok=True)
        with open(os.path.join(VERIF, "evidence", f"{self.pid}.json"), "w") as f:
            json.dump(ev, f, indent=1)
        if violations:
            suffix = "" if self.findings else " no-failing-input-found"
            if self.findings:
                f0 = self.findings[0]
                print(f"[{self.pid}] counterexample: {json.dumps(f0)[:600]}")
            print(f"VIOLATION property={self.pid} replay={replay}{suffix}")
            return 1
        print(f"[{self.pid}] OK: {len(self.obligations)} obligations discharged, {self.evaluations} correspondence/falsifier evaluations, {wall:.1f}s")
        return 0
