#!/usr/bin/env python3
"""covunion.py — union of the per-check region dumps (.cache/cov/Cxx/regions.json written by bin/coverage): the code regions
of /repo that NO check's quick-tier harness run executes (blind spots of the generators).  Writes coverage/UNION.txt.
A measurement of generator quality; no verdict depends on it."""
import json, glob, os, collections
ROOT = os.path.abspath(os.path.join(os.path.dirname(os.path.abspath(__file__)), ".."))
REPO = os.environ.get("VERIF_REPO", "/repo")

def inline_test_start(src):
    """1-based line of the first `#[cfg(test)]` that introduces an INLINE module (`mod x {`); a `#[cfg(test)] mod tests;`
    declaration near the top of a file (math/src/field/*/mod.rs) does not make the rest of the file test code."""
    for i, l in enumerate(src):
        if l.strip().startswith("#[cfg(test)]"):
            nxt = next((x.strip() for x in src[i + 1:i + 4] if x.strip() and not x.strip().startswith("#[")), "")
            if nxt.startswith("mod ") and nxt.rstrip().endswith("{"):
                return i + 1
    return 10 ** 9

allr = {}
who = collections.defaultdict(set)
dumps = sorted(glob.glob(os.path.join(ROOT, ".cache", "cov", "C*", "regions.json")))
for p in dumps:
    cid = os.path.basename(os.path.dirname(p))
    for k, v in json.load(open(p)).items():
        allr[k] = max(allr.get(k, 0), v)
        if v:
            who[k.split(":")[0]].add(cid)
by = collections.defaultdict(list)
for k, v in allr.items():
    f, l0, c0, l1, c1 = k.rsplit(":", 4)
    by[f].append((int(l0), int(l1), v))
out, tot, cov = [], 0, 0
for f in sorted(by):
    if "/tests/" in f or "/benches/" in f:
        continue
    try:
        src = open(os.path.join(REPO, f)).read().split("\n")
    except OSError:
        src = []
    tstart = inline_test_start(src)
    regs = [r for r in by[f] if r[0] < tstart]
    if not regs:
        continue
    unc = sorted((a, b) for a, b, v in regs if not v)
    tot += len(regs)
    cov += len(regs) - len(unc)
    out.append(f"{f}: {len(regs) - len(unc)}/{len(regs)} regions executed by some check ({', '.join(sorted(who[f])) or 'none'})")
    merged = []
    for a, b in unc:
        if merged and a <= merged[-1][1] + 1:
            merged[-1][1] = max(merged[-1][1], b)
        else:
            merged.append([a, b])
    for a, b in merged:
        out.append(f"    {a}-{b}: {src[a - 1].strip()[:110] if 0 < a <= len(src) else ''}")
hdr = [f"UNION over {len(dumps)} checks: {cov}/{tot} code regions of /repo (non-test) executed by at least one check's quick-tier harness runs", ""]
os.makedirs(os.path.join(ROOT, "coverage"), exist_ok=True)
open(os.path.join(ROOT, "coverage", "UNION.txt"), "w").write("\n".join(hdr + out) + "\n")
print(hdr[0])
