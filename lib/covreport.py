#!/usr/bin/env python3
"""covreport.py export.json Cxx — summarise an `llvm-cov export` of the harness runs of one check: for every source file of
/repo that was compiled in, the code regions no instantiation ever executed (test modules excluded)."""
import json, sys, os, re, collections
exp, pid = sys.argv[1], sys.argv[2]
d = json.load(open(exp))["data"][0]
reg = collections.defaultdict(int)          # (file, l0, c0, l1, c1) -> max count over instantiations
fn_cnt = collections.defaultdict(int)
fn_at = {}
for f in d["functions"]:
    files = f["filenames"]
    for r in f["regions"]:
        l0, c0, l1, c1, cnt, fid, efid, kind = r[:8]
        if kind != 0:
            continue
        key = (files[fid], l0, c0, l1, c1)
        reg[key] = max(reg[key], cnt)
    if f["regions"]:
        r = f["regions"][0]
        k = (files[r[5]], r[0])
        fn_cnt[k] = max(fn_cnt[k], f["count"])
        fn_at[k] = f["name"]
by_file = collections.defaultdict(list)
for (fl, l0, c0, l1, c1), cnt in reg.items():
    by_file[fl].append((l0, l1, cnt))

def inline_test_start(src):
    """1-based line of the first `#[cfg(test)]` that introduces an INLINE module (`mod x {`); a `#[cfg(test)] mod tests;`
    declaration near the top of a file (math/src/field/*/mod.rs) does not make the rest of the file test code."""
    for i, l in enumerate(src):
        if l.strip().startswith("#[cfg(test)]"):
            nxt = next((x.strip() for x in src[i + 1:i + 4] if x.strip() and not x.strip().startswith("#[")), "")
            if nxt.startswith("mod ") and nxt.rstrip().endswith("{"):
                return i + 1
    return 10 ** 9

def test_lines(path):
    """line numbers inside #[cfg(test)] modules (rough: from the attribute to the end of file)"""
    try:
        src = open(path).read().split("\n")
    except OSError:
        return set(), []
    t0 = inline_test_start(src)
    if t0 < 10 ** 9:
        return set(range(t0, len(src) + 2)), src
    return set(), src
# compact dump for lib/covunion.py (blind spots over all checks)
dump = {}
for (fl, l0, c0, l1, c1), cnt in reg.items():
    if "/src/" in fl and "/.cargo/" not in fl and "/rustc/" not in fl:
        rel = re.sub(r"^.*?/(utils|math|crypto|fri|air|prover|verifier|winterfell)/", r"\1/", fl)
        dump[f"{rel}:{l0}:{c0}:{l1}:{c1}"] = 1 if cnt else 0
json.dump(dump, open(os.path.join(os.path.dirname(exp), "regions.json"), "w"))
tot_r = tot_c = 0
out = []
for fl in sorted(by_file):
    if "/src/" not in fl or "/tests" in fl or "/benches/" in fl or "/examples/" in fl:
        continue
    tl, src = test_lines(fl)
    regs = [(a, b, c) for (a, b, c) in by_file[fl] if a not in tl]
    if not regs:
        continue
    unc = sorted((a, b) for (a, b, c) in regs if c == 0)
    tot_r += len(regs); tot_c += len(regs) - len(unc)
    merged = []
    for a, b in unc:
        if merged and a <= merged[-1][1] + 1:
            merged[-1][1] = max(merged[-1][1], b)
        else:
            merged.append([a, b])
    rel = re.sub(r"^.*?/(utils|math|crypto|fri|air|prover|verifier|winterfell)/", r"\1/", fl)
    out.append((len(unc), f"{rel}: {len(regs) - len(unc)}/{len(regs)} regions executed"))
    for a, b in merged:
        text = src[a - 1].strip()[:110] if 0 < a <= len(src) else ""
        out.append((None, f"    {a}-{b}: {text}"))
print(f"{pid}: {tot_c}/{tot_r} code regions of the compiled-in /repo sources executed by the quick-tier harness runs")
print("(regions inside #[cfg(test)] modules excluded; a region counts as executed if any generic instantiation ran it)")
print()
for _, l in out:
    print(l)
