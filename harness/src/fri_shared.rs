//! Shared code of the C15 / C05 harness binaries (included with `#[path]`, not part of the library).
//! Line protocol: see the header of /verif/ocaml/c15_driver.ml.
#![allow(dead_code)]
use std::panic::AssertUnwindSafe;

use wf_harness::{catch, prng::Rng, toy::{ToyDigest, ToyHasher}};
use winter_crypto::{DefaultRandomCoin, ElementHasher, MerkleTree, RandomCoin};
use winter_fri::{
    folding::{apply_drp, fold_positions},
    DefaultProverChannel, DefaultVerifierChannel, FriOptions, FriProof, FriProver, FriVerifier, VerifierError,
};
use winter_math::{fft, polynom, FieldElement, StarkField};
use winter_utils::{transpose_slice, Deserializable};

pub const P64: u128 = 0xFFFF_FFFF_0000_0001;
pub const P128: u128 = 340282366920938463463374557953744961537;

pub type H<B> = ToyHasher<B>;
pub type Coin<B> = DefaultRandomCoin<ToyHasher<B>>;

// ------------------------------------------------------------------------------------------------ field configs
pub trait Cfg {
    type B: StarkField;
    type E: FieldElement<BaseField = Self::B>;
    const TAG: &'static str;
    const P: u128;
    const DEG: usize;
}
pub struct C64;
pub struct C128;
pub struct C64x2;
pub struct C128x2;
impl Cfg for C64 {
    type B = winter_math::fields::f64::BaseElement;
    type E = winter_math::fields::f64::BaseElement;
    const TAG: &'static str = "f64";
    const P: u128 = P64;
    const DEG: usize = 1;
}
impl Cfg for C128 {
    type B = winter_math::fields::f128::BaseElement;
    type E = winter_math::fields::f128::BaseElement;
    const TAG: &'static str = "f128";
    const P: u128 = P128;
    const DEG: usize = 1;
}
impl Cfg for C64x2 {
    type B = winter_math::fields::f64::BaseElement;
    type E = winter_math::fields::QuadExtension<winter_math::fields::f64::BaseElement>;
    const TAG: &'static str = "f64x2";
    const P: u128 = P64;
    const DEG: usize = 2;
}
impl Cfg for C128x2 {
    type B = winter_math::fields::f128::BaseElement;
    type E = winter_math::fields::QuadExtension<winter_math::fields::f128::BaseElement>;
    const TAG: &'static str = "f128x2";
    const P: u128 = P128;
    const DEG: usize = 2;
}

/// canonical coefficients of an element (one u128 per base coefficient)
pub fn coeffs<E: FieldElement>(e: &E) -> Vec<u128> {
    let bytes = e.to_bytes();
    let nb = bytes.len() / E::EXTENSION_DEGREE;
    bytes
        .chunks(nb)
        .map(|c| {
            let mut b = [0u8; 16];
            b[..c.len()].copy_from_slice(c);
            u128::from_le_bytes(b)
        })
        .collect()
}
/// element from canonical coefficients (each < modulus)
pub fn elem<E: FieldElement>(cs: &[u128]) -> E {
    let nb = E::ELEMENT_BYTES / E::EXTENSION_DEGREE;
    let mut bytes = Vec::with_capacity(E::ELEMENT_BYTES);
    for i in 0..E::EXTENSION_DEGREE {
        let c = cs.get(i).copied().unwrap_or(0);
        bytes.extend_from_slice(&c.to_le_bytes()[..nb]);
    }
    E::read_from_bytes(&bytes).expect("canonical coefficients")
}
pub fn base<C: Cfg>(v: u128) -> C::B {
    elem::<C::B>(&[v % C::P])
}
pub fn emb<C: Cfg>(b: C::B) -> C::E {
    C::E::from(b)
}
pub fn rand_base_val<C: Cfg>(r: &mut Rng) -> u128 {
    match r.below(12) {
        0 => 0,
        1 => 1,
        2 => C::P - 1,
        3 => r.below(16) as u128,
        _ => r.next_u128() % C::P,
    }
}
pub fn rand_elem<C: Cfg>(r: &mut Rng) -> C::E {
    let cs: Vec<u128> = (0..C::DEG).map(|_| rand_base_val::<C>(r)).collect();
    elem::<C::E>(&cs)
}
pub fn rand_nonzero_elem<C: Cfg>(r: &mut Rng) -> C::E {
    loop {
        let e = rand_elem::<C>(r);
        if e != C::E::ZERO {
            return e;
        }
    }
}

// ------------------------------------------------------------------------------------------------ encoding
pub fn enc_elem<E: FieldElement>(e: &E) -> String {
    coeffs(e).iter().map(|c| format!("{:x}", c)).collect::<Vec<_>>().join(",")
}
pub fn join<T>(v: &[T], sep: &str, f: impl Fn(&T) -> String) -> String {
    if v.is_empty() { "-".to_string() } else { v.iter().map(f).collect::<Vec<_>>().join(sep) }
}
pub fn enc_elems<E: FieldElement>(v: &[E]) -> String {
    join(v, ";", |e| enc_elem(e))
}
pub fn enc_nats(v: &[usize]) -> String {
    join(v, ";", |x| format!("{:x}", x))
}
pub fn enc_digs(v: &[ToyDigest]) -> String {
    join(v, ";", |d| format!("{:x}", d.to_u64()))
}
pub fn enc_nodes(n: &[Vec<ToyDigest>]) -> String {
    join(n, ";", |v| if v.is_empty() { "_".to_string() } else { v.iter().map(|d| format!("{:x}", d.to_u64())).collect::<Vec<_>>().join(",") })
}
pub fn dbg_flag() -> &'static str {
    if cfg!(debug_assertions) { "1" } else { "0" }
}

#[derive(Clone)]
pub struct Decoded<E> {
    pub layers: Vec<(Vec<E>, Vec<Vec<ToyDigest>>)>,
    pub remainder: Vec<E>,
    pub partitions: usize,
}
impl<E: FieldElement> Decoded<E> {
    pub fn enc_values(&self) -> String {
        if self.layers.is_empty() { "~".into() } else { self.layers.iter().map(|l| enc_elems(&l.0)).collect::<Vec<_>>().join("|") }
    }
    pub fn enc_nodes(&self) -> String {
        if self.layers.is_empty() { "~".into() } else { self.layers.iter().map(|l| enc_nodes(&l.1)).collect::<Vec<_>>().join("|") }
    }
    /// hand-written serialisation in the format of `impl Serializable for FriProof`
    pub fn to_bytes(&self) -> Vec<u8> {
        let mut out = vec![self.layers.len() as u8];
        for (vals, nodes) in &self.layers {
            let mut vb = Vec::new();
            for e in vals {
                e.write_into(&mut vb);
            }
            out.extend_from_slice(&(vb.len() as u32).to_le_bytes());
            out.extend_from_slice(&vb);
            let mut pb = vec![nodes.len() as u8];
            for v in nodes {
                pb.push(v.len() as u8);
                for d in v {
                    pb.extend_from_slice(&d.0);
                }
            }
            out.extend_from_slice(&(pb.len() as u32).to_le_bytes());
            out.extend_from_slice(&pb);
        }
        let mut rb = Vec::new();
        for e in &self.remainder {
            e.write_into(&mut rb);
        }
        out.extend_from_slice(&(rb.len() as u16).to_le_bytes());
        out.extend_from_slice(&rb);
        out.push(self.partitions.trailing_zeros() as u8);
        out
    }
}

pub fn decode_proof<C: Cfg>(proof: &FriProof, domain: usize, nfold: usize) -> Option<Decoded<C::E>> {
    let remainder = proof.parse_remainder::<C::E>().ok()?;
    let partitions = proof.num_partitions();
    let (qs, mps) = catch(AssertUnwindSafe(|| proof.clone().parse_layers::<H<C::B>, C::E>(domain, nfold))).ok()?.ok()?;
    Some(Decoded { layers: qs.into_iter().zip(mps.into_iter().map(|m| m.nodes)).collect(), remainder, partitions })
}

pub fn verr_str(e: &VerifierError) -> String {
    match e {
        VerifierError::RandomCoinError(_) => "RandomCoinError".into(),
        other => format!("{:?}", other).replace(' ', ""),
    }
}

/// the real verifier on a proof object
pub fn run_verifier<C: Cfg>(
    proof: FriProof, commitments: Vec<ToyDigest>, domain: usize, blowup: usize, nfold: usize, remmax: usize,
    maxdeg: usize, evals: &[C::E], positions: &[usize],
) -> String {
    let ch = catch(AssertUnwindSafe(|| DefaultVerifierChannel::<C::E, H<C::B>>::new(proof, commitments, domain, nfold)));
    let mut ch = match ch {
        Err(_) => return "chan-panic".into(),
        Ok(Err(_)) => return "chan-err".into(),
        Ok(Ok(c)) => c,
    };
    let opts = match catch(|| FriOptions::new(blowup, nfold, remmax)) {
        Ok(o) => o,
        Err(_) => return "opts-panic".into(),
    };
    let mut coin = Coin::<C::B>::new(&[]);
    let v = catch(AssertUnwindSafe(|| FriVerifier::<C::E, _, H<C::B>, Coin<C::B>>::new(&mut ch, &mut coin, opts, maxdeg)));
    let v = match v {
        Err(_) => return "new-panic".into(),
        Ok(Err(e)) => return format!("new-err:{}", verr_str(&e)),
        Ok(Ok(v)) => v,
    };
    match catch(AssertUnwindSafe(|| v.verify(&mut ch, evals, positions))) {
        Err(_) => "panic".into(),
        Ok(Ok(())) => "ok".into(),
        Ok(Err(e)) => format!("err:{}", verr_str(&e)),
    }
}

/// the real verifier on a decoded transcript (re-serialised by hand, then `FriProof::read_from_bytes`)
pub fn run_verifier_decoded<C: Cfg>(
    d: &Decoded<C::E>, commitments: &[ToyDigest], domain: usize, blowup: usize, nfold: usize, remmax: usize,
    maxdeg: usize, evals: &[C::E], positions: &[usize],
) -> String {
    let bytes = d.to_bytes();
    match FriProof::read_from_bytes(&bytes) {
        Ok(p) => run_verifier::<C>(p, commitments.to_vec(), domain, blowup, nfold, remmax, maxdeg, evals, positions),
        Err(_) => "chan-err".into(),   // DeserializationError before the verifier runs (byte level)
    }
}

pub fn verify_line<C: Cfg>(
    op: &str, d: &Decoded<C::E>, commitments: &[ToyDigest], domain: usize, blowup: usize, nfold: usize, remmax: usize,
    maxdeg: usize, evals: &[C::E], positions: &[usize],
) -> String {
    format!(
        "{} {} {} {:x} {:x} {:x} {:x} {:x} {} {} {} {} {} {} {:x}",
        op, C::TAG, dbg_flag(), blowup, nfold, remmax, maxdeg, domain, enc_nats(positions), enc_elems(evals),
        enc_digs(commitments), d.enc_values(), d.enc_nodes(), enc_elems(&d.remainder), d.partitions
    )
}

// ------------------------------------------------------------------------------------------------ library wrappers
pub fn drp_n<C: Cfg>(nfold: usize, ev: &[C::E], offset: C::B, alpha: C::E) -> Vec<C::E> {
    match nfold {
        2 => apply_drp::<C::B, C::E, 2>(&transpose_slice::<C::E, 2>(ev), offset, alpha),
        4 => apply_drp::<C::B, C::E, 4>(&transpose_slice::<C::E, 4>(ev), offset, alpha),
        8 => apply_drp::<C::B, C::E, 8>(&transpose_slice::<C::E, 8>(ev), offset, alpha),
        16 => apply_drp::<C::B, C::E, 16>(&transpose_slice::<C::E, 16>(ev), offset, alpha),
        _ => panic!("unsupported folding factor"),
    }
}

/// evaluations of a polynomial (coefficients in E) over offset * <g>, |<g>| = domain
pub fn eval_coset<C: Cfg>(poly: &[C::E], domain: usize, offset: C::B) -> Vec<C::E> {
    let g = C::B::get_root_of_unity(domain.ilog2());
    let mut x = offset;
    let mut out = Vec::with_capacity(domain);
    for _ in 0..domain {
        out.push(polynom::eval(poly, C::E::from(x)));
        x *= g;
    }
    out
}

pub fn rand_poly<C: Cfg>(r: &mut Rng, degree: usize) -> Vec<C::E> {
    let mut p: Vec<C::E> = (0..=degree).map(|_| rand_elem::<C>(r)).collect();
    p[degree] = rand_nonzero_elem::<C>(r);
    p
}

/// the real prover: (commitments, proof)
pub fn real_prove<C: Cfg>(opts: &FriOptions, evals: Vec<C::E>, positions: &[usize]) -> Result<(Vec<ToyDigest>, FriProof), String> {
    let domain = evals.len();
    catch(AssertUnwindSafe(|| {
        let mut channel = DefaultProverChannel::<C::E, H<C::B>, Coin<C::B>>::new(domain, positions.len().max(1));
        let mut prover = FriProver::<C::B, C::E, _, H<C::B>>::new(opts.clone());
        prover.build_layers(&mut channel, evals);
        let proof = prover.build_proof(positions);
        (channel.layer_commitments().to_vec(), proof)
    }))
}

// ------------------------------------------------------------------------------------------------ manual prover
pub struct Transcript<C: Cfg> {
    pub domain: usize,
    pub nfold: usize,
    pub blowup: usize,
    pub commitments: Vec<ToyDigest>,
    pub alphas: Vec<C::E>,             // the verifier's challenges (derived from the commitments)
    pub layers: Vec<Vec<C::E>>,        // committed evaluation vector of every layer (layer 0 = input)
    pub last: Vec<C::E>,               // evaluations after the last fold (the remainder layer)
    pub trees: Vec<MerkleTree<H<C::B>>>,
    pub remainder: Vec<C::E>,
}

#[derive(Clone, Debug, PartialEq)]
pub enum CommitCheat {
    None,
    WrongAlpha(usize),               // fold layer i with alpha + 1
    TamperRecommit(usize, usize),    // change value k of the layer produced by fold i (then commit to it)
    RemainderRecommit,               // send (and commit to) remainder + X^0-perturbation chosen before the queries
}

pub fn row_of<E: FieldElement>(ev: &[E], nfold: usize, i: usize) -> Vec<E> {
    let rc = ev.len() / nfold;
    (0..nfold).map(|j| ev[i + j * rc]).collect()
}

pub fn commit_layer<C: Cfg>(ev: &[C::E], nfold: usize) -> MerkleTree<H<C::B>> {
    let rc = ev.len() / nfold;
    let leaves: Vec<ToyDigest> = (0..rc).map(|i| H::<C::B>::hash_elements(&row_of(ev, nfold, i))).collect();
    MerkleTree::new(leaves).expect("tree")
}

pub fn interpolate_remainder<C: Cfg>(last: &[C::E], blowup: usize) -> Vec<C::E> {
    let mut v = last.to_vec();
    let tw = fft::get_inv_twiddles::<C::B>(v.len());
    fft::interpolate_poly_with_offset(&mut v, &tw, C::B::GENERATOR);
    v.truncate(last.len() / blowup);
    v
}

pub fn commit_phase<C: Cfg>(evals: &[C::E], opts: &FriOptions, cheat: &CommitCheat) -> Transcript<C> {
    let nfold = opts.folding_factor();
    let nl = opts.num_fri_layers(evals.len());
    let mut coin = Coin::<C::B>::new(&[]);
    let mut t = Transcript::<C> {
        domain: evals.len(), nfold, blowup: opts.blowup_factor(), commitments: vec![], alphas: vec![], layers: vec![],
        last: vec![], trees: vec![], remainder: vec![],
    };
    let mut cur = evals.to_vec();
    for i in 0..nl {
        let tree = commit_layer::<C>(&cur, nfold);
        let root = *tree.root();
        t.commitments.push(root);
        coin.reseed(root);
        let alpha: C::E = coin.draw().expect("draw");
        t.alphas.push(alpha);
        let used = if *cheat == CommitCheat::WrongAlpha(i) { alpha + C::E::ONE } else { alpha };
        let mut next = drp_n::<C>(nfold, &cur, C::B::GENERATOR, used);
        if let CommitCheat::TamperRecommit(l, k) = cheat {
            if *l == i {
                let k = k % next.len();
                next[k] += C::E::ONE;
            }
        }
        t.trees.push(tree);
        t.layers.push(cur);
        cur = next;
    }
    let mut rem = interpolate_remainder::<C>(&cur, opts.blowup_factor());
    if *cheat == CommitCheat::RemainderRecommit {
        rem[0] += C::E::ONE;
    }
    t.commitments.push(H::<C::B>::hash_elements(&rem));
    t.last = cur;
    t.remainder = rem;
    t
}

/// positions of every layer: P_0 = positions, P_{i+1} = fold(P_i)
pub fn position_chain(positions: &[usize], domain: usize, nfold: usize, layers: usize) -> Vec<Vec<usize>> {
    let mut out = vec![positions.to_vec()];
    let mut d = domain;
    for _ in 0..layers {
        let f = fold_positions(out.last().unwrap(), d, nfold);
        out.push(f);
        d /= nfold;
    }
    out
}

pub fn query_phase<C: Cfg>(t: &Transcript<C>, positions: &[usize]) -> Decoded<C::E> {
    let chain = position_chain(positions, t.domain, t.nfold, t.layers.len());
    let mut layers = Vec::new();
    for (i, ev) in t.layers.iter().enumerate() {
        let folded = &chain[i + 1];
        let mut vals = Vec::new();
        for &p in folded {
            vals.extend(row_of(ev, t.nfold, p));
        }
        let nodes = t.trees[i].prove_batch(folded).expect("prove_batch").nodes;
        layers.push((vals, nodes));
    }
    Decoded { layers, remainder: t.remainder.clone(), partitions: 1 }
}

/// generator of the domain after `layers` foldings
pub fn last_generator<C: Cfg>(domain: usize, nfold: usize, layers: usize) -> C::B {
    let mut d = domain;
    for _ in 0..layers {
        d /= nfold;
    }
    C::B::get_root_of_unity(d.ilog2())
}

pub fn pad_pow2<E: FieldElement>(mut v: Vec<E>) -> Vec<E> {
    let n = v.len().max(1).next_power_of_two();
    v.resize(n, E::ZERO);
    v
}

/// R + c * prod_{p}(x - GENERATOR * g_last^p)
pub fn adaptive_product<C: Cfg>(rem: &[C::E], last_positions: &[usize], g_last: C::B, c: C::E) -> Vec<C::E> {
    let mut z = vec![C::E::ONE];
    for &p in last_positions {
        let x = C::E::from(C::B::GENERATOR * g_last.exp_vartime((p as u64).into()));
        z = polynom::mul(&z, &[-x, C::E::ONE]);
    }
    let z = polynom::mul_by_scalar(&z, c);
    pad_pow2(polynom::add(rem, &z))
}

pub fn gen_positions(r: &mut Rng, domain: usize, nfold: usize) -> Vec<usize> {
    let target = (domain / nfold).max(1);
    let count = match r.below(8) {
        0 => 1,
        1 => 2,
        2 => 30 + r.below(11) as usize,
        _ => 2 + r.below(12) as usize,
    };
    let mut v: Vec<usize> = Vec::new();
    while v.len() < count {
        let p = r.below(domain as u64) as usize;
        match r.below(6) {
            0 if !v.is_empty() => { let q = *r.pick(&v); v.push(q); }                               // duplicate
            1 => { v.push(p); v.push((p + target * (1 + r.below(nfold as u64 - 1) as usize)) % domain); } // collide after folding
            2 => { v.push(p % target); }
            _ => v.push(p),
        }
    }
    if r.chance(1, 10) {
        v = (0..count.min(domain)).collect();
    }
    // keep the number of distinct first-layer rows within the Merkle batch limit
    let mut distinct: Vec<usize> = v.iter().map(|p| p % target).collect();
    distinct.sort();
    distinct.dedup();
    if distinct.len() > 255 { v.truncate(200); }
    v
}

pub struct Params { pub nfold: usize, pub blowup: usize, pub remmax: usize, pub domain: usize }

/// every layer has at least two rows, the remainder domain at least two points and the remainder polynomial at
/// least one coefficient (the prover panics otherwise: MerkleTree::new, get_inv_twiddles, build_proof assert)
pub fn well_formed(p: &Params) -> bool {
    let max_rem = (p.remmax + 1) * p.blowup;
    let mut d = p.domain;
    while d > max_rem {
        d /= p.nfold;
        if d < 2 { return false; }
    }
    d >= 2 && d >= p.blowup
}

/// log2 of the largest domain generated for a field (the extracted model computes on inductive Z)
pub fn dom_cap<C: Cfg>(thorough: bool) -> usize {
    let c = if C::DEG == 2 { if C::P == P128 { 7 } else { 8 } } else if C::P == P128 { 8 } else { 10 };
    if thorough { c + 2 } else { c }
}

pub fn gen_params_for<C: Cfg>(r: &mut Rng, i: usize, thorough: bool) -> Params {
    let mut p = gen_params(r, i, thorough);
    let cap = 1usize << dom_cap::<C>(thorough);
    while p.domain > cap { p.domain /= 2; }
    if p.domain < 2 * p.blowup { p.blowup = (p.domain / 2).max(2); }
    p
}

pub fn gen_params(r: &mut Rng, i: usize, thorough: bool) -> Params {
    let nfold = [2usize, 4, 8, 16][i % 4];
    let blowups: &[usize] = if thorough { &[2, 4, 8, 16, 32, 64, 128] } else { &[2, 4, 8, 16] };
    let blowup = blowups[(i / 4) % blowups.len()];
    let rems: &[usize] = if thorough { &[0, 1, 3, 7, 15, 31, 63, 127, 255, 2, 5] } else { &[0, 1, 3, 7, 15, 31, 2, 5] };
    let remmax = *r.pick(rems);
    let lo = 4.max((2 * blowup).ilog2() as usize);
    let hi = if thorough { 12 } else { 10 };
    // small domains most of the time
    let k = if r.chance(1, 8) { lo + r.below((hi - lo + 1) as u64) as usize } else { lo + r.below(4.min(hi - lo + 1) as u64) as usize };
    Params { nfold, blowup, remmax, domain: 1usize << k.min(hi).max(3) }
}
