//! ToyHasher: a 64-bit polynomial hash defined twice — here and in coq/Model/ToyHash.v — so that the
//! real MerkleTree / DefaultRandomCoin / FRI / STARK code (generic in its hasher) can be compared
//! bit for bit with the Gallina models.  It is NOT collision resistant and never needs to be.
use core::marker::PhantomData;

use winter_crypto::{Digest, ElementHasher, Hasher};
use winter_math::{FieldElement, StarkField};
use winter_utils::{ByteReader, ByteWriter, Deserializable, DeserializationError, Serializable};

#[derive(Debug, Default, Copy, Clone, Eq, PartialEq, PartialOrd, Ord, Hash)]
pub struct ToyDigest(pub [u8; 8]);

impl ToyDigest {
    pub fn to_u64(&self) -> u64 { u64::from_le_bytes(self.0) }
    pub fn from_u64(x: u64) -> Self { ToyDigest(x.to_le_bytes()) }
}

impl Digest for ToyDigest {
    fn as_bytes(&self) -> [u8; 32] {
        let mut r = [0u8; 32];
        r[..8].copy_from_slice(&self.0);
        r
    }
}
impl Serializable for ToyDigest {
    fn write_into<W: ByteWriter>(&self, target: &mut W) { target.write_bytes(&self.0); }
}
impl Deserializable for ToyDigest {
    fn read_from<R: ByteReader>(source: &mut R) -> Result<Self, DeserializationError> {
        Ok(ToyDigest(source.read_array()?))
    }
}

/// toy_hash(bytes) = fold (h, b) -> ((h xor b) * 0x100000001b3 + 0x9e3779b9) mod 2^64 from
/// 0xcbf29ce484222325 xor len, finished by h xor (h >> 29).
pub fn toy_hash(bytes: &[u8]) -> u64 {
    let mut h: u64 = 0xcbf29ce484222325 ^ (bytes.len() as u64);
    for &b in bytes {
        h = (h ^ (b as u64)).wrapping_mul(0x100000001b3).wrapping_add(0x9e3779b9);
    }
    h ^ (h >> 29)
}

pub struct ToyHasher<B: StarkField>(PhantomData<B>);

impl<B: StarkField> Hasher for ToyHasher<B> {
    type Digest = ToyDigest;
    const COLLISION_RESISTANCE: u32 = 32;

    fn hash(bytes: &[u8]) -> ToyDigest { ToyDigest::from_u64(toy_hash(bytes)) }
    fn merge(values: &[ToyDigest; 2]) -> ToyDigest {
        let mut b = [0u8; 16];
        b[..8].copy_from_slice(&values[0].0);
        b[8..].copy_from_slice(&values[1].0);
        ToyDigest::from_u64(toy_hash(&b))
    }
    fn merge_with_int(seed: ToyDigest, value: u64) -> ToyDigest {
        let mut b = [0u8; 16];
        b[..8].copy_from_slice(&seed.0);
        b[8..].copy_from_slice(&value.to_le_bytes());
        ToyDigest::from_u64(toy_hash(&b))
    }
}

impl<B: StarkField> ElementHasher for ToyHasher<B> {
    type BaseField = B;
    /// hash of the concatenated canonical little-endian encodings of the base-field coefficients
    fn hash_elements<E: FieldElement<BaseField = B>>(elements: &[E]) -> ToyDigest {
        let mut bytes = Vec::with_capacity(elements.len() * E::ELEMENT_BYTES);
        for e in E::slice_as_base_elements(elements) {
            e.write_into(&mut bytes);
        }
        ToyDigest::from_u64(toy_hash(&bytes))
    }
}
