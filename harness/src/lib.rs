//! Shared helpers for the correspondence / falsifier binaries (one bin per property).
pub mod prng;
pub mod refmath;
pub mod toy;
pub mod airfam;
pub mod coinrec;
pub mod lagfam;

use std::fmt::Write as _;

pub fn hex_u64(x: u64) -> String {
    format!("{:x}", x)
}
pub fn hex_u128(x: u128) -> String {
    format!("{:x}", x)
}
pub fn hex_bytes(b: &[u8]) -> String {
    let mut s = String::with_capacity(b.len() * 2);
    for x in b {
        write!(s, "{:02x}", x).unwrap();
    }
    if s.is_empty() {
        s.push('-');
    }
    s
}

/// Run `f`, mapping a panic to Err(message); panic output is silenced by the caller's hook.
pub fn catch<T>(f: impl FnOnce() -> T + std::panic::UnwindSafe) -> Result<T, String> {
    std::panic::catch_unwind(f).map_err(|e| {
        if let Some(s) = e.downcast_ref::<&str>() {
            s.to_string()
        } else if let Some(s) = e.downcast_ref::<String>() {
            s.clone()
        } else {
            "panic".to_string()
        }
    })
}

pub fn silence_panics() {
    std::panic::set_hook(Box::new(|_| {}));
}

/// Minimal JSON string escaper.
pub fn jstr(s: &str) -> String {
    let mut o = String::from("\"");
    for c in s.chars() {
        match c {
            '"' => o.push_str("\\\""),
            '\\' => o.push_str("\\\\"),
            '\n' => o.push_str("\\n"),
            c if (c as u32) < 0x20 => write!(o, "\\u{:04x}", c as u32).unwrap(),
            c => o.push(c),
        }
    }
    o.push('"');
    o
}

/// Watchdog for searches that call library code which may not terminate.
/// The worker publishes a description of the case it is about to run; if no progress is made
/// for `stall` the watchdog calls `on_hang(description)` and exits the process with status 0.
pub mod watchdog {
    use std::sync::{atomic::{AtomicU64, Ordering}, Arc, Mutex};
    use std::time::Duration;

    #[derive(Clone)]
    pub struct Progress { pub tick: Arc<AtomicU64>, pub cur: Arc<Mutex<String>> }
    impl Progress {
        pub fn step(&self, desc: impl FnOnce() -> String) {
            *self.cur.lock().unwrap() = desc();
            self.tick.fetch_add(1, Ordering::SeqCst);
        }
    }

    pub fn run<T: Send + 'static>(stall: Duration, work: impl FnOnce(Progress) -> T + Send + 'static, on_hang: impl FnOnce(String)) -> T {
        let p = Progress { tick: Arc::new(AtomicU64::new(0)), cur: Arc::new(Mutex::new(String::new())) };
        let p2 = p.clone();
        let (tx, rx) = std::sync::mpsc::channel();
        std::thread::Builder::new().stack_size(64 << 20).spawn(move || { let _ = tx.send(work(p2)); }).unwrap();
        let mut last = p.tick.load(Ordering::SeqCst);
        loop {
            match rx.recv_timeout(stall) {
                Ok(v) => return v,
                Err(std::sync::mpsc::RecvTimeoutError::Timeout) => {
                    let now = p.tick.load(Ordering::SeqCst);
                    if now == last {
                        let d = p.cur.lock().map(|s| s.clone()).unwrap_or_default();
                        on_hang(d);
                        std::process::exit(0);
                    }
                    last = now;
                }
                Err(_) => { eprintln!("worker died"); std::process::exit(3); }
            }
        }
    }
}
