//! Non-canonical field-element encodings (shared by bin/c06.rs and bin/c03.rs through `#[path]`; knows the wire format of a
//! base-field word only, not the library).
//!
//! A base-field word is ELEMENT_BYTES little-endian bytes (f64: 8, f128: 16, f62: 8); it is canonical when its value is
//! below the modulus.  An element of the degree-d extension is d consecutive words ("limbs").  A Rescue digest is four
//! words: Rp64_256 / RpJive64_256 four f64 words of 8 bytes, Rp62_248 four 62-bit limbs packed into 31 bytes.
//! `mutants` overwrites ONE word of an element-bearing component — of the first, the middle and the last element, every
//! limb — with each of
//!   mod    the modulus                      (residue 0)
//!   mod+1  modulus + 1                      (residue 1)
//!   ones   2^k - 1, all bits of the word set
//!   same   modulus + (original value)       the SAME residue in a different encoding; exists only when it fits the word,
//!                                           so the word is chosen among those of that limb for which it does
//! A reader that reduces instead of rejecting turns `same` into the original proof and the others into a changed value.

#[derive(Clone, Copy, Debug, PartialEq, Eq)]
pub enum Enc { Le(usize), Packed62 }

#[derive(Clone, Copy, Debug)]
pub struct Fp { pub name: &'static str, pub enc: Enc, pub modulus: u128 }

pub const F64: Fp = Fp { name: "f64", enc: Enc::Le(8), modulus: 0xFFFF_FFFF_0000_0001 };
pub const F128: Fp = Fp { name: "f128", enc: Enc::Le(16), modulus: 340282366920938463463374557953744961537 };
pub const F62: Fp = Fp { name: "f62", enc: Enc::Le(8), modulus: 4611624995532046337 };
/// the limbs of an Rp62_248 digest: 62 bits each, packed (crypto/src/hash/rescue/rp62_248/digest.rs as_bytes)
pub const F62_PACKED: Fp = Fp { name: "f62", enc: Enc::Packed62, modulus: 4611624995532046337 };

pub fn fp(name: &str) -> Fp { match name { "f64" => F64, "f128" => F128, "f62" => F62, _ => panic!("field {}", name) } }

pub const KINDS: [&str; 4] = ["mod", "mod+1", "ones", "same"];

impl Fp {
    pub fn word_max(&self) -> u128 { match self.enc { Enc::Le(16) => u128::MAX, Enc::Le(n) => (1u128 << (8 * n)) - 1, Enc::Packed62 => (1u128 << 62) - 1 } }
    /// bytes of one element of `deg` words (packed digests: the whole 31-byte digest for deg = 4)
    pub fn elem_len(&self, deg: usize) -> usize { match self.enc { Enc::Le(n) => n * deg, Enc::Packed62 => (62 * deg + 7) / 8 } }
    /// the word a kind writes; None when it is not representable
    pub fn value(&self, kind: &str, orig: u128) -> Option<u128> {
        let m = self.modulus;
        match kind {
            "mod" => Some(m),
            "mod+1" => Some(m + 1),
            "ones" => Some(self.word_max()),
            "same" => m.checked_add(orig).filter(|v| *v <= self.word_max()),
            _ => None,
        }
    }
    /// limb `l` of the element that starts at byte `at`
    pub fn get(&self, bytes: &[u8], at: usize, l: usize) -> u128 {
        match self.enc {
            Enc::Le(n) => { let mut v = 0u128; for k in (0..n).rev() { v = (v << 8) | bytes[at + l * n + k] as u128; } v }
            Enc::Packed62 => { let mut v = 0u128; for b in 0..62 { let p = 62 * l + b; if bytes[at + p / 8] >> (p % 8) & 1 == 1 { v |= 1 << b; } } v }
        }
    }
    pub fn set(&self, bytes: &mut [u8], at: usize, l: usize, v: u128) {
        match self.enc {
            Enc::Le(n) => { let mut x = v; for k in 0..n { bytes[at + l * n + k] = (x & 0xff) as u8; x >>= 8; } }
            Enc::Packed62 => { for b in 0..62 { let p = 62 * l + b; let m = 1u8 << (p % 8); if v >> b & 1 == 1 { bytes[at + p / 8] |= m; } else { bytes[at + p / 8] &= !m; } } }
        }
    }
    /// the words reduced modulo the modulus: what a reducing reader (the Rescue digests) decodes
    pub fn normalise(&self, bytes: &mut [u8], at: usize, deg: usize) {
        for l in 0..deg { let v = self.get(bytes, at, l); self.set(bytes, at, l, v % self.modulus); }
    }
}

#[derive(Clone, Debug)]
pub struct Mutant { pub comp: String, pub pos: &'static str, pub limb: usize, pub kind: &'static str, pub elem: usize, pub bytes: Vec<u8> }
impl Mutant {
    pub fn field(&self) -> String { format!("{}.{}={}", self.pos, self.limb, self.kind) }
    pub fn label(&self) -> String { format!("noncanonical:{}:{}", self.comp, self.field()) }
}

fn first_mid_last(idx: &[usize]) -> Vec<(&'static str, usize)> {
    let mut v: Vec<(&'static str, usize)> = Vec::new();
    if idx.is_empty() { return v; }
    v.push(("first", idx[0]));
    if idx.len() >= 3 { v.push(("middle", idx[idx.len() / 2])); }
    if idx.len() >= 2 { v.push(("last", idx[idx.len() - 1])); }
    v
}

/// All mutants of one component.  `elems`: byte offsets (in `bytes`) of its elements, each `deg` words of field `f`.
/// Returns the mutants and the (limb, kind) pairs for which no word of the component admits the kind.
pub fn mutants(bytes: &[u8], comp: &str, elems: &[usize], f: &Fp, deg: usize) -> (Vec<Mutant>, Vec<(usize, &'static str)>) {
    let mut out = Vec::new();
    let mut infeasible = Vec::new();
    let all: Vec<usize> = (0..elems.len()).collect();
    for l in 0..deg {
        for kind in KINDS {
            let cand: Vec<usize> = if kind == "same" { all.iter().copied().filter(|&e| f.value(kind, f.get(bytes, elems[e], l)).is_some()).collect() } else { all.clone() };
            if cand.is_empty() { if !elems.is_empty() { infeasible.push((l, kind)); } continue; }
            for (pos, e) in first_mid_last(&cand) {
                let orig = f.get(bytes, elems[e], l);
                let v = f.value(kind, orig).unwrap();
                if v == orig { continue; }
                let mut m = bytes.to_vec();
                f.set(&mut m, elems[e], l, v);
                out.push(Mutant { comp: comp.to_string(), pos, limb: l, kind, elem: e, bytes: m });
            }
        }
    }
    (out, infeasible)
}

/// offsets of the elements of a contiguous run `[start, end)`
pub fn run_elems(start: usize, end: usize, f: &Fp, deg: usize) -> Vec<usize> {
    let el = f.elem_len(deg);
    if el == 0 || end < start { return vec![]; }
    (0..(end - start) / el).map(|i| start + i * el).collect()
}

/// offsets of the digests inside a serialized batch Merkle proof body `[start, end)`: u8 #vectors, per vector u8 #digests + digests
pub fn path_digests(bytes: &[u8], start: usize, end: usize, dl: usize) -> Vec<usize> {
    let mut offs = Vec::new();
    if end <= start { return offs; }
    let nv = bytes[start] as usize; let mut p = start + 1;
    for _ in 0..nv { if p >= end { break; } let nd = bytes[p] as usize; p += 1; for _ in 0..nd { if p + dl <= end { offs.push(p); } p += dl; } }
    offs
}

/// (field of the limbs, limbs per digest) of a hasher whose digests are field elements; None for byte digests
pub fn digest_field(hasher: &str) -> Option<(Fp, usize)> {
    match hasher { "rp64" | "rp64_256" | "rpjive" | "rpjive64_256" => Some((F64, 4)), "rp62" | "rp62_248" => Some((F62_PACKED, 4)), _ => None }
}

#[cfg(test)]
mod tests {
    use super::*;
    #[test]
    fn packed_roundtrip() {
        let mut b = vec![0u8; 31];
        for l in 0..4 { F62_PACKED.set(&mut b, 0, l, (1u128 << 62) - 1 - l as u128); }
        for l in 0..4 { assert_eq!(F62_PACKED.get(&b, 0, l), (1u128 << 62) - 1 - l as u128); }
    }
}
