//! Reference modular arithmetic on u128 (independent of the library): the falsifiers' oracle.
pub fn addmod(a: u128, b: u128, m: u128) -> u128 {
    let (a, b) = (a % m, b % m);
    let s = a.wrapping_add(b);
    if s < a || s >= m { s.wrapping_sub(m) } else { s }
}
pub fn submod(a: u128, b: u128, m: u128) -> u128 {
    let (a, b) = (a % m, b % m);
    if a >= b { a - b } else { m - b + a }
}
pub fn mulmod(a: u128, b: u128, m: u128) -> u128 {
    let (mut a, mut b) = (a % m, b % m);
    if m <= u64::MAX as u128 + 1 {
        return (a * b) % m;
    }
    let mut r = 0u128;
    while b > 0 {
        if b & 1 == 1 {
            r = addmod(r, a, m);
        }
        a = addmod(a, a, m);
        b >>= 1;
    }
    r
}
pub fn powmod(a: u128, mut e: u128, m: u128) -> u128 {
    let mut r = 1u128 % m;
    let mut b = a % m;
    while e > 0 {
        if e & 1 == 1 {
            r = mulmod(r, b, m);
        }
        b = mulmod(b, b, m);
        e >>= 1;
    }
    r
}
pub fn invmod(a: u128, m: u128) -> u128 {
    if a % m == 0 { 0 } else { powmod(a, m - 2, m) }
}
