//! C07 harness: base-field arithmetic.
//!   c07 corr <seed> <n>      -> lines "<op> <hex args..> => <impl result>" (raw internal words)
//!   c07 falsify <seed> <n>   -> JSON lines, one per property failure found against the big-int oracle
use std::panic::AssertUnwindSafe;

use wf_harness::{catch, hex_bytes, jstr, prng::Rng, refmath::*, silence_panics, watchdog::{self, Progress}};
use winter_math::{fields::f128, fields::f62, fields::f64, FieldElement, StarkField};
use winter_crypto::{hashers::Blake3_256, ElementHasher};
use winter_utils::{AsBytes, Deserializable, Serializable};

const M64: u64 = 0xFFFF_FFFF_0000_0001;
const M62: u64 = 4611624995532046337;
const M128: u128 = 340282366920938463463374557953744961537;

fn boundary64(m: u64) -> Vec<u64> {
    let mut v = vec![
        0, 1, 2, 3, 7, m - 1, m - 2, m, m.wrapping_add(1), (m - 1) / 2, (m + 1) / 2, (m + 1) / 2 + 1,
        0xFFFF_FFFF, 0x1_0000_0000, 0x1_0000_0001, 0xFFFF_FFFE, 1 << 63, (1 << 63) - 1, (1u64 << 63) + 1,
        u64::MAX, u64::MAX - 1, 0xFFFF_FFFF_0000_0000, 0xFFFF_FFFE_FFFF_FFFF, 0xFFFF_FFFF_FFFF_0000,
        (1 << 62) - 1, 1 << 62, (1 << 62) + 1, 1 << 61, 2 * (m >> 1), 1227133513u64 << 32,
        (1u64 << 63) - (1 << 31) + 1, (1u64 << 63) - (1 << 31), 0x8000_0000_7FFF_FFFF,
    ];
    for k in 0..4u64 {
        v.push(0xFFFF_FFFF_0000_0000u64.wrapping_add(k));
        v.push(0xFFFF_FFFF_0000_0000u64.wrapping_sub(k));
        v.push((1u64 << 62) + k);
        v.push((1u64 << 62) - k);
        v.push(m.wrapping_sub(k));
        v.push(m.wrapping_mul(2).wrapping_sub(k));
    }
    v.sort();
    v.dedup();
    v
}

fn gen_u64(r: &mut Rng, b: &[u64]) -> u64 {
    match r.below(10) {
        0..=3 => *r.pick(b),
        4 => {
            // words whose halves make the low-word addition carry
            let l = r.next_u64() & 0xFFFF_FFFF;
            let h = (0x1_0000_0000u64.wrapping_sub(l).wrapping_add(r.below(5)).wrapping_sub(2)) & 0xFFFF_FFFF;
            (h << 32) | l
        }
        5 => r.next_u64() & 0xFFFF_FFFF,
        6 => (r.next_u64() & 0xFFFF_FFFF) << 32,
        _ => r.next_u64(),
    }
}

// ---------------------------------------------------------------- f64 raw-word interface
fn f64w(x: u64) -> f64::BaseElement {
    f64::BaseElement::from_mont(x)
}

fn show<T: std::fmt::LowerHex>(r: Result<T, String>) -> String {
    match r {
        Ok(v) => format!("{:x}", v),
        Err(_) => "panic".to_string(),
    }
}

/// argument of get_root_of_unity: every legal order, both sides of the two asserts, and wild u32 values
fn gen_order(r: &mut Rng, two_adicity: u32) -> u32 {
    match r.below(8) {
        0 => 0,
        1 => two_adicity + 1 + r.below(3) as u32,
        2 => match r.below(4) { 0 => u32::MAX, 1 => 64, 2 => 128, _ => r.next_u64() as u32 },
        3 => two_adicity,
        4 => 1,
        _ => 1 + r.below(two_adicity as u64) as u32,
    }
}

/// argument of from_bytes_with_padding: every length 0..=nb+1 (the assert fails at nb), bytes from the
/// boundary classes (all zero, all 0xff = largest padded value, top byte set) and random
fn gen_short_bytes(r: &mut Rng, nb: usize) -> Vec<u8> {
    let len = match r.below(6) { 0 => nb - 1, 1 => nb, 2 => nb + 1, 3 => 0, _ => r.below(nb as u64) as usize };
    let mut v: Vec<u8> = (0..len).map(|_| r.next_u64() as u8).collect();
    match r.below(5) {
        0 => v.iter_mut().for_each(|b| *b = 0xff),
        1 => v.iter_mut().for_each(|b| *b = 0),
        2 => { if let Some(l) = v.last_mut() { *l = 0xff } }
        _ => {}
    }
    v
}

fn corr_f64(r: &mut Rng, n: usize, out: &mut Vec<String>) {
    let b = boundary64(M64);
    let ops = [
        "new", "as_int", "add", "sub", "mul", "neg", "double", "mul_small", "exp", "inv", "div", "exp7", "eq",
        "try_from_u64", "try_from_u128", "try_from_bytes", "square", "exp_vartime", "grou", "fbwp",
    ];
    for i in 0..n {
        let op = ops[i % ops.len()];
        // the first pass uses canonical words (legit inputs); later ones also raw non-canonical words
        let canon = r.chance(3, 4);
        let mut w = |r: &mut Rng| {
            let x = gen_u64(r, &b);
            if canon && x >= M64 { x - M64 } else { x }
        };
        let (a, c) = (w(r), w(r));
        let line = match op {
            "new" => { let v = gen_u64(r, &b); format!("f64.new {:x} => {}", v, show(catch(|| f64::BaseElement::new(v).inner()))) }
            "as_int" => format!("f64.as_int {:x} => {}", a, show(catch(|| f64w(a).as_int()))),
            "add" => format!("f64.add {:x} {:x} => {}", a, c, show(catch(|| (f64w(a) + f64w(c)).inner()))),
            "sub" => format!("f64.sub {:x} {:x} => {}", a, c, show(catch(|| (f64w(a) - f64w(c)).inner()))),
            "mul" => format!("f64.mul {:x} {:x} => {}", a, c, show(catch(|| (f64w(a) * f64w(c)).inner()))),
            "square" => format!("f64.mul {:x} {:x} => {}", a, a, show(catch(|| f64w(a).square().inner()))),
            "neg" => format!("f64.neg {:x} => {}", a, show(catch(|| (-f64w(a)).inner()))),
            "double" => format!("f64.double {:x} => {}", a, show(catch(|| f64w(a).double().inner()))),
            "mul_small" => { let s = gen_u64(r, &b) as u32; format!("f64.mul_small {:x} {:x} => {}", a, s, show(catch(|| f64w(a).mul_small(s).inner()))) }
            "exp" => { let p = gen_u64(r, &b); format!("f64.exp {:x} {:x} => {}", a, p, show(catch(|| f64w(a).exp(p).inner()))) }
            "exp_vartime" => { let p = gen_u64(r, &b); format!("f64.exp_vartime {:x} {:x} => {}", a, p, show(catch(|| f64w(a).exp_vartime(p).inner()))) }
            "inv" => format!("f64.inv {:x} => {}", a, show(catch(|| f64w(a).inv().inner()))),
            "div" => format!("f64.div {:x} {:x} => {}", a, c, show(catch(|| (f64w(a) / f64w(c)).inner()))),
            "exp7" => format!("f64.exp7 {:x} => {}", a, show(catch(|| f64w(a).exp7().inner()))),
            "eq" => { let c2 = if r.chance(1, 3) { a } else { c }; format!("f64.eq {:x} {:x} => {}", a, c2, show(catch(|| (f64w(a) == f64w(c2)) as u8))) }
            "try_from_u64" => { let v = gen_u64(r, &b); format!("f64.try_from_u64 {:x} => {}", v, match f64::BaseElement::try_from(v) { Ok(e) => format!("{:x}", e.inner()), Err(_) => "none".into() }) }
            "try_from_u128" => { let v = if r.chance(1, 2) { gen_u64(r, &b) as u128 } else { r.next_u128() >> r.below(70) }; format!("f64.try_from_u128 {:x} => {}", v, match f64::BaseElement::try_from(v) { Ok(e) => format!("{:x}", e.inner()), Err(_) => "none".into() }) }
            "try_from_bytes" => { let v = gen_u64(r, &b); format!("f64.try_from_bytes {} => {}", hex_bytes(&v.to_le_bytes()), match f64::BaseElement::try_from(v.to_le_bytes()) { Ok(e) => format!("{:x}", e.inner()), Err(_) => "none".into() }) }
            "grou" => { let k = gen_order(r, 32); format!("f64.grou {:x} => {}", k, show(catch(|| f64::BaseElement::get_root_of_unity(k).inner()))) }
            "fbwp" => { let bs = gen_short_bytes(r, 8); format!("f64.fbwp {} => {}", hex_bytes(&bs), show(catch(|| f64::BaseElement::from_bytes_with_padding(&bs).inner()))) }
            _ => unreachable!(),
        };
        out.push(line);
    }
}

// ---------------------------------------------------------------- f62 / f128 raw-word interface
fn f62w(x: u64) -> f62::BaseElement {
    // BaseElement is a newtype over u64 holding the internal (Montgomery, [0,2M)) word
    unsafe { core::mem::transmute::<u64, f62::BaseElement>(x) }
}
fn f62raw(e: f62::BaseElement) -> u64 {
    unsafe { core::mem::transmute::<f62::BaseElement, u64>(e) }
}
fn f128w(x: u128) -> f128::BaseElement {
    unsafe { core::mem::transmute::<u128, f128::BaseElement>(x) }
}
fn f128raw(e: f128::BaseElement) -> u128 {
    unsafe { core::mem::transmute::<f128::BaseElement, u128>(e) }
}

fn corr_f62(r: &mut Rng, n: usize, out: &mut Vec<String>) {
    let b = boundary64(M62);
    let ops = ["new", "as_int", "add", "sub", "mul", "neg", "double", "exp", "inv", "div", "eq", "try_from_u64", "try_from_u128",
        "exp_vartime", "grou", "fbwp"];
    for i in 0..n {
        let op = ops[i % ops.len()];
        let legit = r.chance(3, 4) || op == "inv" || op == "div" || op == "exp" || op == "exp_vartime";
        let w = |r: &mut Rng| {
            let x = gen_u64(r, &b);
            if legit { x % (2 * M62) } else { x }
        };
        let (a, c) = (w(r), w(r));
        let line = match op {
            "new" => { let v = gen_u64(r, &b); format!("f62.new {:x} => {}", v, show(catch(|| f62raw(f62::BaseElement::new(v))))) }
            "as_int" => format!("f62.as_int {:x} => {}", a, show(catch(|| f62w(a).as_int()))),
            "add" => format!("f62.add {:x} {:x} => {}", a, c, show(catch(|| f62raw(f62w(a) + f62w(c))))),
            "sub" => format!("f62.sub {:x} {:x} => {}", a, c, show(catch(|| f62raw(f62w(a) - f62w(c))))),
            "mul" => format!("f62.mul {:x} {:x} => {}", a, c, show(catch(|| f62raw(f62w(a) * f62w(c))))),
            "neg" => format!("f62.neg {:x} => {}", a, show(catch(|| f62raw(-f62w(a))))),
            "double" => format!("f62.double {:x} => {}", a, show(catch(|| f62raw(f62w(a).double())))),
            "exp" => { let p = gen_u64(r, &b); format!("f62.exp {:x} {:x} => {}", a, p, show(catch(|| f62raw(f62w(a).exp(p))))) }
            "inv" => format!("f62.inv {:x} => {}", a, show(catch(|| f62raw(f62w(a).inv())))),
            "div" => format!("f62.div {:x} {:x} => {}", a, c, show(catch(|| f62raw(f62w(a) / f62w(c))))),
            "eq" => { let c2 = match r.below(4) { 0 => a, 1 => a.wrapping_add(M62), _ => c }; format!("f62.eq {:x} {:x} => {}", a, c2, show(catch(|| (f62w(a) == f62w(c2)) as u8))) }
            "try_from_u64" => { let v = gen_u64(r, &b); format!("f62.try_from_u64 {:x} => {}", v, match f62::BaseElement::try_from(v) { Ok(e) => format!("{:x}", f62raw(e)), Err(_) => "none".into() }) }
            "try_from_u128" => { let v = if r.chance(1, 2) { gen_u64(r, &b) as u128 } else { r.next_u128() >> r.below(70) }; format!("f62.try_from_u128 {:x} => {}", v, match f62::BaseElement::try_from(v) { Ok(e) => format!("{:x}", f62raw(e)), Err(_) => "none".into() }) }
            "exp_vartime" => { let p = gen_u64(r, &b); format!("f62.exp_vartime {:x} {:x} => {}", a, p, show(catch(|| f62raw(f62w(a).exp_vartime(p))))) }
            "grou" => { let k = gen_order(r, 39); format!("f62.grou {:x} => {}", k, show(catch(|| f62raw(f62::BaseElement::get_root_of_unity(k))))) }
            "fbwp" => { let bs = gen_short_bytes(r, 8); format!("f62.fbwp {} => {}", hex_bytes(&bs), show(catch(|| f62raw(f62::BaseElement::from_bytes_with_padding(&bs))))) }
            _ => unreachable!(),
        };
        out.push(line);
    }
}

fn gen_u128(r: &mut Rng) -> u128 {
    let b: [u128; 22] = [0, 1, 2, M128 - 1, M128 - 2, M128, M128 + 1, (M128 - 1) / 2, (M128 + 1) / 2, u128::MAX, u128::MAX - 1,
        1 << 64, (1 << 64) - 1, (1 << 64) + 1, 1 << 127, (1 << 127) - 1, 45 << 40, (45 << 40) - 1, u64::MAX as u128 * u64::MAX as u128,
        0xFFFF_FFFF_FFFF_FFFF_0000_0000_0000_0000, 0x0000_0000_0000_0001_FFFF_FFFF_FFFF_FFFF, M128 - (1 << 64)];
    match r.below(8) {
        0..=2 => b[r.below(22) as usize],
        3 => b[r.below(22) as usize].wrapping_add(r.below(7) as u128).wrapping_sub(3),
        4 => (r.next_u64() as u128) << 64 | if r.chance(1, 2) { u64::MAX as u128 } else { 0 },
        5 => M128 - (r.next_u64() as u128),
        _ => r.next_u128(),
    }
}

fn corr_f128(r: &mut Rng, n: usize, out: &mut Vec<String>) {
    let ops = ["new", "add", "sub", "mul", "neg", "exp", "inv", "div", "try_from_u128", "mul", "mul", "grou", "fbwp"];
    for i in 0..n {
        let op = ops[i % ops.len()];
        let legit = r.chance(4, 5) || op == "inv" || op == "div" || op == "exp";
        let w = |r: &mut Rng| { let x = gen_u128(r); if legit { x % M128 } else { x } };
        let (a, c) = (w(r), w(r));
        let line = match op {
            "new" => { let v = gen_u128(r); format!("f128.new {:x} => {}", v, show(catch(|| f128raw(f128::BaseElement::new(v))))) }
            "add" => format!("f128.add {:x} {:x} => {}", a, c, show(catch(|| f128raw(f128w(a) + f128w(c))))),
            "sub" => format!("f128.sub {:x} {:x} => {}", a, c, show(catch(|| f128raw(f128w(a) - f128w(c))))),
            "mul" => format!("f128.mul {:x} {:x} => {}", a, c, show(catch(|| f128raw(f128w(a) * f128w(c))))),
            "neg" => format!("f128.neg {:x} => {}", a, show(catch(|| f128raw(-f128w(a))))),
            "exp" => { let p = gen_u128(r) >> r.below(128); format!("f128.exp {:x} {:x} => {}", a, p, show(catch(|| f128raw(f128w(a).exp(p))))) }
            "inv" => format!("f128.inv {:x} => {}", a, show(catch(|| f128raw(f128w(a).inv())))),
            "div" => format!("f128.div {:x} {:x} => {}", a, c, show(catch(|| f128raw(f128w(a) / f128w(c))))),
            "try_from_u128" => { let v = gen_u128(r); format!("f128.try_from_u128 {:x} => {}", v, match f128::BaseElement::try_from(v) { Ok(e) => format!("{:x}", f128raw(e)), Err(_) => "none".into() }) }
            "grou" => { let k = gen_order(r, 40); format!("f128.grou {:x} => {}", k, show(catch(|| f128raw(f128::BaseElement::get_root_of_unity(k))))) }
            "fbwp" => { let bs = gen_short_bytes(r, 16); format!("f128.fbwp {} => {}", hex_bytes(&bs), show(catch(|| f128raw(f128::BaseElement::from_bytes_with_padding(&bs))))) }
            _ => unreachable!(),
        };
        out.push(line);
    }
}

// ---------------------------------------------------------------- coverage round: conversions, assignments, raw byte views
fn optx<T: std::fmt::LowerHex, E>(r: Result<T, E>) -> String {
    match r { Ok(v) => format!("{:x}", v), Err(_) => "none".into() }
}
fn words<T: std::fmt::LowerHex>(ws: &[T]) -> String {
    if ws.is_empty() { "-".into() } else { ws.iter().map(|w| format!("{:x}", w)).collect::<Vec<_>>().join(",") }
}
/// bytes for TryFrom<&[u8]>: every length around ELEMENT_BYTES (both error branches), values around the modulus
fn gen_slice(r: &mut Rng, nb: usize, around: u128) -> Vec<u8> {
    let len = match r.below(8) { 0 => nb - 1, 1 => nb + 1, 2 => 0, 3 => nb + 2 + r.below(20) as usize, 4 => r.below(nb as u64) as usize, _ => nb };
    let v = match r.below(5) { 0 => around, 1 => around - 1, 2 => around + 1 + r.below(3) as u128, 3 => u128::MAX, _ => r.next_u128() >> r.below(100) };
    let mut b = v.to_le_bytes().to_vec();
    b.resize(len.max(16), r.next_u64() as u8);
    b.truncate(len);
    b
}
/// `bytes_as_elements` on a slice that starts `off` bytes into a buffer aligned for the word type
fn bae<W: Copy + Default, F, T: std::fmt::LowerHex>(off: usize, bytes: &[u8], raw: impl Fn(&F) -> T, call: impl Fn(&[u8]) -> Option<Vec<F>>) -> String {
    let wsz = core::mem::size_of::<W>();
    let backing: Vec<W> = vec![W::default(); (off + bytes.len()) / wsz + 2];
    let view = unsafe { core::slice::from_raw_parts_mut(backing.as_ptr() as *mut u8, backing.len() * wsz) };
    view[off..off + bytes.len()].copy_from_slice(bytes);
    match call(&view[off..off + bytes.len()]) {
        Some(es) => words(&es.iter().map(|e| raw(e)).collect::<Vec<_>>()),
        None => "none".into(),
    }
}
fn gen_bae(r: &mut Rng, nb: usize, j: usize) -> (usize, Vec<u8>) {
    // first the full grid of boundary offsets x lengths (aligned, half word, 1, nb-1, one word further; whole numbers of
    // elements, half-word and off-by-one ragged lengths), then random ones; words may be non-canonical
    let offs = [0, nb / 2, 1, nb - 1, nb];
    let lens = [0, nb, 2 * nb, nb / 2, nb + nb / 2, 1, nb - 1, nb + 1, 3 * nb];
    let (off, len) = if j < offs.len() * lens.len() { (offs[j % offs.len()], lens[j / offs.len()]) } else {
        let off = match r.below(8) { 0..=3 => 0, 4 => nb / 2, 5 => [1, nb - 1, nb, nb + nb / 2][r.below(4) as usize], _ => r.below(2 * nb as u64) as usize };
        let k = r.below(4) as usize;
        (off, if r.chance(3, 4) { k * nb } else { k * nb + match r.below(4) { 0 => nb / 2, 1 => 1, 2 => nb - 1, _ => 1 + r.below(nb as u64 - 1) as usize } })
    };
    let mut v: Vec<u8> = (0..len).map(|_| r.next_u64() as u8).collect();
    if r.chance(1, 4) { v.iter_mut().for_each(|b| *b = 0xff) }
    (off, v)
}

fn corr_conv(r: &mut Rng, n: usize, out: &mut Vec<String>) {
    let b64 = boundary64(M64);
    let b62 = boundary64(M62);
    let ops64 = ["from_bool", "from_u8", "from_u16", "from_u32", "try_from_usize", "to_bool", "to_u8", "to_u16", "to_u32", "to_u64", "to_u128",
        "sf_as_int", "conjugate", "add_assign", "sub_assign", "mul_assign", "div_assign", "base_element", "try_from_slice", "as_bytes", "eab", "bae"];
    let ops62 = ["from_u8", "from_u16", "from_u32", "to_u64", "to_u128", "try_from_bytes", "conjugate", "add_assign", "sub_assign", "mul_assign",
        "div_assign", "base_element", "try_from_slice", "as_bytes", "eab", "bae"];
    let ops128 = ["from_u8", "from_u16", "from_u32", "from_u64", "conjugate", "add_assign", "sub_assign", "mul_assign", "div_assign", "base_element",
        "try_from_slice", "as_bytes", "eab", "bae"];
    let small = |r: &mut Rng, bits: u32| -> u64 {
        let m = if bits == 64 { u64::MAX } else { (1u64 << bits) - 1 };
        match r.below(6) { 0 => 0, 1 => 1, 2 => m, 3 => m - 1, 4 => m / 2 + 1, _ => r.next_u64() & m }
    };
    for i in 0..n {
        // ---- f64 (canonical Montgomery words; values that fit / do not fit the narrow integer types)
        let op = ops64[i % ops64.len()];
        let narrow = op.starts_with("to_");
        let w = |r: &mut Rng| match if narrow { [0, 0, 0, 1, 2, 3][r.below(6) as usize] } else { 1 + r.below(3) } {
            0 => { let bits = [1, 8, 16, 32][r.below(4) as usize]; let v = small(r, bits); let d = r.below(2); f64::BaseElement::new(v + d).inner() }
            1 => { let v = r.next_u64(); let k = r.below(64); f64::BaseElement::new(v >> k).inner() }
            _ => { let x = gen_u64(r, &b64); if x >= M64 { x - M64 } else { x } }
        };
        let (a, c) = (w(r), w(r));
        let line = match op {
            "from_bool" => { let v = r.chance(1, 2); format!("f64.from_bool {:x} => {:x}", v as u8, f64::BaseElement::from(v).inner()) }
            "from_u8" => { let v = small(r, 8) as u8; format!("f64.from_u8 {:x} => {:x}", v, f64::BaseElement::from(v).inner()) }
            "from_u16" => { let v = small(r, 16) as u16; format!("f64.from_u16 {:x} => {:x}", v, f64::BaseElement::from(v).inner()) }
            "from_u32" => { let v = small(r, 32) as u32; format!("f64.from_u32 {:x} => {:x}", v, f64::BaseElement::from(v).inner()) }
            "try_from_usize" => { let v = match r.below(3) { 0 => (M64 + [0, 1, 2, u64::MAX - M64][r.below(4) as usize]) as usize, 1 => (M64 - 1 - r.below(3)) as usize, _ => gen_u64(r, &b64) as usize }; format!("f64.try_from_usize {:x} => {}", v, optx(f64::BaseElement::try_from(v).map(|e| e.inner()))) }
            "to_bool" => format!("f64.to_bool {:x} => {}", a, optx(bool::try_from(f64w(a)).map(|v| v as u8))),
            "to_u8" => format!("f64.to_u8 {:x} => {}", a, optx(u8::try_from(f64w(a)))),
            "to_u16" => format!("f64.to_u16 {:x} => {}", a, optx(u16::try_from(f64w(a)))),
            "to_u32" => format!("f64.to_u32 {:x} => {}", a, optx(u32::try_from(f64w(a)))),
            "to_u64" => format!("f64.to_u64 {:x} => {:x}", a, u64::from(f64w(a))),
            "to_u128" => format!("f64.to_u128 {:x} => {:x}", a, u128::from(f64w(a))),
            "sf_as_int" => format!("f64.sf_as_int {:x} => {:x}", a, <f64::BaseElement as StarkField>::as_int(&f64w(a))),
            "conjugate" => format!("f64.conjugate {:x} => {:x}", a, f64w(a).conjugate().inner()),
            "add_assign" => format!("f64.add_assign {:x} {:x} => {}", a, c, show(catch(|| { let mut x = f64w(a); x += f64w(c); x.inner() }))),
            "sub_assign" => format!("f64.sub_assign {:x} {:x} => {}", a, c, show(catch(|| { let mut x = f64w(a); x -= f64w(c); x.inner() }))),
            "mul_assign" => format!("f64.mul_assign {:x} {:x} => {}", a, c, show(catch(|| { let mut x = f64w(a); x *= f64w(c); x.inner() }))),
            "div_assign" => format!("f64.div_assign {:x} {:x} => {}", a, c, show(catch(|| { let mut x = f64w(a); x /= f64w(c); x.inner() }))),
            "base_element" => { let k = if r.chance(1, 2) { 0 } else { 1 + r.below(3) as usize }; format!("f64.base_element {:x} {:x} => {}", a, k, show(catch(|| f64w(a).base_element(k).inner()))) }
            "try_from_slice" => { let bs = gen_slice(r, 8, M64 as u128); format!("f64.try_from_slice {} => {}", hex_bytes(&bs), optx(<f64::BaseElement as TryFrom<&[u8]>>::try_from(&bs).map(|e| e.inner()))) }
            "as_bytes" => format!("f64.as_bytes {:x} => {}", a, hex_bytes(f64w(a).as_bytes())),
            "eab" => { let es: Vec<u64> = (0..r.below(4)).map(|_| w(r)).collect(); let fs: Vec<f64::BaseElement> = es.iter().map(|x| f64w(*x)).collect();
                format!("f64.eab {} => {}", words(&es), hex_bytes(f64::BaseElement::elements_as_bytes(&fs))) }
            "bae" => { let (off, bs) = gen_bae(r, 8, i / ops64.len()); format!("f64.bae {:x} {} => {}", off, hex_bytes(&bs),
                bae::<u64, f64::BaseElement, u64>(off, &bs, |e| e.inner(), |s| unsafe { f64::BaseElement::bytes_as_elements(s) }.ok().map(|x| x.to_vec()))) }
            _ => unreachable!(),
        };
        out.push(line);
        // ---- f62 (lazy words in [0, 2M))
        let op = ops62[i % ops62.len()];
        let w = |r: &mut Rng| gen_u64(r, &b62) % (2 * M62);
        let (a, c) = (w(r), w(r));
        let line = match op {
            "from_u8" => { let v = small(r, 8) as u8; format!("f62.from_u8 {:x} => {:x}", v, f62raw(f62::BaseElement::from(v))) }
            "from_u16" => { let v = small(r, 16) as u16; format!("f62.from_u16 {:x} => {:x}", v, f62raw(f62::BaseElement::from(v))) }
            "from_u32" => { let v = small(r, 32) as u32; format!("f62.from_u32 {:x} => {:x}", v, f62raw(f62::BaseElement::from(v))) }
            "to_u64" => format!("f62.to_u64 {:x} => {:x}", a, u64::from(f62w(a))),
            "to_u128" => format!("f62.to_u128 {:x} => {:x}", a, u128::from(f62w(a))),
            "try_from_bytes" => { let v = gen_u64(r, &b62); format!("f62.try_from_bytes {} => {}", hex_bytes(&v.to_le_bytes()), optx(f62::BaseElement::try_from(v.to_le_bytes()).map(f62raw))) }
            "conjugate" => format!("f62.conjugate {:x} => {:x}", a, f62raw(f62w(a).conjugate())),
            "add_assign" => format!("f62.add_assign {:x} {:x} => {}", a, c, show(catch(|| { let mut x = f62w(a); x += f62w(c); f62raw(x) }))),
            "sub_assign" => format!("f62.sub_assign {:x} {:x} => {}", a, c, show(catch(|| { let mut x = f62w(a); x -= f62w(c); f62raw(x) }))),
            "mul_assign" => format!("f62.mul_assign {:x} {:x} => {}", a, c, show(catch(|| { let mut x = f62w(a); x *= f62w(c); f62raw(x) }))),
            "div_assign" => format!("f62.div_assign {:x} {:x} => {}", a, c, show(catch(|| { let mut x = f62w(a); x /= f62w(c); f62raw(x) }))),
            "base_element" => { let k = if r.chance(1, 2) { 0 } else { 1 + r.below(3) as usize }; format!("f62.base_element {:x} {:x} => {}", a, k, show(catch(|| f62raw(f62w(a).base_element(k))))) }
            "try_from_slice" => { let bs = gen_slice(r, 8, M62 as u128); format!("f62.try_from_slice {} => {}", hex_bytes(&bs), optx(<f62::BaseElement as TryFrom<&[u8]>>::try_from(&bs).map(f62raw))) }
            "as_bytes" => format!("f62.as_bytes {:x} => {}", a, hex_bytes(f62w(a).as_bytes())),
            "eab" => { let es: Vec<u64> = (0..r.below(4)).map(|_| w(r)).collect(); let fs: Vec<f62::BaseElement> = es.iter().map(|x| f62w(*x)).collect();
                format!("f62.eab {} => {}", words(&es), hex_bytes(f62::BaseElement::elements_as_bytes(&fs))) }
            "bae" => { let (off, bs) = gen_bae(r, 8, i / ops62.len()); format!("f62.bae {:x} {} => {}", off, hex_bytes(&bs),
                bae::<u64, f62::BaseElement, u64>(off, &bs, |e| f62raw(*e), |s| unsafe { f62::BaseElement::bytes_as_elements(s) }.ok().map(|x| x.to_vec()))) }
            _ => unreachable!(),
        };
        out.push(line);
        // ---- f128 (canonical words)
        let op = ops128[i % ops128.len()];
        let w = |r: &mut Rng| gen_u128(r) % M128;
        let (a, c) = (w(r), w(r));
        let line = match op {
            "from_u8" => { let v = small(r, 8) as u8; format!("f128.from_u8 {:x} => {:x}", v, f128raw(f128::BaseElement::from(v))) }
            "from_u16" => { let v = small(r, 16) as u16; format!("f128.from_u16 {:x} => {:x}", v, f128raw(f128::BaseElement::from(v))) }
            "from_u32" => { let v = small(r, 32) as u32; format!("f128.from_u32 {:x} => {:x}", v, f128raw(f128::BaseElement::from(v))) }
            "from_u64" => { let v = small(r, 64); format!("f128.from_u64 {:x} => {:x}", v, f128raw(f128::BaseElement::from(v))) }
            "conjugate" => format!("f128.conjugate {:x} => {:x}", a, f128raw(f128w(a).conjugate())),
            "add_assign" => format!("f128.add_assign {:x} {:x} => {}", a, c, show(catch(|| { let mut x = f128w(a); x += f128w(c); f128raw(x) }))),
            "sub_assign" => format!("f128.sub_assign {:x} {:x} => {}", a, c, show(catch(|| { let mut x = f128w(a); x -= f128w(c); f128raw(x) }))),
            "mul_assign" => format!("f128.mul_assign {:x} {:x} => {}", a, c, show(catch(|| { let mut x = f128w(a); x *= f128w(c); f128raw(x) }))),
            "div_assign" => format!("f128.div_assign {:x} {:x} => {}", a, c, show(catch(|| { let mut x = f128w(a); x /= f128w(c); f128raw(x) }))),
            "base_element" => { let k = if r.chance(1, 2) { 0 } else { 1 + r.below(3) as usize }; format!("f128.base_element {:x} {:x} => {}", a, k, show(catch(|| f128raw(f128w(a).base_element(k))))) }
            "try_from_slice" => { let bs = gen_slice(r, 16, M128); format!("f128.try_from_slice {} => {}", hex_bytes(&bs), optx(<f128::BaseElement as TryFrom<&[u8]>>::try_from(&bs).map(f128raw))) }
            "as_bytes" => format!("f128.as_bytes {:x} => {}", a, hex_bytes(f128w(a).as_bytes())),
            "eab" => { let es: Vec<u128> = (0..r.below(4)).map(|_| w(r)).collect(); let fs: Vec<f128::BaseElement> = es.iter().map(|x| f128w(*x)).collect();
                format!("f128.eab {} => {}", words(&es), hex_bytes(f128::BaseElement::elements_as_bytes(&fs))) }
            "bae" => { let (off, bs) = gen_bae(r, 16, i / ops128.len()); format!("f128.bae {:x} {} => {}", off, hex_bytes(&bs),
                bae::<u128, f128::BaseElement, u128>(off, &bs, |e| f128raw(*e), |s| unsafe { f128::BaseElement::bytes_as_elements(s) }.ok().map(|x| x.to_vec()))) }
            _ => unreachable!(),
        };
        out.push(line);
    }
}

// ---------------------------------------------------------------- falsifier (property-level oracle)
struct Fail { field: &'static str, what: String, input: String, expected: String, actual: String }

trait RefField: StarkField<PositiveInteger = Self::Int> {
    type Int: Copy + Into<u128> + TryFrom<u128> + std::fmt::LowerHex;
    const P: u128;
    const NAME: &'static str;
    fn from_u128(v: u128) -> Self;
    fn to_u128(&self) -> u128;
    fn raw(&self) -> Vec<u8> { self.as_bytes().to_vec() }
    /// the internal word has a single image per residue (f64: canonical Montgomery; f128: canonical); f62 is lazy
    const ONE_WORD: bool;
    /// conversions back to the integer types must agree with the residue: Ok(v) iff it fits, never truncated
    fn conv_back(&self, want: u128) -> Vec<(String, String, String)>;
}
fn narrow<T: TryFrom<u128> + std::fmt::Debug + PartialEq, E>(name: &str, got: Result<T, E>, want: u128, out: &mut Vec<(String, String, String)>) {
    let exp = T::try_from(want).ok();
    let got = got.ok();
    if got != exp { out.push((format!("{}::try_from(e)", name), format!("{:?}", exp), format!("{:?}", got))); }
}
impl RefField for f64::BaseElement {
    type Int = u64; const P: u128 = M64 as u128; const NAME: &'static str = "f64";
    fn from_u128(v: u128) -> Self { Self::new((v % Self::P) as u64) }
    fn to_u128(&self) -> u128 { self.as_int() as u128 }
    const ONE_WORD: bool = true;
    fn conv_back(&self, want: u128) -> Vec<(String, String, String)> {
        let mut o = Vec::new();
        narrow("u8", u8::try_from(*self), want, &mut o);
        narrow("u16", u16::try_from(*self), want, &mut o);
        narrow("u32", u32::try_from(*self), want, &mut o);
        if u64::from(*self) as u128 != want { o.push(("u64::from(e)".into(), format!("{:x}", want), format!("{:x}", u64::from(*self)))); }
        if u128::from(*self) != want { o.push(("u128::from(e)".into(), format!("{:x}", want), format!("{:x}", u128::from(*self)))); }
        let b = bool::try_from(*self).ok();
        let wb = match want { 0 => Some(false), 1 => Some(true), _ => None };
        if b != wb { o.push(("bool::try_from(e)".into(), format!("{:?}", wb), format!("{:?}", b))); }
        if <Self as StarkField>::as_int(self) as u128 != want { o.push(("StarkField::as_int".into(), format!("{:x}", want), "differs".into())); }
        o
    }
}
impl RefField for f62::BaseElement {
    type Int = u64; const P: u128 = M62 as u128; const NAME: &'static str = "f62";
    fn from_u128(v: u128) -> Self { Self::new((v % Self::P) as u64) }
    fn to_u128(&self) -> u128 { self.as_int() as u128 }
    const ONE_WORD: bool = false;
    fn conv_back(&self, want: u128) -> Vec<(String, String, String)> {
        let mut o = Vec::new();
        if u64::from(*self) as u128 != want { o.push(("u64::from(e)".into(), format!("{:x}", want), format!("{:x}", u64::from(*self)))); }
        if u128::from(*self) != want { o.push(("u128::from(e)".into(), format!("{:x}", want), format!("{:x}", u128::from(*self)))); }
        let w = f62raw(*self);
        if w >= 2 * M62 { o.push(("internal word below 2M".into(), "< 2M".into(), format!("{:x}", w))); }
        o
    }
}
impl RefField for f128::BaseElement {
    type Int = u128; const P: u128 = M128; const NAME: &'static str = "f128";
    fn from_u128(v: u128) -> Self { Self::new(v % Self::P) }
    fn to_u128(&self) -> u128 { self.as_int() }
    const ONE_WORD: bool = true;
    fn conv_back(&self, want: u128) -> Vec<(String, String, String)> {
        let mut o = Vec::new();
        if f128raw(*self) != want { o.push(("internal word is the canonical residue".into(), format!("{:x}", want), format!("{:x}", f128raw(*self)))); }
        o
    }
}

fn residues(p: u128, r: &mut Rng) -> u128 {
    let b: [u128; 24] = [0, 1, 2, 3, 7, p - 1, p - 2, p - 3, (p - 1) / 2, (p + 1) / 2, 0xFFFF_FFFF, 1 << 32, (1 << 32) + 1,
        1 << 63, (1 << 63) - 1, (1u128 << 64) - 1, 1u128 << 64, (1u128 << 64) + 1, (1u128 << 62) - 1, 1u128 << 62,
        0xFFFF_FFFF_0000_0000, 1 << 31, (p - 1) / 3, p / 2 + 2];
    match r.below(4) {
        0 => b[r.below(24) as usize] % p,
        1 => (b[r.below(24) as usize].wrapping_add(r.below(9) as u128).wrapping_sub(4)) % p,
        _ => r.next_u128() % p,
    }
}

/// an element reached through a short sequence of public operations, together with its expected residue
fn reach<F: RefField>(r: &mut Rng, trace: &mut String, prog: &Progress) -> (F, u128) {
    let p = F::P;
    let v0 = residues(p, r);
    let mut e = F::from_u128(v0);
    let mut v = v0;
    trace.push_str(&format!("new({:x})", v0));
    for _ in 0..r.below(4) {
        let w = residues(p, r);
        let o = F::from_u128(w);
        let k = r.below(13);
        prog.step(|| format!("{} {} then op#{} (6=inv,7=div,12=div_assign) with {:x}", F::NAME, trace, k, w));
        match k {
            0 => { e = e + o; v = addmod(v, w, p); trace.push_str(&format!(".add({:x})", w)); }
            1 => { e = e - o; v = submod(v, w, p); trace.push_str(&format!(".sub({:x})", w)); }
            2 => { e = e * o; v = mulmod(v, w, p); trace.push_str(&format!(".mul({:x})", w)); }
            3 => { e = e.double(); v = addmod(v, v, p); trace.push_str(".double()"); }
            4 => { e = e.square(); v = mulmod(v, v, p); trace.push_str(".square()"); }
            5 => { e = -e; v = submod(0, v, p); trace.push_str(".neg()"); }
            6 => { e = e.inv(); v = invmod(v, p); trace.push_str(".inv()"); }
            7 => { e = e / o; v = mulmod(v, invmod(w, p), p); trace.push_str(&format!(".div({:x})", w)); }
            8 => { e = e.cube(); v = mulmod(mulmod(v, v, p), v, p); trace.push_str(".cube()"); }
            9 => { e += o; v = addmod(v, w, p); trace.push_str(&format!(".add_assign({:x})", w)); }
            10 => { e -= o; v = submod(v, w, p); trace.push_str(&format!(".sub_assign({:x})", w)); }
            11 => { e *= o; v = mulmod(v, w, p); trace.push_str(&format!(".mul_assign({:x})", w)); }
            _ => { e /= o; v = mulmod(v, invmod(w, p), p); trace.push_str(&format!(".div_assign({:x})", w)); }
        }
    }
    (e, v)
}

fn check_elem<F: RefField>(e: F, want: u128, how: &str, fails: &mut Vec<Fail>) {
    let got = e.to_u128();
    if got != want {
        fails.push(Fail { field: F::NAME, what: "value".into(), input: how.into(), expected: format!("{:x}", want), actual: format!("{:x}", got) });
        return;
    }
    // equal residues must compare equal, serialize identically and have one internal image
    let fresh = F::from_u128(want);
    if e != fresh {
        fails.push(Fail { field: F::NAME, what: "eq: same residue compares unequal".into(), input: how.into(), expected: "==".into(), actual: format!("raw {} vs {}", hex_bytes(&e.raw()), hex_bytes(&fresh.raw())) });
    }
    if e.to_bytes() != fresh.to_bytes() {
        fails.push(Fail { field: F::NAME, what: "serialization differs for same residue".into(), input: how.into(), expected: hex_bytes(&fresh.to_bytes()), actual: hex_bytes(&e.to_bytes()) });
    }
    match F::read_from_bytes(&e.to_bytes()) {
        Ok(d) if d == e && d.to_u128() == want => {}
        _ => fails.push(Fail { field: F::NAME, what: "to_bytes/read_from_bytes round trip".into(), input: how.into(), expected: format!("{:x}", want), actual: "mismatch".into() }),
    }
    // conversions back to integers agree with the residue (Err exactly when the value does not fit)
    for (what, exp, act) in e.conv_back(want) {
        fails.push(Fail { field: F::NAME, what: format!("conversion to integer: {}", what), input: how.into(), expected: exp, actual: act });
    }
    if e.conjugate() != e { fails.push(Fail { field: F::NAME, what: "conjugate of a base element".into(), input: how.into(), expected: "e".into(), actual: "differs".into() }); }
    // equal residues hash equally
    if Blake3_256::<F>::hash_elements(&[e]) != Blake3_256::<F>::hash_elements(&[fresh]) {
        fails.push(Fail { field: F::NAME, what: "hash_elements differs for same residue".into(), input: how.into(), expected: "equal digests".into(), actual: format!("raw {} vs {}", hex_bytes(&e.raw()), hex_bytes(&fresh.raw())) });
    }
    // zero-copy views: as_bytes and elements_as_bytes show the same internal word; it reinterprets back; where the
    // representation is canonical the internal word itself is determined by the residue
    let pair = [e, fresh];
    let view = F::elements_as_bytes(&pair);
    let nb = F::ELEMENT_BYTES;
    if view.len() != 2 * nb || &view[..nb] != e.as_bytes() || &view[nb..] != fresh.as_bytes() {
        fails.push(Fail { field: F::NAME, what: "elements_as_bytes is not the concatenation of as_bytes".into(), input: how.into(), expected: hex_bytes(e.as_bytes()), actual: hex_bytes(view) });
    }
    match unsafe { F::bytes_as_elements(view) } {
        Ok(back) if back.len() == 2 && back[0] == e && back[1] == fresh && back[0].as_bytes() == e.as_bytes() => {}
        _ => fails.push(Fail { field: F::NAME, what: "bytes_as_elements(elements_as_bytes(..)) round trip".into(), input: how.into(), expected: "same elements".into(), actual: "mismatch".into() }),
    }
    if F::ONE_WORD && e.as_bytes() != fresh.as_bytes() {
        fails.push(Fail { field: F::NAME, what: "non-canonical internal word reached through the public API".into(), input: how.into(), expected: hex_bytes(fresh.as_bytes()), actual: hex_bytes(e.as_bytes()) });
    }
}

/// integer -> element conversions on the boundary values of each source type
fn conv_small<F: RefField + From<u8> + From<u16> + From<u32>>(fails: &mut Vec<Fail>) -> usize {
    let p = F::P;
    let mut n = 0;
    let mut chk = |what: &str, x: u128, e: F| {
        n += 1;
        if e.to_u128() != x % p || e != F::from_u128(x) { fails.push(Fail { field: F::NAME, what: format!("{} does not denote x mod p", what), input: format!("{:x}", x), expected: format!("{:x}", x % p), actual: format!("{:x}", e.to_u128()) }); }
    };
    for x in [0u8, 1, 2, 127, 128, 254, 255] { chk("From<u8>", x as u128, F::from(x)); }
    for x in [0u16, 1, 255, 256, 32767, 32768, 65534, 65535] { chk("From<u16>", x as u128, F::from(x)); }
    for x in [0u32, 1, 65535, 65536, 1 << 31, u32::MAX - 1, u32::MAX] { chk("From<u32>", x as u128, F::from(x)); }
    n
}

fn falsify_field<F: RefField>(r: &mut Rng, n: usize, fails: &mut Vec<Fail>, prog: &Progress, extra: &dyn Fn(&mut Rng, F, u128, &str, &mut Vec<Fail>)) -> usize {
    let p = F::P;
    let mut evals = 0;
    for _ in 0..n {
        let mut tr = String::new();
        let res = catch(AssertUnwindSafe(|| {
            let mut local = Vec::new();
            let (a, va) = reach::<F>(r, &mut tr, prog);
            check_elem(a, va, &tr, &mut local);
            let mut tr2 = String::new();
            let (b, vb) = reach::<F>(r, &mut tr2, prog);
            let pair = format!("a={} b={}", tr, tr2);
            prog.step(|| format!("{} {}", F::NAME, pair));
            check_elem(a + b, addmod(va, vb, p), &format!("{} : a+b", pair), &mut local);
            check_elem(a - b, submod(va, vb, p), &format!("{} : a-b", pair), &mut local);
            check_elem(a * b, mulmod(va, vb, p), &format!("{} : a*b", pair), &mut local);
            check_elem(a / b, mulmod(va, invmod(vb, p), p), &format!("{} : a/b", pair), &mut local);
            check_elem(-a, submod(0, va, p), &format!("{} : -a", pair), &mut local);
            check_elem(a.double(), addmod(va, va, p), &format!("{} : a.double()", pair), &mut local);
            check_elem(a.square(), mulmod(va, va, p), &format!("{} : a.square()", pair), &mut local);
            check_elem(a.inv(), invmod(va, p), &format!("{} : a.inv()", pair), &mut local);
            let e = match r.below(4) { 0 => r.below(5) as u128, 1 => p - 1 - r.below(3) as u128, 2 => (1u128 << r.below(64)) - r.below(2) as u128, _ => r.next_u128() % (1u128 << 64).min(p) };
            if let Ok(ei) = F::Int::try_from(e) {
                check_elem(a.exp(ei), powmod(va, e, p), &format!("{} : a.exp({:x})", pair, e), &mut local);
                check_elem(a.exp_vartime(ei), powmod(va, e, p), &format!("{} : a.exp_vartime({:x})", pair, e), &mut local);
            }
            if (a == b) != (va == vb) {
                local.push(Fail { field: F::NAME, what: "== disagrees with residues".into(), input: pair.clone(), expected: format!("{}", va == vb), actual: format!("{}", a == b) });
            }
            extra(r, a, va, &tr, &mut local);
            local
        }));
        evals += 12;
        match res {
            Ok(l) => { for f in &l { emit(f); } *fails_count(fails) += l.len(); }
            Err(msg) => { let f = Fail { field: F::NAME, what: format!("panic: {}", msg), input: tr.clone(), expected: "no panic".into(), actual: "panic".into() }; emit(&f); *fails_count(fails) += 1; }
        }
    }
    evals
}

fn emit(f: &Fail) {
    println!("{{\"field\":{},\"what\":{},\"input\":{},\"expected\":{},\"actual\":{}}}", jstr(f.field), jstr(&f.what), jstr(&f.input), jstr(&f.expected), jstr(&f.actual));
}
static mut EMITTED: usize = 0;
fn fails_count(_: &mut Vec<Fail>) -> &'static mut usize { unsafe { &mut *std::ptr::addr_of_mut!(EMITTED) } }

fn constants<F: RefField>(fails: &mut Vec<Fail>, gen: u128, two_adicity: u32, factors: &[u128]) {
    let p = F::P;
    let mut bad = |what: &str, exp: String, act: String| fails.push(Fail { field: F::NAME, what: what.into(), input: "constants".into(), expected: exp, actual: act });
    let m: u128 = F::MODULUS.into();
    if m != p { bad("MODULUS", format!("{:x}", p), format!("{:x}", m)); }
    if F::GENERATOR.to_u128() != gen { bad("GENERATOR", format!("{:x}", gen), format!("{:x}", F::GENERATOR.to_u128())); }
    for q in factors {
        if powmod(F::GENERATOR.to_u128(), (p - 1) / q, p) == 1 { bad("GENERATOR is not primitive", format!("g^((p-1)/{}) != 1", q), "1".into()); }
    }
    if F::TWO_ADICITY != two_adicity || (p - 1) % (1u128 << two_adicity) != 0 || ((p - 1) >> two_adicity) % 2 == 0 {
        bad("TWO_ADICITY", format!("{}", two_adicity), format!("{}", F::TWO_ADICITY));
    }
    let root = F::TWO_ADIC_ROOT_OF_UNITY.to_u128();
    if powmod(root, 1u128 << two_adicity, p) != 1 || powmod(root, 1u128 << (two_adicity - 1), p) == 1 {
        bad("TWO_ADIC_ROOT_OF_UNITY order", "2^two_adicity".into(), format!("{:x}", root));
    }
    for k in [1u32, 2, 3, 5, 8, 16, two_adicity - 1, two_adicity] {
        let w = F::get_root_of_unity(k).to_u128();
        if powmod(w, 1u128 << k, p) != 1 || powmod(w, 1u128 << (k - 1), p) == 1 || w != powmod(root, 1u128 << (two_adicity - k), p) {
            bad("get_root_of_unity", format!("primitive 2^{} root", k), format!("{:x}", w));
        }
    }
    if F::ZERO.to_u128() != 0 || F::ONE.to_u128() != 1 { bad("ZERO/ONE", "0,1".into(), "other".into()); }
    let mb = F::get_modulus_le_bytes();
    let mut le = [0u8; 16];
    le[..mb.len().min(16)].copy_from_slice(&mb[..mb.len().min(16)]);
    if u128::from_le_bytes(le) != p { bad("get_modulus_le_bytes", format!("{:x}", p), hex_bytes(&mb)); }
}

/// byte-slice conversions (`TryFrom<&[u8]>`, `Randomizable::from_random_bytes`, `read_from_bytes`): accept exactly the
/// canonical little-endian encodings of residues < p, for every value in the gaps [p, 2^k) as well
fn conv_bytes<F: RefField + winter_utils::Randomizable>(r: &mut Rng, fails: &mut Vec<Fail>)
where for<'a> F: TryFrom<&'a [u8]> {
    let p = F::P;
    let nb = F::ELEMENT_BYTES;
    let top: u128 = if nb == 16 { u128::MAX } else { (1u128 << (8 * nb)) - 1 };
    let bits = 128 - p.leading_zeros();
    for i in 0..400 {
        let v: u128 = match i % 8 {
            0 => residues(p, r),
            1 => p + r.below(5) as u128,
            2 => p.wrapping_sub(1 + r.below(3) as u128),
            3 => if bits < 128 { (p + (r.next_u128() % ((1u128 << bits) - p))).min(top) } else { p + (r.next_u128() % (u128::MAX - p)) },   // the gap [p, 2^bits)
            4 => if bits < 128 { ((1u128 << bits) - 1 - r.below(3) as u128).min(top) } else { u128::MAX - r.below(3) as u128 },
            5 => top - r.below(3) as u128,
            6 => if bits < 128 { (1u128 << bits).min(top) } else { p },
            _ => r.next_u128() & top,
        };
        let bytes = &v.to_le_bytes()[..nb];
        let want = if v < p { Some(v) } else { None };
        let a = <F as TryFrom<&[u8]>>::try_from(bytes).ok().map(|e: F| e.to_u128());
        if a != want { fails.push(Fail { field: F::NAME, what: "TryFrom<&[u8]>".into(), input: hex_bytes(bytes), expected: format!("{:?}", want), actual: format!("{:?}", a) }); }
        let b = F::from_random_bytes(bytes).map(|e| e.to_u128());
        if b != want { fails.push(Fail { field: F::NAME, what: "from_random_bytes".into(), input: hex_bytes(bytes), expected: format!("{:?}", want), actual: format!("{:?}", b) }); }
        let c = F::read_from_bytes(bytes).ok().map(|e| e.to_u128());
        if c != want { fails.push(Fail { field: F::NAME, what: "read_from_bytes".into(), input: hex_bytes(bytes), expected: format!("{:?}", want), actual: format!("{:?}", c) }); }
        // wrong lengths are refused
        if <F as TryFrom<&[u8]>>::try_from(&bytes[..nb - 1]).is_ok() { fails.push(Fail { field: F::NAME, what: "TryFrom<&[u8]> accepts a short slice".into(), input: hex_bytes(&bytes[..nb - 1]), expected: "Err".into(), actual: "Ok".into() }); }
    }
}

fn conv64<F: RefField + TryFrom<u64> + TryFrom<u128>>(r: &mut Rng, fails: &mut Vec<Fail>) {
    let p = F::P;
    for _ in 0..64 {
        let v = match r.below(3) { 0 => residues(p, r), 1 => p + r.below(5) as u128, _ => r.next_u128() >> r.below(100) };
        let ok128 = F::try_from(v).ok().map(|e: F| e.to_u128());
        let want = if v < p { Some(v) } else { None };
        if ok128 != want { fails.push(Fail { field: F::NAME, what: "TryFrom<u128>".into(), input: format!("{:x}", v), expected: format!("{:?}", want), actual: format!("{:?}", ok128) }); }
        if v <= u64::MAX as u128 {
            let ok64 = <F as TryFrom<u64>>::try_from(v as u64).ok().map(|e: F| e.to_u128());
            if ok64 != want { fails.push(Fail { field: F::NAME, what: "TryFrom<u64>".into(), input: format!("{:x}", v), expected: format!("{:?}", want), actual: format!("{:?}", ok64) }); }
        }
        // read_from_bytes accepts exactly canonical encodings
        let nb = F::ELEMENT_BYTES;
        let bytes = &v.to_le_bytes()[..nb];
        if nb == 16 || v <= u64::MAX as u128 {
            let got = F::read_from_bytes(bytes).ok().map(|e| e.to_u128());
            if got != want { fails.push(Fail { field: F::NAME, what: "read_from_bytes".into(), input: hex_bytes(bytes), expected: format!("{:?}", want), actual: format!("{:?}", got) }); }
        }
    }
}

fn main() {
    silence_panics();
    let args: Vec<String> = std::env::args().collect();
    let mode = args.get(1).map(|s| s.as_str()).unwrap_or("corr");
    let seed: u64 = args.get(2).and_then(|s| s.parse().ok()).unwrap_or(1);
    let n: usize = args.get(3).and_then(|s| s.parse().ok()).unwrap_or(1000);
    let mut r = Rng::new(seed);
    match mode {
        "corr" => {
            let mut out = Vec::new();
            corr_f64(&mut r, n, &mut out);
            corr_f62(&mut r, n, &mut out);
            corr_f128(&mut r, n / 2, &mut out);
            corr_conv(&mut r, n / 3, &mut out);
            for l in out { println!("{}", l); }
        }
        "falsify" => {
            let (fails, evals) = watchdog::run(std::time::Duration::from_secs(5), move |prog| {
                let mut fails = Vec::new();
                let mut evals = 0;
                constants::<f64::BaseElement>(&mut fails, 7, 32, &[2, 3, 5, 17, 257, 65537]);
                constants::<f62::BaseElement>(&mut fails, 3, 39, &[2, 13, 17, 37957]);
                constants::<f128::BaseElement>(&mut fails, 3, 40, &[2, 29, 181, 286619, 11394379, 18053749339]);
                evals += falsify_field::<f64::BaseElement>(&mut r, n, &mut fails, &prog, &|r, a, va, tr, l| {
                    let s = match r.below(3) { 0 => 7u32, 1 => u32::MAX - r.below(3) as u32, _ => r.next_u64() as u32 };
                    check_elem(a.mul_small(s), mulmod(va, s as u128, M64 as u128), &format!("{} : mul_small({:x})", tr, s), l);
                    check_elem(a.exp7(), powmod(va, 7, M64 as u128), &format!("{} : exp7", tr), l);
                    // internal images from the boundary classes are legitimate inputs through from_mont
                    let b = boundary64(M64);
                    let w = *r.pick(&b) % M64;
                    let e = f64::BaseElement::from_mont(w);
                    let ve = e.as_int() as u128;
                    check_elem(e.double(), addmod(ve, ve, M64 as u128), &format!("from_mont({:x}).double()", w), l);
                    check_elem(e.mul_small(s), mulmod(ve, s as u128, M64 as u128), &format!("from_mont({:x}).mul_small({:x})", w, s), l);
                    check_elem(e + a, addmod(ve, va, M64 as u128), &format!("from_mont({:x}) + {}", w, tr), l);
                    check_elem(e * a, mulmod(ve, va, M64 as u128), &format!("from_mont({:x}) * {}", w, tr), l);
                    check_elem(e - a, submod(ve, va, M64 as u128), &format!("from_mont({:x}) - {}", w, tr), l);
                });
                evals += falsify_field::<f62::BaseElement>(&mut r, n, &mut fails, &prog, &|_, _, _, _, _| {});
                evals += falsify_field::<f128::BaseElement>(&mut r, n / 4 + 1, &mut fails, &prog, &|_, _, _, _, _| {});
                evals += conv_small::<f64::BaseElement>(&mut fails);
                evals += conv_small::<f62::BaseElement>(&mut fails);
                evals += conv_small::<f128::BaseElement>(&mut fails);
                for (b, v) in [(false, 0u128), (true, 1)] {
                    if f64::BaseElement::from(b).to_u128() != v { fails.push(Fail { field: "f64", what: "From<bool>".into(), input: format!("{}", b), expected: format!("{}", v), actual: "differs".into() }); }
                }
                for x in [0usize, 1, M64 as usize - 1, M64 as usize, M64 as usize + 1, usize::MAX] {
                    let got = f64::BaseElement::try_from(x).ok().map(|e| e.to_u128());
                    let want = if (x as u128) < M64 as u128 { Some(x as u128) } else { None };
                    if got != want { fails.push(Fail { field: "f64", what: "TryFrom<usize>".into(), input: format!("{:x}", x), expected: format!("{:?}", want), actual: format!("{:?}", got) }); }
                }
                for x in [0u64, 1, u64::MAX, M64, 1 << 63] {
                    if f128::BaseElement::from(x).to_u128() != x as u128 { fails.push(Fail { field: "f128", what: "From<u64>".into(), input: format!("{:x}", x), expected: format!("{:x}", x), actual: "differs".into() }); }
                }
                // f128 has no cubic extension: is_supported() is false and the three stubs are unimplemented!()
                {
                    use winter_math::ExtensibleField;
                    type E = f128::BaseElement;
                    let one = [E::ONE; 3];
                    let sup = <E as ExtensibleField<3>>::is_supported();
                    let p1 = catch(|| <E as ExtensibleField<3>>::mul(one, one)).is_err();
                    let p2 = catch(|| <E as ExtensibleField<3>>::mul_base(one, E::ONE)).is_err();
                    let p3 = catch(|| <E as ExtensibleField<3>>::frobenius(one)).is_err();
                    if sup || !(p1 && p2 && p3) { fails.push(Fail { field: "f128", what: "cubic extension stubs".into(), input: "ExtensibleField<3>".into(), expected: "unsupported, unimplemented".into(), actual: format!("is_supported={} panics={},{},{}", sup, p1, p2, p3) }); }
                    evals += 4;
                }
                conv64::<f64::BaseElement>(&mut r, &mut fails);
                conv64::<f62::BaseElement>(&mut r, &mut fails);
                conv_bytes::<f64::BaseElement>(&mut r, &mut fails);
                conv_bytes::<f62::BaseElement>(&mut r, &mut fails);
                conv_bytes::<f128::BaseElement>(&mut r, &mut fails);
                (fails, evals)
            }, |cur| {
                println!("{{\"field\":\"?\",\"what\":\"operation does not terminate (no progress for 5 s)\",\"input\":{},\"expected\":\"returns\",\"actual\":\"hang\"}}", jstr(&cur));
            });
            for f in &fails {
                println!("{{\"field\":{},\"what\":{},\"input\":{},\"expected\":{},\"actual\":{}}}", jstr(f.field), jstr(&f.what), jstr(&f.input), jstr(&f.expected), jstr(&f.actual));
            }
            eprintln!("evaluations={} failures={}", evals, fails.len() + unsafe { EMITTED });
        }
        _ => { eprintln!("usage: c07 corr|falsify <seed> <n>"); std::process::exit(2); }
    }
}
