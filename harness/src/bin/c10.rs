//! scratch replay of known C10 defects (will be replaced by the full harness)
use wf_harness::{catch, silence_panics, toy::{ToyDigest, ToyHasher}};
use winter_crypto::{BatchMerkleProof, MerkleTree};
use winter_math::fields::f64::BaseElement;
use winter_utils::SliceReader;
type H = ToyHasher<BaseElement>;
fn cl(p: &BatchMerkleProof<H>) -> BatchMerkleProof<H> { BatchMerkleProof { leaves: p.leaves.clone(), nodes: p.nodes.clone(), depth: p.depth } }
fn main() {
    silence_panics();
    let leaves: Vec<ToyDigest> = (0..4u64).map(ToyDigest::from_u64).collect();
    let t = MerkleTree::<H>::new(leaves.clone()).unwrap();
    let root = *t.root();
    let p = t.prove(2).unwrap();
    println!("verify len1: {:?}", catch(|| MerkleTree::<H>::verify(root, 2, &p[..1])).map_err(|_| "panic"));
    println!("verify len0: {:?}", catch(|| MerkleTree::<H>::verify(root, 2, &p[..0])).map_err(|_| "panic"));
    println!("verify idx+4: {:?}", catch(|| MerkleTree::<H>::verify(root, 6, &p)).map_err(|_| "panic"));
    println!("verify idx max: {:?}", catch(|| MerkleTree::<H>::verify(root, usize::MAX, &p)).map_err(|_| "panic"));
    let long: Vec<ToyDigest> = (0..66u64).map(ToyDigest::from_u64).collect();
    println!("verify len66: {:?}", catch(|| MerkleTree::<H>::verify(root, 2, &long)).map_err(|_| "panic"));
    let bp = t.prove_batch(&[1, 2]).unwrap();
    for depth in [0u8, 1, 2, 3, 63, 64, 200] {
        let mut q = cl(&bp); q.depth = depth;
        let q2 = cl(&q);
        println!("depth {} get_root: {:?}  into_paths: {:?}", depth,
            catch(move || q.get_root(&[1, 2])).map_err(|_| "panic"),
            catch(move || q2.into_paths(&[1, 2]).map(|v| v.len())).map_err(|_| "panic"));
    }
    // deserialized with a hostile depth
    let bytes = bp.serialize_nodes();
    let mut r = SliceReader::new(&bytes);
    let q = BatchMerkleProof::<H>::deserialize(&mut r, bp.leaves.clone(), 64).unwrap();
    let q2 = cl(&q);
    println!("deser depth64 get_root: {:?}", catch(move || q.get_root(&[1, 2])).map_err(|_| "panic"));
    println!("deser depth64 verify_batch: {:?}", catch(move || MerkleTree::<H>::verify_batch(&root, &[1, 2], &q2)).map_err(|_| "panic"));
    let q = cl(&bp);
    println!("into_paths idx max: {:?}", catch(move || q.into_paths(&[usize::MAX, 2]).map(|v| v.len())).map_err(|_| "panic"));
    let q = cl(&bp);
    println!("get_root idx max: {:?}", catch(move || q.get_root(&[usize::MAX, 2])).map_err(|_| "panic"));
}
