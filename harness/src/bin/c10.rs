//! C10 harness: Merkle tree openings (single paths, batch proofs, path <-> batch conversion, node codec).
//!   c10 corr <seed> <n> [thorough]  -> lines "<case> => <impl result>" (ToyHasher; protocol of ocaml/c10_driver.ml)
//!   c10 falsify <seed> <n>          -> JSON lines, one per property failure found against a naive recomputation
use std::collections::BTreeMap;
use std::io::Write as _;
use std::panic::AssertUnwindSafe as AUS;

use wf_harness::{catch, hex_bytes, jstr, prng::Rng, silence_panics, toy::{ToyDigest, ToyHasher}};
use winter_crypto::{build_merkle_nodes, hashers::*, BatchMerkleProof, Hasher, MerkleTree, MerkleTreeError};
use winter_math::fields::f64;
use winter_utils::{ByteReader, Serializable, SliceReader};

type Toy = ToyHasher<f64::BaseElement>;
type TD = ToyDigest;
type PanicOr<T> = Result<T, String>;
type MRes<T> = PanicOr<Result<T, MerkleTreeError>>;

// ================================================================================================ formatting
fn l_<T>(v: &[T], f: impl Fn(&T) -> String) -> String {
    if v.is_empty() { "-".into() } else { v.iter().map(f).collect::<Vec<_>>().join(",") }
}
fn ll_<T>(v: &[Vec<T>], f: impl Fn(&T) -> String + Copy) -> String {
    if v.is_empty() { "~".into() } else { v.iter().map(|g| l_(g, f)).collect::<Vec<_>>().join(";") }
}
fn hd(d: &TD) -> String { format!("{:x}", d.to_u64()) }
fn ld(v: &[TD]) -> String { l_(v, hd) }
fn lld(v: &[Vec<TD>]) -> String { ll_(v, hd) }
fn li(v: &[usize]) -> String { l_(v, |x| format!("{:x}", x)) }
fn gd<D: Serializable>(d: &D) -> String { hex_bytes(&d.to_bytes()) }
fn er(e: &MerkleTreeError) -> String {
    use MerkleTreeError::*;
    match e {
        TooFewLeaves(a, b) => format!("err:TooFewLeaves({:x},{:x})", a, b),
        NumberOfLeavesNotPowerOfTwo(a) => format!("err:NumberOfLeavesNotPowerOfTwo({:x})", a),
        LeafIndexOutOfBounds(a, b) => format!("err:LeafIndexOutOfBounds({:x},{:x})", a, b),
        DuplicateLeafIndex => "err:DuplicateLeafIndex".into(),
        TooFewLeafIndexes => "err:TooFewLeafIndexes".into(),
        TooManyLeafIndexes(a, b) => format!("err:TooManyLeafIndexes({:x},{:x})", a, b),
        InvalidProof => "err:InvalidProof".into(),
    }
}
fn show<T>(r: &MRes<T>, f: impl FnOnce(&T) -> String) -> String {
    match r { Err(_) => "panic".into(), Ok(Err(e)) => er(e), Ok(Ok(v)) => f(v) }
}

// ================================================================================================ openings + mutations
struct Opening<H: Hasher> { root: H::Digest, n: usize, idx: Vec<usize>, leaves: Vec<H::Digest>, nodes: Vec<Vec<H::Digest>>, depth: u8 }

impl<H: Hasher> Opening<H> {
    fn dup(&self) -> Self {
        Opening { root: self.root, n: self.n, idx: self.idx.clone(), leaves: self.leaves.clone(), nodes: self.nodes.clone(), depth: self.depth }
    }
    fn proof(&self) -> BatchMerkleProof<H> {
        BatchMerkleProof { leaves: self.leaves.clone(), nodes: self.nodes.clone(), depth: self.depth }
    }
    fn of(root: H::Digest, n: usize, idx: &[usize], p: &BatchMerkleProof<H>) -> Self {
        Opening { root, n, idx: idx.to_vec(), leaves: p.leaves.clone(), nodes: p.nodes.clone(), depth: p.depth }
    }
    fn get_root(&self) -> MRes<H::Digest> { let p = self.proof(); catch(AUS(|| p.get_root(&self.idx))) }
    fn verify_batch(&self) -> MRes<()> { let p = self.proof(); catch(AUS(|| MerkleTree::<H>::verify_batch(&self.root, &self.idx, &p))) }
    fn into_paths(&self) -> MRes<Vec<Vec<H::Digest>>> { let p = self.proof(); catch(AUS(|| p.into_paths(&self.idx))) }
    fn describe(&self) -> String {
        format!("idx={} proof.leaves={} proof.nodes={} depth={}", li(&self.idx), l_(&self.leaves, gd), ll_(&self.nodes, gd), self.depth)
    }
}

#[derive(Clone, Debug, PartialEq)]
enum Mut {
    Leaf(usize), Node(usize, usize), DelNode(usize, usize), AddNode(usize), DelVec(usize), AddEmptyVec, AddVec,
    LeavesShort, LeavesExt, Depth(u8), IdxTo(usize, usize), Swap(usize, usize), DropIdx(usize), AppendIdx(usize), Reverse,
}

fn fresh<H: Hasher>(r: &mut Rng, avoid: &H::Digest) -> H::Digest {
    loop { let d = H::hash(&r.bytes(9)); if d != *avoid { return d; } }
}

/// All single-step mutations of a batch opening (every one changes the opening).
fn batch_muts<H: Hasher>(o: &Opening<H>, r: &mut Rng) -> Vec<Mut> {
    let mut v = Vec::new();
    let k = o.idx.len();
    for i in 0..o.leaves.len() { v.push(Mut::Leaf(i)); }
    for (i, g) in o.nodes.iter().enumerate() {
        for j in 0..g.len() { v.push(Mut::Node(i, j)); v.push(Mut::DelNode(i, j)); }
        v.push(Mut::AddNode(i));
        v.push(Mut::DelVec(i));
    }
    v.extend([Mut::AddEmptyVec, Mut::AddVec, Mut::LeavesShort, Mut::LeavesExt]);
    let mut ds: Vec<u8> = (0..=o.depth.saturating_add(2)).collect();
    for x in [63u8, 64, 65, 128, 255] { if !ds.contains(&x) { ds.push(x); } }
    v.extend(ds.into_iter().filter(|&x| x != o.depth).map(Mut::Depth));
    let mut queried = vec![false; o.n];
    for &i in &o.idx { if i < o.n { queried[i] = true; } }
    let unq: Vec<usize> = (0..o.n).filter(|&x| !queried[x]).collect();
    for p in 0..k {
        if !unq.is_empty() { v.push(Mut::IdxTo(p, *r.pick(&unq))); }
        if k >= 2 { let mut q = r.below(k as u64 - 1) as usize; if q >= p { q += 1; } v.push(Mut::IdxTo(p, o.idx[q])); }
        v.push(Mut::IdxTo(p, o.n));
        v.push(Mut::IdxTo(p, usize::MAX));
        v.push(Mut::DropIdx(p));
    }
    if k >= 2 {
        let i = r.below(k as u64 - 1) as usize;
        v.push(Mut::Swap(i, i + 1));
        let a = r.below(k as u64) as usize;
        let mut b = r.below(k as u64 - 1) as usize; if b >= a { b += 1; }
        if !(a.min(b) == i && a.max(b) == i + 1) { v.push(Mut::Swap(a, b)); }
        if k >= 3 { v.push(Mut::Reverse); }
    }
    v.push(Mut::AppendIdx(if unq.is_empty() { o.n } else { *r.pick(&unq) }));
    v
}

fn apply<H: Hasher>(o: &Opening<H>, m: &Mut, r: &mut Rng) -> Opening<H> {
    let mut q = o.dup();
    let zero = H::Digest::default();
    match *m {
        Mut::Leaf(k) => q.leaves[k] = fresh::<H>(r, &o.leaves[k]),
        Mut::Node(i, j) => q.nodes[i][j] = fresh::<H>(r, &o.nodes[i][j]),
        Mut::DelNode(i, j) => { q.nodes[i].remove(j); }
        Mut::AddNode(i) => q.nodes[i].push(fresh::<H>(r, &zero)),
        Mut::DelVec(i) => { q.nodes.remove(i); }
        Mut::AddEmptyVec => q.nodes.push(vec![]),
        Mut::AddVec => q.nodes.push(vec![fresh::<H>(r, &zero)]),
        Mut::LeavesShort => { q.leaves.pop(); }
        Mut::LeavesExt => q.leaves.push(fresh::<H>(r, &zero)),
        Mut::Depth(d) => q.depth = d,
        Mut::IdxTo(k, v) => q.idx[k] = v,
        Mut::Swap(i, j) => q.idx.swap(i, j),
        Mut::DropIdx(k) => { q.idx.remove(k); }
        Mut::AppendIdx(v) => q.idx.push(v),
        Mut::Reverse => q.idx.reverse(),
    }
    q
}

#[derive(Clone, Debug)]
enum SMut { Pos(usize), Index(usize), Trunc(usize), Extend(usize), Hostile(usize), Root }

fn single_muts(n: usize, i: usize, len: usize, r: &mut Rng) -> Vec<SMut> {
    let mut v: Vec<SMut> = (0..len).map(SMut::Pos).collect();
    if n <= 8 {
        v.extend((0..n).filter(|&x| x != i).map(SMut::Index));
    } else {
        let mut c = vec![i ^ 1, i ^ 2, i ^ (n >> 1), (i + 1) % n, r.below(n as u64) as usize];
        c.sort(); c.dedup();
        v.extend(c.into_iter().filter(|&x| x != i).map(SMut::Index));
    }
    v.extend([SMut::Index(i + n), SMut::Index(i + 2 * n), SMut::Index(usize::MAX)]);
    v.extend((0..len).map(SMut::Trunc));
    v.extend([SMut::Extend(1), SMut::Extend(2), SMut::Hostile(64), SMut::Hostile(65), SMut::Hostile(66), SMut::Hostile(70), SMut::Root]);
    v
}

fn apply_single<H: Hasher>(root: H::Digest, i: usize, path: &[H::Digest], m: &SMut, r: &mut Rng) -> (H::Digest, usize, Vec<H::Digest>) {
    let mut p = path.to_vec();
    let (mut root, mut i) = (root, i);
    let zero = H::Digest::default();
    match *m {
        SMut::Pos(j) => p[j] = fresh::<H>(r, &path[j]),
        SMut::Index(v) => i = v,
        SMut::Trunc(l) => p.truncate(l),
        SMut::Extend(e) => for _ in 0..e { p.push(fresh::<H>(r, &zero)); },
        SMut::Hostile(l) => while p.len() < l { p.push(fresh::<H>(r, &zero)); },
        SMut::Root => root = fresh::<H>(r, &root),
    }
    (root, i, p)
}

// ================================================================================================ random index lists
fn shuffle<T>(r: &mut Rng, v: &mut [T]) {
    for i in (1..v.len()).rev() { let j = r.below(i as u64 + 1) as usize; v.swap(i, j); }
}
fn subset(r: &mut Rng, n: usize, k: usize) -> Vec<usize> {
    let mut v: Vec<usize> = (0..n).collect();
    shuffle(r, &mut v);
    v.truncate(k);
    v
}
fn perms(v: &[usize]) -> Vec<Vec<usize>> {
    if v.len() <= 1 { return vec![v.to_vec()]; }
    let mut out = Vec::new();
    for i in 0..v.len() {
        let mut rest = v.to_vec();
        let x = rest.remove(i);
        for mut p in perms(&rest) { p.insert(0, x); out.push(p); }
    }
    out
}
/// Structured index list for a tree with n leaves: at most 255 distinct in-range positions.
fn gen_list(r: &mut Rng, n: usize) -> Vec<usize> {
    let cap = n.min(255);
    let mut v: Vec<usize> = match r.below(16) {
        0..=7 => { let k = if r.chance(2, 3) { 1 + r.below(cap.min(8) as u64) } else { 1 + r.below(cap as u64) } as usize; subset(r, n, k) }
        8 | 9 => { let m = 1 + r.below((n / 2).min(6) as u64) as usize; subset(r, n / 2, m).into_iter().flat_map(|p| [2 * p, 2 * p + 1]).collect() }
        10 => (0..n).step_by(2).collect(),
        11 => (1..n).step_by(2).collect(),
        12 | 13 => { let s = r.below(n as u64) as usize; let l = 1 + r.below(cap.min(n - s) as u64) as usize; (s..s + l).collect() }
        14 => { let mut v: Vec<usize> = (0..n).collect(); if n > cap { v.remove(r.below(n as u64) as usize); } v }
        _ => { let k = cap - r.below(cap.min(4) as u64) as usize; subset(r, n, k) }
    };
    if r.chance(3, 4) { shuffle(r, &mut v); } else { v.sort(); }
    v
}

// ================================================================================================ corr
struct Out { w: std::io::BufWriter<std::io::Stdout>, n: usize }
impl Out {
    fn put(&mut self, case: &str, res: &str) { writeln!(self.w, "{} => {}", case, res).unwrap(); self.n += 1; }
}

fn rand_leaves(r: &mut Rng, n: usize) -> Vec<TD> { (0..n).map(|_| TD::from_u64(r.next_u64())).collect() }

fn c_new(o: &mut Out, leaves: &[TD]) {
    let r = catch(AUS(|| MerkleTree::<Toy>::new(leaves.to_vec())));
    let s = show(&r, |t| match catch(AUS(|| build_merkle_nodes::<Toy>(leaves))) {
        Ok(nd) if nd.len() > 1 && nd[1] == *t.root() => format!("ok {} {}", hd(t.root()), ld(&nd)),
        _ => "ok-but-root-is-not-nodes[1]".into(),
    });
    o.put(&format!("new {}", ld(leaves)), &s);
}
fn c_build(o: &mut Out, leaves: &[TD]) {
    let s = match catch(AUS(|| build_merkle_nodes::<Toy>(leaves))) { Ok(nd) => format!("ok {}", ld(&nd)), Err(_) => "panic".into() };
    o.put(&format!("build_nodes {}", ld(leaves)), &s);
}
fn c_prove(o: &mut Out, t: &MerkleTree<Toy>, ls: &str, i: usize) -> Option<Vec<TD>> {
    let r = catch(AUS(|| t.prove(i)));
    o.put(&format!("prove {} {:x}", ls, i), &show(&r, |p| format!("ok {}", ld(p))));
    r.ok().and_then(|x| x.ok())
}
fn c_verify(o: &mut Out, root: TD, i: usize, path: &[TD]) {
    let r = catch(AUS(|| MerkleTree::<Toy>::verify(root, i, path)));
    o.put(&format!("verify {} {:x} {}", hd(&root), i, ld(path)), &show(&r, |_| "ok".into()));
}
fn c_prove_batch(o: &mut Out, t: &MerkleTree<Toy>, ls: &str, idx: &[usize]) -> Option<Opening<Toy>> {
    let r = catch(AUS(|| t.prove_batch(idx)));
    let s = show(&r, |p| {
        let b = match catch(AUS(|| p.serialize_nodes())) { Ok(b) => hex_bytes(&b), Err(_) => "panic".into() };
        format!("ok {} {} {:x} {}", ld(&p.leaves), lld(&p.nodes), p.depth, b)
    });
    o.put(&format!("prove_batch {} {}", ls, li(idx)), &s);
    r.ok().and_then(|x| x.ok()).map(|p| Opening::of(*t.root(), t.leaves().len(), idx, &p))
}
fn bp_case(q: &Opening<Toy>) -> String { format!("{} {} {:x} {}", ld(&q.leaves), lld(&q.nodes), q.depth, li(&q.idx)) }
fn c_get_root(o: &mut Out, q: &Opening<Toy>) {
    o.put(&format!("get_root {}", bp_case(q)), &show(&q.get_root(), |x| format!("ok {}", hd(x))));
}
fn c_verify_batch(o: &mut Out, q: &Opening<Toy>) {
    o.put(&format!("verify_batch {} {}", hd(&q.root), bp_case(q)), &show(&q.verify_batch(), |_| "ok".into()));
}
fn c_into_paths(o: &mut Out, q: &Opening<Toy>) -> Option<Vec<Vec<TD>>> {
    let r = q.into_paths();
    o.put(&format!("into_paths {}", bp_case(q)), &show(&r, |ps| format!("ok {}", lld(ps))));
    r.ok().and_then(|x| x.ok())
}
fn c_from_paths(o: &mut Out, paths: &[Vec<TD>], idx: &[usize]) {
    let s = match catch(AUS(|| BatchMerkleProof::<Toy>::from_paths(paths, idx))) {
        Ok(p) => format!("ok {} {} {:x}", ld(&p.leaves), lld(&p.nodes), p.depth),
        Err(_) => "panic".into(),
    };
    o.put(&format!("from_paths {} {}", lld(paths), li(idx)), &s);
}
fn c_ser(o: &mut Out, nodes: &[Vec<TD>]) {
    let p = BatchMerkleProof::<Toy> { leaves: vec![], nodes: nodes.to_vec(), depth: 1 };
    let s = match catch(AUS(|| p.serialize_nodes())) { Ok(b) => format!("ok {}", hex_bytes(&b)), Err(_) => "panic".into() };
    o.put(&format!("ser {}", lld(nodes)), &s);
}
fn c_deser(o: &mut Out, bytes: &[u8], leaves: &[TD], depth: u8) {
    let r = catch(AUS(|| {
        let mut rd = SliceReader::new(bytes);
        BatchMerkleProof::<Toy>::deserialize(&mut rd, leaves.to_vec(), depth).map(|p| {
            let mut unread = 0usize;
            while rd.read_u8().is_ok() { unread += 1; }
            (p, unread)
        })
    }));
    let s = match r { Err(_) => "panic".into(), Ok(Err(_)) => "err".into(), Ok(Ok((p, u))) => format!("ok {} {}", lld(&p.nodes), u) };
    o.put(&format!("deser {} {} {:x}", hex_bytes(bytes), ld(leaves), depth), &s);
}

/// The five operations on one index list; `ops` selects a subset (bit0 prove_batch .. bit4 from_paths).
fn five(o: &mut Out, t: &MerkleTree<Toy>, ls: &str, idx: &[usize], ops: u8) -> Option<(Opening<Toy>, Vec<Vec<TD>>)> {
    let q = if ops & 1 != 0 { c_prove_batch(o, t, ls, idx)? } else { Opening::of(*t.root(), t.leaves().len(), idx, &t.prove_batch(idx).ok()?) };
    if ops & 2 != 0 { c_get_root(o, &q); }
    if ops & 4 != 0 { c_verify_batch(o, &q); }
    let paths = if ops & 8 != 0 { c_into_paths(o, &q)? } else { q.into_paths().ok()?.ok()? };
    if ops & 16 != 0 { c_from_paths(o, &paths, idx); }
    Some((q, paths))
}

fn mutate_batch(o: &mut Out, r: &mut Rng, q: &Opening<Toy>, sample: Option<usize>, all_ops: bool, rot: &mut usize) {
    let mut ms = batch_muts(q, r);
    if let Some(k) = sample { if ms.len() > k { shuffle(r, &mut ms); ms.truncate(k); } }
    for m in &ms {
        let x = apply(q, m, r);
        let sel = if all_ops { 7 } else { *rot += 1; 1u8 << (*rot % 3) };
        if sel & 1 != 0 { c_get_root(o, &x); }
        if sel & 2 != 0 { c_into_paths(o, &x); }
        if sel & 4 != 0 { c_verify_batch(o, &x); }
    }
}

fn mutate_single(o: &mut Out, r: &mut Rng, root: TD, n: usize, i: usize, path: &[TD]) {
    for m in single_muts(n, i, path.len(), r) {
        let (rt, i2, p2) = apply_single::<Toy>(root, i, path, &m, r);
        c_verify(o, rt, i2, &p2);
    }
}

fn mutate_from_paths(o: &mut Out, r: &mut Rng, paths: &[Vec<TD>], idx: &[usize]) {
    let k = paths.len();
    let p = r.below(k as u64) as usize;
    let mut x = paths.to_vec(); x[p].pop(); c_from_paths(o, &x, idx);
    let mut x = paths.to_vec(); x[p].push(TD::from_u64(r.next_u64())); c_from_paths(o, &x, idx);
    for l in 0..3 { let x: Vec<Vec<TD>> = paths.iter().map(|q| q[..l.min(q.len())].to_vec()).collect(); c_from_paths(o, &x, idx); }
    c_from_paths(o, &paths[..k - 1], idx);
    c_from_paths(o, paths, &idx[..k - 1]);
    let mut i2 = idx.to_vec(); i2.push(r.below(8) as usize); c_from_paths(o, paths, &i2);
    if k >= 2 {
        let mut i2 = idx.to_vec(); i2[1] = i2[0]; c_from_paths(o, paths, &i2);
        let mut i2 = idx.to_vec(); i2.swap(0, k - 1); c_from_paths(o, paths, &i2);
        let mut i2 = idx.to_vec(); i2.reverse(); c_from_paths(o, paths, &i2);
        let mut i2 = idx.to_vec(); shuffle(r, &mut i2); c_from_paths(o, paths, &i2);
    }
    let mut i2 = idx.to_vec(); i2[p] = usize::MAX; c_from_paths(o, paths, &i2);
    let mut i2 = idx.to_vec(); i2[p] ^= 1; c_from_paths(o, paths, &i2);
}

fn corr(seed: u64, n: usize, thorough: bool) {
    let r = &mut Rng::new(seed);
    let o = &mut Out { w: std::io::BufWriter::with_capacity(1 << 20, std::io::stdout()), n: 0 };
    let mut sizes = Vec::new();
    let mark = |o: &Out, sizes: &mut Vec<usize>| { let prev: usize = sizes.iter().sum(); sizes.push(o.n - prev); };

    // ---------------------------------------------------------------- A: boundary
    for k in [0usize, 1, 2, 3, 4, 5, 6, 7, 8, 9, 16] {
        let l = rand_leaves(r, k);
        c_new(o, &l);
        c_build(o, &l);
    }
    let mut singles: Vec<(TD, usize, usize, Vec<TD>)> = Vec::new(); // (root, n, index, honest path)
    for d in 1..=8u32 {
        let nl = 1usize << d;
        for variant in 0..3 {
            let leaves: Vec<TD> = match variant { 0 => rand_leaves(r, nl), 1 => vec![TD::from_u64(r.next_u64()); nl], _ => (0..nl as u64).map(TD::from_u64).collect() };
            c_new(o, &leaves);
            c_build(o, &leaves);
            let Ok(t) = MerkleTree::<Toy>::new(leaves.clone()) else { continue };
            let ls = ld(&leaves);
            let mut is: Vec<usize> = if nl <= 16 { (0..nl + 2).collect() } else { vec![0, 1, nl - 2, nl - 1, nl, nl + 1, r.below(nl as u64) as usize, r.below(nl as u64) as usize] };
            is.extend([usize::MAX, 1 << 63, nl + r.below(1 << 40) as usize]);
            for i in is {
                if let Some(p) = c_prove(o, &t, &ls, i) {
                    c_verify(o, *t.root(), i, &p);
                    if variant == 0 && (nl <= 8 || r.chance(1, 3)) { singles.push((*t.root(), nl, i, p)); }
                }
            }
        }
    }
    mark(o, &mut sizes);

    // ---------------------------------------------------------------- B: exhaustive batch openings
    let mut honest: Vec<(Opening<Toy>, Vec<Vec<TD>>, bool)> = Vec::new(); // n <= 8: every subset (flag: sorted list); 16: sample
    let mut honest_big: Vec<(Opening<Toy>, Vec<Vec<TD>>)> = Vec::new();
    for nl in [2usize, 4, 8, 16] {
        if nl == 16 && !thorough { continue; }
        let leaves = rand_leaves(r, nl);
        let t = MerkleTree::<Toy>::new(leaves.clone()).unwrap();
        let ls = ld(&leaves);
        for mask in 1u32..(1 << nl) {
            let sorted: Vec<usize> = (0..nl).filter(|i| mask >> i & 1 == 1).collect();
            let lists: Vec<Vec<usize>> = if nl <= 4 {
                let mut p = perms(&sorted); p.retain(|x| *x != sorted); p.insert(0, sorted.clone()); p
            } else if sorted.len() >= 2 {
                let mut p = sorted.clone();
                while p == sorted { shuffle(r, &mut p); }
                vec![sorted.clone(), p]
            } else { vec![sorted.clone()] };
            let keep = r.below(lists.len() as u64) as usize;
            for (j, idx) in lists.iter().enumerate() {
                let ops = if nl < 16 { 31 } else if j == 0 { 1 | 2 | 8 | 16 } else { 1 | 2 | 8 };
                if let Some(h) = five(o, &t, &ls, idx, ops) {
                    if nl <= 8 { if thorough || j == keep { honest.push((h.0, h.1, j == 0)); } } else if j == keep && r.chance(1, 200) { honest_big.push(h); }
                }
            }
        }
    }
    mark(o, &mut sizes);

    // ---------------------------------------------------------------- C: random batch openings on larger trees
    let n_c = n.min(2000);
    for (ti, nl) in [16usize, 32, 64, 128, 256].into_iter().enumerate() {
        let leaves = rand_leaves(r, nl);
        let t = MerkleTree::<Toy>::new(leaves.clone()).unwrap();
        let ls = ld(&leaves);
        let per = (n_c / 5).max(8);
        for j in 0..per {
            let idx = gen_list(r, nl);
            if let Some(h) = five(o, &t, &ls, &idx, 31) { if j % 10 == ti % 10 || idx.len() == 255 && r.chance(1, 4) { honest_big.push(h); } }
        }
        // malformed index lists: count limits first, then range, then duplicates
        let base = Opening::of(*t.root(), nl, &[0, 1], &t.prove_batch(&[0, 1]).unwrap());
        let mut bad: Vec<Vec<usize>> = vec![
            vec![], (0..256).map(|i| i % nl).collect(), (0..300).map(|i| i % nl).collect(), (0..256).map(|i| i + nl).collect(),
            vec![0, 0], vec![3, 1, 3], vec![nl - 1, 2, 2, 5, nl - 1], vec![nl], vec![nl + 1], vec![usize::MAX], vec![1 << 63],
            vec![0, nl], vec![nl, 0], vec![nl, nl], vec![0, 0, nl], vec![0, nl, 0], vec![1, usize::MAX, 1], vec![usize::MAX, usize::MAX - 1],
            (0..255).map(|i| i % nl).collect(),
        ];
        let mut v = subset(r, nl, 5.min(nl)); let dup = v[r.below(v.len() as u64) as usize]; v.push(dup); shuffle(r, &mut v); bad.push(v);
        for idx in &bad {
            c_prove_batch(o, &t, &ls, idx);
            let mut q = base.dup(); q.idx = idx.clone();
            c_get_root(o, &q);
            c_into_paths(o, &q);
            c_verify_batch(o, &q);
        }
    }
    mark(o, &mut sizes);

    // ---------------------------------------------------------------- D: mutations
    for (root, nl, i, p) in &singles { mutate_single(o, r, *root, *nl, *i, p); }
    let mut rot = 0usize;
    for (q, paths, sorted) in &honest {
        mutate_batch(o, r, q, None, (thorough && *sorted) || q.n <= 4, &mut rot);
        if q.n <= 4 || r.chance(1, 8) { mutate_from_paths(o, r, paths, &q.idx); }
    }
    let cap_big = if thorough { 200 } else { 40 };
    if honest_big.len() > cap_big { shuffle(r, &mut honest_big); honest_big.truncate(cap_big); }
    for (q, paths) in &honest_big {
        mutate_batch(o, r, q, Some(if thorough { 40 } else { 36 }), thorough, &mut rot);
        if q.idx.len() <= 40 { mutate_from_paths(o, r, paths, &q.idx); }
    }
    // shapes of from_paths that do not derive from an honest opening
    c_from_paths(o, &[], &[]);
    c_from_paths(o, &[], &[0]);
    let leaves = rand_leaves(r, 256);
    let t = MerkleTree::<Toy>::new(leaves).unwrap();
    let all: Vec<Vec<TD>> = (0..256).map(|i| t.prove(i).unwrap()).collect();
    let ids: Vec<usize> = (0..256).collect();
    c_from_paths(o, &all, &ids);
    c_from_paths(o, &all[..255], &ids[..255]);
    c_from_paths(o, &all[1..], &ids[1..]);
    let rep: Vec<Vec<TD>> = (0..256).map(|_| all[7].clone()).collect();
    c_from_paths(o, &rep, &vec![7; 256]);
    c_from_paths(o, &rep[..3], &[7, 7, 7]);
    for l in [256usize, 257, 258, 259, 513] {
        let long: Vec<TD> = rand_leaves(r, l);
        c_from_paths(o, &[long.clone()], &[r.below(4) as usize]);
        c_from_paths(o, &[long.clone(), long.clone()], &[2, 3]);
        c_from_paths(o, &[long.clone(), long], &[1, 2]);
    }
    mark(o, &mut sizes);

    // ---------------------------------------------------------------- E: node codec
    let mut pool: Vec<&Opening<Toy>> = honest.iter().map(|h| &h.0).filter(|q| q.n >= 4).collect();
    shuffle(r, &mut pool);
    pool.truncate(if thorough { 200 } else { 40 });
    pool.extend(honest_big.iter().map(|h| &h.0).take(if thorough { 60 } else { 12 }));
    for (j, q) in pool.iter().enumerate() {
        let bytes = q.proof().serialize_nodes();
        c_ser(o, &q.nodes);
        c_deser(o, &bytes, &q.leaves, q.depth);
        let mut g = bytes.clone(); let extra = 1 + r.below(9) as usize; g.extend(r.bytes(extra)); c_deser(o, &g, &q.leaves, q.depth);
        for delta in [1u8, 255, 128] {
            let mut g = bytes.clone(); g[0] = g[0].wrapping_add(delta); c_deser(o, &g, &q.leaves, q.depth);
            if g.len() > 1 { let mut g = bytes.clone(); g[1] = g[1].wrapping_add(delta); c_deser(o, &g, &q.leaves, q.depth); }
        }
        let mut g = bytes.clone(); let p = r.below(g.len() as u64) as usize; g[p] ^= 1 << r.below(8); c_deser(o, &g, &q.leaves, q.depth);
        c_deser(o, &bytes, &q.leaves, 0);
        c_deser(o, &bytes, &[], q.depth);
        c_deser(o, &bytes, &q.leaves, [1u8, 63, 64, 255][j % 4]);
        if j < 4 || (thorough && j < 12) { for l in 0..bytes.len() { c_deser(o, &bytes[..l], &q.leaves, q.depth); } }
        if j < 2 {
            c_deser(o, &bytes, &rand_leaves(r, 255), q.depth);
            c_deser(o, &bytes, &rand_leaves(r, 256), q.depth);
            c_deser(o, &bytes, &rand_leaves(r, 257), q.depth);
        }
    }
    for _ in 0..(n / 10).clamp(10, 200) {
        let l = r.below(40) as usize;
        let mut g = r.bytes(l);
        if l > 0 && r.chance(2, 3) { g[0] = r.below(4) as u8; for x in g.iter_mut().skip(1) { if r.chance(1, 3) { *x = r.below(3) as u8; } } }
        let (nl, dp) = (1 + r.below(3) as usize, 1 + r.below(5) as u8);
        c_deser(o, &g, &rand_leaves(r, nl), dp);
    }
    c_deser(o, &[], &rand_leaves(r, 1), 1);
    c_deser(o, &[0], &rand_leaves(r, 1), 1);
    c_deser(o, &[255], &rand_leaves(r, 1), 1);
    let mut g = vec![255u8]; g.extend(vec![0u8; 255]); c_deser(o, &g, &rand_leaves(r, 2), 3); g.push(7); c_deser(o, &g, &rand_leaves(r, 2), 3);
    let mut g = vec![1u8, 255]; g.extend(r.bytes(255 * 8)); c_deser(o, &g, &rand_leaves(r, 2), 3); g.pop(); c_deser(o, &g, &rand_leaves(r, 2), 3);
    c_ser(o, &[]);
    c_ser(o, &[vec![]]);
    c_ser(o, &vec![vec![]; 255]);
    c_ser(o, &vec![vec![]; 256]);
    c_ser(o, &vec![vec![]; 257]);
    c_ser(o, &[rand_leaves(r, 255)]);
    c_ser(o, &[rand_leaves(r, 256)]);
    c_ser(o, &[rand_leaves(r, 2), rand_leaves(r, 256), vec![]]);
    let mut v: Vec<Vec<TD>> = vec![vec![]; 255]; v.push(rand_leaves(r, 1)); c_ser(o, &v);
    mark(o, &mut sizes);
    o.w.flush().unwrap();
    eprintln!("stream sizes: A={} B={} C={} D={} E={}", sizes[0], sizes[1], sizes[2], sizes[3], sizes[4]);
}

// ================================================================================================ falsifier
struct Fz { evals: usize, fails: usize, suppressed: usize, seen: BTreeMap<String, usize> }
impl Fz {
    fn fail(&mut self, what: &str, hasher: &str, input: impl FnOnce() -> String, expected: &str, actual: String) {
        let c = self.seen.entry(format!("{}/{}", what, hasher)).or_insert(0);
        *c += 1;
        if *c > 5 { self.suppressed += 1; return; }
        self.fails += 1;
        println!("{{\"what\":{},\"hasher\":{},\"input\":{},\"expected\":{},\"actual\":{}}}", jstr(what), jstr(hasher), jstr(&input()), jstr(expected), jstr(&actual));
    }
}

/// Oracle: the root is the pairwise merge of all leaves, level by level.
fn naive_root<H: Hasher>(leaves: &[H::Digest]) -> H::Digest {
    let mut level = leaves.to_vec();
    while level.len() > 1 { level = level.chunks(2).map(|c| H::merge(&[c[0], c[1]])).collect(); }
    level[0]
}
/// Oracle: fold a path (leaf first) upwards; the position's bits say on which side the running value goes.
fn fold_path<H: Hasher>(mut i: usize, path: &[H::Digest]) -> Option<H::Digest> {
    if path.len() < 2 { return None; }
    let mut cur = path[0];
    for s in &path[1..] { cur = if i & 1 == 0 { H::merge(&[cur, *s]) } else { H::merge(&[*s, cur]) }; i >>= 1; }
    if i == 0 { Some(cur) } else { None }
}
fn short<T: std::fmt::Debug>(r: &MRes<T>) -> String {
    match r { Err(m) => format!("panic: {}", m), Ok(Err(e)) => er(e), Ok(Ok(v)) => { let mut s = format!("Ok({:?})", v); s.truncate(200); s } }
}

fn falsify_hasher<H: Hasher>(name: &str, real: bool, budget: usize, r: &mut Rng, fz: &mut Fz) {
    let end = fz.evals + budget;
    while fz.evals < end {
        let d = 1 + r.below(8) as usize;
        let n = 1usize << d;
        let leaves: Vec<H::Digest> = (0..n).map(|_| H::hash(&r.bytes(16))).collect();
        let lv = || format!("leaves={}", l_(&leaves, gd));
        let tree = match catch(AUS(|| MerkleTree::<H>::new(leaves.clone()))) {
            Ok(Ok(t)) => t,
            x => { fz.evals += 1; fz.fail("new", name, lv, "Ok(tree)", short(&x.map(|y| y.map(|_| ())))); continue; }
        };
        let root = *tree.root();
        let want = naive_root::<H>(&leaves);
        fz.evals += 1;
        if root != want { fz.fail("root", name, lv, &gd(&want), gd(&root)); }
        let rounds = [6, 6, 5, 4, 3, 2, 2, 1][d - 1];
        for _ in 0..rounds {
            // 2. single openings
            let i = r.below(n as u64) as usize;
            fz.evals += 1;
            let path = match catch(AUS(|| tree.prove(i))) {
                Ok(Ok(p)) => p,
                x => { fz.fail("prove", name, || format!("{} i={}", lv(), i), "Ok(path)", short(&x)); continue; }
            };
            let v = catch(AUS(|| MerkleTree::<H>::verify(root, i, &path)));
            if !matches!(v, Ok(Ok(()))) || path[0] != leaves[i] || path.len() != d + 1 || fold_path::<H>(i, &path) != Some(want) {
                fz.fail("prove/verify", name, || format!("{} i={} path={}", lv(), i, l_(&path, gd)), "Ok, leaf first, folds to naive root", short(&v));
            }
            // 3. batch openings
            let idx = gen_list(r, n);
            fz.evals += 1;
            let p = match catch(AUS(|| tree.prove_batch(&idx))) {
                Ok(Ok(p)) => p,
                x => { fz.fail("prove_batch", name, || format!("{} idx={}", lv(), li(&idx)), "Ok(proof)", short(&x.map(|y| y.map(|_| ())))); continue; }
            };
            let o = Opening::<H>::of(root, n, &idx, &p);
            let inp = || format!("{} {}", lv(), o.describe());
            let vb = o.verify_batch();
            if !matches!(vb, Ok(Ok(()))) { fz.fail("verify_batch-honest", name, inp, "Ok", short(&vb)); }
            let gr = o.get_root();
            if !matches!(&gr, Ok(Ok(x)) if *x == want) { fz.fail("get_root-honest", name, inp, &gd(&want), short(&gr)); }
            if p.leaves.len() != idx.len() || idx.iter().zip(&p.leaves).any(|(&i, l)| *l != leaves[i]) || p.depth as usize != d {
                fz.fail("prove_batch-leaves", name, inp, "proof.leaves[k] == leaves[idx[k]], depth == log2 n", "differs".into());
            }
            let singles: Vec<Vec<H::Digest>> = idx.iter().map(|&i| tree.prove(i).unwrap()).collect();
            let ip = o.into_paths();
            if !matches!(&ip, Ok(Ok(ps)) if *ps == singles) { fz.fail("into_paths-honest", name, inp, "the individual paths", short(&ip)); }
            match catch(AUS(|| BatchMerkleProof::<H>::from_paths(&singles, &idx))) {
                Ok(q) if q.leaves == p.leaves && q.nodes == p.nodes && q.depth == p.depth => {}
                Ok(q) => {
                    // from_paths orders the leaves by ascending position, prove_batch by the order of the index list
                    let mut sorted = idx.clone(); sorted.sort();
                    let by_pos: Vec<H::Digest> = sorted.iter().map(|&i| leaves[i]).collect();
                    let what = if q.leaves == by_pos && q.nodes == p.nodes && q.depth == p.depth { "from_paths-leaf-order" } else { "from_paths-honest" };
                    let qo = Opening::<H>::of(root, n, &idx, &q);
                    fz.fail(what, name, inp, "the batch proof (same leaves order, nodes, depth), verifying for idx", format!("{} ; verify_batch(root, idx, it) = {}", qo.describe(), short(&qo.verify_batch())));
                }
                Err(m) => fz.fail("from_paths-honest", name, inp, "the batch proof", format!("panic: {}", m)),
            }
            // 4. mutated openings must be rejected (acceptance only judged for collision-resistant hashers)
            for _ in 0..2 {
                fz.evals += 1;
                let ms = batch_muts(&o, r);
                let m = r.pick(&ms).clone();
                let x = apply(&o, &m, r);
                let inp = || format!("{} honest-idx={} mutation={:?} => {}", lv(), li(&idx), m, x.describe());
                let what = match m { Mut::AddNode(_) => "surplus-node-accepted", Mut::LeavesExt => "surplus-leaf-accepted", _ => "mutated-batch-accepted" };
                let oob = matches!(m, Mut::IdxTo(_, v) if v >= n) || matches!(m, Mut::AppendIdx(v) if v >= n);
                let g = x.get_root();
                match &g {
                    Err(_) => fz.fail("panic-get_root", name, inp, "Err", short(&g)),
                    Ok(Ok(_)) if oob => fz.fail("out-of-range-index-accepted", name, inp, "Err", short(&g)),
                    Ok(Ok(y)) if real && *y == root => fz.fail(what, name, inp, "get_root: Err or another root", short(&g)),
                    _ => {}
                }
                let g = x.verify_batch();
                match &g {
                    Err(_) => fz.fail("panic-verify_batch", name, inp, "Err", short(&g)),
                    Ok(Ok(())) if real || oob => fz.fail(what, name, inp, "verify_batch: Err", short(&g)),
                    _ => {}
                }
                let g = x.into_paths();
                match &g {
                    Err(_) => fz.fail("panic-into_paths", name, inp, "Err", short(&g)),
                    Ok(Ok(_)) if oob => fz.fail("out-of-range-index-accepted", name, inp, "into_paths: Err", short(&g)),
                    Ok(Ok(ps)) if real && ps.len() == x.idx.len() && ps.iter().zip(&x.idx).all(|(p, &i)| fold_path::<H>(i, p) == Some(root)) =>
                        fz.fail(what, name, inp, "into_paths: Err or paths that do not resolve to the root", short(&g)),
                    _ => {}
                }
            }
            fz.evals += 1;
            let ms = single_muts(n, i, path.len(), r);
            let m = r.pick(&ms).clone();
            let (rt, i2, p2) = apply_single::<H>(root, i, &path, &m, r);
            let g = catch(AUS(|| MerkleTree::<H>::verify(rt, i2, &p2)));
            let inp = || format!("{} i={} mutation={:?} => root={} index={:x} path={}", lv(), i, m, gd(&rt), i2, l_(&p2, gd));
            match &g {
                Err(_) => fz.fail("panic-verify", name, inp, "Err", short(&g)),
                Ok(Ok(())) if real => fz.fail("mutated-path-accepted", name, inp, "Err", short(&g)),
                _ => {}
            }
            // 5. garbage never panics
            for _ in 0..2 {
                fz.evals += 1;
                let rd = |r: &mut Rng| H::hash(&r.bytes(4));
                let depth = match r.below(10) { 0 => 0u8, 1 => 1, 2 => 2, 3 => 63, 4 => 64, 5 => 255, 6 => d as u8, _ => r.next_u64() as u8 };
                let nidx = r.below(7) as usize;
                let idx: Vec<usize> = (0..nidx).map(|_| match r.below(6) {
                    0 | 1 => r.below(8) as usize,
                    2 => (1usize.checked_shl(depth as u32).unwrap_or(0)).wrapping_sub(r.below(3) as usize),
                    3 => usize::MAX - r.below(3) as usize,
                    4 => (1usize << 63) + r.below(2) as usize,
                    _ => r.next_u64() as usize >> r.below(64),
                }).collect();
                let x = Opening::<H> {
                    root, n, idx, depth,
                    leaves: (0..r.below(6)).map(|_| rd(r)).collect(),
                    nodes: (0..r.below(6)).map(|_| (0..r.below(5)).map(|_| rd(r)).collect()).collect(),
                };
                let inp = || format!("garbage {}", x.describe());
                let g = x.get_root(); if g.is_err() { fz.fail("panic-get_root", name, inp, "no panic", short(&g)); }
                let g = x.verify_batch(); if g.is_err() { fz.fail("panic-verify_batch", name, inp, "no panic", short(&g)); }
                let g = x.into_paths(); if g.is_err() { fz.fail("panic-into_paths", name, inp, "no panic", short(&g)); }
                let pl = r.below(71) as usize;
                let path: Vec<H::Digest> = (0..pl).map(|_| rd(r)).collect();
                let i = match r.below(4) { 0 => r.below(8) as usize, 1 => usize::MAX, 2 => 1usize.checked_shl(pl as u32).unwrap_or(0).wrapping_sub(1 + r.below(2) as usize) >> 1, _ => r.next_u64() as usize >> r.below(64) };
                let g = catch(AUS(|| MerkleTree::<H>::verify(root, i, &path)));
                if g.is_err() { fz.fail("panic-verify", name, || format!("garbage index={:x} path={}", i, l_(&path, gd)), "no panic", short(&g)); }
            }
        }
    }
}

fn falsify(seed: u64, n: usize) {
    let r = &mut Rng::new(seed);
    let fz = &mut Fz { evals: 0, fails: 0, suppressed: 0, seen: BTreeMap::new() };
    // weights in 1/46ths: the Rescue hashers are ~20x slower
    let share = |w: usize| (n * w / 46).max(12);
    falsify_hasher::<Toy>("ToyHasher", false, share(10), r, fz);
    falsify_hasher::<Blake3_256<f64::BaseElement>>("Blake3_256", true, share(13), r, fz);
    falsify_hasher::<Blake3_192<f64::BaseElement>>("Blake3_192", true, share(10), r, fz);
    falsify_hasher::<Sha3_256<f64::BaseElement>>("Sha3_256", true, share(10), r, fz);
    falsify_hasher::<Rp64_256>("Rp64_256", true, share(1), r, fz);
    falsify_hasher::<RpJive64_256>("RpJive64_256", true, share(1), r, fz);
    falsify_hasher::<Rp62_248>("Rp62_248", true, share(1), r, fz);
    if fz.suppressed > 0 { eprintln!("suppressed {} repeated failures (more than 5 per what/hasher)", fz.suppressed); }
    println!("evaluations={} failures={}", fz.evals, fz.fails);
}

fn main() {
    silence_panics();
    let args: Vec<String> = std::env::args().collect();
    let mode = args.get(1).map(|s| s.as_str()).unwrap_or("");
    let seed: u64 = args.get(2).and_then(|s| s.parse().ok()).unwrap_or(1);
    let n: usize = args.get(3).and_then(|s| s.parse().ok()).unwrap_or(300);
    match mode {
        "corr" => corr(seed, n, args.get(4).map(|s| s == "thorough").unwrap_or(false)),
        "falsify" => falsify(seed, n),
        _ => { eprintln!("usage: c10 corr <seed> <n> [thorough] | c10 falsify <seed> <n>"); std::process::exit(2); }
    }
}
