//! C10 harness: Merkle tree openings (single paths, batch proofs, path <-> batch conversion, node codec).
//!   c10 corr <seed> <n> [thorough]  -> lines "<case> => <impl result>" (ToyHasher; protocol of ocaml/c10_driver.ml)
//!   c10 falsify <seed> <n>          -> JSON lines, one per property failure found against a naive recomputation
use std::collections::BTreeMap;
use std::io::Write as _;
use std::panic::AssertUnwindSafe as AUS;

use wf_harness::{catch, hex_bytes, jstr, prng::Rng, silence_panics, toy::{ToyDigest, ToyHasher}};
use winter_crypto::{build_merkle_nodes, hashers::*, BatchMerkleProof, Hasher, MerkleTree, MerkleTreeError};
use winter_math::fields::f64;
use winter_utils::{ByteReader, Serializable, SliceReader};

type Toy = ToyHasher<f64::BaseElement>;
type TD = ToyDigest;
type PanicOr<T> = Result<T, String>;
type MRes<T> = PanicOr<Result<T, MerkleTreeError>>;

// ================================================================================================ formatting
fn l_<T>(v: &[T], f: impl Fn(&T) -> String) -> String {
    if v.is_empty() { "-".into() } else { v.iter().map(f).collect::<Vec<_>>().join(",") }
}
fn ll_<T>(v: &[Vec<T>], f: impl Fn(&T) -> String + Copy) -> String {
    if v.is_empty() { "~".into() } else { v.iter().map(|g| l_(g, f)).collect::<Vec<_>>().join(";") }
}
fn hd(d: &TD) -> String { format!("{:x}", d.to_u64()) }
fn ld(v: &[TD]) -> String { l_(v, hd) }
fn lld(v: &[Vec<TD>]) -> String { ll_(v, hd) }
fn li(v: &[usize]) -> String { l_(v, |x| format!("{:x}", x)) }
fn gd<D: Serializable>(d: &D) -> String { hex_bytes(&d.to_bytes()) }
fn er(e: &MerkleTreeError) -> String {
    use MerkleTreeError::*;
    match e {
        TooFewLeaves(a, b) => format!("err:TooFewLeaves({:x},{:x})", a, b),
        NumberOfLeavesNotPowerOfTwo(a) => format!("err:NumberOfLeavesNotPowerOfTwo({:x})", a),
        LeafIndexOutOfBounds(a, b) => format!("err:LeafIndexOutOfBounds({:x},{:x})", a, b),
        DuplicateLeafIndex => "err:DuplicateLeafIndex".into(),
        TooFewLeafIndexes => "err:TooFewLeafIndexes".into(),
        TooManyLeafIndexes(a, b) => format!("err:TooManyLeafIndexes({:x},{:x})", a, b),
        InvalidProof => "err:InvalidProof".into(),
    }
}
fn show<T>(r: &MRes<T>, f: impl FnOnce(&T) -> String) -> String {
    match r { Err(_) => "panic".into(), Ok(Err(e)) => er(e), Ok(Ok(v)) => f(v) }
}

// ================================================================================================ openings + mutations
struct Opening<H: Hasher> { root: H::Digest, n: usize, idx: Vec<usize>, leaves: Vec<H::Digest>, nodes: Vec<Vec<H::Digest>>, depth: u8 }

impl<H: Hasher> Opening<H> {
    fn dup(&self) -> Self {
        Opening { root: self.root, n: self.n, idx: self.idx.clone(), leaves: self.leaves.clone(), nodes: self.nodes.clone(), depth: self.depth }
    }
    fn proof(&self) -> BatchMerkleProof<H> {
        BatchMerkleProof { leaves: self.leaves.clone(), nodes: self.nodes.clone(), depth: self.depth }
    }
    fn of(root: H::Digest, n: usize, idx: &[usize], p: &BatchMerkleProof<H>) -> Self {
        Opening { root, n, idx: idx.to_vec(), leaves: p.leaves.clone(), nodes: p.nodes.clone(), depth: p.depth }
    }
    fn get_root(&self) -> MRes<H::Digest> { let p = self.proof(); catch(AUS(|| p.get_root(&self.idx))) }
    fn verify_batch(&self) -> MRes<()> { let p = self.proof(); catch(AUS(|| MerkleTree::<H>::verify_batch(&self.root, &self.idx, &p))) }
    fn into_paths(&self) -> MRes<Vec<Vec<H::Digest>>> { let p = self.proof(); catch(AUS(|| p.into_paths(&self.idx))) }
    fn describe(&self) -> String {
        format!("idx={} proof.leaves={} proof.nodes={} depth={}", li(&self.idx), l_(&self.leaves, gd), ll_(&self.nodes, gd), self.depth)
    }
}

#[derive(Clone, Debug, PartialEq)]
enum Mut {
    Leaf(usize), Node(usize, usize), DelNode(usize, usize), AddNode(usize), DelVec(usize), AddEmptyVec, AddVec,
    LeavesShort, LeavesExt, Depth(u8), IdxTo(usize, usize), Swap(usize, usize), DropIdx(usize), AppendIdx(usize), Reverse,
}

fn fresh<H: Hasher>(r: &mut Rng, avoid: &H::Digest) -> H::Digest {
    loop { let d = H::hash(&r.bytes(9)); if d != *avoid { return d; } }
}

/// All single-step mutations of a batch opening (every one changes the opening).
fn batch_muts<H: Hasher>(o: &Opening<H>, r: &mut Rng) -> Vec<Mut> {
    let mut v = Vec::new();
    let k = o.idx.len();
    for i in 0..o.leaves.len() { v.push(Mut::Leaf(i)); }
    for (i, g) in o.nodes.iter().enumerate() {
        for j in 0..g.len() { v.push(Mut::Node(i, j)); v.push(Mut::DelNode(i, j)); }
        v.push(Mut::AddNode(i));
        v.push(Mut::DelVec(i));
    }
    v.extend([Mut::AddEmptyVec, Mut::AddVec, Mut::LeavesShort, Mut::LeavesExt]);
    let mut ds: Vec<u8> = (0..=o.depth.saturating_add(2)).collect();
    for x in [63u8, 64, 65, 128, 255] { if !ds.contains(&x) { ds.push(x); } }
    v.extend(ds.into_iter().filter(|&x| x != o.depth).map(Mut::Depth));
    let mut queried = vec![false; o.n];
    for &i in &o.idx { if i < o.n { queried[i] = true; } }
    let unq: Vec<usize> = (0..o.n).filter(|&x| !queried[x]).collect();
    for p in 0..k {
        if !unq.is_empty() { v.push(Mut::IdxTo(p, *r.pick(&unq))); }
        if k >= 2 { let mut q = r.below(k as u64 - 1) as usize; if q >= p { q += 1; } v.push(Mut::IdxTo(p, o.idx[q])); }
        v.push(Mut::IdxTo(p, o.n));
        v.push(Mut::IdxTo(p, usize::MAX));
        v.push(Mut::DropIdx(p));
    }
    if k >= 2 {
        let i = r.below(k as u64 - 1) as usize;
        v.push(Mut::Swap(i, i + 1));
        let a = r.below(k as u64) as usize;
        let mut b = r.below(k as u64 - 1) as usize; if b >= a { b += 1; }
        if !(a.min(b) == i && a.max(b) == i + 1) { v.push(Mut::Swap(a, b)); }
        if k >= 3 { v.push(Mut::Reverse); }
    }
    v.push(Mut::AppendIdx(if unq.is_empty() { o.n } else { *r.pick(&unq) }));
    v
}

fn apply<H: Hasher>(o: &Opening<H>, m: &Mut, r: &mut Rng) -> Opening<H> {
    let mut q = o.dup();
    let zero = H::Digest::default();
    match *m {
        Mut::Leaf(k) => q.leaves[k] = fresh::<H>(r, &o.leaves[k]),
        Mut::Node(i, j) => q.nodes[i][j] = fresh::<H>(r, &o.nodes[i][j]),
        Mut::DelNode(i, j) => { q.nodes[i].remove(j); }
        Mut::AddNode(i) => q.nodes[i].push(fresh::<H>(r, &zero)),
        Mut::DelVec(i) => { q.nodes.remove(i); }
        Mut::AddEmptyVec => q.nodes.push(vec![]),
        Mut::AddVec => q.nodes.push(vec![fresh::<H>(r, &zero)]),
        Mut::LeavesShort => { q.leaves.pop(); }
        Mut::LeavesExt => q.leaves.push(fresh::<H>(r, &zero)),
        Mut::Depth(d) => q.depth = d,
        Mut::IdxTo(k, v) => q.idx[k] = v,
        Mut::Swap(i, j) => q.idx.swap(i, j),
        Mut::DropIdx(k) => { q.idx.remove(k); }
        Mut::AppendIdx(v) => q.idx.push(v),
        Mut::Reverse => q.idx.reverse(),
    }
    q
}

#[derive(Clone, Debug)]
enum SMut { Pos(usize), Index(usize), Trunc(usize), Extend(usize), Hostile(usize), Root }

fn single_muts(n: usize, i: usize, len: usize, r: &mut Rng) -> Vec<SMut> {
    let mut v: Vec<SMut> = (0..len).map(SMut::Pos).collect();
    if n <= 8 {
        v.extend((0..n).filter(|&x| x != i).map(SMut::Index));
    } else {
        let mut c = vec![i ^ 1, i ^ 2, i ^ (n >> 1), (i + 1) % n, r.below(n as u64) as usize];
        c.sort(); c.dedup();
        v.extend(c.into_iter().filter(|&x| x != i).map(SMut::Index));
    }
    v.extend([SMut::Index(i + n), SMut::Index(i + 2 * n), SMut::Index(usize::MAX)]);
    v.extend((0..len).map(SMut::Trunc));
    v.extend([SMut::Extend(1), SMut::Extend(2), SMut::Hostile(64), SMut::Hostile(65), SMut::Hostile(66), SMut::Hostile(70), SMut::Root]);
    v
}

fn apply_single<H: Hasher>(root: H::Digest, i: usize, path: &[H::Digest], m: &SMut, r: &mut Rng) -> (H::Digest, usize, Vec<H::Digest>) {
    let mut p = path.to_vec();
    let (mut root, mut i) = (root, i);
    let zero = H::Digest::default();
    match *m {
        SMut::Pos(j) => p[j] = fresh::<H>(r, &path[j]),
        SMut::Index(v) => i = v,
        SMut::Trunc(l) => p.truncate(l),
        SMut::Extend(e) => for _ in 0..e { p.push(fresh::<H>(r, &zero)); },
        SMut::Hostile(l) => while p.len() < l { p.push(fresh::<H>(r, &zero)); },
        SMut::Root => root = fresh::<H>(r, &root),
    }
    (root, i, p)
}

// ================================================================================================ error sites + named malformed classes
/// The places where get_root / into_paths can leave.  `predict` below re-implements ONLY the order of the guards on
/// the shape of an opening (counts, lengths, depth, positions; no digest is looked at): it names the first guard that
/// fires and the error value it must produce.  It is a third description of that control flow (beside /repo and the
/// Coq model) and serves as the harness-side counter of reached error sites and as an oracle of the falsifier.
#[derive(Clone, Copy, PartialEq, Eq, PartialOrd, Ord, Debug)]
enum Site {
    Accept, NoIdx, TooMany, LeafCount, DepthPow, OutOfRange, Dup, VecCount, FirstEmptyRight, FirstEmptyLeft, LevelShort, Unconsumed, NoRoot,
    // defensive branches; Props/C10.v C10_dead_branches_*: no input reaches them
    DeadLeafIdx, DeadNoPair, DeadSibling, DeadNode, DeadPathLeaf, DeadPathSib,
}
const LIVE_SITES: [Site; 12] = [Site::NoIdx, Site::TooMany, Site::LeafCount, Site::DepthPow, Site::OutOfRange, Site::Dup, Site::VecCount,
    Site::FirstEmptyRight, Site::FirstEmptyLeft, Site::LevelShort, Site::Unconsumed, Site::NoRoot];
impl Site {
    /// (name, lines of crypto/src/merkle/proofs.rs [mod.rs where said] in get_root, in into_paths)
    fn info(self) -> (&'static str, &'static str, &'static str) {
        match self {
            Site::Accept => ("accept", "257-ok", "413-416-ok"),
            Site::NoIdx => ("no-positions", "126", "273"),
            Site::TooMany => ("too-many-positions", "129", "276"),
            Site::LeafCount => ("leaf-count", "132", "279"),
            Site::DepthPow => ("depth>=64", "mod.rs:386", "mod.rs:386"),
            Site::OutOfRange => ("position-out-of-range", "mod.rs:392", "mod.rs:392"),
            Site::Dup => ("position-duplicated", "mod.rs:397", "mod.rs:397"),
            Site::VecCount => ("vector-count", "142", "298"),
            Site::FirstEmptyRight => ("first-level-right-sibling-missing", "167", "323"),
            Site::FirstEmptyLeft => ("first-level-left-sibling-missing", "176", "332"),
            Site::LevelShort => ("upper-level-sibling-missing", "221", "378"),
            Site::Unconsumed => ("nodes-not-consumed", "254", "410"),
            Site::NoRoot => ("no-root(depth-0)", "257", "-"),
            Site::DeadLeafIdx => ("DEAD-leaf-index", "154,160,182", "310,316,338"),
            Site::DeadNoPair => ("DEAD-no-position-in-pair", "186", "342"),
            Site::DeadSibling => ("DEAD-merged-sibling-unknown", "215", "373"),
            Site::DeadNode => ("DEAD-node-unknown", "230", "387"),
            Site::DeadPathLeaf => ("DEAD-path-leaf-unknown", "-", "520"),
            Site::DeadPathSib => ("DEAD-path-sibling-unknown", "-", "528"),
        }
    }
    fn name(self) -> &'static str { self.info().0 }
}

/// First guard that fires for an opening of this shape, and the canonical result string ("ok" or `er(..)`).
fn predict(into_paths: bool, nleaves: usize, nodes: &[usize], depth: u8, idx: &[usize]) -> (Site, String) {
    use std::collections::BTreeSet;
    let inv = |s: Site| (s, "err:InvalidProof".to_string());
    if idx.is_empty() { return (Site::NoIdx, "err:TooFewLeafIndexes".into()); }
    if idx.len() > 255 { return (Site::TooMany, format!("err:TooManyLeafIndexes(ff,{:x})", idx.len())); }
    if idx.len() != nleaves { return inv(Site::LeafCount); }
    if depth >= 64 { return inv(Site::DepthPow); }
    let nl = 1usize << depth;
    let mut map: BTreeMap<usize, usize> = BTreeMap::new();
    for (i, &x) in idx.iter().enumerate() {
        map.insert(x, i);
        if x >= nl { return (Site::OutOfRange, format!("err:LeafIndexOutOfBounds({:x},{:x})", nl, x)); }
    }
    if map.len() != idx.len() { return (Site::Dup, "err:DuplicateLeafIndex".into()); }
    let norm: Vec<usize> = idx.iter().map(|&x| x - (x & 1)).collect::<BTreeSet<_>>().into_iter().collect();
    if norm.len() != nodes.len() { return inv(Site::VecCount); }
    let mut v: BTreeSet<usize> = BTreeSet::new();
    let mut ptm: BTreeSet<usize> = idx.iter().map(|&x| x + nl).collect();
    let mut ptrs: Vec<usize> = Vec::new();
    let mut next: Vec<usize> = Vec::new();
    for (i, &e) in norm.iter().enumerate() {
        match (map.get(&e), map.get(&(e + 1))) {
            (Some(&a), Some(&b)) => { if nleaves <= a || nleaves <= b { return inv(Site::DeadLeafIdx); } ptrs.push(0); }
            (Some(&a), None) => { if nleaves <= a { return inv(Site::DeadLeafIdx); } if nodes[i] == 0 { return inv(Site::FirstEmptyRight); } ptrs.push(1); }
            (None, Some(&b)) => { if nodes[i] == 0 { return inv(Site::FirstEmptyLeft); } if nleaves <= b { return inv(Site::DeadLeafIdx); } ptrs.push(1); }
            (None, None) => { if nodes[i] == 0 { return inv(Site::FirstEmptyLeft); } return inv(Site::DeadNoPair); }
        }
        let parent = (nl + e) >> 1;
        v.insert(parent); next.push(parent);
        ptm.insert(nl + e); ptm.insert((nl + e) ^ 1); ptm.insert(parent);
    }
    for _ in 1..depth {
        let cur = std::mem::take(&mut next);
        let mut i = 0;
        while i < cur.len() {
            let node = cur[i];
            let sib = node ^ 1;
            if i + 1 < cur.len() && cur[i + 1] == sib {
                if !v.contains(&sib) { return inv(Site::DeadSibling); }
                i += 1;
            } else {
                if nodes[i] <= ptrs[i] { return inv(Site::LevelShort); }
                ptrs[i] += 1;
            }
            if !v.contains(&node) { return inv(Site::DeadNode); }
            ptm.insert(sib);
            let parent = node >> 1;
            v.insert(parent); next.push(parent); ptm.insert(parent);
            i += 1;
        }
    }
    if ptrs.iter().zip(nodes).any(|(p, n)| p != n) { return inv(Site::Unconsumed); }
    if !into_paths {
        return if v.contains(&1) { (Site::Accept, "ok".into()) } else { inv(Site::NoRoot) };
    }
    for &x in idx {
        let mut k = x + nl;
        if !ptm.contains(&k) { return inv(Site::DeadPathLeaf); }
        while k > 1 { if !ptm.contains(&(k ^ 1)) { return inv(Site::DeadPathSib); } k >>= 1; }
    }
    (Site::Accept, "ok".into())
}
fn predict_o<H: Hasher>(into_paths: bool, o: &Opening<H>) -> (Site, String) {
    let lens: Vec<usize> = o.nodes.iter().map(|g| g.len()).collect();
    predict(into_paths, o.leaves.len(), &lens, o.depth, &o.idx)
}
fn head(s: &str) -> &str { if s.starts_with("ok") { "ok" } else { s } }

/// A named way of damaging the SHAPE of an honest opening.  `aims`: the defensive branches of proofs.rs the class is
/// built to approach (where there is one); `sites`: the guards that may answer instead (checked per case).
struct Class { name: &'static str, aims: &'static str, sites: &'static [Site] }
use Site::*;
const CLASSES: &[Class] = &[
    Class { name: "leaves-fewer", aims: "154,160,182/310,316,338", sites: &[LeafCount] },
    Class { name: "leaves-more", aims: "", sites: &[LeafCount] },
    Class { name: "positions-fewer", aims: "154,160,182/310,316,338", sites: &[LeafCount] },
    Class { name: "positions-more", aims: "", sites: &[LeafCount] },
    Class { name: "pair-dropped", aims: "186/342", sites: &[VecCount] },
    Class { name: "sibling-dropped-even", aims: "186/342", sites: &[FirstEmptyLeft, LevelShort] },
    Class { name: "sibling-dropped-odd", aims: "186/342", sites: &[FirstEmptyRight, LevelShort] },
    Class { name: "first-node-missing-even", aims: "", sites: &[FirstEmptyRight] },
    Class { name: "first-node-missing-odd", aims: "", sites: &[FirstEmptyLeft] },
    Class { name: "vec-missing", aims: "", sites: &[VecCount] },
    Class { name: "vec-extra-empty", aims: "", sites: &[VecCount] },
    Class { name: "vec-extra-full", aims: "", sites: &[VecCount] },
    Class { name: "level-node-missing", aims: "520,528", sites: &[LevelShort] },
    Class { name: "node-at-known-sibling", aims: "", sites: &[Unconsumed] },
    Class { name: "node-surplus", aims: "", sites: &[Unconsumed] },
    Class { name: "node-moved", aims: "215,230/373,387", sites: &[LevelShort, Unconsumed, FirstEmptyRight, FirstEmptyLeft] },
    Class { name: "depth-smaller", aims: "215,230/373,387", sites: &[OutOfRange, Unconsumed] },
    Class { name: "depth-larger", aims: "520,528", sites: &[LevelShort] },
    Class { name: "depth-0", aims: "520,528", sites: &[OutOfRange, Unconsumed, NoRoot, Accept] },
    Class { name: "depth-64plus", aims: "", sites: &[DepthPow] },
    Class { name: "position-out-of-range", aims: "154,160,182/310,316,338", sites: &[OutOfRange] },
    Class { name: "position-duplicated", aims: "", sites: &[Dup] },
    Class { name: "positions-none", aims: "", sites: &[NoIdx] },
    Class { name: "positions-256plus", aims: "", sites: &[TooMany] },
    Class { name: "position-to-sibling", aims: "186/342", sites: &[Accept] },
    Class { name: "position-to-other-pair", aims: "215,230/373,387", sites: &[Accept, VecCount, FirstEmptyRight, FirstEmptyLeft, LevelShort, Unconsumed] },
];

/// (even member, even queried at, odd queried at) for every sibling pair that contains a queried position, ascending
fn pairs(idx: &[usize]) -> Vec<(usize, Option<usize>, Option<usize>)> {
    let mut m: BTreeMap<usize, (Option<usize>, Option<usize>)> = BTreeMap::new();
    for (k, &x) in idx.iter().enumerate() { let e = m.entry(x & !1).or_insert((None, None)); if x & 1 == 0 { e.0 = Some(k) } else { e.1 = Some(k) } }
    m.into_iter().map(|(e, (a, b))| (e, a, b)).collect()
}

/// Applies the class to an honest opening of distinct in-range positions (None: not applicable to this opening).
fn malform<H: Hasher>(o: &Opening<H>, class: &str, r: &mut Rng) -> Option<Opening<H>> {
    let mut q = o.dup();
    let zero = H::Digest::default();
    let k = o.idx.len();
    let ps = pairs(&o.idx);
    let mut queried = vec![false; o.n];
    for &i in &o.idx { queried[i] = true; }
    let unq: Vec<usize> = (0..o.n).filter(|&x| !queried[x]).collect();
    let pick_pair = |r: &mut Rng, f: &dyn Fn(&(usize, Option<usize>, Option<usize>)) -> bool| -> Option<usize> {
        let c: Vec<usize> = (0..ps.len()).filter(|&j| f(&ps[j])).collect();
        if c.is_empty() { None } else { Some(*r.pick(&c)) }
    };
    match class {
        "leaves-fewer" => { let cut = 1 + r.below(k as u64) as usize; q.leaves.truncate(k - cut); }
        "leaves-more" => { for _ in 0..1 + r.below(3) { q.leaves.push(fresh::<H>(r, &zero)); } }
        "positions-fewer" => { if k < 2 { return None; } q.idx.remove(r.below(k as u64) as usize); }
        "positions-more" => { if unq.is_empty() || k >= 255 { return None; } q.idx.push(*r.pick(&unq)); }
        "pair-dropped" => {
            if k < 2 { return None; }
            let j = pick_pair(r, &|p| p.1.is_some() != p.2.is_some())?;
            let at = ps[j].1.or(ps[j].2).unwrap();
            q.idx.remove(at); q.leaves.remove(at);
        }
        "sibling-dropped-even" | "sibling-dropped-odd" => {
            let j = pick_pair(r, &|p| p.1.is_some() && p.2.is_some())?;
            let at = if class.ends_with("even") { ps[j].1 } else { ps[j].2 }.unwrap();
            q.idx.remove(at); q.leaves.remove(at);
        }
        "first-node-missing-even" => { let j = pick_pair(r, &|p| p.1.is_some() && p.2.is_none())?; q.nodes[j].clear(); }
        "first-node-missing-odd" => { let j = pick_pair(r, &|p| p.1.is_none() && p.2.is_some())?; q.nodes[j].clear(); }
        "vec-missing" => { q.nodes.remove(r.below(q.nodes.len() as u64) as usize); }
        "vec-extra-empty" => { let at = r.below(q.nodes.len() as u64 + 1) as usize; q.nodes.insert(at, vec![]); }
        "vec-extra-full" => { let at = r.below(q.nodes.len() as u64 + 1) as usize; let g = o.nodes[r.below(o.nodes.len() as u64) as usize].clone(); q.nodes.insert(at, if g.is_empty() { vec![fresh::<H>(r, &zero)] } else { g }); }
        "level-node-missing" => {
            let c: Vec<usize> = (0..ps.len()).filter(|&j| q.nodes[j].len() >= if ps[j].1.is_some() && ps[j].2.is_some() { 1 } else { 2 }).collect();
            if c.is_empty() { return None; }
            q.nodes[*r.pick(&c)].pop();
        }
        "node-at-known-sibling" => { let j = pick_pair(r, &|p| p.1.is_some() && p.2.is_some())?; q.nodes[j].insert(0, fresh::<H>(r, &zero)); }
        "node-surplus" => { let j = r.below(q.nodes.len() as u64) as usize; q.nodes[j].push(fresh::<H>(r, &zero)); }
        "node-moved" => {
            if q.nodes.len() < 2 { return None; }
            let c: Vec<usize> = (0..q.nodes.len()).filter(|&j| !q.nodes[j].is_empty()).collect();
            if c.is_empty() { return None; }
            let a = *r.pick(&c);
            let mut b = r.below(q.nodes.len() as u64 - 1) as usize; if b >= a { b += 1; }
            let x = q.nodes[a].pop().unwrap(); q.nodes[b].push(x);
        }
        "depth-smaller" => { if o.depth < 2 { return None; } q.depth = 1 + r.below(o.depth as u64 - 1) as u8; }
        "depth-larger" => { if o.depth >= 63 { return None; } q.depth = if r.chance(1, 2) { o.depth + 1 } else { o.depth + 1 + r.below(63 - o.depth as u64) as u8 }; }
        "depth-0" => { q.depth = 0; }
        "depth-64plus" => { q.depth = *r.pick(&[64u8, 65, 100, 128, 200, 255]); }
        "position-out-of-range" => {
            let p = r.below(k as u64) as usize;
            q.idx[p] = match r.below(6) { 0 => o.n, 1 => o.n + 1, 2 => 2 * o.n - 1, 3 => 1 << 63, 4 => usize::MAX, _ => o.n + r.below(1 << 40) as usize };
        }
        "position-duplicated" => { if k < 2 { return None; } let a = r.below(k as u64) as usize; let mut b = r.below(k as u64 - 1) as usize; if b >= a { b += 1; } q.idx[a] = o.idx[b]; }
        "positions-none" => { q.idx.clear(); }
        "positions-256plus" => { let m = 256 + r.below(3) as usize * 50; q.idx = (0..m).map(|i| if o.n >= m { i } else { i % o.n }).collect(); if r.chance(1, 2) { q.leaves = (0..m).map(|_| zero).collect(); } }
        "position-to-sibling" => { let j = pick_pair(r, &|p| p.1.is_some() != p.2.is_some())?; let at = ps[j].1.or(ps[j].2).unwrap(); q.idx[at] ^= 1; }
        "position-to-other-pair" => {
            let c: Vec<usize> = unq.iter().cloned().filter(|&x| !queried[x ^ 1]).collect();
            if c.is_empty() { return None; }
            let p = r.below(k as u64) as usize; q.idx[p] = *r.pick(&c);
        }
        _ => panic!("unknown malformed class {}", class),
    }
    Some(q)
}

/// Bookkeeping of stream F / falsifier stage 6: per class and per (function, site) counters.
#[derive(Default)]
struct SiteStats { class_n: BTreeMap<&'static str, usize>, class_sites: BTreeMap<(&'static str, &'static str), usize>, fn_sites: BTreeMap<(&'static str, &'static str), usize>, bad: usize }

// ================================================================================================ random index lists
fn shuffle<T>(r: &mut Rng, v: &mut [T]) {
    for i in (1..v.len()).rev() { let j = r.below(i as u64 + 1) as usize; v.swap(i, j); }
}
fn subset(r: &mut Rng, n: usize, k: usize) -> Vec<usize> {
    let mut v: Vec<usize> = (0..n).collect();
    shuffle(r, &mut v);
    v.truncate(k);
    v
}
fn perms(v: &[usize]) -> Vec<Vec<usize>> {
    if v.len() <= 1 { return vec![v.to_vec()]; }
    let mut out = Vec::new();
    for i in 0..v.len() {
        let mut rest = v.to_vec();
        let x = rest.remove(i);
        for mut p in perms(&rest) { p.insert(0, x); out.push(p); }
    }
    out
}
/// Structured index list for a tree with n leaves: at most 255 distinct in-range positions.
fn gen_list(r: &mut Rng, n: usize) -> Vec<usize> {
    let cap = n.min(255);
    let mut v: Vec<usize> = match r.below(16) {
        0..=7 => { let k = if r.chance(2, 3) { 1 + r.below(cap.min(8) as u64) } else { 1 + r.below(cap as u64) } as usize; subset(r, n, k) }
        8 | 9 => { let m = 1 + r.below((n / 2).min(6) as u64) as usize; subset(r, n / 2, m).into_iter().flat_map(|p| [2 * p, 2 * p + 1]).collect() }
        10 => (0..n).step_by(2).collect(),
        11 => (1..n).step_by(2).collect(),
        12 | 13 => { let s = r.below(n as u64) as usize; let l = 1 + r.below(cap.min(n - s) as u64) as usize; (s..s + l).collect() }
        14 => { let mut v: Vec<usize> = (0..n).collect(); if n > cap { v.remove(r.below(n as u64) as usize); } v }
        _ => { let k = cap - r.below(cap.min(4) as u64) as usize; subset(r, n, k) }
    };
    if r.chance(3, 4) { shuffle(r, &mut v); } else { v.sort(); }
    v
}

// ================================================================================================ corr
struct Out { w: std::io::BufWriter<std::io::Stdout>, n: usize, deser_panics: usize }
impl Out {
    fn put(&mut self, case: &str, res: &str) { writeln!(self.w, "{} => {}", case, res).unwrap(); self.n += 1; }
}

fn rand_leaves(r: &mut Rng, n: usize) -> Vec<TD> { (0..n).map(|_| TD::from_u64(r.next_u64())).collect() }

fn c_new(o: &mut Out, leaves: &[TD]) {
    let r = catch(AUS(|| MerkleTree::<Toy>::new(leaves.to_vec())));
    let s = show(&r, |t| match catch(AUS(|| build_merkle_nodes::<Toy>(leaves))) {
        Ok(nd) if nd.len() > 1 && nd[1] == *t.root() => format!("ok {} {}", hd(t.root()), ld(&nd)),
        _ => "ok-but-root-is-not-nodes[1]".into(),
    });
    o.put(&format!("new {}", ld(leaves)), &s);
}
fn c_build(o: &mut Out, leaves: &[TD]) {
    let s = match catch(AUS(|| build_merkle_nodes::<Toy>(leaves))) { Ok(nd) => format!("ok {}", ld(&nd)), Err(_) => "panic".into() };
    o.put(&format!("build_nodes {}", ld(leaves)), &s);
}
fn c_prove(o: &mut Out, t: &MerkleTree<Toy>, ls: &str, i: usize) -> Option<Vec<TD>> {
    let r = catch(AUS(|| t.prove(i)));
    o.put(&format!("prove {} {:x}", ls, i), &show(&r, |p| format!("ok {}", ld(p))));
    r.ok().and_then(|x| x.ok())
}
fn c_verify(o: &mut Out, root: TD, i: usize, path: &[TD]) {
    let r = catch(AUS(|| MerkleTree::<Toy>::verify(root, i, path)));
    o.put(&format!("verify {} {:x} {}", hd(&root), i, ld(path)), &show(&r, |_| "ok".into()));
}
fn c_prove_batch(o: &mut Out, t: &MerkleTree<Toy>, ls: &str, idx: &[usize]) -> Option<Opening<Toy>> {
    let r = catch(AUS(|| t.prove_batch(idx)));
    let s = show(&r, |p| {
        let b = match catch(AUS(|| p.serialize_nodes())) { Ok(b) => hex_bytes(&b), Err(_) => "panic".into() };
        format!("ok {} {} {:x} {}", ld(&p.leaves), lld(&p.nodes), p.depth, b)
    });
    o.put(&format!("prove_batch {} {}", ls, li(idx)), &s);
    r.ok().and_then(|x| x.ok()).map(|p| Opening::of(*t.root(), t.leaves().len(), idx, &p))
}
fn bp_case(q: &Opening<Toy>) -> String { format!("{} {} {:x} {}", ld(&q.leaves), lld(&q.nodes), q.depth, li(&q.idx)) }
fn c_get_root(o: &mut Out, q: &Opening<Toy>) {
    o.put(&format!("get_root {}", bp_case(q)), &show(&q.get_root(), |x| format!("ok {}", hd(x))));
}
fn c_verify_batch(o: &mut Out, q: &Opening<Toy>) {
    o.put(&format!("verify_batch {} {}", hd(&q.root), bp_case(q)), &show(&q.verify_batch(), |_| "ok".into()));
}
fn c_into_paths(o: &mut Out, q: &Opening<Toy>) -> Option<Vec<Vec<TD>>> {
    let r = q.into_paths();
    o.put(&format!("into_paths {}", bp_case(q)), &show(&r, |ps| format!("ok {}", lld(ps))));
    r.ok().and_then(|x| x.ok())
}
fn c_from_paths(o: &mut Out, paths: &[Vec<TD>], idx: &[usize]) {
    let s = match catch(AUS(|| BatchMerkleProof::<Toy>::from_paths(paths, idx))) {
        Ok(p) => format!("ok {} {} {:x}", ld(&p.leaves), lld(&p.nodes), p.depth),
        Err(_) => "panic".into(),
    };
    o.put(&format!("from_paths {} {}", lld(paths), li(idx)), &s);
}
fn c_ser(o: &mut Out, nodes: &[Vec<TD>]) {
    let p = BatchMerkleProof::<Toy> { leaves: vec![], nodes: nodes.to_vec(), depth: 1 };
    let s = match catch(AUS(|| p.serialize_nodes())) { Ok(b) => format!("ok {}", hex_bytes(&b)), Err(_) => "panic".into() };
    o.put(&format!("ser {}", lld(nodes)), &s);
}
fn c_deser(o: &mut Out, bytes: &[u8], leaves: &[TD], depth: u8) -> Option<(Vec<Vec<TD>>, usize)> {
    let r = catch(AUS(|| {
        let mut rd = SliceReader::new(bytes);
        BatchMerkleProof::<Toy>::deserialize(&mut rd, leaves.to_vec(), depth).map(|p| {
            let mut unread = 0usize;
            while rd.read_u8().is_ok() { unread += 1; }
            (p, unread)
        })
    }));
    let s = match &r { Err(_) => "panic".into(), Ok(Err(_)) => "err".into(), Ok(Ok((p, u))) => format!("ok {} {}", lld(&p.nodes), u) };
    o.put(&format!("deser {} {} {:x}", hex_bytes(bytes), ld(leaves), depth), &s);
    if r.is_err() { o.deser_panics += 1; }
    r.ok().and_then(|x| x.ok()).map(|(p, u)| (p.nodes, u))
}

/// The five operations on one index list; `ops` selects a subset (bit0 prove_batch .. bit4 from_paths).
fn five(o: &mut Out, t: &MerkleTree<Toy>, ls: &str, idx: &[usize], ops: u8) -> Option<(Opening<Toy>, Vec<Vec<TD>>)> {
    let q = if ops & 1 != 0 { c_prove_batch(o, t, ls, idx)? } else { Opening::of(*t.root(), t.leaves().len(), idx, &t.prove_batch(idx).ok()?) };
    if ops & 2 != 0 { c_get_root(o, &q); }
    if ops & 4 != 0 { c_verify_batch(o, &q); }
    let paths = if ops & 8 != 0 { c_into_paths(o, &q)? } else { q.into_paths().ok()?.ok()? };
    if ops & 16 != 0 { c_from_paths(o, &paths, idx); }
    Some((q, paths))
}

fn mutate_batch(o: &mut Out, r: &mut Rng, q: &Opening<Toy>, sample: Option<usize>, all_ops: bool, rot: &mut usize) {
    let mut ms = batch_muts(q, r);
    if let Some(k) = sample { if ms.len() > k { shuffle(r, &mut ms); ms.truncate(k); } }
    for m in &ms {
        let x = apply(q, m, r);
        let sel = if all_ops { 7 } else { *rot += 1; 1u8 << (*rot % 3) };
        if sel & 1 != 0 { c_get_root(o, &x); }
        if sel & 2 != 0 { c_into_paths(o, &x); }
        if sel & 4 != 0 { c_verify_batch(o, &x); }
    }
}

fn mutate_single(o: &mut Out, r: &mut Rng, root: TD, n: usize, i: usize, path: &[TD]) {
    for m in single_muts(n, i, path.len(), r) {
        let (rt, i2, p2) = apply_single::<Toy>(root, i, path, &m, r);
        c_verify(o, rt, i2, &p2);
    }
}

fn mutate_from_paths(o: &mut Out, r: &mut Rng, paths: &[Vec<TD>], idx: &[usize]) {
    let k = paths.len();
    let p = r.below(k as u64) as usize;
    let mut x = paths.to_vec(); x[p].pop(); c_from_paths(o, &x, idx);
    let mut x = paths.to_vec(); x[p].push(TD::from_u64(r.next_u64())); c_from_paths(o, &x, idx);
    for l in 0..3 { let x: Vec<Vec<TD>> = paths.iter().map(|q| q[..l.min(q.len())].to_vec()).collect(); c_from_paths(o, &x, idx); }
    c_from_paths(o, &paths[..k - 1], idx);
    c_from_paths(o, paths, &idx[..k - 1]);
    let mut i2 = idx.to_vec(); i2.push(r.below(8) as usize); c_from_paths(o, paths, &i2);
    if k >= 2 {
        let mut i2 = idx.to_vec(); i2[1] = i2[0]; c_from_paths(o, paths, &i2);
        let mut i2 = idx.to_vec(); i2.swap(0, k - 1); c_from_paths(o, paths, &i2);
        let mut i2 = idx.to_vec(); i2.reverse(); c_from_paths(o, paths, &i2);
        let mut i2 = idx.to_vec(); shuffle(r, &mut i2); c_from_paths(o, paths, &i2);
    }
    let mut i2 = idx.to_vec(); i2[p] = usize::MAX; c_from_paths(o, paths, &i2);
    let mut i2 = idx.to_vec(); i2[p] ^= 1; c_from_paths(o, paths, &i2);
}

impl SiteStats {
    fn bad(&mut self, what: &str, class: &str, case: &str, expected: &str, actual: &str) {
        self.bad += 1;
        if self.bad <= 5 {
            eprintln!("F-bad {{\"what\":{},\"class\":{},\"input\":{},\"expected\":{},\"actual\":{}}}", jstr(what), jstr(class), jstr(case), jstr(expected), jstr(actual));
        }
    }
    /// one function applied to one malformed opening: impl result `got` against the predicted (site, result)
    fn note(&mut self, c: &'static Class, f: &'static str, case: &str, pred: &(Site, String), got: &str) {
        let (site, want) = (pred.0, pred.1.as_str());
        *self.class_sites.entry((c.name, site.name())).or_insert(0) += 1;
        *self.fn_sites.entry((f, site.name())).or_insert(0) += 1;
        if got == "panic" { self.bad("malformed-class-panic", c.name, case, want, got); }
        else if head(got) != want { self.bad("site-predictor-disagrees", c.name, case, &format!("{} at {}", want, site.name()), got); }
        else if !c.sites.contains(&site) { self.bad("malformed-class-unexpected-site", c.name, case, &format!("{:?}", c.sites), site.name()); }
        else if site >= Site::DeadLeafIdx { self.bad("dead-branch-predicted", c.name, case, "a live guard", site.name()); }
    }
    fn summary(&self) {
        for c in CLASSES {
            let sites: Vec<String> = self.class_sites.iter().filter(|(k, _)| k.0 == c.name).map(|(k, v)| format!("{}={}", k.1, v)).collect();
            eprintln!("F-class {} n={} aims={} sites={}", c.name, self.class_n.get(c.name).unwrap_or(&0), if c.aims.is_empty() { "-" } else { c.aims }, sites.join(","));
        }
        for k in DESER_CLASSES { eprintln!("F-class {} n={} aims=- sites=-", k, self.class_n.get(k).unwrap_or(&0)); }
        for f in ["get_root", "into_paths"] {
            for s in LIVE_SITES.iter().chain([Site::Accept, Site::DeadLeafIdx, Site::DeadNoPair, Site::DeadSibling, Site::DeadNode, Site::DeadPathLeaf, Site::DeadPathSib].iter()) {
                let (name, lg, lp) = s.info();
                let lines = if f == "get_root" { lg } else { lp };
                if lines == "-" { continue; }
                eprintln!("F-site {} {} lines={} n={}", f, name, lines, self.fn_sites.get(&(f, name)).unwrap_or(&0));
            }
        }
        eprintln!("F-bad-total {}", self.bad);
    }
}

/// get_root, into_paths and verify_batch on one malformed opening: three correspondence lines + the site bookkeeping
fn f_case(o: &mut Out, st: &mut SiteStats, c: &'static Class, x: &Opening<Toy>) {
    *st.class_n.entry(c.name).or_insert(0) += 1;
    let case = bp_case(x);
    let g = show(&x.get_root(), |r| format!("ok {}", hd(r)));
    o.put(&format!("get_root {}", case), &g);
    let pg = predict_o(false, x);
    st.note(c, "get_root", &case, &pg, &g);
    let p = show(&x.into_paths(), |ps| format!("ok {}", lld(ps)));
    o.put(&format!("into_paths {}", case), &p);
    st.note(c, "into_paths", &case, &predict_o(true, x), &p);
    let v = show(&x.verify_batch(), |_| "ok".into());
    o.put(&format!("verify_batch {} {}", hd(&x.root), case), &v);
    let fine = if pg.0 == Site::Accept { v == "ok" || v == "err:InvalidProof" } else { v == pg.1 };
    if !fine { st.bad("verify_batch-differs-from-get_root", c.name, &case, &pg.1, &v); }
}

/// (de)serialisation with inconsistent counts; whatever deserialize lets through goes on to get_root / into_paths
fn f_deser(o: &mut Out, st: &mut SiteStats, r: &mut Rng, q: &Opening<Toy>) {
    let bytes = q.proof().serialize_nodes();
    let tally = |st: &mut SiteStats, name: &'static str| { *st.class_n.entry(name).or_insert(0) += 1; };
    let starts: Vec<usize> = { let mut v = Vec::new(); let mut at = 1; for g in &q.nodes { v.push(at); at += 1 + 8 * g.len(); } v };
    let go = |o: &mut Out, st: &mut SiteStats, name: &'static str, g: &[u8], leaves: &[TD], depth: u8, want: &str| {
        tally(st, name);
        let before = o.deser_panics;
        let res = c_deser(o, g, leaves, depth);
        let got = if o.deser_panics > before { "panic" } else if let Some((_, u)) = &res { if *u > 0 { "ok-unread" } else { "ok" } } else { "err" };
        if got == "panic" || (want != "any" && got != want) { st.bad("deser-class-outcome", name, &hex_bytes(g), want, got); }
        if let Some((nodes, _)) = res {
            let mut x = q.dup(); x.nodes = nodes; x.leaves = leaves.to_vec(); x.depth = depth;
            for (f, res) in [("get_root", show(&x.get_root(), |r| format!("ok {}", hd(r)))), ("into_paths", show(&x.into_paths(), |ps| format!("ok {}", lld(ps))))] {
                o.put(&format!("{} {}", f, bp_case(&x)), &res);
                let pred = predict_o(f == "into_paths", &x);
                if res == "panic" || head(&res) != pred.1 { st.bad("site-predictor-disagrees", name, &bp_case(&x), &pred.1, &res); }
            }
        }
    };
    let mut g = bytes.clone(); g[0] = g[0].saturating_add(1 + r.below(3) as u8); go(o, st, "deser-vector-count-more", &g, &q.leaves, q.depth, "err");
    let mut g = bytes.clone(); g[0] -= 1; go(o, st, "deser-vector-count-fewer", &g, &q.leaves, q.depth, "ok-unread");
    let j = r.below(starts.len() as u64) as usize;
    let mut g = bytes.clone(); g[starts[j]] += 1 + r.below(2) as u8; go(o, st, "deser-digest-count-more", &g, &q.leaves, q.depth, "any");
    let c: Vec<usize> = starts.iter().cloned().filter(|&s| bytes[s] > 0).collect();
    if !c.is_empty() { let mut g = bytes.clone(); g[*r.pick(&c)] -= 1; go(o, st, "deser-digest-count-fewer", &g, &q.leaves, q.depth, "any"); }
    let cut = r.below(bytes.len() as u64) as usize; go(o, st, "deser-truncated", &bytes[..cut], &q.leaves, q.depth, "err");
    go(o, st, "deser-no-leaves", &bytes, &[], q.depth, "err");
    let many = 256 + r.below(2) as usize;
    go(o, st, "deser-256-leaves", &bytes, &rand_leaves(r, many), q.depth, "err");
    go(o, st, "deser-depth-0", &bytes, &q.leaves, 0, "err");
    go(o, st, "deser-honest", &bytes, &q.leaves, q.depth, "ok");
}
const DESER_CLASSES: [&str; 9] = ["deser-vector-count-more", "deser-vector-count-fewer", "deser-digest-count-more", "deser-digest-count-fewer",
    "deser-truncated", "deser-no-leaves", "deser-256-leaves", "deser-depth-0", "deser-honest"];

fn corr(seed: u64, n: usize, thorough: bool) {
    let r = &mut Rng::new(seed);
    let o = &mut Out { w: std::io::BufWriter::with_capacity(1 << 20, std::io::stdout()), n: 0, deser_panics: 0 };
    let mut sizes = Vec::new();
    let mark = |o: &Out, sizes: &mut Vec<usize>| { let prev: usize = sizes.iter().sum(); sizes.push(o.n - prev); };

    // ---------------------------------------------------------------- A: boundary
    for k in [0usize, 1, 2, 3, 4, 5, 6, 7, 8, 9, 16] {
        let l = rand_leaves(r, k);
        c_new(o, &l);
        c_build(o, &l);
    }
    let mut singles: Vec<(TD, usize, usize, Vec<TD>)> = Vec::new(); // (root, n, index, honest path)
    for d in 1..=8u32 {
        let nl = 1usize << d;
        for variant in 0..3 {
            let leaves: Vec<TD> = match variant { 0 => rand_leaves(r, nl), 1 => vec![TD::from_u64(r.next_u64()); nl], _ => (0..nl as u64).map(TD::from_u64).collect() };
            c_new(o, &leaves);
            c_build(o, &leaves);
            let Ok(t) = MerkleTree::<Toy>::new(leaves.clone()) else { continue };
            let ls = ld(&leaves);
            let mut is: Vec<usize> = if nl <= 16 { (0..nl + 2).collect() } else { vec![0, 1, nl - 2, nl - 1, nl, nl + 1, r.below(nl as u64) as usize, r.below(nl as u64) as usize] };
            is.extend([usize::MAX, 1 << 63, nl + r.below(1 << 40) as usize]);
            for i in is {
                if let Some(p) = c_prove(o, &t, &ls, i) {
                    c_verify(o, *t.root(), i, &p);
                    if variant == 0 && (nl <= 8 || r.chance(1, 3)) { singles.push((*t.root(), nl, i, p)); }
                }
            }
        }
    }
    mark(o, &mut sizes);

    // ---------------------------------------------------------------- B: exhaustive batch openings
    let mut honest: Vec<(Opening<Toy>, Vec<Vec<TD>>, bool)> = Vec::new(); // n <= 8: every subset (flag: sorted list); 16: sample
    let mut honest_big: Vec<(Opening<Toy>, Vec<Vec<TD>>)> = Vec::new();
    for nl in [2usize, 4, 8, 16] {
        if nl == 16 && !thorough { continue; }
        let leaves = rand_leaves(r, nl);
        let t = MerkleTree::<Toy>::new(leaves.clone()).unwrap();
        let ls = ld(&leaves);
        for mask in 1u32..(1 << nl) {
            let sorted: Vec<usize> = (0..nl).filter(|i| mask >> i & 1 == 1).collect();
            let lists: Vec<Vec<usize>> = if nl <= 4 {
                let mut p = perms(&sorted); p.retain(|x| *x != sorted); p.insert(0, sorted.clone()); p
            } else if sorted.len() >= 2 {
                let mut p = sorted.clone();
                while p == sorted { shuffle(r, &mut p); }
                vec![sorted.clone(), p]
            } else { vec![sorted.clone()] };
            let keep = r.below(lists.len() as u64) as usize;
            for (j, idx) in lists.iter().enumerate() {
                let ops = if nl < 16 { 31 } else if j == 0 { 1 | 2 | 8 | 16 } else { 1 | 2 | 8 };
                if let Some(h) = five(o, &t, &ls, idx, ops) {
                    if nl <= 8 { if thorough || j == keep { honest.push((h.0, h.1, j == 0)); } } else if j == keep && r.chance(1, 200) { honest_big.push(h); }
                }
            }
        }
    }
    mark(o, &mut sizes);

    // ---------------------------------------------------------------- C: random batch openings on larger trees
    let n_c = n.min(2000);
    for (ti, nl) in [16usize, 32, 64, 128, 256].into_iter().enumerate() {
        let leaves = rand_leaves(r, nl);
        let t = MerkleTree::<Toy>::new(leaves.clone()).unwrap();
        let ls = ld(&leaves);
        let per = (n_c / 5).max(8);
        for j in 0..per {
            let idx = gen_list(r, nl);
            if let Some(h) = five(o, &t, &ls, &idx, 31) { if j % 10 == ti % 10 || idx.len() == 255 && r.chance(1, 4) { honest_big.push(h); } }
        }
        // malformed index lists: count limits first, then range, then duplicates
        let base = Opening::of(*t.root(), nl, &[0, 1], &t.prove_batch(&[0, 1]).unwrap());
        let mut bad: Vec<Vec<usize>> = vec![
            vec![], (0..256).map(|i| i % nl).collect(), (0..300).map(|i| i % nl).collect(), (0..256).map(|i| i + nl).collect(),
            vec![0, 0], vec![3, 1, 3], vec![nl - 1, 2, 2, 5, nl - 1], vec![nl], vec![nl + 1], vec![usize::MAX], vec![1 << 63],
            vec![0, nl], vec![nl, 0], vec![nl, nl], vec![0, 0, nl], vec![0, nl, 0], vec![1, usize::MAX, 1], vec![usize::MAX, usize::MAX - 1],
            (0..255).map(|i| i % nl).collect(),
        ];
        let mut v = subset(r, nl, 5.min(nl)); let dup = v[r.below(v.len() as u64) as usize]; v.push(dup); shuffle(r, &mut v); bad.push(v);
        for idx in &bad {
            c_prove_batch(o, &t, &ls, idx);
            let mut q = base.dup(); q.idx = idx.clone();
            c_get_root(o, &q);
            c_into_paths(o, &q);
            c_verify_batch(o, &q);
        }
    }
    mark(o, &mut sizes);

    // ---------------------------------------------------------------- D: mutations
    for (root, nl, i, p) in &singles { mutate_single(o, r, *root, *nl, *i, p); }
    let mut rot = 0usize;
    for (q, paths, sorted) in &honest {
        mutate_batch(o, r, q, None, (thorough && *sorted) || q.n <= 4, &mut rot);
        if q.n <= 4 || r.chance(1, 8) { mutate_from_paths(o, r, paths, &q.idx); }
    }
    let cap_big = if thorough { 200 } else { 40 };
    if honest_big.len() > cap_big { shuffle(r, &mut honest_big); honest_big.truncate(cap_big); }
    for (q, paths) in &honest_big {
        mutate_batch(o, r, q, Some(if thorough { 40 } else { 36 }), thorough, &mut rot);
        if q.idx.len() <= 40 { mutate_from_paths(o, r, paths, &q.idx); }
    }
    // shapes of from_paths that do not derive from an honest opening
    c_from_paths(o, &[], &[]);
    c_from_paths(o, &[], &[0]);
    let leaves = rand_leaves(r, 256);
    let t = MerkleTree::<Toy>::new(leaves).unwrap();
    let all: Vec<Vec<TD>> = (0..256).map(|i| t.prove(i).unwrap()).collect();
    let ids: Vec<usize> = (0..256).collect();
    c_from_paths(o, &all, &ids);
    c_from_paths(o, &all[..255], &ids[..255]);
    c_from_paths(o, &all[1..], &ids[1..]);
    let rep: Vec<Vec<TD>> = (0..256).map(|_| all[7].clone()).collect();
    c_from_paths(o, &rep, &vec![7; 256]);
    c_from_paths(o, &rep[..3], &[7, 7, 7]);
    for l in [256usize, 257, 258, 259, 513] {
        let long: Vec<TD> = rand_leaves(r, l);
        c_from_paths(o, &[long.clone()], &[r.below(4) as usize]);
        c_from_paths(o, &[long.clone(), long.clone()], &[2, 3]);
        c_from_paths(o, &[long.clone(), long], &[1, 2]);
    }
    mark(o, &mut sizes);

    // ---------------------------------------------------------------- E: node codec
    let mut pool: Vec<&Opening<Toy>> = honest.iter().map(|h| &h.0).filter(|q| q.n >= 4).collect();
    shuffle(r, &mut pool);
    pool.truncate(if thorough { 200 } else { 40 });
    pool.extend(honest_big.iter().map(|h| &h.0).take(if thorough { 60 } else { 12 }));
    for (j, q) in pool.iter().enumerate() {
        let bytes = q.proof().serialize_nodes();
        c_ser(o, &q.nodes);
        c_deser(o, &bytes, &q.leaves, q.depth);
        let mut g = bytes.clone(); let extra = 1 + r.below(9) as usize; g.extend(r.bytes(extra)); c_deser(o, &g, &q.leaves, q.depth);
        for delta in [1u8, 255, 128] {
            let mut g = bytes.clone(); g[0] = g[0].wrapping_add(delta); c_deser(o, &g, &q.leaves, q.depth);
            if g.len() > 1 { let mut g = bytes.clone(); g[1] = g[1].wrapping_add(delta); c_deser(o, &g, &q.leaves, q.depth); }
        }
        let mut g = bytes.clone(); let p = r.below(g.len() as u64) as usize; g[p] ^= 1 << r.below(8); c_deser(o, &g, &q.leaves, q.depth);
        c_deser(o, &bytes, &q.leaves, 0);
        c_deser(o, &bytes, &[], q.depth);
        c_deser(o, &bytes, &q.leaves, [1u8, 63, 64, 255][j % 4]);
        if j < 4 || (thorough && j < 12) { for l in 0..bytes.len() { c_deser(o, &bytes[..l], &q.leaves, q.depth); } }
        if j < 2 {
            c_deser(o, &bytes, &rand_leaves(r, 255), q.depth);
            c_deser(o, &bytes, &rand_leaves(r, 256), q.depth);
            c_deser(o, &bytes, &rand_leaves(r, 257), q.depth);
        }
    }
    for _ in 0..(n / 10).clamp(10, 200) {
        let l = r.below(40) as usize;
        let mut g = r.bytes(l);
        if l > 0 && r.chance(2, 3) { g[0] = r.below(4) as u8; for x in g.iter_mut().skip(1) { if r.chance(1, 3) { *x = r.below(3) as u8; } } }
        let (nl, dp) = (1 + r.below(3) as usize, 1 + r.below(5) as u8);
        c_deser(o, &g, &rand_leaves(r, nl), dp);
    }
    c_deser(o, &[], &rand_leaves(r, 1), 1);
    c_deser(o, &[0], &rand_leaves(r, 1), 1);
    c_deser(o, &[255], &rand_leaves(r, 1), 1);
    let mut g = vec![255u8]; g.extend(vec![0u8; 255]); c_deser(o, &g, &rand_leaves(r, 2), 3); g.push(7); c_deser(o, &g, &rand_leaves(r, 2), 3);
    let mut g = vec![1u8, 255]; g.extend(r.bytes(255 * 8)); c_deser(o, &g, &rand_leaves(r, 2), 3); g.pop(); c_deser(o, &g, &rand_leaves(r, 2), 3);
    c_ser(o, &[]);
    c_ser(o, &[vec![]]);
    c_ser(o, &vec![vec![]; 255]);
    c_ser(o, &vec![vec![]; 256]);
    c_ser(o, &vec![vec![]; 257]);
    c_ser(o, &[rand_leaves(r, 255)]);
    c_ser(o, &[rand_leaves(r, 256)]);
    c_ser(o, &[rand_leaves(r, 2), rand_leaves(r, 256), vec![]]);
    let mut v: Vec<Vec<TD>> = vec![vec![]; 255]; v.push(rand_leaves(r, 1)); c_ser(o, &v);
    mark(o, &mut sizes);

    // ---------------------------------------------------------------- F: named malformed classes (shape only)
    let st = &mut SiteStats::default();
    let mut pool: Vec<Opening<Toy>> = Vec::new();
    for nl in [2usize, 4, 8, 16, 32, 64, 256] {
        let leaves = rand_leaves(r, nl);
        let t = MerkleTree::<Toy>::new(leaves).unwrap();
        let mut lists: Vec<Vec<usize>> = (0..if nl == 256 { 2 } else { 6 }).map(|_| gen_list(r, nl)).collect();
        if nl == 256 { for l in lists.iter_mut() { l.truncate(24); } }
        if nl <= 4 { lists.extend([vec![0], vec![1], vec![0, 1], vec![1, 0], vec![nl - 1], vec![nl - 2, nl - 1]]); }
        if nl >= 4 { lists.extend([vec![0, 1, nl - 1], vec![1, 2], vec![2, 0, 3, nl - 2], (0..nl.min(12)).rev().collect()]); }
        for idx in lists {
            if let Ok(p) = t.prove_batch(&idx) { pool.push(Opening::of(*t.root(), nl, &idx, &p)); }
        }
    }
    let per_class = if thorough { 120 } else { 30 };
    // two-leaf trees opened at position 0: with the depth byte set to 0 the only way to the last error of get_root (line 257)
    let pool2: Vec<Opening<Toy>> = (0..per_class).map(|_| {
        let t = MerkleTree::<Toy>::new(rand_leaves(r, 2)).unwrap();
        Opening::of(*t.root(), 2, &[0], &t.prove_batch(&[0]).unwrap())
    }).collect();
    for c in CLASSES {
        let (mut done, mut tries) = (0, 0);
        while done < per_class && tries < 6 * per_class {
            let q = if c.name == "depth-0" && tries % 2 == 0 { &pool2[tries / 2 % pool2.len()] } else { &pool[(tries * 7 + done) % pool.len()] };
            tries += 1;
            if let Some(x) = malform(q, c.name, r) { f_case(o, st, c, &x); done += 1; }
        }
    }
    for (j, q) in pool.iter().enumerate() { if j % 2 == 0 || thorough { f_deser(o, st, r, q); } }
    mark(o, &mut sizes);
    o.w.flush().unwrap();
    eprintln!("stream sizes: A={} B={} C={} D={} E={} F={}", sizes[0], sizes[1], sizes[2], sizes[3], sizes[4], sizes[5]);
    st.summary();
}

// ================================================================================================ falsifier
struct Fz { evals: usize, fails: usize, suppressed: usize, seen: BTreeMap<String, usize>, sites: BTreeMap<(&'static str, &'static str), usize>, classes: BTreeMap<&'static str, usize> }
impl Fz {
    fn fail(&mut self, what: &str, hasher: &str, input: impl FnOnce() -> String, expected: &str, actual: String) {
        let c = self.seen.entry(format!("{}/{}", what, hasher)).or_insert(0);
        *c += 1;
        if *c > 5 { self.suppressed += 1; return; }
        self.fails += 1;
        println!("{{\"what\":{},\"hasher\":{},\"input\":{},\"expected\":{},\"actual\":{}}}", jstr(what), jstr(hasher), jstr(&input()), jstr(expected), jstr(&actual));
    }
}

/// Oracle: the root is the pairwise merge of all leaves, level by level.
fn naive_root<H: Hasher>(leaves: &[H::Digest]) -> H::Digest {
    let mut level = leaves.to_vec();
    while level.len() > 1 { level = level.chunks(2).map(|c| H::merge(&[c[0], c[1]])).collect(); }
    level[0]
}
/// Oracle: fold a path (leaf first) upwards; the position's bits say on which side the running value goes.
fn fold_path<H: Hasher>(mut i: usize, path: &[H::Digest]) -> Option<H::Digest> {
    if path.len() < 2 { return None; }
    let mut cur = path[0];
    for s in &path[1..] { cur = if i & 1 == 0 { H::merge(&[cur, *s]) } else { H::merge(&[*s, cur]) }; i >>= 1; }
    if i == 0 { Some(cur) } else { None }
}
fn short<T: std::fmt::Debug>(r: &MRes<T>) -> String {
    match r { Err(m) => format!("panic: {}", m), Ok(Err(e)) => er(e), Ok(Ok(v)) => { let mut s = format!("Ok({:?})", v); s.truncate(200); s } }
}

/// Oracle (shape only, no digest): the guard `predict` names must be the one that answers.
fn pred_check<H: Hasher, T>(fz: &mut Fz, name: &str, f: &'static str, x: &Opening<H>, got: &MRes<T>, ctx: &dyn Fn() -> String) -> Site {
    let (site, want) = predict_o(f == "into_paths", x);
    let g = match got { Err(_) => "panic".to_string(), Ok(Err(e)) => er(e), Ok(Ok(_)) => "ok".into() };
    *fz.sites.entry((f, site.name())).or_insert(0) += 1;
    if g != want { fz.fail("error-site-oracle", name, || format!("{} {}", f, ctx()), &format!("{} at guard {}", want, site.name()), g); }
    if site >= Site::DeadLeafIdx { fz.fail("dead-branch-predicted", name, || format!("{} {}", f, ctx()), "a live guard", site.name().into()); }
    site
}

fn falsify_hasher<H: Hasher>(name: &str, real: bool, budget: usize, r: &mut Rng, fz: &mut Fz) {
    let end = fz.evals + budget;
    while fz.evals < end {
        let d = 1 + r.below(8) as usize;
        let n = 1usize << d;
        let leaves: Vec<H::Digest> = (0..n).map(|_| H::hash(&r.bytes(16))).collect();
        let lv = || format!("leaves={}", l_(&leaves, gd));
        let tree = match catch(AUS(|| MerkleTree::<H>::new(leaves.clone()))) {
            Ok(Ok(t)) => t,
            x => { fz.evals += 1; fz.fail("new", name, lv, "Ok(tree)", short(&x.map(|y| y.map(|_| ())))); continue; }
        };
        let root = *tree.root();
        let want = naive_root::<H>(&leaves);
        fz.evals += 1;
        if root != want { fz.fail("root", name, lv, &gd(&want), gd(&root)); }
        let rounds = [6, 6, 5, 4, 3, 2, 2, 1][d - 1];
        for _ in 0..rounds {
            // 2. single openings
            let i = r.below(n as u64) as usize;
            fz.evals += 1;
            let path = match catch(AUS(|| tree.prove(i))) {
                Ok(Ok(p)) => p,
                x => { fz.fail("prove", name, || format!("{} i={}", lv(), i), "Ok(path)", short(&x)); continue; }
            };
            let v = catch(AUS(|| MerkleTree::<H>::verify(root, i, &path)));
            if !matches!(v, Ok(Ok(()))) || path[0] != leaves[i] || path.len() != d + 1 || fold_path::<H>(i, &path) != Some(want) {
                fz.fail("prove/verify", name, || format!("{} i={} path={}", lv(), i, l_(&path, gd)), "Ok, leaf first, folds to naive root", short(&v));
            }
            // 3. batch openings
            let idx = gen_list(r, n);
            fz.evals += 1;
            let p = match catch(AUS(|| tree.prove_batch(&idx))) {
                Ok(Ok(p)) => p,
                x => { fz.fail("prove_batch", name, || format!("{} idx={}", lv(), li(&idx)), "Ok(proof)", short(&x.map(|y| y.map(|_| ())))); continue; }
            };
            let o = Opening::<H>::of(root, n, &idx, &p);
            let inp = || format!("{} {}", lv(), o.describe());
            let vb = o.verify_batch();
            if !matches!(vb, Ok(Ok(()))) { fz.fail("verify_batch-honest", name, inp, "Ok", short(&vb)); }
            let gr = o.get_root();
            if !matches!(&gr, Ok(Ok(x)) if *x == want) { fz.fail("get_root-honest", name, inp, &gd(&want), short(&gr)); }
            if p.leaves.len() != idx.len() || idx.iter().zip(&p.leaves).any(|(&i, l)| *l != leaves[i]) || p.depth as usize != d {
                fz.fail("prove_batch-leaves", name, inp, "proof.leaves[k] == leaves[idx[k]], depth == log2 n", "differs".into());
            }
            let singles: Vec<Vec<H::Digest>> = idx.iter().map(|&i| tree.prove(i).unwrap()).collect();
            let ip = o.into_paths();
            if !matches!(&ip, Ok(Ok(ps)) if *ps == singles) { fz.fail("into_paths-honest", name, inp, "the individual paths", short(&ip)); }
            match catch(AUS(|| BatchMerkleProof::<H>::from_paths(&singles, &idx))) {
                Ok(q) if q.leaves == p.leaves && q.nodes == p.nodes && q.depth == p.depth => {}
                Ok(q) => {
                    // from_paths orders the leaves by ascending position, prove_batch by the order of the index list
                    let mut sorted = idx.clone(); sorted.sort();
                    let by_pos: Vec<H::Digest> = sorted.iter().map(|&i| leaves[i]).collect();
                    let what = if q.leaves == by_pos && q.nodes == p.nodes && q.depth == p.depth { "from_paths-leaf-order" } else { "from_paths-honest" };
                    let qo = Opening::<H>::of(root, n, &idx, &q);
                    fz.fail(what, name, inp, "the batch proof (same leaves order, nodes, depth), verifying for idx", format!("{} ; verify_batch(root, idx, it) = {}", qo.describe(), short(&qo.verify_batch())));
                }
                Err(m) => fz.fail("from_paths-honest", name, inp, "the batch proof", format!("panic: {}", m)),
            }
            // 4. mutated openings must be rejected (acceptance only judged for collision-resistant hashers)
            for _ in 0..2 {
                fz.evals += 1;
                let ms = batch_muts(&o, r);
                let m = r.pick(&ms).clone();
                let x = apply(&o, &m, r);
                let inp = || format!("{} honest-idx={} mutation={:?} => {}", lv(), li(&idx), m, x.describe());
                let what = match m { Mut::AddNode(_) => "surplus-node-accepted", Mut::LeavesExt => "surplus-leaf-accepted", _ => "mutated-batch-accepted" };
                let oob = matches!(m, Mut::IdxTo(_, v) if v >= n) || matches!(m, Mut::AppendIdx(v) if v >= n);
                let g = x.get_root();
                pred_check(fz, name, "get_root", &x, &g, &inp);
                match &g {
                    Err(_) => fz.fail("panic-get_root", name, inp, "Err", short(&g)),
                    Ok(Ok(_)) if oob => fz.fail("out-of-range-index-accepted", name, inp, "Err", short(&g)),
                    Ok(Ok(y)) if real && *y == root => fz.fail(what, name, inp, "get_root: Err or another root", short(&g)),
                    _ => {}
                }
                let g = x.verify_batch();
                match &g {
                    Err(_) => fz.fail("panic-verify_batch", name, inp, "Err", short(&g)),
                    Ok(Ok(())) if real || oob => fz.fail(what, name, inp, "verify_batch: Err", short(&g)),
                    _ => {}
                }
                let g = x.into_paths();
                pred_check(fz, name, "into_paths", &x, &g, &inp);
                match &g {
                    Err(_) => fz.fail("panic-into_paths", name, inp, "Err", short(&g)),
                    Ok(Ok(_)) if oob => fz.fail("out-of-range-index-accepted", name, inp, "into_paths: Err", short(&g)),
                    Ok(Ok(ps)) if real && ps.len() == x.idx.len() && ps.iter().zip(&x.idx).all(|(p, &i)| fold_path::<H>(i, p) == Some(root)) =>
                        fz.fail(what, name, inp, "into_paths: Err or paths that do not resolve to the root", short(&g)),
                    _ => {}
                }
            }
            // 4b. named malformed classes (shape damage): the predicted guard answers, nothing is accepted, nothing panics
            for _ in 0..2 {
                fz.evals += 1;
                let c: &'static Class = &CLASSES[r.below(CLASSES.len() as u64) as usize];
                let Some(x) = malform(&o, c.name, r) else { continue };
                *fz.classes.entry(c.name).or_insert(0) += 1;
                let inp = || format!("{} honest-idx={} class={} => {}", lv(), li(&idx), c.name, x.describe());
                let g = x.get_root();
                let site = pred_check(fz, name, "get_root", &x, &g, &inp);
                if !c.sites.contains(&site) { fz.fail("malformed-class-unexpected-site", name, inp, &format!("{:?}", c.sites), site.name().into()); }
                match &g {
                    Err(_) => fz.fail("panic-get_root", name, inp, "Err", short(&g)),
                    Ok(Ok(y)) if real && *y == root => fz.fail("malformed-class-accepted", name, inp, "get_root: Err or another root", short(&g)),
                    _ => {}
                }
                let g = x.verify_batch();
                match &g {
                    Err(_) => fz.fail("panic-verify_batch", name, inp, "Err", short(&g)),
                    Ok(Ok(())) if real => fz.fail("malformed-class-accepted", name, inp, "verify_batch: Err", short(&g)),
                    Ok(Ok(())) if site != Site::Accept => fz.fail("malformed-class-accepted", name, inp, "verify_batch: Err", short(&g)),
                    _ => {}
                }
                let g = x.into_paths();
                let site = pred_check(fz, name, "into_paths", &x, &g, &inp);
                if !c.sites.contains(&site) { fz.fail("malformed-class-unexpected-site", name, inp, &format!("{:?}", c.sites), site.name().into()); }
                match &g {
                    Err(_) => fz.fail("panic-into_paths", name, inp, "Err", short(&g)),
                    Ok(Ok(ps)) if real && ps.len() == x.idx.len() && ps.iter().zip(&x.idx).all(|(p, &i)| fold_path::<H>(i, p) == Some(root)) =>
                        fz.fail("malformed-class-accepted", name, inp, "into_paths: Err or paths that do not resolve to the root", short(&g)),
                    _ => {}
                }
            }
            fz.evals += 1;
            let ms = single_muts(n, i, path.len(), r);
            let m = r.pick(&ms).clone();
            let (rt, i2, p2) = apply_single::<H>(root, i, &path, &m, r);
            let g = catch(AUS(|| MerkleTree::<H>::verify(rt, i2, &p2)));
            let inp = || format!("{} i={} mutation={:?} => root={} index={:x} path={}", lv(), i, m, gd(&rt), i2, l_(&p2, gd));
            match &g {
                Err(_) => fz.fail("panic-verify", name, inp, "Err", short(&g)),
                Ok(Ok(())) if real => fz.fail("mutated-path-accepted", name, inp, "Err", short(&g)),
                _ => {}
            }
            // 5. garbage never panics
            for _ in 0..2 {
                fz.evals += 1;
                let rd = |r: &mut Rng| H::hash(&r.bytes(4));
                let depth = match r.below(10) { 0 => 0u8, 1 => 1, 2 => 2, 3 => 63, 4 => 64, 5 => 255, 6 => d as u8, _ => r.next_u64() as u8 };
                let nidx = r.below(7) as usize;
                let idx: Vec<usize> = (0..nidx).map(|_| match r.below(6) {
                    0 | 1 => r.below(8) as usize,
                    2 => (1usize.checked_shl(depth as u32).unwrap_or(0)).wrapping_sub(r.below(3) as usize),
                    3 => usize::MAX - r.below(3) as usize,
                    4 => (1usize << 63) + r.below(2) as usize,
                    _ => r.next_u64() as usize >> r.below(64),
                }).collect();
                let x = Opening::<H> {
                    root, n, idx, depth,
                    leaves: (0..r.below(6)).map(|_| rd(r)).collect(),
                    nodes: (0..r.below(6)).map(|_| (0..r.below(5)).map(|_| rd(r)).collect()).collect(),
                };
                let inp = || format!("garbage {}", x.describe());
                let g = x.get_root(); if g.is_err() { fz.fail("panic-get_root", name, inp, "no panic", short(&g)); }
                pred_check(fz, name, "get_root", &x, &g, &inp);
                let g = x.verify_batch(); if g.is_err() { fz.fail("panic-verify_batch", name, inp, "no panic", short(&g)); }
                let g = x.into_paths(); if g.is_err() { fz.fail("panic-into_paths", name, inp, "no panic", short(&g)); }
                pred_check(fz, name, "into_paths", &x, &g, &inp);
                let pl = r.below(71) as usize;
                let path: Vec<H::Digest> = (0..pl).map(|_| rd(r)).collect();
                let i = match r.below(4) { 0 => r.below(8) as usize, 1 => usize::MAX, 2 => 1usize.checked_shl(pl as u32).unwrap_or(0).wrapping_sub(1 + r.below(2) as usize) >> 1, _ => r.next_u64() as usize >> r.below(64) };
                let g = catch(AUS(|| MerkleTree::<H>::verify(root, i, &path)));
                if g.is_err() { fz.fail("panic-verify", name, || format!("garbage index={:x} path={}", i, l_(&path, gd)), "no panic", short(&g)); }
            }
        }
    }
}

fn falsify(seed: u64, n: usize) {
    let r = &mut Rng::new(seed);
    let fz = &mut Fz { evals: 0, fails: 0, suppressed: 0, seen: BTreeMap::new(), sites: BTreeMap::new(), classes: BTreeMap::new() };
    // weights in 1/46ths: the Rescue hashers are ~20x slower
    let share = |w: usize| (n * w / 46).max(12);
    falsify_hasher::<Toy>("ToyHasher", false, share(10), r, fz);
    falsify_hasher::<Blake3_256<f64::BaseElement>>("Blake3_256", true, share(13), r, fz);
    falsify_hasher::<Blake3_192<f64::BaseElement>>("Blake3_192", true, share(10), r, fz);
    falsify_hasher::<Sha3_256<f64::BaseElement>>("Sha3_256", true, share(10), r, fz);
    falsify_hasher::<Rp64_256>("Rp64_256", true, share(1), r, fz);
    falsify_hasher::<RpJive64_256>("RpJive64_256", true, share(1), r, fz);
    falsify_hasher::<Rp62_248>("Rp62_248", true, share(1), r, fz);
    if fz.suppressed > 0 { eprintln!("suppressed {} repeated failures (more than 5 per what/hasher)", fz.suppressed); }
    let sites: Vec<String> = fz.sites.iter().map(|(k, v)| format!("{}:{}={}", k.0, k.1, v)).collect();
    eprintln!("falsifier guards answered (predicted = observed): {}", sites.join(" "));
    let classes: Vec<String> = fz.classes.iter().map(|(k, v)| format!("{}={}", k, v)).collect();
    eprintln!("falsifier malformed classes: {}", classes.join(" "));
    println!("evaluations={} failures={}", fz.evals, fz.fails);
}

fn main() {
    silence_panics();
    let args: Vec<String> = std::env::args().collect();
    let mode = args.get(1).map(|s| s.as_str()).unwrap_or("");
    let seed: u64 = args.get(2).and_then(|s| s.parse().ok()).unwrap_or(1);
    let n: usize = args.get(3).and_then(|s| s.parse().ok()).unwrap_or(300);
    match mode {
        "corr" => corr(seed, n, args.get(4).map(|s| s == "thorough").unwrap_or(false)),
        "falsify" => falsify(seed, n),
        _ => { eprintln!("usage: c10 corr <seed> <n> [thorough] | c10 falsify <seed> <n>"); std::process::exit(2); }
    }
}
