//! C06 harness: parsing and verifying arbitrary bytes never panics, aborts or over-allocates.
//!   c06 gen <seed> <corpus-file> [quick|thorough]   valid proofs of family members (run the RELEASE build: the debug prover trips debug-only assertions)
//!   c06 corr <seed> <n> <corpus-file>               lines "<case> => <outcome class of the REAL code>"; the library runs in a child process
//!                                                   (address-space limit, allocation cap) which is restarted after an abort / timeout
//!   c06 falsify <seed> <n> <corpus-file>            JSON failure lines + "evaluations=<n> failures=<k>"; oracle independent of the model:
//!                                                   no panic, no abort, no timeout, allocations bounded linearly in the input size
//!   c06 replay <name>                               the confirmed defects, against the crate as it is now
//! Case grammar (one line, consumed by ocaml/c06_driver.ml):
//!   V <fld> <hd> <mw> <aw> <nr> <logn> <ceb> <ncols> <policy> <proofhex>   Proof::from_bytes + verify::<StrictAir<B>, H, DefaultRandomCoin<H>>
//!   P <proofhex>                                                       Proof::from_bytes only, with the allocation total
//!   O <fld> <ext> <mw> <aw> <ncols> <hex>                               OodFrame::read_from_bytes + parse::<E>
//!   Q <fld> <ext> <hd> <dom> <nq> <vpq> <hex>                           Queries::read_from_bytes + parse::<H, E>
//!   F <fld> <ext> <hd> <dom> <ff> <hex>                                 FriProof::read_from_bytes + num_partitions + parse_remainder + parse_layers
//!   C <hd> <nseg> <nlayers> <hex>                                       Commitments::read_from_bytes + parse::<H>
//!   D <nq> <dom>                                                       DefaultRandomCoin::draw_integers
//!   L <fld> <hd> <logn> <aw> <nr> <proofhex>                            (falsifier only) Proof::from_bytes + verify::<SLagAir<B>, ..>: an AIR with a
//!                                                                      Lagrange kernel column and a GKR proof (outside the model's stage 3)
use std::alloc::{GlobalAlloc, Layout as ALayout, System};
use std::io::{Read, Write};
use std::panic::AssertUnwindSafe;
use std::sync::atomic::{AtomicUsize, Ordering};

use winter_air::{
    proof::{Commitments, OodFrame, Proof, Queries},
    Air, AirContext, Assertion, EvaluationFrame, FieldExtension, GkrVerifier, LagrangeKernelRandElements, ProofOptions, TraceInfo,
};
use winter_crypto::{
    hashers::{Blake3_192, Blake3_256, Rp62_248, Rp64_256, RpJive64_256, Sha3_256},
    DefaultRandomCoin, ElementHasher, RandomCoin,
};
use winter_fri::FriProof;
use winter_math::{
    fields::{f128, f62, f64, CubeExtension, QuadExtension},
    ExtensibleField, ExtensionOf, FieldElement, StarkField,
};
use winter_prover::{Prover, Trace};
use winter_utils::{Deserializable, Serializable};
use winter_verifier::{verify, AcceptableOptions, VerifierError};
use wf_harness::{airfam::*, catch, hex_bytes, jstr, lagfam::{self, LagAir, LagProver, LagTrace}, prng::Rng, silence_panics};

#[path = "../noncanon.rs"]
#[allow(dead_code)]
mod noncanon;

// ================================================================================================ counting allocator
struct Counting;
static TOTAL: AtomicUsize = AtomicUsize::new(0); // sum of all requested sizes
static MAXREQ: AtomicUsize = AtomicUsize::new(0); // largest single request
static CAP: AtomicUsize = AtomicUsize::new(usize::MAX); // requests above the cap are refused (-> alloc error -> abort)
unsafe impl GlobalAlloc for Counting {
    unsafe fn alloc(&self, l: ALayout) -> *mut u8 {
        TOTAL.fetch_add(l.size(), Ordering::Relaxed);
        MAXREQ.fetch_max(l.size(), Ordering::Relaxed);
        if l.size() > CAP.load(Ordering::Relaxed) { return std::ptr::null_mut(); }
        System.alloc(l)
    }
    unsafe fn dealloc(&self, p: *mut u8, l: ALayout) { System.dealloc(p, l) }
    unsafe fn realloc(&self, p: *mut u8, l: ALayout, new_size: usize) -> *mut u8 {
        TOTAL.fetch_add(new_size, Ordering::Relaxed);
        MAXREQ.fetch_max(new_size, Ordering::Relaxed);
        if new_size > CAP.load(Ordering::Relaxed) { return std::ptr::null_mut(); }
        System.realloc(p, l, new_size)
    }
}
#[global_allocator]
static A: Counting = Counting;
fn alloc_reset() { TOTAL.store(0, Ordering::Relaxed); MAXREQ.store(0, Ordering::Relaxed); }
fn alloc_read() -> (usize, usize) { (TOTAL.load(Ordering::Relaxed), MAXREQ.load(Ordering::Relaxed)) }

// ================================================================================================ fields, hashers
trait Fld: StarkField + ExtensibleField<2> + ExtensibleField<3> + 'static { const NAME: &'static str; }
impl Fld for f64::BaseElement { const NAME: &'static str = "f64"; }
impl Fld for f128::BaseElement { const NAME: &'static str = "f128"; }
impl Fld for f62::BaseElement { const NAME: &'static str = "f62"; }

type B64 = f64::BaseElement;
type B128 = f128::BaseElement;
type B62 = f62::BaseElement;

/// (field, hasher) combinations of the corpus.  The last three (third base field; the other two Rescue digests) are
/// "lite": their proofs get the element-level classes only (`lite_combo`)
const COMBOS: [(&str, &str); 8] = [("f64", "b3_256"), ("f64", "b3_192"), ("f64", "rp64"), ("f128", "b3_256"), ("f128", "sha3"),
                                   ("f64", "rpjive"), ("f62", "b3_256"), ("f62", "rp62")];
fn lite_combo(f: &str, h: &str) -> bool { f == "f62" || h == "rpjive" }
fn digest_len(h: &str) -> usize { if h == "b3_192" { 24 } else if h == "rp62" { 31 } else { 32 } }
fn elem_bytes_of(f: &str) -> usize { if f == "f128" { 16 } else { 8 } }
fn modulus_bytes(f: &str) -> Vec<u8> { match f { "f64" => B64::get_modulus_le_bytes(), "f128" => B128::get_modulus_le_bytes(), _ => B62::get_modulus_le_bytes() } }

macro_rules! dispatch {
    ($f:expr, $h:expr, $func:ident ( $($a:expr),* )) => {
        match ($f, $h) {
            ("f64", "b3_256") => $func::<B64, Blake3_256<B64>>($($a),*),
            ("f64", "b3_192") => $func::<B64, Blake3_192<B64>>($($a),*),
            ("f64", "rp64") => $func::<B64, Rp64_256>($($a),*),
            ("f128", "b3_256") => $func::<B128, Blake3_256<B128>>($($a),*),
            ("f128", "sha3") => $func::<B128, Sha3_256<B128>>($($a),*),
            ("f64", "rpjive") => $func::<B64, RpJive64_256>($($a),*),
            ("f62", "b3_256") => $func::<B62, Blake3_256<B62>>($($a),*),
            ("f62", "rp62") => $func::<B62, Rp62_248>($($a),*),
            _ => panic!("unknown field/hasher {} {}", $f, $h),
        }
    };
}

// ================================================================================================ the AIR handed to verify()
/// `FamAir` behind a constructor which, like the AIRs of real applications (`assert_eq!(TRACE_WIDTH, trace_info.width())`),
/// insists on the trace layout it was written for.  `Air::new` cannot return an error, so a proof whose context disagrees
/// with the AIR panics HERE (open finding F-C06-air-new-cannot-fail); without the assertion the same mismatch panics later
/// and less predictably (frame index in evaluate_transition, assertion validation in prepare_assertions).
pub struct StrictAir<B: StarkField>(FamAir<B>);
impl<B: StarkField + ExtensibleField<2> + ExtensibleField<3>> Air for StrictAir<B> {
    type BaseField = B;
    type PublicInputs = PubInputs<B>;
    type GkrProof = ();
    type GkrVerifier = ();
    fn new(ti: TraceInfo, pi: PubInputs<B>, options: ProofOptions) -> Self {
        let s = &pi.spec;
        assert!(ti.main_trace_width() == s.width && ti.aux_segment_width() == s.aux_width
            && ti.get_num_aux_segment_rand_elements() == s.aux_rands && ti.length() == s.n(),
            "air-new: the trace layout claimed by the proof is not the layout of this AIR");
        StrictAir(FamAir::new(ti, pi, options))
    }
    fn context(&self) -> &AirContext<B> { self.0.context() }
    fn evaluate_transition<E: FieldElement<BaseField = B>>(&self, frame: &EvaluationFrame<E>, periodic_values: &[E], result: &mut [E]) {
        self.0.evaluate_transition(frame, periodic_values, result)
    }
    fn get_assertions(&self) -> Vec<Assertion<B>> { self.0.get_assertions() }
    fn get_periodic_column_values(&self) -> Vec<Vec<B>> { self.0.get_periodic_column_values() }
    fn evaluate_aux_transition<F, E>(&self, main_frame: &EvaluationFrame<F>, aux_frame: &EvaluationFrame<E>, periodic: &[F], rands: &[E], result: &mut [E])
    where F: FieldElement<BaseField = B>, E: FieldElement<BaseField = B> + ExtensionOf<F> {
        self.0.evaluate_aux_transition(main_frame, aux_frame, periodic, rands, result)
    }
    fn get_aux_assertions<E: FieldElement<BaseField = B>>(&self, rands: &[E]) -> Vec<Assertion<E>> { self.0.get_aux_assertions(rands) }
}

// ================================================================================================ a prover whose trace carries metadata
// (TraceInfo::meta is an untrusted field of the proof: it is serialized in the context and absorbed into the coin seed by
// Context::to_elements -> from_bytes_with_padding; after harness/src/bin/c03.rs)
struct MetaTrace<B: StarkField> { inner: FamTrace<B>, info: TraceInfo }
impl<B: StarkField> Trace for MetaTrace<B> {
    type BaseField = B;
    fn info(&self) -> &TraceInfo { &self.info }
    fn main_segment(&self) -> &winter_prover::matrix::ColMatrix<B> { self.inner.main_segment() }
    fn read_main_frame(&self, row_idx: usize, frame: &mut EvaluationFrame<B>) { self.inner.read_main_frame(row_idx, frame) }
}
struct MetaProver<B: StarkField, H> { options: ProofOptions, _p: std::marker::PhantomData<(B, H)> }
impl<B: Fld, H: ElementHasher<BaseField = B> + Send + Sync> Prover for MetaProver<B, H> {
    type BaseField = B;
    type Air = FamAir<B>;
    type Trace = MetaTrace<B>;
    type HashFn = H;
    type RandomCoin = DefaultRandomCoin<H>;
    type TraceLde<E: FieldElement<BaseField = B>> = winter_prover::DefaultTraceLde<E, H>;
    type ConstraintEvaluator<'a, E: FieldElement<BaseField = B>> = winter_prover::DefaultConstraintEvaluator<'a, FamAir<B>, E>;
    fn get_pub_inputs(&self, trace: &MetaTrace<B>) -> PubInputs<B> {
        PubInputs { spec: trace.inner.spec.clone(), avals: assertion_values(&trace.inner.spec, &trace.inner.cols()) }
    }
    fn options(&self) -> &ProofOptions { &self.options }
    fn new_trace_lde<E: FieldElement<BaseField = B>>(&self, trace_info: &TraceInfo, main_trace: &winter_prover::matrix::ColMatrix<B>, domain: &winter_prover::StarkDomain<B>) -> (Self::TraceLde<E>, winter_prover::TracePolyTable<E>) {
        winter_prover::DefaultTraceLde::new(trace_info, main_trace, domain)
    }
    fn new_evaluator<'a, E: FieldElement<BaseField = B>>(&self, air: &'a FamAir<B>, aux_rand_elements: Option<winter_air::AuxRandElements<E>>, composition_coefficients: winter_air::ConstraintCompositionCoefficients<E>) -> Self::ConstraintEvaluator<'a, E> {
        winter_prover::DefaultConstraintEvaluator::new(air, aux_rand_elements, composition_coefficients)
    }
    fn build_aux_trace<E: FieldElement<BaseField = B>>(&self, trace: &MetaTrace<B>, aux_rand_elements: &winter_air::AuxRandElements<E>) -> winter_prover::matrix::ColMatrix<E> {
        winter_prover::matrix::ColMatrix::new(gen_aux::<B, E>(&trace.inner.spec, trace.inner.main_segment(), aux_rand_elements.rand_elements()))
    }
}

// ================================================================================================ an AIR with a Lagrange kernel column
/// The GKR step as an application has to write it: the proof (here: the number of random elements the prover drew) is
/// untrusted, so it is validated before it is used.  (lagfam::LagGkrVerifier accepts any value <= 64.)
#[derive(Debug, Clone, Default)]
pub struct StrictGkr { log_n: usize }
impl GkrVerifier for StrictGkr {
    type GkrProof = usize;
    type Error = String;
    fn verify<E, Hh>(&self, gkr_proof: usize, public_coin: &mut impl RandomCoin<BaseField = E::BaseField, Hasher = Hh>) -> Result<LagrangeKernelRandElements<E>, String>
    where E: FieldElement, Hh: ElementHasher<BaseField = E::BaseField> {
        if gkr_proof != self.log_n { return Err(format!("gkr proof: {} random elements claimed, {} expected", gkr_proof, self.log_n)); }
        let mut v: Vec<E> = Vec::with_capacity(gkr_proof);
        for _ in 0..gkr_proof { v.push(public_coin.draw().map_err(|e| e.to_string())?); }
        Ok(LagrangeKernelRandElements::new(v))
    }
}
/// `lagfam::LagAir` behind a constructor that insists on its layout (cf. StrictAir) and with the validating GKR verifier
pub struct SLagAir<B: StarkField>(LagAir<B>, usize);
impl<B: StarkField + ExtensibleField<2> + ExtensibleField<3>> Air for SLagAir<B> {
    type BaseField = B;
    type PublicInputs = ();
    type GkrProof = usize;
    type GkrVerifier = StrictGkr;
    fn new(ti: TraceInfo, _pi: (), options: ProofOptions) -> Self {
        assert!(ti.main_trace_width() == 1 && ti.aux_segment_width() >= 1, "air-new: the trace layout claimed by the proof is not the layout of this AIR");
        let log_n = ti.length().ilog2() as usize;
        SLagAir(LagAir::new(ti, (), options), log_n)
    }
    fn context(&self) -> &AirContext<B> { self.0.context() }
    fn evaluate_transition<E: FieldElement<BaseField = B>>(&self, frame: &EvaluationFrame<E>, p: &[E], result: &mut [E]) { self.0.evaluate_transition(frame, p, result) }
    fn get_assertions(&self) -> Vec<Assertion<B>> { self.0.get_assertions() }
    fn evaluate_aux_transition<F, E>(&self, m: &EvaluationFrame<F>, a: &EvaluationFrame<E>, p: &[F], r: &[E], result: &mut [E])
    where F: FieldElement<BaseField = B>, E: FieldElement<BaseField = B> + ExtensionOf<F> { self.0.evaluate_aux_transition(m, a, p, r, result) }
    fn get_aux_assertions<E: FieldElement<BaseField = B>>(&self, r: &[E]) -> Vec<Assertion<E>> { self.0.get_aux_assertions(r) }
    fn get_auxiliary_proof_verifier<E: FieldElement<BaseField = B>>(&self) -> StrictGkr { StrictGkr { log_n: self.1 } }
}

/// corpus line "lag <fld> <hsh> <options hex> <log_n> <aux width> <aux rands> <ext> <proof hex>" (9 tokens: not a `Base` line)
fn gen_lag<B: Fld, H>(fld: &str, hsh: &str, log_n: u32, aw: usize, nr: usize, o: [usize; 6]) -> Option<String>
where H: ElementHasher<BaseField = B> + Send + Sync {
    let opts = catch(|| ProofOptions::new(o[0], o[1], o[2] as u32, ext_of(o[3] as u8), o[4], o[5])).ok()?;
    let prover = LagProver::<B, H, DefaultRandomCoin<H>>::new(opts.clone(), aw);
    let proof = match catch(AssertUnwindSafe(|| prover.prove(LagTrace::<B>::new(log_n, aw, nr)))) { Ok(Ok(p)) => p, _ => return None };
    let _ = lagfam::take_uses();
    let bytes = proof.to_bytes();
    let acc = AcceptableOptions::MinConjecturedSecurity(0);
    let v = catch(AssertUnwindSafe(|| verify::<SLagAir<B>, H, DefaultRandomCoin<H>>(proof, (), &acc)));
    let _ = lagfam::take_uses();
    if !matches!(v, Ok(Ok(()))) { return None; }
    Some(format!("lag {} {} {} {} {} {} {} {}", fld, hsh, hex_bytes(&opts.to_bytes()), log_n, aw, nr, o[3], hex_bytes(&bytes)))
}
#[derive(Clone)]
struct LBase { fld: String, hsh: String, log_n: u32, aw: usize, nr: usize, ext: usize, bytes: Vec<u8> }
fn load_lag(path: &str) -> Vec<LBase> {
    std::fs::read_to_string(path).expect("corpus").lines().filter_map(|l| {
        let t: Vec<&str> = l.split(' ').collect();
        if t.len() != 9 || t[0] != "lag" { return None; }
        Some(LBase { fld: t[1].into(), hsh: t[2].into(), log_n: t[4].parse().ok()?, aw: t[5].parse().ok()?, nr: t[6].parse().ok()?, ext: t[7].parse().ok()?, bytes: unhex(t[8]) })
    }).collect()
}

// ================================================================================================ corpus
#[derive(Clone)]
struct Base { fld: String, hsh: String, spec: Spec, avals_hex: Vec<Vec<String>>, opts: [u8; 6], ceb: usize, ncols: usize, bytes: Vec<u8> }

fn spec_from_u64s(v: &[u64]) -> Option<Spec> {
    let mut i = 0usize;
    let mut nx = || { let x = *v.get(i)?; i += 1; Some(x) };
    let width = nx()? as usize; let log_n = nx()? as u32; let exemptions = nx()? as usize; let aux_width = nx()? as usize;
    let aux_rands = nx()? as usize; let aux_assert_last = nx()? != 0; let seed = nx()?; let constant_trace = nx()? != 0;
    let n = nx()? as usize; let mut degs = vec![]; for _ in 0..n { degs.push(nx()? as u32); }
    let n = nx()? as usize; let mut periodic = vec![]; for _ in 0..n { periodic.push(nx()? as usize); }
    let n = nx()? as usize; let mut use_per = vec![]; for _ in 0..n { use_per.push(nx()? != 0); }
    let n = nx()? as usize; let mut hold = vec![]; for _ in 0..n { hold.push(nx()? != 0); }
    let n = nx()? as usize; let mut assertions = vec![];
    for _ in 0..n {
        let (k, col, a, b) = (nx()?, nx()? as usize, nx()? as usize, nx()? as usize);
        assertions.push(match k { 0 => AKind::Single { col, step: a }, 1 => AKind::Periodic { col, first: a, stride: b }, _ => AKind::Sequence { col, first: a, stride: b } });
    }
    Some(Spec { width, log_n, degs, periodic, use_per, hold, exemptions, assertions, aux_width, aux_rands, aux_assert_last, seed, constant_trace, rot: vec![] })
}

fn unhex(s: &str) -> Vec<u8> {
    if s == "-" { return vec![]; }
    (0..s.len() / 2).map(|i| u8::from_str_radix(&s[2 * i..2 * i + 2], 16).unwrap()).collect()
}

fn base_line(b: &Base) -> String {
    let spec = b.spec.to_u64s().iter().map(|x| format!("{:x}", x)).collect::<Vec<_>>().join(",");
    let av = b.avals_hex.iter().map(|a| a.join(";")).collect::<Vec<_>>().join("|");
    format!("{} {} {} {} {} {} {} {}", b.fld, b.hsh, hex_bytes(&b.opts), spec, av, b.ceb, b.ncols, hex_bytes(&b.bytes))
}
fn parse_base(l: &str) -> Option<Base> {
    let t: Vec<&str> = l.split(' ').collect();
    if t.len() != 8 { return None; }
    let spec = spec_from_u64s(&t[3].split(',').map(|x| u64::from_str_radix(x, 16).unwrap()).collect::<Vec<_>>())?;
    let avals_hex = t[4].split('|').map(|a| a.split(';').map(|s| s.to_string()).collect()).collect();
    let o = unhex(t[2]);
    Some(Base { fld: t[0].into(), hsh: t[1].into(), spec, avals_hex, opts: [o[0], o[1], o[2], o[3], o[4], o[5]], ceb: t[5].parse().ok()?, ncols: t[6].parse().ok()?, bytes: unhex(t[7]) })
}
fn load_corpus(path: &str) -> Vec<Base> {
    std::fs::read_to_string(path).expect("corpus").lines().filter_map(parse_base).collect()
}
fn pub_inputs<B: Fld>(spec: &Spec, avals_hex: &[Vec<String>]) -> PubInputs<B> {
    PubInputs { spec: spec.clone(), avals: avals_hex.iter().map(|a| a.iter().map(|h| B::read_from_bytes(&unhex(h)).unwrap()).collect()).collect() }
}

fn ext_of(b: u8) -> FieldExtension { match b { 2 => FieldExtension::Quadratic, 3 => FieldExtension::Cubic, _ => FieldExtension::None } }

/// (ce_blowup_factor, num_constraint_composition_columns) of the AIR described by `spec`; None when its own constructor refuses it
fn air_params<B: Fld>(spec: &Spec, avals_hex: &[Vec<String>]) -> Option<(usize, usize)> {
    let ti = if spec.aux_width > 0 { catch(|| TraceInfo::new_multi_segment(spec.width, spec.aux_width, spec.aux_rands, spec.n(), vec![])).ok()? } else { catch(|| TraceInfo::new(spec.width, spec.n())).ok()? };
    let opts = ProofOptions::new(1, 128, 0, FieldExtension::None, 2, 0);
    let pi = pub_inputs::<B>(spec, avals_hex);
    let air = catch(AssertUnwindSafe(|| FamAir::<B>::new(ti, pi, opts))).ok()?;
    Some((air.ce_blowup_factor(), air.context().num_constraint_composition_columns()))
}
fn air_params_dyn(fld: &str, spec: &Spec, avals_hex: &[Vec<String>]) -> Option<(usize, usize)> {
    match fld { "f64" => air_params::<B64>(spec, avals_hex), "f128" => air_params::<B128>(spec, avals_hex), _ => air_params::<B62>(spec, avals_hex) }
}

/// one honest proof; None when the library's prover refuses the parameters
fn gen_one<B: Fld, H>(fld: &str, hsh: &str, spec: &Spec, o: [usize; 6]) -> Option<Base>
where H: ElementHasher<BaseField = B> + Send + Sync { gen_one_meta::<B, H>(fld, hsh, spec, o, &[]) }

/// ... with trace metadata (empty = the plain family prover)
fn gen_one_meta<B: Fld, H>(fld: &str, hsh: &str, spec: &Spec, o: [usize; 6], meta: &[u8]) -> Option<Base>
where H: ElementHasher<BaseField = B> + Send + Sync {
    let (q, blowup, grind, ext, fold, rem) = (o[0], o[1], o[2] as u32, ext_of(o[3] as u8), o[4], o[5]);
    let lde = spec.n() * blowup;
    if !fri_wellformed(lde, blowup, fold, rem) || q >= lde || !admissible(spec, blowup) { return None; }
    let opts = catch(|| ProofOptions::new(q, blowup, grind, ext, fold, rem)).ok()?;
    let cols = gen_main::<B>(spec);
    let trace = FamTrace::new(spec, cols);
    let (pi, proof) = if meta.is_empty() {
        let prover = FamProver::<B, H, DefaultRandomCoin<H>>::new(opts.clone());
        let pi = prover.get_pub_inputs(&trace);
        match catch(AssertUnwindSafe(|| prover.prove(trace))) { Ok(Ok(p)) => (pi, p), _ => return None }
    } else {
        let info = if spec.aux_width > 0 { TraceInfo::new_multi_segment(spec.width, spec.aux_width, spec.aux_rands, spec.n(), meta.to_vec()) }
                   else { TraceInfo::with_meta(spec.width, spec.n(), meta.to_vec()) };
        let prover = MetaProver::<B, H> { options: opts.clone(), _p: std::marker::PhantomData };
        let mt = MetaTrace { inner: trace, info };
        let pi = prover.get_pub_inputs(&mt);
        match catch(AssertUnwindSafe(|| prover.prove(mt))) { Ok(Ok(p)) => (pi, p), _ => return None }
    };
    let bytes = proof.to_bytes();
    let acc = AcceptableOptions::MinConjecturedSecurity(0);
    match catch(AssertUnwindSafe(|| verify::<StrictAir<B>, H, DefaultRandomCoin<H>>(proof.clone(), pi.clone(), &acc))) { Ok(Ok(())) => {}, _ => return None }
    let air = FamAir::<B>::new(proof.trace_info().clone(), pi.clone(), opts.clone());
    let avals_hex = pi.avals.iter().map(|a| a.iter().map(|e| hex_bytes(&e.to_bytes())).collect()).collect();
    let ob = opts.to_bytes();
    Some(Base { fld: fld.into(), hsh: hsh.into(), spec: spec.clone(), avals_hex, opts: [ob[0], ob[1], ob[2], ob[3], ob[4], ob[5]],
                ceb: air.ce_blowup_factor(), ncols: air.context().num_constraint_composition_columns(), bytes })
}

fn gen(seed: u64, path: &str, thorough: bool) {
    let mut r = Rng::new(seed ^ 0xC06);
    let mut out: Vec<Base> = Vec::new();
    // required coverage: f64 + f128, >= 2 hashers each, base + extension, 0 / 1 / several FRI layers, +- aux segment
    // (width, log_n, degree, aux_width, aux_rands, [queries, blowup, grinding, ext, fold, rem])
    let mut plans: Vec<(usize, u32, u32, usize, usize, [usize; 6])> = vec![
        (1, 3, 1, 0, 0, [3, 2, 0, 1, 2, 7]),   // 0 layers: lde 16 <= (7+1)*2
        (2, 3, 2, 0, 0, [4, 4, 0, 1, 4, 1]),   // lde 32, max_rem 8: 1 layer
        (2, 4, 2, 0, 0, [5, 4, 0, 2, 2, 0]),   // lde 64, max_rem 4: 4 layers, quadratic
        (3, 4, 3, 1, 1, [4, 4, 2, 1, 2, 1]),   // aux segment, grinding
        (2, 3, 2, 2, 2, [3, 4, 0, 2, 4, 1]),   // aux segment, quadratic
        (1, 5, 2, 0, 0, [6, 2, 0, 1, 8, 3]),   // lde 64, fold 8
        (2, 4, 2, 0, 0, [4, 8, 0, 3, 16, 0]),  // cubic (f64 only), fold 16: lde 128, max_rem 8: 1 layer
        (4, 3, 2, 0, 0, [15, 2, 0, 1, 2, 0]),  // many queries on a tiny domain (duplicates among the drawn positions)
    ];
    if thorough {
        plans.extend([(5, 5, 3, 3, 2, [8, 4, 3, 2, 4, 3]), (1, 6, 2, 0, 0, [10, 8, 0, 1, 2, 1]), (8, 3, 2, 1, 3, [7, 4, 0, 3, 2, 3])]);
    }
    let mut lag_lines: Vec<String> = Vec::new();
    for (f, h) in COMBOS {
        // all-zero traces (Spec::constant_trace): every element of every component is 0, so that "modulus + original value" fits
        // the word and the SAME residue exists in a second encoding (noncanonical:*=same); with an auxiliary segment of two
        // columns the second one is all zero.  Base field and the largest extension the field supports.
        if h == "b3_256" {
            let top = if f == "f128" { 2 } else { 3 };
            for (aux, ext) in [(0usize, 1usize), (0, top), (2, 2)] {
                let mut spec = Spec::simple(2, 3, 2, r.next_u64());
                spec.constant_trace = true; spec.aux_width = aux; spec.aux_rands = aux.min(1);
                if let Some(b) = dispatch!(f, h, gen_one(f, h, &spec, [4, 4, 0, ext, 4, 1])) { out.push(b); }
            }
        }
        // an AIR with a Lagrange kernel column and a GKR proof (harness/src/lagfam.rs)
        if h == "b3_256" || h == "rp64" {
            for (log_n, aw, nr, o) in [(3u32, 2usize, 1usize, [4usize, 4, 0, 2, 2, 1]), (4, 3, 2, [5, 2, 0, 1, 4, 3])] {
                if let Some(l) = dispatch!(f, h, gen_lag(f, h, log_n, aw, nr, o)) { lag_lines.push(l); }
            }
        }
        if lite_combo(f, h) {
            for pl in [&plans[1], &plans[4], &plans[6]] {
                let mut spec = Spec::simple(pl.0, pl.1, pl.2, r.next_u64());
                spec.aux_width = pl.3; spec.aux_rands = pl.4;
                spec.assertions.push(AKind::Single { col: 1, step: spec.n() - 1 });
                if let Some(b) = dispatch!(f, h, gen_one(f, h, &spec, pl.5)) { out.push(b); }
            }
            continue;
        }
        for (pi_, pl) in plans.iter().enumerate() {
            if !thorough && pi_ >= 5 && (h == "b3_192" || h == "sha3") { continue; }
            let mut spec = Spec::simple(pl.0, pl.1, pl.2, r.next_u64());
            spec.aux_width = pl.3; spec.aux_rands = pl.4;
            if pl.0 >= 2 { spec.assertions.push(AKind::Single { col: 1, step: spec.n() - 1 }); }
            if let Some(b) = dispatch!(f, h, gen_one(f, h, &spec, pl.5)) { out.push(b); }
        }
        // valid proofs whose context carries metadata: full-width blocks of 0xFF, the modulus bytes, random bytes
        {
            let eb = elem_bytes_of(f);
            let modb: Vec<u8> = modulus_bytes(f);
            let mut metas: Vec<Vec<u8>> = vec![vec![0xff; eb], { let mut m = modb.clone(); m.push(5); m }, r.bytes(2 * eb + 3)];
            if thorough { metas.push(vec![0xff; eb - 1]); metas.push(vec![0xff; 2 * eb]); metas.push(r.bytes(1000)); }
            if h == "b3_192" || h == "sha3" { metas.truncate(1); }
            for (k, meta) in metas.iter().enumerate() {
                let pl = &plans[k % 2 + 1];
                let mut spec = Spec::simple(pl.0, pl.1, pl.2, r.next_u64());
                spec.assertions.push(AKind::Single { col: 1, step: spec.n() - 1 });
                if let Some(b) = dispatch!(f, h, gen_one_meta(f, h, &spec, pl.5, meta)) { out.push(b); }
            }
        }
        // a few random members
        let extra = if thorough { 6 } else { 1 };
        let mut got = 0;
        for _ in 0..200 {
            if got >= extra { break; }
            let blowup = *r.pick(&[2usize, 4, 8]);
            let mut spec = random_spec(&mut r, 4, blowup);
            if spec.width > 4 { continue; }
            for d in spec.degs.iter_mut() { *d = (*d).min(blowup as u32).max(1); }
            spec.exemptions = 1;
            let ext = *r.pick(&[1usize, 2, if f == "f64" { 3 } else { 1 }]);
            let o = [2 + r.below(6) as usize, blowup, *r.pick(&[0usize, 0, 1]), ext, *r.pick(&[2usize, 4, 8]), *r.pick(&[0usize, 1, 3, 7])];
            if let Some(b) = dispatch!(f, h, gen_one(f, h, &spec, o)) { if b.bytes.len() < 12000 { out.push(b); got += 1; } }
        }
    }
    let mut f = std::fs::File::create(path).expect("create corpus");
    for b in &out { writeln!(f, "{}", base_line(b)).unwrap(); }
    for l in &lag_lines { writeln!(f, "{}", l).unwrap(); }
    println!("corpus: {} proofs (+{} with a Lagrange kernel column), sizes {:?}", out.len(), lag_lines.len(), out.iter().map(|b| b.bytes.len()).collect::<Vec<_>>());
}

// ================================================================================================ wire-format dissector (after harness/src/bin/c03.rs)
#[derive(Clone, Debug)]
struct Seg { name: String, pfx: Option<(usize, usize)>, start: usize, end: usize }
#[derive(Clone, Debug)]
struct Layout { segs: Vec<Seg>, nlayers: usize }
impl Layout { fn get(&self, name: &str) -> &Seg { self.segs.iter().find(|s| s.name == name).unwrap() } }

fn rd(bytes: &[u8], pos: usize, w: usize) -> Option<usize> {
    if pos + w > bytes.len() { return None; }
    let mut v = 0usize;
    for k in (0..w).rev() { v = (v << 8) | bytes[pos + k] as usize; }
    Some(v)
}
fn dissect(bytes: &[u8]) -> Option<Layout> {
    let mut segs = Vec::new();
    let mut pos = 0usize;
    let plain = |segs: &mut Vec<Seg>, pos: &mut usize, name: &str, len: usize| -> Option<()> {
        if *pos + len > bytes.len() { return None; }
        segs.push(Seg { name: name.to_string(), pfx: None, start: *pos, end: *pos + len }); *pos += len; Some(())
    };
    let pref = |segs: &mut Vec<Seg>, pos: &mut usize, name: &str, w: usize| -> Option<()> {
        let len = rd(bytes, *pos, w)?;
        if *pos + w + len > bytes.len() { return None; }
        segs.push(Seg { name: name.to_string(), pfx: Some((*pos, w)), start: *pos + w, end: *pos + w + len }); *pos += w + len; Some(())
    };
    let nseg = if *bytes.get(1)? > 0 { 2 } else { 1 };
    plain(&mut segs, &mut pos, "ti.main", 1)?; plain(&mut segs, &mut pos, "ti.aux", 1)?; plain(&mut segs, &mut pos, "ti.rands", 1)?; plain(&mut segs, &mut pos, "ti.loglen", 1)?;
    pref(&mut segs, &mut pos, "ti.meta", 2)?;
    pref(&mut segs, &mut pos, "modulus", 1)?;
    for n in ["o.queries", "o.blowup", "o.grinding", "o.ext", "o.fold", "o.rem"] { plain(&mut segs, &mut pos, n, 1)?; }
    plain(&mut segs, &mut pos, "nuq", 1)?;
    pref(&mut segs, &mut pos, "commitments", 2)?;
    for i in 0..nseg { pref(&mut segs, &mut pos, &format!("tq{}.values", i), 4)?; pref(&mut segs, &mut pos, &format!("tq{}.paths", i), 4)?; }
    pref(&mut segs, &mut pos, "cq.values", 4)?; pref(&mut segs, &mut pos, "cq.paths", 4)?;
    pref(&mut segs, &mut pos, "ood.trace", 2)?; pref(&mut segs, &mut pos, "ood.lagrange", 2)?; pref(&mut segs, &mut pos, "ood.evals", 2)?;
    let nlayers = rd(bytes, pos, 1)?;
    plain(&mut segs, &mut pos, "fri.nlayers", 1)?;
    for i in 0..nlayers { pref(&mut segs, &mut pos, &format!("fri{}.values", i), 4)?; pref(&mut segs, &mut pos, &format!("fri{}.paths", i), 4)?; }
    pref(&mut segs, &mut pos, "fri.remainder", 2)?;
    plain(&mut segs, &mut pos, "fri.partitions", 1)?;
    plain(&mut segs, &mut pos, "nonce", 8)?;
    let rest = bytes.len() - pos;
    plain(&mut segs, &mut pos, "gkr", rest)?;
    Some(Layout { segs, nlayers })
}
/// Replace the body of a component; rewrite its length prefix when it has one.
fn splice(bytes: &[u8], s: &Seg, body: &[u8]) -> Vec<u8> {
    let mut m = bytes[..s.start].to_vec();
    m.extend_from_slice(body);
    m.extend_from_slice(&bytes[s.end..]);
    if let Some((p, w)) = s.pfx { let mut v = body.len(); for k in 0..w { m[p + k] = (v & 0xff) as u8; v >>= 8; } }
    m
}
/// vint64 encoding of `v` in `l` bytes (1..=9); None when the value does not fit that form.  l larger than necessary
/// gives a non-canonical form, which the reader accepts (utils/core/src/serde/byte_reader.rs read_usize)
fn vint(v: u64, l: usize) -> Option<Vec<u8>> {
    if l == 9 { let mut o = vec![0u8]; o.extend_from_slice(&v.to_le_bytes()); return Some(o); }
    if l == 0 || l > 8 || (7 * l < 64 && v >> (7 * l) != 0) { return None; }
    let x: u128 = (((v as u128) << 1) | 1) << (l - 1);
    Some(x.to_le_bytes()[..l].to_vec())
}

fn set_le(m: &mut [u8], p: usize, w: usize, mut v: u64) { for k in 0..w { m[p + k] = (v & 0xff) as u8; v >>= 8; } }

// ================================================================================================ cases
#[derive(Clone)]
struct VCase { label: String, fld: String, hsh: String, spec: Spec, avals_hex: Vec<Vec<String>>, ceb: usize, ncols: usize, policy: Option<[u8; 6]>, bytes: Vec<u8> }
#[derive(Clone)]
struct LCase { label: String, fld: String, hsh: String, log_n: u32, aw: usize, nr: usize, bytes: Vec<u8> }
#[derive(Clone)]
enum Case { V(VCase), Line(String, String), L(LCase) } // Line(label, "<kind> ...")

impl VCase {
    fn line(&self) -> String {
        let pol = match self.policy { None => "all".to_string(), Some(o) => format!("set:{}", hex_bytes(&o)) };
        format!("V {} {} {} {} {} {} {} {} {} {}", self.fld, digest_len(&self.hsh), self.spec.width, self.spec.aux_width, self.spec.aux_rands,
                self.spec.log_n, self.ceb, self.ncols, pol, hex_bytes(&self.bytes))
    }
}

fn vcase(b: &Base, label: String, bytes: Vec<u8>) -> Case {
    Case::V(VCase { label, fld: b.fld.clone(), hsh: b.hsh.clone(), spec: b.spec.clone(), avals_hex: b.avals_hex.clone(), ceb: b.ceb, ncols: b.ncols, policy: None, bytes })
}

/// values a length / count / size field of `w` bytes is set to
fn field_values(w: usize, orig: u64) -> Vec<u64> {
    let max = if w >= 8 { u64::MAX } else { (1u64 << (8 * w)) - 1 };
    let mut v = vec![0, 1, 2, max - 1, max, orig.wrapping_sub(1) & max, (orig + 1) & max, (orig * 2) & max, orig / 2, 0x7f, 0x80, 0xff & max, 0x100 & max, (max >> 1), (max >> 1) + 1];
    v.sort_unstable(); v.dedup(); v.retain(|&x| x != orig); v
}

/// trace metadata (an untrusted field of the context, absorbed into the coin seed chunk by chunk): re-serialised contexts
/// with metadata of every interesting length and filling, at every alignment
fn meta_mutations(b: &Base, lay: &Layout, r: &mut Rng, out: &mut Vec<Case>) {
    let bytes = &b.bytes;
        let meta = lay.get("ti.meta");
        let ebb = elem_bytes_of(&b.fld);
        let modb: Vec<u8> = modulus_bytes(&b.fld);
        let mut modp = modb.clone(); for x in modp.iter_mut() { let (y, c) = x.overflowing_add(1); *x = y; if !c { break; } }   // modulus + 1
        let mut modm = modb.clone(); for x in modm.iter_mut() { let (y, c) = x.overflowing_sub(1); *x = y; if !c { break; } }   // modulus - 1
        let fill = |kind: usize, n: usize, r: &mut Rng| -> Vec<u8> { match kind {
            0 => vec![0u8; n], 1 => vec![0xff; n],
            2 => modb.iter().cycle().take(n).copied().collect(), 3 => modp.iter().cycle().take(n).copied().collect(),
            4 => modm.iter().cycle().take(n).copied().collect(), _ => r.bytes(n) } };
        let kinds = ["00", "ff", "mod", "mod+1", "mod-1", "rnd"];
        for n in [0usize, 1, ebb - 1, ebb, ebb + 1, 2 * ebb - 1, 2 * ebb, 2 * ebb + 1, 3 * ebb] {
            for (k, kn) in kinds.iter().enumerate() {
                if n == 0 && k > 0 { continue; }
                out.push(vcase(b, format!("meta:len={},fill={}", n, kn), splice(bytes, meta, &fill(k, n, r))));
            }
        }
        // one full-width block of 0xFF / modulus / modulus+1 after `a` zero bytes, followed by one more byte
        for a in 0..2 * ebb {
            for k in [1usize, 2, 3] {
                let mut m = vec![0u8; a]; m.extend(fill(k, ebb, r)); m.push(1);
                out.push(vcase(b, format!("meta:align={},block={}", a, kinds[k]), splice(bytes, meta, &m)));
            }
        }
        for k in [1usize, 2, 5] { if k == 1 || r.chance(1, 3) { out.push(vcase(b, format!("meta:len=65535,fill={}", kinds[k]), splice(bytes, meta, &fill(k, 65535, r)))); } }
        // the existing metadata (if any) with single bytes set to 0xFF
        let body = &bytes[meta.start..meta.end];
        for i in 0..body.len().min(64) { let mut nb = body.to_vec(); nb[i] = 0xff; out.push(vcase(b, format!("meta:byte{}=ff", i), splice(bytes, meta, &nb))); }
}

/// The element-bearing components of a serialized proof: (name, offsets of the elements, field of the words, words per element).
/// `ext`: degree of the extension the proof works in; `hsh`: hasher (Rescue digests are four field elements each).
fn element_regions(bytes: &[u8], lay: &Layout, fld: &str, ext: usize, hsh: &str) -> Vec<(String, Vec<usize>, noncanon::Fp, usize)> {
    let f = noncanon::fp(fld);
    let mut v = Vec::new();
    for s in &lay.segs {
        let n = s.name.as_str();
        if s.end <= s.start { continue; }
        if n == "ood.trace" || n == "ood.lagrange" { v.push((n.to_string(), noncanon::run_elems(s.start + 1, s.end, &f, ext), f, ext)); }
        else if n == "ood.evals" || n == "fri.remainder" || n == "cq.values" || n == "tq1.values" || (n.starts_with("fri") && n.ends_with(".values")) { v.push((n.to_string(), noncanon::run_elems(s.start, s.end, &f, ext), f, ext)); }
        else if n == "tq0.values" { v.push((n.to_string(), noncanon::run_elems(s.start, s.end, &f, 1), f, 1)); }
    }
    if let Some((df, limbs)) = noncanon::digest_field(hsh) {
        let dl = digest_len(hsh);
        let c = lay.get("commitments");
        v.push(("commitments".into(), (0..(c.end - c.start) / dl).map(|i| c.start + i * dl).collect(), df, limbs));
        for s in lay.segs.iter().filter(|s| s.name.ends_with(".paths")) {
            let offs = noncanon::path_digests(bytes, s.start, s.end, dl);
            if !offs.is_empty() { v.push((s.name.clone(), offs, df, limbs)); }
        }
    }
    v.retain(|x| !x.1.is_empty());
    v
}

/// `noncanonical:<component>:<pos>.<limb>=<kind>`: ONE base-field word of an element-bearing component overwritten with a
/// non-canonical encoding (harness/src/noncanon.rs).  Returns the mutants (for the component-level cases as well).
fn noncanonical_mutants(bytes: &[u8], fld: &str, ext: usize, hsh: &str) -> Vec<noncanon::Mutant> {
    let lay = match dissect(bytes) { Some(l) => l, None => return vec![] };
    let mut all = Vec::new();
    for (name, elems, f, deg) in element_regions(bytes, &lay, fld, ext, hsh) {
        let (ms, _) = noncanon::mutants(bytes, &name, &elems, &f, deg);
        all.extend(ms);
    }
    all
}

/// `frilayer:*`: a FRI layer without query values (FriProofLayer::read_from refuses it; FriProofLayer::parse has a second
/// check behind it), with and without authentication paths
fn empty_layer_mutants(bytes: &[u8], lay: &Layout) -> Vec<(String, Vec<u8>)> {
    let mut v = Vec::new();
    let cnt = lay.get("fri.nlayers").start;
    if lay.nlayers > 0 {
        let last = lay.nlayers - 1;
        for i in if last == 0 { vec![0] } else { vec![0, last] } {
            let (vs, ps) = (lay.get(&format!("fri{}.values", i)).clone(), lay.get(&format!("fri{}.paths", i)).clone());
            v.push((format!("frilayer:values-empty@{}", i), splice(bytes, &vs, &[])));
            // both: the paths first (they lie behind the values)
            let m = splice(bytes, &ps, &[]);
            v.push((format!("frilayer:paths-empty@{}", i), m.clone()));
            v.push((format!("frilayer:both-empty@{}", i), splice(&m, &vs, &[])));
        }
    }
    if bytes[cnt] < 255 {
        // a layer of nothing inserted in front of the remainder (count byte adjusted)
        let rp = lay.get("fri.remainder").pfx.unwrap().0;
        for (lbl, layer) in [("frilayer:inserted-both-empty", vec![0u8; 8]), ("frilayer:inserted-values-empty", vec![0, 0, 0, 0, 2, 0, 0, 0, 1, 0])] {
            let mut m = bytes[..rp].to_vec(); m.extend_from_slice(&layer); m.extend_from_slice(&bytes[rp..]); m[cnt] += 1;
            v.push((lbl.to_string(), m));
        }
    }
    v
}

fn lite(b: &Base) -> bool { lite_combo(&b.fld, &b.hsh) || b.spec.constant_trace }

/// Structure-aware mutations of one valid proof.  `budget` bounds the sampled classes; the field classes are exhaustive.
fn mutations(b: &Base, r: &mut Rng, budget: usize, exhaustive_bits: bool, out: &mut Vec<Case>) {
    let bytes = &b.bytes;
    let lay = dissect(bytes).expect("honest proof dissects");
    let dl = digest_len(&b.hsh);
    out.push(vcase(b, "valid".into(), bytes.clone()));
    // --- the acceptance policy as the application would set it: exactly the options of the honest proof
    if let Case::V(mut c) = vcase(b, "valid:optionset".into(), bytes.clone()) { c.policy = Some(b.opts); out.push(Case::V(c)); }
    // ... and a policy that does not list them (one more / one fewer query)
    for d in [1i16, -1] {
        let q = b.opts[0] as i16 + d;
        if q >= 1 && q <= 255 { if let Case::V(mut c) = vcase(b, format!("valid:optionset-mismatch{:+}", d), bytes.clone()) { let mut o = b.opts; o[0] = q as u8; c.policy = Some(o); out.push(Case::V(c)); } }
    }
    // --- 0. element level: non-canonical encodings of ONE base-field word in every element-bearing component; empty FRI layers
    for m in noncanonical_mutants(bytes, &b.fld, (b.opts[3] as usize).max(1), &b.hsh) { out.push(vcase(b, m.label(), m.bytes)); }
    for (lbl, m) in empty_layer_mutants(bytes, &lay) { out.push(vcase(b, lbl, m)); }
    // the third base field, the other Rescue digests and the all-zero proofs exist for the element-level classes: besides
    // those they get the length fields, a few truncations and random changes only
    if lite(b) && !exhaustive_bits {
        for s in &lay.segs {
            if let Some((p, w)) = s.pfx {
                let orig = rd(bytes, p, w).unwrap() as u64;
                for v in [0u64, orig.wrapping_sub(1), orig + 1] { if v != orig { let mut m = bytes.clone(); set_le(&mut m, p, w, v); out.push(vcase(b, format!("lenfield:{}={}", s.name, v), m)); } }
            }
        }
        // digests cut inside a limb (the Rescue digest readers read limb by limb), prefix rewritten
        for s in lay.segs.iter().filter(|s| s.name == "commitments" || s.name.ends_with(".paths")) {
            let body = &bytes[s.start..s.end];
            for k in [1usize, 2, 5, 9, 17, 25] { if body.len() > k { out.push(vcase(b, format!("resize:{}-{}", s.name, k), splice(bytes, s, &body[..body.len() - k]))); } }
        }
        for _ in 0..budget.min(24) {
            let i = r.below(bytes.len() as u64) as usize;
            out.push(vcase(b, format!("truncate@{}", i), bytes[..i].to_vec()));
            let mut m = bytes.clone(); m[i] ^= 1 << r.below(8); out.push(vcase(b, format!("rnd@{}", i), m));
        }
        return;
    }
    // proofs generated WITH metadata exist for the metadata class: they get that class, the metadata length field and the
    // header bit flips only (the other classes are exercised on the proofs without metadata)
    { let ms = lay.get("ti.meta");
      if ms.end > ms.start && !exhaustive_bits {
        meta_mutations(b, &lay, r, out);
        let (p, w) = ms.pfx.unwrap(); let orig = rd(bytes, p, w).unwrap() as u64;
        for v in field_values(w, orig) { let mut m = bytes.clone(); set_le(&mut m, p, w, v); out.push(vcase(b, format!("lenfield:ti.meta={}", v), m)); }
        let hdr = lay.get("commitments").start + 2;
        for i in 0..hdr { for bit in 0..8 { let mut m = bytes.clone(); m[i] ^= 1 << bit; out.push(vcase(b, format!("bit@{}.{}", i, bit), m)); } }
        return;
      } }
    // --- 1. every length / count / size field: overwritten in place (the rest of the proof keeps its bytes)
    for s in &lay.segs {
        if let Some((p, w)) = s.pfx {
            let orig = rd(bytes, p, w).unwrap() as u64;
            for v in field_values(w, orig) { let mut m = bytes.clone(); set_le(&mut m, p, w, v); out.push(vcase(b, format!("lenfield:{}={}", s.name, v), m)); }
        }
    }
    for name in ["ti.main", "ti.aux", "ti.rands", "ti.loglen", "o.queries", "o.blowup", "o.grinding", "o.ext", "o.fold", "o.rem", "nuq", "fri.nlayers", "fri.partitions"] {
        let s = lay.get(name);
        let vals: Vec<u64> = if name == "ti.loglen" || name == "fri.partitions" { (0..=70).chain([127, 128, 254, 255]).collect() }
                             else if name.starts_with("o.") { (0..=255).collect() } else { field_values(1, bytes[s.start] as u64) };
        for v in vals { if v as u8 == bytes[s.start] { continue; } let mut m = bytes.clone(); m[s.start] = v as u8; out.push(vcase(b, format!("field:{}={}", name, v), m)); }
    }
    // first byte of the OOD trace states (frame size), of the Lagrange component (frame length), counts inside every paths blob
    for name in ["ood.trace", "ood.lagrange"] {
        let s = lay.get(name);
        if s.end > s.start { for v in field_values(1, bytes[s.start] as u64) { let mut m = bytes.clone(); m[s.start] = v as u8; out.push(vcase(b, format!("count:{}[0]={}", name, v), m)); } }
    }
    for s in lay.segs.iter().filter(|s| s.name.ends_with(".paths")) {
        // u8 #vectors, then per vector u8 #digests + digests
        let pb = &bytes[s.start..s.end];
        let mut offs = vec![];
        if !pb.is_empty() { offs.push(0usize); let nv = pb[0] as usize; let mut p = 1; for _ in 0..nv { if p >= pb.len() { break; } offs.push(p); p += 1 + pb[p] as usize * dl; } }
        for (i, &o) in offs.iter().enumerate() {
            if i > 3 && i + 2 < offs.len() { continue; }
            for v in [0u64, 1, 2, 254, 255, pb[o] as u64 + 1, (pb[o] as u64).wrapping_sub(1) & 0xff] {
                if v as u8 == pb[o] { continue; }
                let mut m = bytes.clone(); m[s.start + o] = v as u8; out.push(vcase(b, format!("count:{}@{}={}", s.name, o, v), m));
            }
        }
        // depth bytes changed CONSISTENTLY: one digest dropped from / appended to the first non-empty vector, prefix rewritten
        if offs.len() > 1 {
            for &o in offs[1..].iter().take(2) {
                let nd = pb[o] as usize;
                if nd > 0 && o + 1 + dl <= pb.len() { let mut nb = pb.to_vec(); nb[o] -= 1; nb.drain(o + 1..o + 1 + dl); out.push(vcase(b, format!("resize:{}:vector-1", s.name), splice(bytes, s, &nb))); }
                if nd < 255 { let mut nb = pb.to_vec(); nb[o] += 1; let ins = r.bytes(dl); for (k, x) in ins.iter().enumerate() { nb.insert(o + 1 + k, *x); } out.push(vcase(b, format!("resize:{}:vector+1", s.name), splice(bytes, s, &nb))); }
            }
            // one whole vector dropped / appended
            let mut nb = pb.to_vec(); nb[0] = nb[0].wrapping_sub(1); let o = offs[offs.len() - 1]; nb.truncate(o); out.push(vcase(b, format!("resize:{}:vectors-1", s.name), splice(bytes, s, &nb)));
            let mut nb = pb.to_vec(); nb[0] = nb[0].wrapping_add(1); nb.push(0); out.push(vcase(b, format!("resize:{}:vectors+1", s.name), splice(bytes, s, &nb)));
        }
    }
    // --- 2. components resized CONSISTENTLY (prefix rewritten): structurally valid proofs with inconsistent components
    let eb = elem_bytes_of(&b.fld) * (b.opts[3] as usize).max(1);
    for s in lay.segs.iter().filter(|s| s.pfx.is_some()) {
        let body = &bytes[s.start..s.end];
        for k in [1usize, eb, dl, 2 * eb, body.len() / 2, body.len()] {
            if k > 0 && body.len() >= k { out.push(vcase(b, format!("resize:{}-{}", s.name, k), splice(bytes, s, &body[..body.len() - k]))); }
            if k > 0 && k <= 4 * eb.max(dl) { let mut nb = body.to_vec(); nb.extend(std::iter::repeat(0u8).take(k)); out.push(vcase(b, format!("resize:{}+{}z", s.name, k), splice(bytes, s, &nb)));
                                               let mut nb = body.to_vec(); nb.extend(r.bytes(k)); out.push(vcase(b, format!("resize:{}+{}r", s.name, k), splice(bytes, s, &nb))); }
        }
        let (_, w) = s.pfx.unwrap();
        if w == 2 && body.len() > 0 { // a component grown to the largest size its prefix can announce
            let mut nb = body.to_vec(); nb.resize(65535, 0); out.push(vcase(b, format!("resize:{}=65535", s.name), splice(bytes, s, &nb)));
        }
    }
    // wrong number of queries: nuq changed together with the tables (one row dropped from / added to every table)
    {
        let nuq = bytes[lay.get("nuq").start] as usize;
        for delta in [-1i64, 1] {
            let nn = nuq as i64 + delta;
            if nn < 0 || nn > 255 { continue; }
            let mut m = bytes.clone();
            // splice from the back so that earlier offsets stay valid
            let mut names: Vec<String> = lay.segs.iter().filter(|s| (s.name.starts_with("tq") || s.name.starts_with("cq")) && s.name.ends_with(".values")).map(|s| s.name.clone()).collect();
            names.reverse();
            for n in names {
                let s = lay.get(&n); let body = &bytes[s.start..s.end];
                let row = if nuq > 0 { body.len() / nuq } else { 0 };
                let nb: Vec<u8> = if delta < 0 { body[..body.len() - row].to_vec() } else { let mut x = body.to_vec(); x.extend_from_slice(&body[..row]); x };
                m = splice(&m, s, &nb);
            }
            m[lay.get("nuq").start] = nn as u8;
            out.push(vcase(b, format!("queries:nuq{:+}+tables", delta), m));
        }
    }
    // wrong layer count: a layer removed / duplicated (count byte rewritten)
    {
        let cnt = lay.get("fri.nlayers").start;
        if lay.nlayers > 0 {
            let a = lay.get("fri0.values").pfx.unwrap().0; let e = lay.get("fri0.paths").end;
            let mut m = bytes[..a].to_vec(); m.extend_from_slice(&bytes[e..]); m[cnt] -= 1; out.push(vcase(b, "layers:-1".into(), m));
            let mut m = bytes[..e].to_vec(); m.extend_from_slice(&bytes[a..e]); m.extend_from_slice(&bytes[e..]); m[cnt] += 1; out.push(vcase(b, "layers:+1(copy)".into(), m));
        }
        // a minimal extra layer: one all-zero row and an empty batch proof
        let rp = lay.get("fri.remainder").pfx.unwrap().0;
        let fold = b.opts[4] as usize;
        let mut layer = vec![]; layer.extend_from_slice(&((eb * fold) as u32).to_le_bytes()); layer.extend(std::iter::repeat(0u8).take(eb * fold)); layer.extend_from_slice(&2u32.to_le_bytes()); layer.extend_from_slice(&[1, 0]);
        let mut m = bytes[..rp].to_vec(); m.extend_from_slice(&layer); m.extend_from_slice(&bytes[rp..]); m[cnt] += 1; out.push(vcase(b, "layers:+1(minimal)".into(), m));
        // as many minimal layers as the count byte allows
        let mut m = bytes[..rp].to_vec(); for _ in lay.nlayers..255 { m.extend_from_slice(&layer); } m.extend_from_slice(&bytes[rp..]); m[cnt] = 255; out.push(vcase(b, "layers:=255".into(), m));
    }
    // options whose folding schedule runs below the folding factor, with exactly the layers and commitments they imply
    // (mutating the options alone is stopped by the layer-count check): fold 16 / 8 / 4, remainder degree 0, 1
    {
        let lde = b.spec.n() * b.opts[1] as usize;
        for (f, r_) in [(16u8, 0u8), (16, 1), (8, 0), (4, 0), (2, 0)] {
            let (mut d, mut k) = (lde, 0usize);
            while d > (r_ as usize + 1) * b.opts[1] as usize { d /= f as usize; k += 1; }
            let mut m = bytes.clone(); m[lay.get("o.fold").start] = f; m[lay.get("o.rem").start] = r_;
            let rp = lay.get("fri.remainder").pfx.unwrap().0; let a = lay.get("fri.nlayers").start + 1;
            let mut layer = vec![]; layer.extend_from_slice(&((eb * f as usize) as u32).to_le_bytes()); layer.extend(std::iter::repeat(0u8).take(eb * f as usize)); layer.extend_from_slice(&2u32.to_le_bytes()); layer.extend_from_slice(&[1, 0]);
            let mut m2 = m[..a].to_vec(); for _ in 0..k { m2.extend_from_slice(&layer); } m2.extend_from_slice(&m[rp..]); m2[a - 1] = k as u8;
            if let Some(l3) = dissect(&m2) {
                let nseg = if b.spec.aux_width > 0 { 2 } else { 1 };
                let m3 = splice(&m2, l3.get("commitments"), &vec![0u8; dl * (nseg + 1 + k + 1)]);
                out.push(vcase(b, format!("schedule:fold={},rem={},layers={},last-domain={}", f, r_, k, d), m3));
            }
        }
    }
    // Lagrange kernel frame present although the AIR has no such column (with and without the matching change of the trace states)
    {
        let s = lay.get("ood.lagrange");
        for n in [1usize, 2, b.spec.log_n as usize + 1, 255] {
            let mut nb = vec![n as u8]; nb.extend(std::iter::repeat(0u8).take(n * eb));
            let m = splice(bytes, s, &nb);
            out.push(vcase(b, format!("lagrange:frame={}", n), m.clone()));
            // ... and one column (two elements) removed from the trace states, so that OodFrame::parse goes through
            let l2 = dissect(&m).unwrap(); let t = l2.get("ood.trace"); let body = &m[t.start..t.end];
            if body.len() >= 1 + 2 * eb { out.push(vcase(b, format!("lagrange:frame={}+trace-1col", n), splice(&m, t, &body[..body.len() - 2 * eb]))); }
        }
        // the OOD frame with 1, 3, 4 rows per column (frame size byte and element count changed together)
        let t = lay.get("ood.trace"); let body = &bytes[t.start..t.end];
        if !body.is_empty() {
            let ncol = (body.len() - 1) / (2 * eb);
            for fs in [0usize, 1, 3, 4] { let mut nb = vec![fs as u8]; nb.extend(std::iter::repeat(0u8).take(ncol * fs * eb)); out.push(vcase(b, format!("oodframe:size={}", fs), splice(bytes, t, &nb))); }
        }
    }
    // gkr proof: present, with hostile lengths
    {
        let g = lay.get("gkr");
        for (lbl, tail) in [("gkr:some-empty", vec![1u8, 1]), ("gkr:some-3", vec![1, 7, 9, 9, 9]), ("gkr:len=2^60", vec![1, 0, 0, 0, 0, 0, 0, 0, 0, 0x10]), ("gkr:len=2^32", vec![1, 0, 0, 0, 0, 0, 1, 0, 0, 0]),
                            ("gkr:len=65535", vec![1, 0xfc + 3, 0xff, 0x03]), ("gkr:tag=2", vec![2]), ("gkr:none+junk", vec![0, 0])] {
            let mut m = bytes[..g.start].to_vec(); m.extend_from_slice(&tail); out.push(vcase(b, lbl.into(), m));
        }
        // the only usize (vint64) length of the format: the full boundary set of the encoding, the values which make
        // `position + length` wrap around 2^64 (check_eor of a bulk read), every encoding length incl. non-canonical ones,
        // without and with some bytes following
        let pos9 = (g.start + 1 + 9) as u64;   // reader position after the tag and a 9-byte length
        let mut vals: Vec<(String, u64)> = vec![("0".into(), 0), ("1".into(), 1), ("127".into(), 127), ("128".into(), 128), ("2^14".into(), 1 << 14), ("2^32-1".into(), (1 << 32) - 1),
            ("2^56-1".into(), (1 << 56) - 1), ("2^56".into(), 1 << 56), ("2^63-1".into(), (1 << 63) - 1), ("2^63".into(), 1 << 63), ("2^64-2".into(), u64::MAX - 1), ("2^64-1".into(), u64::MAX)];
        for d in [-2i64, -1, 0, 1, 2] { vals.push((format!("2^64-pos{:+}", d), (0u64.wrapping_sub(pos9)).wrapping_add(d as u64))); }
        vals.push(("2^64-len".into(), 0u64.wrapping_sub(bytes.len() as u64)));
        for (name, v) in &vals {
            for l in 1..=9usize {
                if let Some(enc) = vint(*v, l) {
                    // shorter forms shift the position: keep the wrap-around values exact for every form
                    let v2 = if name.starts_with("2^64-pos") { v.wrapping_add(9 - l as u64) } else { *v };
                    let enc = if v2 != *v { match vint(v2, l) { Some(e) => e, None => enc } } else { enc };
                    for extra in [0usize, 3] {
                        let mut m = bytes[..g.start].to_vec(); m.push(1); m.extend_from_slice(&enc); m.extend(std::iter::repeat(7u8).take(extra));
                        out.push(vcase(b, format!("gkr:vint={},form={},+{}", name, l, extra), m));
                    }
                }
            }
        }
    }
    // --- 3. context differs from what the AIR expects: every valid alternative of the options and of the trace layout; foreign modulus
    {
        let ms = lay.get("modulus");
        let other: Vec<u8> = if b.fld == "f64" { B128::get_modulus_le_bytes() } else { B64::get_modulus_le_bytes() };
        out.push(vcase(b, "ctx:foreign-modulus".into(), splice(bytes, ms, &other)));
        let mut z = bytes[ms.start..ms.end].to_vec(); z.push(0); out.push(vcase(b, "ctx:modulus+zero".into(), splice(bytes, ms, &z)));
        out.push(vcase(b, "ctx:modulus=254x ff".into(), splice(bytes, ms, &vec![0xff; 254])));
        let meta = lay.get("ti.meta");
        for k in [1usize, 7, 8, 15, 16, 65535] { out.push(vcase(b, format!("ctx:meta={}", k), splice(bytes, meta, &r.bytes(k)))); }
    }
    // --- 3b. trace metadata
    meta_mutations(b, &lay, r, out);
    // --- 4. truncation, trailing garbage
    let n = bytes.len();
    let cuts: Vec<usize> = if exhaustive_bits { (0..n).collect() } else { let mut c: Vec<usize> = (0..n.min(64)).collect(); c.extend(lay.segs.iter().flat_map(|s| [s.start.saturating_sub(1), s.start, s.start + 1, s.end.saturating_sub(1)])); for _ in 0..budget / 8 { c.push(r.below(n as u64) as usize); } c.sort_unstable(); c.dedup(); c.retain(|&x| x < n); c };
    for c in cuts { out.push(vcase(b, format!("truncate@{}", c), bytes[..c].to_vec())); }
    for k in [1usize, 2, 9, 64] { let mut m = bytes.clone(); m.extend(r.bytes(k)); out.push(vcase(b, format!("trailing+{}", k), m)); let mut m = bytes.clone(); m.extend(std::iter::repeat(0u8).take(k)); out.push(vcase(b, format!("trailing+{}z", k), m)); }
    // --- 5. single-bit and single-byte changes
    if exhaustive_bits {
        for i in 0..n { for bit in 0..8 { let mut m = bytes.clone(); m[i] ^= 1 << bit; out.push(vcase(b, format!("bit@{}.{}", i, bit), m)); }
                        for v in [0u8, 0xff, bytes[i].wrapping_add(1)] { if v != bytes[i] { let mut m = bytes.clone(); m[i] = v; out.push(vcase(b, format!("byte@{}={}", i, v), m)); } } }
    } else {
        let hdr = lay.get("commitments").start + 2;
        for i in 0..hdr { for bit in 0..8 { let mut m = bytes.clone(); m[i] ^= 1 << bit; out.push(vcase(b, format!("bit@{}.{}", i, bit), m)); } }
        for _ in 0..budget { let i = r.below(n as u64) as usize; let mut m = bytes.clone(); if r.chance(1, 2) { m[i] ^= 1 << r.below(8); } else { m[i] = *r.pick(&[0u8, 1, 0x7f, 0x80, 0xfe, 0xff]); } if m != *bytes { out.push(vcase(b, format!("rnd@{}", i), m)); } }
    }
    // --- 6. public inputs perturbed (assertion values; the layout the AIR expects)
    if let Case::V(mut c) = vcase(b, "pub:aval+1".into(), bytes.clone()) {
        let mut raw = unhex(&c.avals_hex[0][0]); raw[0] ^= 1; c.avals_hex[0][0] = hex_bytes(&raw); out.push(Case::V(c));
    }
    for (lbl, f) in [("pub:width+1", 0usize), ("pub:logn+1", 1), ("pub:aux+1", 2), ("pub:rands+1", 3)] {
        if let Case::V(mut c) = vcase(b, lbl.into(), bytes.clone()) {
            match f { 0 => { c.spec.width += 1; c.spec.degs.push(1); c.spec.use_per.push(false); c.spec.hold.push(false); }, 1 => c.spec.log_n += 1, 2 => { c.spec.aux_width += 1; if c.spec.aux_rands == 0 { c.spec.aux_rands = 1; } }, _ => c.spec.aux_rands += 1 }
            out.push(Case::V(c));
        }
    }
    // the AIR needs a larger blowup than the proof claims (constraint degree above the claimed blowup)
    if let Case::V(mut c) = vcase(b, "pub:degree>blowup".into(), bytes.clone()) {
        let need = 2 * (b.opts[1] as u32) + 1; c.spec.degs[0] = need;
        if let Some((ceb, ncols)) = air_params_dyn(&b.fld, &c.spec, &c.avals_hex) { c.ceb = ceb; c.ncols = ncols; out.push(Case::V(c)); }
    }
}

/// Component-level cases: the typed second-stage parsers with AIR-side parameters chosen INDEPENDENTLY of the bytes.
fn component_cases(b: &Base, r: &mut Rng, out: &mut Vec<Case>) {
    let bytes = &b.bytes; let lay = dissect(bytes).unwrap();
    let dl = digest_len(&b.hsh);
    let ext = (b.opts[3] as usize).max(1);
    let (mw, aw) = (b.spec.width, b.spec.aux_width);
    let lde = b.spec.n() * b.opts[1] as usize;
    let nuq = bytes[lay.get("nuq").start] as usize;
    let cut = |a: &str, z: &str| -> Vec<u8> { let (s, e) = (lay.get(a), lay.get(z)); bytes[s.pfx.map(|p| p.0).unwrap_or(s.start)..e.end].to_vec() };
    // OodFrame
    let ood = cut("ood.trace", "ood.evals");
    for (m, a, c) in [(mw, aw, b.ncols), (mw + 1, aw, b.ncols), (mw, aw + 1, b.ncols), (mw, aw, b.ncols + 1), (0, aw, b.ncols), (mw, aw, 0), (mw, 0, b.ncols), (1, 0, 1), (255, 0, 255), (128, 127, 1), (mw + aw, 0, b.ncols)] {
        out.push(Case::Line("ood".into(), format!("O {} {} {} {} {} {}", b.fld, ext, m, a, c, hex_bytes(&ood))));
    }
    // the same frame with hostile first bytes / Lagrange frames, against an AIR without auxiliary columns
    for (fs, lag) in [(0u8, 0u8), (1, 0), (2, 1), (2, 255), (3, 0), (255, 0), (2, 0)] {
        let ncol = mw + aw; let eb = elem_bytes_of(&b.fld) * ext;
        let mut o = vec![]; let tl = 1 + ncol * fs as usize * eb;
        if tl > 65535 { continue; }
        o.extend_from_slice(&(tl as u16).to_le_bytes()); o.push(fs); o.extend(std::iter::repeat(0u8).take(tl - 1));
        let ll = 1 + lag as usize * eb; o.extend_from_slice(&(ll as u16).to_le_bytes()); o.push(lag); o.extend(std::iter::repeat(0u8).take(ll - 1));
        o.extend_from_slice(&((b.ncols * eb) as u16).to_le_bytes()); o.extend(std::iter::repeat(0u8).take(b.ncols * eb));
        for (m, a) in [(mw, aw), (mw + aw, 0), (1, 0), (mw, aw + 1)] { out.push(Case::Line("ood-hostile".into(), format!("O {} {} {} {} {} {}", b.fld, ext, m, a, b.ncols, hex_bytes(&o)))); }
    }
    // Queries (main segment: base field elements; constraint: extension)
    let tq = cut("tq0.values", "tq0.paths");
    for (d, q, v) in [(lde, nuq, mw), (lde, nuq + 1, mw), (lde, nuq.saturating_sub(1), mw), (lde, 0, mw), (lde, nuq, 0), (lde, nuq, mw + 1), (lde, 255, 255), (lde, 256, 1), (lde, 1, 256), (1, nuq, mw), (2, nuq, mw), (lde * 2, nuq, mw), (0, nuq, mw), (lde + 1, nuq, mw), (1 << 40, nuq, mw)] {
        out.push(Case::Line("queries".into(), format!("Q {} 1 {} {} {} {} {}", b.fld, dl, d, q, v, hex_bytes(&tq))));
    }
    let cq = cut("cq.values", "cq.paths");
    for (d, q, v) in [(lde, nuq, b.ncols), (lde, nuq, b.ncols + 1), (lde, 0, b.ncols), (lde, nuq, 0), (1, nuq, b.ncols)] {
        out.push(Case::Line("queries".into(), format!("Q {} {} {} {} {} {} {}", b.fld, ext, dl, d, q, v, hex_bytes(&cq))));
    }
    // FriProof
    let fri = { let s = lay.get("fri.nlayers"); let e = lay.get("fri.partitions"); bytes[s.start..e.end].to_vec() };
    let ff = b.opts[4] as usize;
    for (d, f) in [(lde, ff), (lde / 2, ff), (lde * 2, ff), (ff, ff), (1, ff), (2, ff), (0, ff), (lde, 2), (lde, 16), (lde, 1), (lde, 0), (lde, 3), (lde + 1, ff), (1 << 40, ff)] {
        out.push(Case::Line("fri".into(), format!("F {} {} {} {} {} {}", b.fld, ext, dl, d, f, hex_bytes(&fri))));
    }
    for np in [0u8, 1, 5, 31, 32, 62, 63, 64, 65, 127, 128, 255] { let mut m = fri.clone(); let l = m.len(); m[l - 1] = np; out.push(Case::Line("fri-partitions".into(), format!("F {} {} {} {} {} {}", b.fld, ext, dl, lde, ff, hex_bytes(&m)))); }
    // Commitments
    let com = cut("commitments", "commitments");
    let nseg = if aw > 0 { 2 } else { 1 };
    for (s, l) in [(nseg, lay.nlayers), (nseg + 1, lay.nlayers), (nseg, lay.nlayers + 1), (0, 0), (nseg, 0), (255, 255), (1 << 20, 1), (1, 1 << 40), (nseg, usize::MAX)] {
        // `num_fri_layers + 1` overflows only where overflow checks are compiled in: the model has debug semantics
        if l == usize::MAX && !cfg!(debug_assertions) { continue; }
        out.push(Case::Line("commitments".into(), format!("C {} {} {} {}", dl, s, l, hex_bytes(&com))));
    }
    // the element-level classes against the typed parsers directly (honest AIR-side parameters): the component cut out of
    // the mutant.  The hasher of these lines is chosen by digest length (by_ext_h), which is all the shapes depend on
    {
        let cut_of = |m: &[u8], a: &str, z: &str| -> Option<Vec<u8>> { let l = dissect(m)?; let (s, e) = (l.get(a), l.get(z)); Some(m[s.pfx.map(|p| p.0).unwrap_or(s.start)..e.end].to_vec()) };
        let mut ms: Vec<(String, Vec<u8>)> = noncanonical_mutants(bytes, &b.fld, ext, &b.hsh).into_iter().map(|m| (m.label(), m.bytes)).collect();
        ms.extend(empty_layer_mutants(bytes, &lay));
        for (lbl, m) in ms {
            let comp = lbl.split(':').nth(1).unwrap_or("").to_string();
            let line = if lbl.starts_with("frilayer:") || comp.starts_with("fri") {
                dissect(&m).map(|l| { let (s, e) = (l.get("fri.nlayers"), l.get("fri.partitions")); format!("F {} {} {} {} {} {}", b.fld, ext, dl, lde, ff, hex_bytes(&m[s.start..e.end])) })
            } else if comp.starts_with("ood.") { cut_of(&m, "ood.trace", "ood.evals").map(|o| format!("O {} {} {} {} {} {}", b.fld, ext, mw, aw, b.ncols, hex_bytes(&o))) }
            else if comp.starts_with("tq0.") { cut_of(&m, "tq0.values", "tq0.paths").map(|q| format!("Q {} 1 {} {} {} {} {}", b.fld, dl, lde, nuq, mw, hex_bytes(&q))) }
            else if comp.starts_with("tq1.") { cut_of(&m, "tq1.values", "tq1.paths").map(|q| format!("Q {} {} {} {} {} {} {}", b.fld, ext, dl, lde, nuq, aw, hex_bytes(&q))) }
            else if comp.starts_with("cq.") { cut_of(&m, "cq.values", "cq.paths").map(|q| format!("Q {} {} {} {} {} {} {}", b.fld, ext, dl, lde, nuq, b.ncols, hex_bytes(&q))) }
            else if comp == "commitments" { cut_of(&m, "commitments", "commitments").map(|c| format!("C {} {} {} {}", dl, nseg, lay.nlayers, hex_bytes(&c))) }
            else { None };
            if let Some(l) = line { out.push(Case::Line(format!("component:{}", lbl), l)); }
        }
    }
    // draw_integers
    for (q, d) in [(1usize, 2usize), (1, 1), (2, 2), (15, 16), (16, 16), (17, 16), (255, 16), (255, 256), (255, 255), (0, 16), (3, 0), (3, 12), (1000, 1 << 20), (1001, 1 << 20), (5, 1usize << 63)] {
        out.push(Case::Line("draw".into(), format!("D {} {}", q, d)));
    }
    let _ = r;
}

/// The malformed stream: byte strings which are not derived from a proof.
fn malformed(r: &mut Rng, n: usize, out: &mut Vec<Case>) {
    let mut push = |lbl: &str, m: Vec<u8>| out.push(Case::Line(lbl.to_string(), format!("P {}", hex_bytes(&m))));
    push("empty", vec![]);
    for k in [1usize, 2, 5, 6, 7, 16, 17, 40, 100] { push("zeros", vec![0; k]); push("ones", vec![1; k]); push("ff", vec![0xff; k]); }
    // confirmed defects of the design round as first corpus entries
    push("traceinfo-pow-overflow", vec![1, 0, 0, 200, 0, 0]);
    // smallest well-formed prefix: trace info (1 col, 2^3), modulus, options, then hostile tails
    let mut hdr = vec![1u8, 0, 0, 3, 0, 0, 8]; hdr.extend_from_slice(&B64::get_modulus_le_bytes()); hdr.extend_from_slice(&[1, 2, 0, 1, 2, 0]);
    push("header-only", hdr.clone());
    for tail in [vec![0u8, 0xff, 0xff], vec![0, 0, 0, 0xff, 0xff, 0xff, 0xff], vec![0, 0, 0, 0, 0, 0, 0, 0xff, 0xff, 0xff, 0xff], vec![5, 0, 0, 0, 0, 0, 0, 0, 0, 0, 0, 0, 0, 0, 0, 0, 0, 0, 0, 0, 0, 0, 0, 0, 0, 0, 0, 0, 0, 0, 0, 0, 0, 0, 0, 0, 0, 255]] {
        let mut m = hdr.clone(); m.extend_from_slice(&tail); push("header+hostile", m);
    }
    for _ in 0..n { let k = match r.below(4) { 0 => r.below(8), 1 => r.below(64), 2 => r.below(512), _ => r.below(4096) } as usize; push("random", r.bytes(k)); }
    for _ in 0..n / 2 { let mut m = hdr.clone(); let k = r.below(200) as usize; m.extend(r.bytes(k)); if r.chance(1, 2) { for x in m.iter_mut().skip(hdr.len()) { if r.chance(2, 3) { *x = 0; } } } push("header+random", m); }
}

// ================================================================================================ running one case against the library
fn verr_class(e: &VerifierError) -> String {
    let d = format!("{:?}", e);
    let head = |s: &str| s.split(|c| c == '(' || c == ' ' || c == '{').next().unwrap_or("").to_string();
    if let VerifierError::FriVerificationFailed(inner) = e { return format!("err:Fri.{}", head(&format!("{:?}", inner))); }
    format!("err:{}", head(&d))
}

fn run_v<B: Fld, H>(c: &VCase, strict: bool, proven: bool) -> String
where H: ElementHasher<BaseField = B> + Send + Sync {
    let proof = match catch(AssertUnwindSafe(|| Proof::from_bytes(&c.bytes))) { Err(_) => return "panic".into(), Ok(Err(_)) => return "parse-err".into(), Ok(Ok(p)) => p };
    let pi = pub_inputs::<B>(&c.spec, &c.avals_hex);
    let acc = match c.policy {
        Some(o) => AcceptableOptions::OptionSet(vec![ProofOptions::read_from_bytes(&o).expect("policy options")]),
        None => if proven { AcceptableOptions::MinProvenSecurity(0) } else { AcceptableOptions::MinConjecturedSecurity(0) },
    };
    let res = if strict { catch(AssertUnwindSafe(|| verify::<StrictAir<B>, H, DefaultRandomCoin<H>>(proof, pi, &acc))) }
              else { catch(AssertUnwindSafe(|| verify::<FamAir<B>, H, DefaultRandomCoin<H>>(proof, pi, &acc))) };
    match res { Err(_) => "panic".into(), Ok(Ok(())) => "ok".into(), Ok(Err(e)) => verr_class(&e) }
}

fn run_ood<E: FieldElement>(m: usize, a: usize, c: usize, bytes: &[u8]) -> String {
    let f = match catch(AssertUnwindSafe(|| OodFrame::read_from_bytes(bytes))) { Err(_) => return "panic".into(), Ok(Err(_)) => return "parse-err".into(), Ok(Ok(f)) => f };
    match catch(AssertUnwindSafe(|| f.parse::<E>(m, a, c))) {
        Err(_) => "panic".into(), Ok(Err(_)) => "err".into(),
        Ok(Ok((fr, ev))) => format!("ok {} {} {}", fr.num_columns(), fr.lagrange_kernel_frame().map(|l| l.num_rows().to_string()).unwrap_or("-".into()), ev.len()),
    }
}
fn run_q<H: ElementHasher, E: FieldElement<BaseField = H::BaseField>>(d: usize, q: usize, v: usize, bytes: &[u8]) -> String {
    let f = match catch(AssertUnwindSafe(|| Queries::read_from_bytes(bytes))) { Err(_) => return "panic".into(), Ok(Err(_)) => return "parse-err".into(), Ok(Ok(f)) => f };
    match catch(AssertUnwindSafe(|| f.parse::<H, E>(d, q, v))) {
        Err(_) => "panic".into(), Ok(Err(_)) => "err".into(),
        Ok(Ok((mp, t))) => format!("ok {} {} {} {}", t.num_rows(), t.num_columns(), mp.depth, mp.nodes.iter().map(|n| n.len().to_string()).collect::<Vec<_>>().join(",")),
    }
}
fn run_f<H: ElementHasher, E: FieldElement<BaseField = H::BaseField>>(d: usize, ff: usize, bytes: &[u8]) -> String {
    let f = match catch(AssertUnwindSafe(|| FriProof::read_from_bytes(bytes))) { Err(_) => return "panic".into(), Ok(Err(_)) => return "parse-err".into(), Ok(Ok(f)) => f };
    // the order in which VerifierChannel::new uses the proof
    let np = match catch(AssertUnwindSafe(|| f.num_partitions())) { Err(_) => return "panic".into(), Ok(x) => x };
    let rem = match catch(AssertUnwindSafe(|| f.parse_remainder::<E>())) { Err(_) => return "panic".into(), Ok(Err(_)) => return "err".into(), Ok(Ok(x)) => x };
    match catch(AssertUnwindSafe(|| f.parse_layers::<H, E>(d, ff))) {
        Err(_) => "panic".into(), Ok(Err(_)) => "err".into(),
        Ok(Ok((qs, mps))) => format!("ok {} {} [{}]", np.trailing_zeros(), rem.len(), qs.iter().zip(mps.iter()).map(|(q, m)| format!("{}:{}", q.len(), m.depth)).collect::<Vec<_>>().join(",")),
    }
}
fn run_c<H: ElementHasher>(s: usize, l: usize, bytes: &[u8]) -> String {
    let f = match catch(AssertUnwindSafe(|| Commitments::read_from_bytes(bytes))) { Err(_) => return "panic".into(), Ok(Err(_)) => return "parse-err".into(), Ok(Ok(f)) => f };
    match catch(AssertUnwindSafe(|| f.parse::<H>(s, l))) { Err(_) => "panic".into(), Ok(Err(_)) => "err".into(), Ok(Ok((t, _, fr))) => format!("ok {} {}", t.len(), fr.len()) }
}
fn run_d(q: usize, d: usize) -> String {
    let mut coin = DefaultRandomCoin::<Blake3_256<B64>>::new(&[B64::new(7)]);
    match catch(AssertUnwindSafe(|| coin.draw_integers(q, d, 11))) { Err(_) => "panic".into(), Ok(Err(_)) => "err".into(), Ok(Ok(v)) => format!("ok {}", if v.iter().all(|&x| x < d) { v.len().to_string() } else { "out-of-range".into() }) }
}
fn run_p(bytes: &[u8]) -> String {
    alloc_reset();
    let r = catch(AssertUnwindSafe(|| Proof::from_bytes(bytes)));
    let (tot, _) = alloc_read();
    match r { Err(_) => "panic".into(), Ok(Err(_)) => format!("parse-err alloc={}", tot), Ok(Ok(_)) => format!("ok alloc={}", tot) }
}

macro_rules! by_ext_h {
    ($fld:expr, $ext:expr, $dl:expr, $func:ident ( $($a:expr),* )) => {
        match ($fld, $ext, $dl) {
            ("f64", 1, 32) => $func::<Blake3_256<B64>, B64>($($a),*), ("f64", 2, 32) => $func::<Blake3_256<B64>, QuadExtension<B64>>($($a),*), ("f64", 3, 32) => $func::<Blake3_256<B64>, CubeExtension<B64>>($($a),*),
            ("f64", 1, 24) => $func::<Blake3_192<B64>, B64>($($a),*), ("f64", 2, 24) => $func::<Blake3_192<B64>, QuadExtension<B64>>($($a),*), ("f64", 3, 24) => $func::<Blake3_192<B64>, CubeExtension<B64>>($($a),*),
            ("f128", 1, 32) => $func::<Blake3_256<B128>, B128>($($a),*), ("f128", 2, 32) => $func::<Blake3_256<B128>, QuadExtension<B128>>($($a),*),
            ("f128", 1, 24) => $func::<Blake3_192<B128>, B128>($($a),*), ("f128", 2, 24) => $func::<Blake3_192<B128>, QuadExtension<B128>>($($a),*),
            ("f62", 1, 32) => $func::<Blake3_256<B62>, B62>($($a),*), ("f62", 2, 32) => $func::<Blake3_256<B62>, QuadExtension<B62>>($($a),*), ("f62", 3, 32) => $func::<Blake3_256<B62>, CubeExtension<B62>>($($a),*),
            ("f62", 1, 31) => $func::<Rp62_248, B62>($($a),*), ("f62", 2, 31) => $func::<Rp62_248, QuadExtension<B62>>($($a),*), ("f62", 3, 31) => $func::<Rp62_248, CubeExtension<B62>>($($a),*),
            _ => "unsupported".to_string(),
        }
    };
}

fn run_line(line: &str) -> String {
    let t: Vec<&str> = line.split(' ').collect();
    let us = |i: usize| t[i].parse::<usize>().unwrap();
    match t[0] {
        "P" => run_p(&unhex(t[1])),
        "O" => { let b = unhex(t[6]); match (t[1], us(2)) {
            ("f64", 1) => run_ood::<B64>(us(3), us(4), us(5), &b), ("f64", 2) => run_ood::<QuadExtension<B64>>(us(3), us(4), us(5), &b), ("f64", 3) => run_ood::<CubeExtension<B64>>(us(3), us(4), us(5), &b),
            ("f128", 1) => run_ood::<B128>(us(3), us(4), us(5), &b), ("f128", 2) => run_ood::<QuadExtension<B128>>(us(3), us(4), us(5), &b),
            ("f62", 1) => run_ood::<B62>(us(3), us(4), us(5), &b), ("f62", 2) => run_ood::<QuadExtension<B62>>(us(3), us(4), us(5), &b), ("f62", 3) => run_ood::<CubeExtension<B62>>(us(3), us(4), us(5), &b),
            _ => "unsupported".into() } }
        "Q" => { let b = unhex(t[7]); by_ext_h!(t[1], us(2), us(3), run_q(us(4), us(5), us(6), &b)) }
        "F" => { let b = unhex(t[6]); by_ext_h!(t[1], us(2), us(3), run_f(us(4), us(5), &b)) }
        "C" => { let b = unhex(t[4]); match us(1) { 24 => run_c::<Blake3_192<B64>>(us(2), us(3), &b), 31 => run_c::<Rp62_248>(us(2), us(3), &b), _ => run_c::<Blake3_256<B64>>(us(2), us(3), &b) } }
        "D" => run_d(us(1), us(2)),
        _ => "unsupported".into(),
    }
}

fn run_l<B: Fld, H>(c: &LCase) -> String
where H: ElementHasher<BaseField = B> + Send + Sync {
    let proof = match catch(AssertUnwindSafe(|| Proof::from_bytes(&c.bytes))) { Err(_) => return "panic".into(), Ok(Err(_)) => return "parse-err".into(), Ok(Ok(p)) => p };
    let acc = AcceptableOptions::MinConjecturedSecurity(0);
    let res = catch(AssertUnwindSafe(|| verify::<SLagAir<B>, H, DefaultRandomCoin<H>>(proof, (), &acc)));
    let _ = lagfam::take_uses();
    match res { Err(_) => "panic".into(), Ok(Ok(())) => "ok".into(), Ok(Err(e)) => verr_class(&e) }
}

fn run_case(c: &Case) -> String {
    match c {
        Case::V(v) => dispatch!(v.fld.as_str(), v.hsh.as_str(), run_v(v, true, false)),
        Case::Line(_, l) => run_line(l),
        Case::L(l) => dispatch!(l.fld.as_str(), l.hsh.as_str(), run_l(l)),
    }
}
fn case_line(c: &Case) -> String {
    match c { Case::V(v) => v.line(), Case::Line(_, l) => l.clone(),
              Case::L(l) => format!("L {} {} {} {} {} {}", l.fld, digest_len(&l.hsh), l.log_n, l.aw, l.nr, hex_bytes(&l.bytes)) }
}
fn case_label(c: &Case) -> &str { match c { Case::V(v) => &v.label, Case::Line(l, _) => l, Case::L(l) => &l.label } }

/// Mutants of a proof of the Lagrange-kernel AIR: the GKR proof (a vint64 `usize` here) absent / undecodable / wrong, the
/// Lagrange kernel frame resized, non-canonical elements in every component, empty FRI layers
fn lagrange_cases(b: &LBase, out: &mut Vec<Case>) {
    let bytes = &b.bytes;
    let lay = match dissect(bytes) { Some(l) => l, None => return };
    let mut push = |label: String, m: Vec<u8>| out.push(Case::L(LCase { label, fld: b.fld.clone(), hsh: b.hsh.clone(), log_n: b.log_n, aw: b.aw, nr: b.nr, bytes: m }));
    push("lag:valid".into(), bytes.clone());
    let g = lay.get("gkr");
    let with_gkr = |tail: &[u8]| -> Vec<u8> { let mut m = bytes[..g.start].to_vec(); m.extend_from_slice(tail); m };
    let k = b.log_n as u64;
    push("lag:gkr=none".into(), with_gkr(&[0]));
    // Some(bytes): tag 1, vint64 length, the bytes.  The GKR proof of this AIR is one vint64 number
    let some = |body: &[u8]| -> Vec<u8> { let mut t = vec![1u8]; t.extend(vint(body.len() as u64, 1).unwrap()); t.extend_from_slice(body); with_gkr(&t) };
    push("lag:gkr=undecodable:empty".into(), some(&[]));
    push("lag:gkr=undecodable:9-byte-form-cut".into(), some(&[0, 1, 2]));
    push("lag:gkr=undecodable:2-byte-form-cut".into(), some(&[0b10]));
    for (n, v) in [("0", 0u64), ("k-1", k - 1), ("k+1", k + 1), ("64", 64), ("65", 65), ("2^63", 1 << 63), ("2^64-1", u64::MAX)] {
        push(format!("lag:gkr=wrong:{}", n), some(&vint(v, 9).unwrap()));
        if let Some(e) = vint(v, 1) { push(format!("lag:gkr=wrong:{}:short-form", n), some(&e)); }
    }
    push("lag:gkr=right:9-byte-form".into(), some(&vint(k, 9).unwrap()));
    for (n, extra) in [("1z", vec![0u8; 1]), ("2", vec![9u8, 9]), ("17ff", vec![0xffu8; 17])] {
        push(format!("lag:gkr=right+trailing:{}", n), some(&{ let mut e = vint(k, 1).unwrap(); e.extend_from_slice(&extra); e }));
    }
    // the Lagrange kernel frame: length byte and element count changed together / alone
    let s = lay.get("ood.lagrange"); let body = &bytes[s.start..s.end];
    let eb = elem_bytes_of(&b.fld) * b.ext;
    if body.len() > 1 + eb {
        let mut nb = body[..body.len() - eb].to_vec(); nb[0] -= 1; push("lag:frame-1".into(), splice(bytes, s, &nb));
        let mut nb = body.to_vec(); nb.extend(std::iter::repeat(0u8).take(eb)); nb[0] += 1; push("lag:frame+1".into(), splice(bytes, s, &nb));
        let mut nb = body.to_vec(); nb[0] += 1; push("lag:frame-count+1".into(), splice(bytes, s, &nb));
        push("lag:frame-absent".into(), splice(bytes, s, &[0]));
    }
    for m in noncanonical_mutants(bytes, &b.fld, b.ext, &b.hsh) { let l = m.label(); push(format!("lag:{}", l), m.bytes); }
    for (lbl, m) in empty_layer_mutants(bytes, &lay) { push(format!("lag:{}", lbl), m); }
}

/// the deterministic list of cases of a run (parent and children rebuild the same list); `lag`: with the cases of the
/// Lagrange-kernel AIR, which the model does not cover (falsifier only)
fn build_cases(seed: u64, n: usize, corpus: &str, lag: bool) -> Vec<Case> {
    let bases = load_corpus(corpus);
    let mut r = Rng::new(seed);
    let mut out = Vec::new();
    malformed(&mut r, (n / 40).max(20), &mut out);
    if lag { for lb in load_lag(corpus) { lagrange_cases(&lb, &mut out); } }
    if bases.is_empty() { return out; }
    // the smallest proof gets the exhaustive bit/byte/truncation treatment when the budget allows it
    let smallest = (0..bases.len()).min_by_key(|&i| bases[i].bytes.len()).unwrap();
    let per = (n / bases.len()).max(40);
    for (i, b) in bases.iter().enumerate() {
        let exhaustive = i == smallest && n >= 40 * b.bytes.len();
        let mut cs = Vec::new();
        mutations(b, &mut r, per / 4, exhaustive, &mut cs);
        component_cases(b, &mut r, &mut cs);
        // every 16th mutant also as a from_bytes-only case with the allocator's byte count (ties the accounting model on
        // proof-shaped inputs: FRI layers, hostile gkr lengths, resized components)
        let extra: Vec<Case> = cs.iter().enumerate().filter(|(j, _)| j % 16 == 0).filter_map(|(_, c)| match c { Case::V(v) => Some(Case::Line(format!("alloc:{}", v.label), format!("P {}", hex_bytes(&v.bytes)))), _ => None }).collect();
        out.extend(cs);
        out.extend(extra);
    }
    out
}

// ================================================================================================ child protocol
/// child: runs cases [start, ..) of the list, streaming "<idx> <label>\t<case> => " BEFORE each library call
fn child(mode: &str, seed: u64, n: usize, corpus: &str, start: usize) {
    silence_panics();
    let cases = build_cases(seed, n, corpus, mode != "corr");
    CAP.store(1 << 30, Ordering::Relaxed);
    let so = std::io::stdout();
    for (i, c) in cases.iter().enumerate().skip(start) {
        let mut o = so.lock();
        if mode == "corr" {
            write!(o, "{} => ", case_line(c)).unwrap(); o.flush().unwrap();
            let res = run_case(c);
            writeln!(o, "{}", res).unwrap();
        } else {
            // falsifier: every verify case additionally with the plain FamAir and with the proven-security policy; allocation accounting
            write!(o, "{}\t{}\t", i, case_label(c)).unwrap(); o.flush().unwrap();
            let t0 = std::time::Instant::now();
            alloc_reset();
            let mut res = vec![run_case(c)];
            if let Case::V(v) = c {
                res.push(dispatch!(v.fld.as_str(), v.hsh.as_str(), run_v(v, false, false)));
                if i % 7 == 0 { res.push(dispatch!(v.fld.as_str(), v.hsh.as_str(), run_v(v, true, true))); }
            }
            let (tot, mx) = alloc_read();
            let len = match c { Case::V(v) => v.bytes.len(), Case::Line(_, l) => l.len() / 2, Case::L(l) => l.bytes.len() };
            writeln!(o, "{}\t{}\t{}\t{}\t{}\t{}", res.join(","), tot, mx, len, t0.elapsed().as_millis(), known_mismatch(c)).unwrap();
        }
    }
}

/// the Known predicate of finding F-C06-air-new-cannot-fail, decided from the bytes alone (no model):
/// the proof parses and its context differs from what the AIR of the public inputs expects
fn known_mismatch(c: &Case) -> bool {
    let v = match c { Case::V(v) => v, _ => return false };
    let p = match catch(AssertUnwindSafe(|| Proof::from_bytes(&v.bytes))) { Ok(Ok(p)) => p, _ => return false };
    let ti = p.trace_info();
    ti.main_trace_width() != v.spec.width || ti.aux_segment_width() != v.spec.aux_width || ti.get_num_aux_segment_rand_elements() != v.spec.aux_rands
        || ti.length() != v.spec.n() || p.options().blowup_factor() < v.ceb
}

/// parent: (re)starts children under an address-space limit; completes the line of a case which killed its child
fn parent(mode: &str, seed: u64, n: usize, corpus: &str) -> (Vec<String>, usize) {
    let exe = std::env::current_exe().unwrap();
    let total = build_cases(seed, n, corpus, mode != "corr").len();
    let mut lines: Vec<String> = Vec::new();
    let mut restarts = 0usize;
    while lines.len() < total {
        let start = lines.len();
        let mut ch = std::process::Command::new("sh")
            .arg("-c").arg("ulimit -v 6000000 2>/dev/null; ulimit -c 0 2>/dev/null; exec \"$0\" \"$@\"")
            .arg(&exe).arg(format!("{}-child", mode)).arg(seed.to_string()).arg(n.to_string()).arg(corpus).arg(start.to_string())
            .stdout(std::process::Stdio::piped()).stderr(std::process::Stdio::null()).spawn().expect("spawn child");
        let mut so = ch.stdout.take().unwrap();
        let (tx, rx) = std::sync::mpsc::channel::<Option<Vec<u8>>>();
        std::thread::spawn(move || { let mut buf = [0u8; 1 << 16]; loop { match so.read(&mut buf) { Ok(0) | Err(_) => { let _ = tx.send(None); break; } Ok(k) => { let _ = tx.send(Some(buf[..k].to_vec())); } } } });
        let mut pending: Vec<u8> = Vec::new();
        let mut why = String::new();
        let mut first = true;
        loop {
            // a hang is a case that streams nothing for 30 s (120 s for the first output: the child rebuilds the case list)
            let wait = if first { 120 } else { 30 };
            first = false;
            match rx.recv_timeout(std::time::Duration::from_secs(wait)) {
                Ok(Some(b)) => { pending.extend_from_slice(&b); while let Some(p) = pending.iter().position(|&x| x == b'\n') { let l: Vec<u8> = pending.drain(..=p).collect(); lines.push(String::from_utf8_lossy(&l[..l.len() - 1]).to_string()); } }
                Ok(None) => break,
                Err(_) => { let _ = ch.kill(); why = "timeout".into(); break; }
            }
        }
        let st = ch.wait().ok();
        if lines.len() >= total { break; }
        if why.is_empty() { why = match st { Some(s) if s.success() => "exit0".into(), Some(s) => format!("abort({})", s), None => "abort(?)".into() }; }
        // the case in progress: its prefix was streamed without a newline
        let prefix = String::from_utf8_lossy(&pending).to_string();
        if prefix.is_empty() && why == "exit0" { break; }
        let why = if why.starts_with("abort") { "abort".to_string() } else { why };
        lines.push(if mode == "corr" { format!("{}{}", prefix, why) } else { format!("{}{}\t0\t0\t0\t0\tfalse", prefix, why) });
        restarts += 1;
        if restarts > 200 { break; }
    }
    (lines, restarts)
}

/// the labels whose outcome is reported per case ("cell" lines; checks/c06.py holds the expected outcome of each)
fn is_cell(label: &str) -> bool { ["noncanonical:", "frilayer:", "lag:", "component:noncanonical:", "component:frilayer:"].iter().any(|p| label.starts_with(p)) }
/// "<base field>/<hasher or digest length>" of a case
fn cell_field(c: &Case) -> String {
    match c { Case::V(v) => format!("{}/{}", v.fld, v.hsh), Case::L(l) => format!("{}/{}", l.fld, l.hsh),
              Case::Line(_, l) => { let t: Vec<&str> = l.split(' ').collect(); if t[0] == "C" { format!("-/{}", t[1]) } else { format!("{}/-", t.get(1).copied().unwrap_or("-")) } } }
}

/// are the AIR-side parameters of a component-level case inside the documented domain of the function? (outside, the
/// documented `# Panics` apply and a panic is not a finding)
fn component_admissible(line: &str) -> bool {
    let t: Vec<&str> = line.split(' ').collect();
    let us = |i: usize| t[i].parse::<usize>().unwrap_or(usize::MAX);
    let p2 = |x: usize| x.is_power_of_two();
    match t[0] {
        "O" => us(3) > 0 && us(5) > 0 && us(3) <= 255 && us(4) <= 255 && us(5) <= 255,
        "Q" => p2(us(4)) && us(5) <= 255 && us(6) >= 1 && us(6) <= 255,
        "F" => p2(us(4)) && p2(us(5)) && us(5) > 1 && us(5) <= 1 << 16,
        "C" => us(3) < usize::MAX,
        "D" => p2(us(2)),
        _ => true,
    }
}

fn falsify(seed: u64, n: usize, corpus: &str) {
    let (lines, restarts) = parent("falsify", seed, n, corpus);
    let cases = build_cases(seed, n, corpus, true);
    let (mut evals, mut fails) = (0usize, 0usize);
    let mut seen = std::collections::BTreeSet::new();
    for l in &lines {
        let t: Vec<&str> = l.split('\t').collect();
        if t.len() < 8 { continue; }
        let idx: usize = t[0].parse().unwrap_or(0);
        let (label, res, tot, mx, len, ms, known) = (t[1], t[2], t[3].parse::<usize>().unwrap_or(0), t[4].parse::<usize>().unwrap_or(0), t[5].parse::<usize>().unwrap_or(0), t[6].parse::<u128>().unwrap_or(0), t[7] == "true");
        evals += res.split(',').count();
        if is_cell(label) { println!("cell\t{}\t{}\t{}", cases.get(idx).map(cell_field).unwrap_or_default(), label, res); }
        let class: String = label.split(|c| c == '@' || c == '=').next().unwrap_or("").to_string();
        let mut report = |what: String, expected: &str, actual: String| {
            if !seen.insert(format!("{}|{}", what, class)) { return; }
            fails += 1;
            let input = cases.get(idx).map(|c| format!("{} [{}]", case_line(c), label)).unwrap_or_default();
            println!("{{\"what\":{},\"input\":{},\"expected\":{},\"actual\":{}}}", jstr(&what), jstr(&input), jstr(expected), jstr(&actual));
        };
        for (k, r) in res.split(',').enumerate() {
            let variant = ["strict-air", "plain-air", "strict-air+proven-security"][k.min(2)];
            if r == "panic" {
                if known { report(format!("panic in verify(): proof context differs from the AIR (Air::new cannot fail) [{}]", variant), "an error value", "panic".into()); }
                else if let Some(Case::Line(_, l)) = cases.get(idx) { if component_admissible(l) { report(format!("panic [component, admissible parameters] class={}", class), "ok or an error value", "panic".into()); } }
                else { report(format!("panic [{}] class={}", variant, class), "ok or an error value", "panic".into()); }
            } else if r == "abort" || r == "timeout" { report(format!("{} class={}", r, class), "ok or an error value", r.into()); }
        }
        // proportionality: total and largest single request against the input size (constants: see notes/C06.design.md)
        if mx > 4 * len + (1 << 17) { report(format!("single allocation out of proportion class={}", class), "<= 4*len + 128 KiB", format!("{} bytes for an input of {} bytes", mx, len)); }
        if tot > 3000 * len + (1 << 22) { report(format!("total allocation out of proportion class={}", class), "<= 3000*len + 4 MiB", format!("{} bytes for an input of {} bytes", tot, len)); }
        if ms > 5000 { report(format!("timeout class={}", class), "< 5 s", format!("{} ms", ms)); }
    }
    println!("evaluations={} failures={} restarts={} cases={}", evals, fails, restarts, lines.len());
}

// ================================================================================================ replays of the confirmed defects
fn replay(name: &str, corpus: &str) {
    silence_panics();
    let bases = load_corpus(corpus);
    let show = |what: &str, r: String| println!("{}: {}", what, r);
    let b = bases.iter().find(|b| b.spec.aux_width == 0 && b.fld == "f64").expect("corpus");
    let ba = bases.iter().find(|b| b.spec.aux_width > 0 && b.fld == "f64").expect("corpus with aux");
    let lay = dissect(&b.bytes).unwrap();
    let v = |base: &Base, m: Vec<u8>| -> String { if let Case::V(c) = vcase(base, "replay".into(), m) { dispatch!(c.fld.as_str(), c.hsh.as_str(), run_v(&c, true, false)) } else { unreachable!() } };
    let all = name == "all";
    if all || name == "nuq-zero" { let mut m = b.bytes.clone(); m[lay.get("nuq").start] = 0; let m = { let l = dissect(&m).unwrap(); let mut x = m.clone(); for n in ["cq.values", "tq0.values"] { x = splice(&x, l.get(n), &[]); } x }; show("num_unique_queries = 0 (tables emptied)", v(b, m)); }
    if all || name == "ood-frame-size" { let t = lay.get("ood.trace"); let ncol = (t.end - t.start - 1) / 16; let eb = 8 * (b.opts[3] as usize).max(1); let mut nb = vec![1u8]; nb.extend(std::iter::repeat(0u8).take(ncol * 2 / 2 * eb)); let _ = ncol; show("OOD frame size byte 1", v(b, splice(&b.bytes, t, &nb[..1 + ((t.end - t.start - 1) / 2)]))); }
    if all || name == "lagrange-no-aux" { let s = lay.get("ood.lagrange"); let eb = 8 * (b.opts[3] as usize).max(1); let mut nb = vec![1u8]; nb.extend(std::iter::repeat(0u8).take(eb)); show("Lagrange frame of 1 element, AIR without auxiliary segment", v(b, splice(&b.bytes, s, &nb))); }
    if all || name == "lagrange-aux" {
        let la = dissect(&ba.bytes).unwrap(); let s = la.get("ood.lagrange"); let eb = 8 * (ba.opts[3] as usize).max(1);
        let mut nb = vec![1u8]; nb.extend(std::iter::repeat(0u8).take(eb)); let m = splice(&ba.bytes, s, &nb);
        let l2 = dissect(&m).unwrap(); let t = l2.get("ood.trace"); let body = m[t.start..t.end].to_vec();
        show("Lagrange frame of 1 element + one trace column removed, AIR with auxiliary segment but no Lagrange column", v(ba, splice(&m, t, &body[..body.len() - 2 * eb])));
    }
    if all || name == "fri-partitions" { for np in [64u8, 200] { let mut m = b.bytes.clone(); m[lay.get("fri.partitions").start] = np; show(&format!("fri num_partitions byte {}", np), v(b, m)); } }
    if all || name == "trace-length" {
        // an AIR which accepts whatever length the proof claims (most AIRs do: `last_step = trace_length - 1`): plain FamAir
        for e in [29u8, 31, 32, 33, 40, 62, 63] { let mut m = b.bytes.clone(); m[lay.get("ti.loglen").start] = e;
            let r = if let Case::V(c) = vcase(b, "replay".into(), m) { dispatch!(c.fld.as_str(), c.hsh.as_str(), run_v(&c, false, false)) } else { unreachable!() };
            show(&format!("trace length 2^{} (blowup {}), AIR without a fixed length", e, b.opts[1]), r); }
    }
    if all || name == "fri-schedule" {
        // options for which the folding schedule reaches a domain smaller than the folding factor, with the number of layers they imply
        for base in bases.iter().filter(|x| x.spec.aux_width == 0 && x.fld == "f64" && x.hsh == "b3_256") {
            let lay = dissect(&base.bytes).unwrap();
            for (f, r_) in [(16u8, 0u8), (8, 0), (16, 1), (4, 0)] {
                let mut m = base.bytes.clone(); m[lay.get("o.fold").start] = f; m[lay.get("o.rem").start] = r_;
                let lde = base.spec.n() * base.opts[1] as usize; let mut d = lde; let mut k = 0; let mut sched = vec![d]; while d > (r_ as usize + 1) * base.opts[1] as usize { d /= f as usize; k += 1; sched.push(d); }
                if *sched.last().unwrap() != 0 { continue; }
                let eb = 8 * (base.opts[3] as usize).max(1); let l2 = dissect(&m).unwrap(); let rp = l2.get("fri.remainder").pfx.unwrap().0; let a = l2.get("fri.nlayers").start + 1;
                let mut layer = vec![]; layer.extend_from_slice(&((eb * f as usize) as u32).to_le_bytes()); layer.extend(std::iter::repeat(0u8).take(eb * f as usize)); layer.extend_from_slice(&2u32.to_le_bytes()); layer.extend_from_slice(&[1, 0]);
                let mut m2 = m[..a].to_vec(); for _ in 0..k { m2.extend_from_slice(&layer); } m2.extend_from_slice(&m[rp..]); m2[a - 1] = k as u8;
                let l3 = dissect(&m2).unwrap(); let cs = l3.get("commitments"); let dl = digest_len(&base.hsh); let nb = vec![0u8; dl * (1 + 1 + k + 1)]; let m3 = splice(&m2, cs, &nb);
                show(&format!("lde {} options fold={} rem={} blowup={}: schedule {:?}, proof with the {} layers implied", lde, f, r_, base.opts[1], sched, k), v(base, m3));
            }
        }
    }
    if all || name == "draw-integers" { show("draw_integers(16, 16)", run_d(16, 16)); show("draw_integers(255, 16)", run_d(255, 16)); }
    if all || name == "components" {
        let cut = |a: &str, z: &str| -> Vec<u8> { let (s, e) = (lay.get(a), lay.get(z)); b.bytes[s.pfx.map(|p| p.0).unwrap_or(s.start)..e.end].to_vec() };
        let ext = (b.opts[3] as usize).max(1);
        show("OodFrame::parse(main, aux=0) with a Lagrange frame", run_line(&format!("O f64 {} {} 0 {} {}", ext, b.spec.width, b.ncols, { let m = splice(&b.bytes, lay.get("ood.lagrange"), &{ let mut x = vec![1u8]; x.extend(vec![0u8; 8 * ext]); x }); let l = dissect(&m).unwrap(); hex_bytes(&m[l.get("ood.trace").pfx.unwrap().0..l.get("ood.evals").end]) })));
        show("Queries::parse(num_queries = 0)", run_line(&format!("Q f64 1 {} {} 0 {} {}", digest_len(&b.hsh), b.spec.n() * b.opts[1] as usize, b.spec.width, hex_bytes(&cut("tq0.values", "tq0.paths")))));
        let fri = b.bytes[lay.get("fri.nlayers").start..lay.get("fri.partitions").end].to_vec();
        show("FriProof::parse_layers(domain = folding factor)", run_line(&format!("F f64 {} {} {} {} {}", ext, digest_len(&b.hsh), b.opts[4], b.opts[4], hex_bytes(&fri))));
        show("FriProof::parse_layers(domain = 2)", run_line(&format!("F f64 {} {} 2 {} {}", ext, digest_len(&b.hsh), b.opts[4], hex_bytes(&fri))));
    }
}

fn main() {
    let a: Vec<String> = std::env::args().collect();
    let seed: u64 = a.get(2).and_then(|s| s.parse().ok()).unwrap_or(1);
    match a.get(1).map(|s| s.as_str()) {
        Some("gen") => { silence_panics(); gen(seed, &a[3], a.get(4).map(|s| s == "thorough").unwrap_or(false)); }
        Some("corr") => {
            let n: usize = a[3].parse().unwrap();
            let (lines, restarts) = parent("corr", seed, n, &a[4]);
            let so = std::io::stdout(); let mut o = so.lock();
            for l in &lines { writeln!(o, "{}", l).unwrap(); }
            // outcome of every element-level case, by label (the lines above carry no labels)
            let cases = build_cases(seed, n, &a[4], false);
            for (c, l) in cases.iter().zip(lines.iter()) {
                if is_cell(case_label(c)) { eprintln!("cell\t{}\t{}\t{}", cell_field(c), case_label(c), l.rsplit(" => ").next().unwrap_or("")); }
            }
            eprintln!("cases={} child-restarts={}", lines.len(), restarts);
        }
        Some("corr-child") => child("corr", seed, a[3].parse().unwrap(), &a[4], a[5].parse().unwrap()),
        Some("falsify-child") => child("falsify", seed, a[3].parse().unwrap(), &a[4], a[5].parse().unwrap()),
        Some("falsify") => falsify(seed, a[3].parse().unwrap(), &a[4]),
        Some("replay") => replay(&a[2], &a[3]),
        Some("show") => { // run one case with the default panic hook (message and location on stderr)
            let cases = build_cases(seed, a[3].parse().unwrap(), &a[4], true);
            let i: usize = a[5].parse().unwrap();
            println!("{} [{}] => {}", &case_line(&cases[i])[..case_line(&cases[i]).len().min(200)], case_label(&cases[i]), run_case(&cases[i]));
            if let Case::V(v) = &cases[i] { println!("plain-air => {}", dispatch!(v.fld.as_str(), v.hsh.as_str(), run_v(v, false, false))); }
        }
        Some("labels") => { // debugging aid: label of every case
            for (i, c) in build_cases(seed, a[3].parse().unwrap(), &a[4], true).iter().enumerate() { println!("{} {}", i, case_label(c)); }
        }
        _ => { eprintln!("usage: c06 gen|corr|falsify|replay ..."); std::process::exit(2); }
    }
}
