//! C19 harness: public coin contract (crypto/src/random/default.rs).
//!   c19 corr <seed> <n>     -> lines "<hasher> <field> <seed elems> <op>* => <outputs>" : histories run on the REAL
//!                              DefaultRandomCoin<ToyHasher<B>> / DefaultRandomCoin<WideToy<B, MODE>>; the extracted
//!                              Gallina model (coq/Model/Coin.v) must print the same outputs.
//!   c19 falsify <seed> <n>  -> JSON lines, one per property failure found on DefaultRandomCoin over the six real
//!                              hashers with an oracle independent of the model (reference counter-mode expansion
//!                              written from the doc comment, plain integer comparisons, replay, mutation).
//! Case syntax (all numbers hex): ops  R:<w0[,w1,w2,w3]>  reseed with digest words;  D:<deg>  draw base/quad/cube;
//!   I:<n>:<dom>:<nonce>  draw_integers;  Z:<v>  check_leading_zeros;  G:<gf>:<fuel>  nonce search as in
//!   ProverChannel::grind_query_seed restricted to 1..=fuel.
//! Outputs: u | Dok:<c0,..> | Derr | Dpanic | Iok:<v,..> | Ierr | Ipanic | z<dec> | g:<nonce|none>
use core::marker::PhantomData;
use std::panic::AssertUnwindSafe;

use wf_harness::{catch, jstr, prng::Rng, silence_panics, toy::{toy_hash, ToyDigest, ToyHasher}};
use winter_crypto::{hashers::{Blake3_192, Blake3_256, Rp62_248, Rp64_256, RpJive64_256, Sha3_256},
                    DefaultRandomCoin, Digest, ElementHasher, Hasher, RandomCoin};
use winter_math::{fields::{f128, f62, f64, CubeExtension, QuadExtension}, ExtensibleField, FieldElement, StarkField};
use winter_utils::{ByteReader, ByteWriter, Deserializable, DeserializationError, Serializable};

// ------------------------------------------------------------------------------------------------ fields
trait Fld: StarkField + ExtensibleField<2> + ExtensibleField<3> {
    const NAME: &'static str;
    const M: u128;
    const EB: usize;
    /// the in-memory representation (AsBytes) is required to be the canonical residue / a word < M
    const RAW_BELOW_M: bool;
    fn from_u128(x: u128) -> Self;
    fn int(&self) -> u128;
    const HAS_CUBIC: bool;
}
impl Fld for f64::BaseElement {
    const NAME: &'static str = "f64";
    const M: u128 = 0xFFFF_FFFF_0000_0001;
    const EB: usize = 8;
    const RAW_BELOW_M: bool = true;
    fn from_u128(x: u128) -> Self { f64::BaseElement::new(x as u64) }
    fn int(&self) -> u128 { self.as_int() as u128 }
    const HAS_CUBIC: bool = true;
}
impl Fld for f62::BaseElement {
    const NAME: &'static str = "f62";
    const M: u128 = 4611624995532046337;
    const EB: usize = 8;
    const RAW_BELOW_M: bool = false; // internal values live in [0, 2M)
    fn from_u128(x: u128) -> Self { f62::BaseElement::new(x as u64) }
    fn int(&self) -> u128 { self.as_int() as u128 }
    const HAS_CUBIC: bool = true;
}
impl Fld for f128::BaseElement {
    const NAME: &'static str = "f128";
    const M: u128 = 340282366920938463463374557953744961537;
    const EB: usize = 16;
    const RAW_BELOW_M: bool = true;
    fn from_u128(x: u128) -> Self { f128::BaseElement::new(x) }
    fn int(&self) -> u128 { self.as_int() }
    const HAS_CUBIC: bool = false; // ExtensibleField<3>::is_supported() == false
}

fn coeffs<B: Fld, E: FieldElement<BaseField = B>>(e: E) -> Vec<u128> {
    E::slice_as_base_elements(&[e]).iter().map(|b| b.int()).collect()
}

// ------------------------------------------------------------------------------------------------ WideToy
// 32-byte digest of four words: word_i = post_MODE(toy_hash([i] ++ le8(toy_hash(input)))).  Gallina twin: wide_* in coq/Model/Coin.v.
#[derive(Debug, Default, Copy, Clone, Eq, PartialEq)]
pub struct WDigest(pub [u64; 4]);
impl WDigest {
    fn bytes(&self) -> [u8; 32] {
        let mut r = [0u8; 32];
        for i in 0..4 {
            r[8 * i..8 * i + 8].copy_from_slice(&self.0[i].to_le_bytes());
        }
        r
    }
}
impl Digest for WDigest {
    fn as_bytes(&self) -> [u8; 32] { self.bytes() }
}
impl Serializable for WDigest {
    fn write_into<W: ByteWriter>(&self, target: &mut W) { target.write_bytes(&self.bytes()); }
}
impl Deserializable for WDigest {
    fn read_from<R: ByteReader>(source: &mut R) -> Result<Self, DeserializationError> {
        let b: [u8; 32] = source.read_array()?;
        let mut w = [0u64; 4];
        for i in 0..4 {
            w[i] = u64::from_le_bytes(b[8 * i..8 * i + 8].try_into().unwrap());
        }
        Ok(WDigest(w))
    }
}
fn wide_post(mode: u8, w: u64) -> u64 {
    match mode {
        0 | 4 | 5 => w,
        1 => if w & 3 == 3 { w | 0xFFFF_FFFF_0000_0000 } else { w },
        2 => if w & 7 == 7 { u64::MAX } else { w },
        _ => if w & 1023 == 0 { w } else { u64::MAX },
    }
}
fn wide_hash(mode: u8, bytes: &[u8]) -> WDigest {
    let mut buf = [0u8; 9];
    buf[1..].copy_from_slice(&toy_hash(bytes).to_le_bytes());
    let mut w = [0u64; 4];
    for i in 0..4 {
        buf[0] = i as u8;
        w[i] = wide_post(mode, toy_hash(&buf));
    }
    WDigest(w)
}
pub struct WideToy<B: StarkField, const MODE: u8>(PhantomData<B>);
impl<B: StarkField, const MODE: u8> Hasher for WideToy<B, MODE> {
    type Digest = WDigest;
    const COLLISION_RESISTANCE: u32 = 32;
    fn hash(bytes: &[u8]) -> WDigest { wide_hash(MODE, bytes) }
    fn merge(values: &[WDigest; 2]) -> WDigest {
        let mut b = Vec::with_capacity(64);
        b.extend_from_slice(&values[0].bytes());
        b.extend_from_slice(&values[1].bytes());
        wide_hash(MODE, &b)
    }
    fn merge_with_int(seed: WDigest, value: u64) -> WDigest {
        // mode 4: inadmissible (all-ones) digest below T(seed) = 998 + seed.word0 % 5: first admissible candidate of a
        // draw sits right at the 1000-try limit
        if MODE == 4 && value < 998 + seed.0[0] % 5 {
            return WDigest([u64::MAX; 4]);
        }
        // mode 5: crafted candidates for value 1 and 2 (see gap_digest in coq/Model/Coin.v): coefficient slots hold
        // 16*value + 5 + slot, except that for value 1 the slot (seed.word0 / 3) % 3 holds M, M+1 or 2^MODULUS_BITS - 1
        if MODE == 5 && (1..=2).contains(&value) {
            let mb = B::get_modulus_le_bytes();
            let mut m16 = [0u8; 16];
            m16[..mb.len()].copy_from_slice(&mb);
            let m = u128::from_le_bytes(m16);
            let eb = B::ELEMENT_BYTES;
            let top = if B::MODULUS_BITS == 128 { u128::MAX } else { (1u128 << B::MODULUS_BITS) - 1 };
            let w0 = seed.0[0];
            let g = match w0 % 3 { 0 => m, 1 => m + 1, _ => top };
            let pos = ((w0 / 3) % 3) as usize;
            let mut bytes = [0u8; 32];
            for j in 0..32 / eb {
                let x: u128 = if value == 1 && j == pos { g } else { 16 * value as u128 + 5 + j as u128 };
                bytes[j * eb..(j + 1) * eb].copy_from_slice(&x.to_le_bytes()[..eb]);
            }
            let mut w = [0u64; 4];
            for i in 0..4 {
                w[i] = u64::from_le_bytes(bytes[8 * i..8 * i + 8].try_into().unwrap());
            }
            return WDigest(w);
        }
        let mut b = Vec::with_capacity(40);
        b.extend_from_slice(&seed.bytes());
        b.extend_from_slice(&value.to_le_bytes());
        wide_hash(MODE, &b)
    }
}
impl<B: StarkField, const MODE: u8> ElementHasher for WideToy<B, MODE> {
    type BaseField = B;
    fn hash_elements<E: FieldElement<BaseField = B>>(elements: &[E]) -> WDigest {
        let mut bytes = Vec::with_capacity(elements.len() * E::ELEMENT_BYTES);
        for e in E::slice_as_base_elements(elements) {
            e.write_into(&mut bytes);
        }
        wide_hash(MODE, &bytes)
    }
}

trait CorrHasher: ElementHasher {
    const WORDS: usize;
    fn dig(w: &[u64]) -> Self::Digest;
}
impl<B: StarkField> CorrHasher for ToyHasher<B> {
    const WORDS: usize = 1;
    fn dig(w: &[u64]) -> ToyDigest { ToyDigest::from_u64(w[0]) }
}
impl<B: StarkField, const MODE: u8> CorrHasher for WideToy<B, MODE> {
    const WORDS: usize = 4;
    fn dig(w: &[u64]) -> WDigest { WDigest([w[0], w[1], w[2], w[3]]) }
}

// ------------------------------------------------------------------------------------------------ histories
#[derive(Clone, Debug)]
enum Op {
    Reseed(Vec<u64>),
    Draw(u8),
    Ints(u64, u64, u64),
    Lz(u64),
    Grind(u32, u64),
}
fn op_str(o: &Op) -> String {
    match o {
        Op::Reseed(w) => format!("R:{}", w.iter().map(|x| format!("{:x}", x)).collect::<Vec<_>>().join(",")),
        Op::Draw(d) => format!("D:{:x}", d),
        Op::Ints(n, dom, nonce) => format!("I:{:x}:{:x}:{:x}", n, dom, nonce),
        Op::Lz(v) => format!("Z:{:x}", v),
        Op::Grind(gf, fuel) => format!("G:{:x}:{:x}", gf, fuel),
    }
}

fn draw_deg<B: Fld, H: ElementHasher<BaseField = B>>(coin: &mut DefaultRandomCoin<H>, deg: u8) -> Result<Result<Vec<u128>, ()>, String> {
    catch(AssertUnwindSafe(|| match deg {
        1 => coin.draw::<B>().map(coeffs::<B, B>).map_err(|_| ()),
        2 => coin.draw::<QuadExtension<B>>().map(coeffs::<B, QuadExtension<B>>).map_err(|_| ()),
        _ => coin.draw::<CubeExtension<B>>().map(coeffs::<B, CubeExtension<B>>).map_err(|_| ()),
    }))
}

fn hexlist128(v: &[u128]) -> String {
    if v.is_empty() { "-".into() } else { v.iter().map(|x| format!("{:x}", x)).collect::<Vec<_>>().join(",") }
}

fn run_corr<B: Fld, H: CorrHasher<BaseField = B>>(seed: &[u128], ops: &[Op]) -> String {
    let elems: Vec<B> = seed.iter().map(|&x| B::from_u128(x)).collect();
    let mut coin = DefaultRandomCoin::<H>::new(&elems);
    let mut out = Vec::new();
    for o in ops {
        out.push(match o {
            Op::Reseed(w) => { coin.reseed(H::dig(w)); "u".to_string() }
            Op::Draw(d) => match draw_deg::<B, H>(&mut coin, *d) {
                Ok(Ok(c)) => format!("Dok:{}", hexlist128(&c)),
                Ok(Err(())) => "Derr".into(),
                Err(_) => "Dpanic".into(),
            },
            Op::Ints(n, dom, nonce) => match catch(AssertUnwindSafe(|| coin.draw_integers(*n as usize, *dom as usize, *nonce))) {
                Ok(Ok(v)) => format!("Iok:{}", hexlist128(&v.iter().map(|&x| x as u128).collect::<Vec<_>>())),
                Ok(Err(_)) => "Ierr".into(),
                Err(_) => "Ipanic".into(),
            },
            Op::Lz(v) => format!("z{}", coin.check_leading_zeros(*v)),
            Op::Grind(gf, fuel) => match (1..=*fuel).find(|&nonce| coin.check_leading_zeros(nonce) >= *gf) {
                Some(nonce) => format!("g:{:x}", nonce),
                None => "g:none".into(),
            },
        });
    }
    out.join(" ")
}

fn run_case(hasher: &str, field: &str, seed: &[u128], ops: &[Op]) -> String {
    macro_rules! go { ($b:ty) => { match hasher {
        "toy" => run_corr::<$b, ToyHasher<$b>>(seed, ops),
        "w0" => run_corr::<$b, WideToy<$b, 0>>(seed, ops),
        "w1" => run_corr::<$b, WideToy<$b, 1>>(seed, ops),
        "w2" => run_corr::<$b, WideToy<$b, 2>>(seed, ops),
        "w4" => run_corr::<$b, WideToy<$b, 4>>(seed, ops),
        "w5" => run_corr::<$b, WideToy<$b, 5>>(seed, ops),
        _ => run_corr::<$b, WideToy<$b, 3>>(seed, ops),
    } } }
    match field {
        "f64" => go!(f64::BaseElement),
        "f62" => go!(f62::BaseElement),
        _ => go!(f128::BaseElement),
    }
}

fn field_mod(field: &str) -> u128 {
    match field { "f64" => <f64::BaseElement as Fld>::M, "f62" => <f62::BaseElement as Fld>::M, _ => <f128::BaseElement as Fld>::M }
}

fn gen_seed(r: &mut Rng, m: u128, len: usize) -> Vec<u128> {
    (0..len).map(|_| match r.below(8) { 0 => 0, 1 => 1, 2 => m - 1, 3 => m - 2, 4 => r.below(256) as u128, _ => r.next_u128() % m }).collect()
}
fn gen_nonce(r: &mut Rng) -> u64 {
    match r.below(10) {
        0 => 0, 1 => 1, 2 => u64::MAX, 3 => u64::MAX - 1, 4 => r.below(1 << 16),
        5 => 0xFFFF_FFFF_0000_0000u64.wrapping_add(r.below(4)),            // around the f64 modulus
        6 => (1 + r.below(4)) * 4611624995532046337 - 1 + r.below(3),      // around multiples of the f62 modulus
        _ => r.next_u64(),
    }
}
fn gen_ints(r: &mut Rng, wide: bool) -> Op {
    let k = 1 + r.below(32);
    let dom: u64 = 1 << k;
    // the extracted model costs ~3 ms per PRNG call on the 32-byte toy hashers: keep most counts small there
    let cap = (dom - 1).min(if wide && !r.chance(1, 8) { 24 } else { 255 });
    let (n, dom) = match r.below(20) {
        0..=10 => (1 + r.below(cap), dom),                     // admissible: 1..min(255, dom-1)
        11 => (cap, dom),
        12 | 13 => (dom.min(255) + r.below(3), 1 << (1 + r.below(8))), // count >= domain size (documented error) or just below
        14 => (1 + r.below(255), dom ^ (1 << r.below(k)) | 1 << r.below(33)), // mostly not a power of two
        15 => (r.below(3), [0u64, 1, 2, 3][r.below(4) as usize]),     // degenerate domains / zero count
        16 => if r.chance(1, 4) && !wide { (999 + r.below(4), 1 << (10 + r.below(23))) } else { (1 + r.below(cap), dom) }, // around the 1000-iteration limit
        17 => (1 + r.below(255), 1 << (33 + r.below(31))),            // domains above 2^32
        18 => (r.next_u64(), r.next_u64()),
        _ => (1 + r.below(cap), dom),
    };
    Op::Ints(n, dom, gen_nonce(r))
}
fn gen_op(r: &mut Rng, words: usize, heavy: bool) -> Op {
    match r.below(20) {
        0..=5 => Op::Draw(1 + r.below(3) as u8),
        6..=9 => Op::Reseed((0..words).map(|_| match r.below(6) { 0 => 0, 1 => u64::MAX, _ => r.next_u64() }).collect()),
        10..=13 => if heavy { Op::Lz(gen_nonce(r)) } else { gen_ints(r, words == 4) },
        14..=17 => Op::Lz(gen_nonce(r)),
        _ => Op::Grind(r.below(7) as u32, 1 + r.below(48)),
    }
}

fn boundary_cases() -> Vec<(String, String, Vec<u128>, Vec<Op>)> {
    let mut v = Vec::new();
    let fields = ["f64", "f62", "f128"];
    let mut i = 0usize;
    let mut push = |h: &str, ops: Vec<Op>, seedlen: usize, v: &mut Vec<(String, String, Vec<u128>, Vec<Op>)>| {
        let f = fields[i % 3];
        i += 1;
        let m = field_mod(f);
        let seed: Vec<u128> = (0..seedlen).map(|j| if j % 3 == 2 { m - 1 } else { j as u128 }).collect();
        v.push((h.to_string(), f.to_string(), seed, ops));
    };
    // every domain size 2^1..2^32 with counts 1, min(255, dom-1), and counts >= domain size
    for k in 1..=32u32 {
        let dom = 1u64 << k;
        let cap = (dom - 1).min(255);
        for (j, nonce) in [0u64, 1, u64::MAX].iter().enumerate() {
            let h = ["toy", "w0", "w1"][j];
            let cap = if j > 0 && k % 8 != 0 { cap.min(9) } else { cap };
            push(h, vec![Op::Ints(1, dom, *nonce), Op::Draw(1), Op::Ints(cap, dom, *nonce), Op::Lz(*nonce), Op::Draw(1)], 1 + j, &mut v);
        }
        if dom <= 256 {
            push("toy", vec![Op::Ints(dom, dom, 7), Op::Draw(1), Op::Ints(dom - 1, dom, 7), Op::Draw(1)], 3, &mut v);
            push("w0", vec![Op::Ints(255, dom, 7), Op::Ints(dom + 1, dom, 7), Op::Ints(dom / 2, dom, 7), Op::Draw(2)], 3, &mut v);
        }
    }
    // every count 1..255 (domain 256 and 2^32), alternating hashers
    for n in 1..=255u64 {
        let h = if n % 16 == 5 { "w0" } else if n % 16 == 11 { "w2" } else { "toy" };
        push(h, vec![Op::Ints(n, if n % 2 == 0 { 256 } else { 1 << 32 }, n), Op::Draw(1)], (n % 5) as usize, &mut v);
    }
    // seeds of length 0, 1, many
    for len in [0usize, 1, 2, 3, 7, 8, 9, 40, 100] {
        for h in ["toy", "w0"] {
            for _ in 0..3 {
                push(h, vec![Op::Draw(1), Op::Lz(0), Op::Draw(2), Op::Draw(3), Op::Ints(5, 64, 1), Op::Draw(1)], len, &mut v);
            }
        }
    }
    // error / panic domain of draw_integers, zero count, iteration limit (cases that run the full 1000 iterations
    // are costly in the extracted model: toy hasher only, plus two on w0)
    for (n, dom) in [(0u64, 1u64), (0, 2), (0, 0), (1, 0), (1, 1), (1, 3), (2, 6), (5, (1 << 32) + 1), (1, 1 << 63), (1, u64::MAX),
                     (u64::MAX, 1 << 63), (1 << 63, 1 << 63), (1000, 2048), (1001, 2048), (999, 1024), (1023, 1024), (1024, 1024),
                     (2000, 1 << 20), (255, 256), (256, 256)] {
        let full = n == 0 && dom > 0 || n >= 999 && n < dom;
        for h in ["toy", "w0"] {
            if h == "w0" && full && n != 1001 && n != 0 { continue; }
            if h == "w0" && n == 0 && dom != 2 { continue; }
            push(h, vec![Op::Draw(1), Op::Ints(n, dom, 3), Op::Draw(1), Op::Lz(3)], 2, &mut v);
        }
    }
    // draws of every element type, repeated, on every hasher variant
    for h in ["toy", "w0", "w1", "w2"] {
        for d in 1..=3u8 {
            for _ in 0..3 {
                push(h, vec![Op::Draw(d), Op::Draw(d), Op::Lz(1), Op::Draw(1), Op::Reseed(vec![5, 6, 7, 8]), Op::Draw(d), Op::Draw(1)], 4, &mut v);
            }
        }
    }
    // w3: draw mostly fails after 1000 tries (Err), state keeps the advanced counter
    for d in 1..=3u8 {
        push("w3", vec![Op::Draw(d), Op::Lz(1), Op::Draw(1), Op::Reseed(vec![5, 6, 7, 8]), Op::Draw(1)], 4, &mut v);
    }
    // w4: the first admissible candidate is at counter 998..1002 (depends on the seed): draw succeeds at exactly the
    // 1000th try or fails by one; the draw after a failure continues from counter 1000
    for t in 0..30u64 {
        let d = 1 + (t % 3) as u8;
        push("w4", vec![Op::Draw(d), Op::Lz(1), Op::Draw(1), Op::Draw(d), Op::Reseed(vec![t, 6, 7, 8]), Op::Draw(1), Op::Ints(3, 8, 5), Op::Draw(d)], (t % 7) as usize, &mut v);
    }
    // w5: the first candidate after new / every reseed has M, M+1 or 2^bits-1 (the gap [M, 2^MODULUS_BITS)) in coefficient
    // slot 0, 1 or 2 (selected by the seed), the second candidate is admissible: 18 seeds x base/quadratic/cubic draws
    for t in 0..54u64 {
        let d = 1 + (t % 3) as u8;
        push("w5", vec![Op::Draw(d), Op::Draw(d), Op::Reseed(vec![t, 1, 2, 3]), Op::Draw(1), Op::Reseed(vec![t + 9, t, 2, 3]), Op::Draw(d), Op::Lz(1),
                        Op::Reseed(vec![3 * t, 0, 0, 0]), Op::Draw(2), Op::Reseed(vec![7 * t + 1, 0, 0, 0]), Op::Draw(3), Op::Ints(2, 4, t), Op::Draw(d)],
             (t % 11) as usize, &mut v);
    }
    // nonce search
    for gf in 0..=8u32 {
        push("toy", vec![Op::Grind(gf, 600), Op::Draw(1), Op::Reseed(vec![gf as u64; 4]), Op::Grind(gf, 600)], 2, &mut v);
        push("w0", vec![Op::Grind(gf, 600), Op::Reseed(vec![gf as u64; 4]), Op::Grind(gf, 600)], 2, &mut v);
    }
    v
}

fn corr(seed: u64, n: usize) {
    let mut r = Rng::new(seed ^ 0xC19);
    let mut cases = boundary_cases();
    let nb = cases.len();
    let mut heavy_left = (n / 100).max(2);
    while cases.len() < nb + n {
        let f = ["f64", "f62", "f128"][r.below(3) as usize];
        let mut h = ["toy", "toy", "toy", "toy", "w0", "w5", "w1", "w4", "w2", "w3"][r.below(10) as usize];
        if h == "w3" {
            if heavy_left == 0 { h = "w1"; } else { heavy_left -= 1; }
        }
        let heavy = h == "w3";
        let words = if h == "toy" { 1 } else { 4 };
        let m = field_mod(f);
        let len = match r.below(8) { 0 => 0, 1 | 2 => 1, 3 => 2 + r.below(3) as usize, 4 => 30 + r.below(40) as usize, _ => 1 + r.below(9) as usize };
        let seedv = gen_seed(&mut r, m, len);
        let nops = if heavy { 1 + r.below(4) } else { 1 + r.below(10) } as usize;
        let mut ops: Vec<Op> = (0..nops).map(|_| gen_op(&mut r, words, heavy)).collect();
        ops.push(Op::Lz(r.next_u64()));
        ops.push(Op::Draw(1));
        cases.push((h.to_string(), f.to_string(), seedv, ops));
    }
    let mut stats = std::collections::BTreeMap::<String, usize>::new();
    for (h, f, s, ops) in &cases {
        let res = run_case(h, f, s, ops);
        for t in res.split(' ') {
            let key: String = t.split(':').next().unwrap().chars().take_while(|c| !c.is_ascii_digit()).collect();
            *stats.entry(key).or_default() += 1;
        }
        *stats.entry(format!("hasher:{}", h)).or_default() += 1;
        *stats.entry(format!("field:{}", f)).or_default() += 1;
        println!("{} {} {} {} => {}", h, f, hexlist128(s), ops.iter().map(op_str).collect::<Vec<_>>().join(" "), res);
    }
    eprintln!("distribution boundary={} random={} {:?}", nb, cases.len() - nb, stats);
}

// ================================================================================================ falsifier
#[derive(Clone)]
enum FOp<D: Clone> {
    Reseed(D),
    Draw(u8),
    Ints(usize, usize, u64),
    Lz(u64),
}
#[derive(Clone, PartialEq, Debug)]
enum Out {
    Unit,
    Elem(Result<Vec<u128>, String>),
    Ints(Result<Vec<u64>, String>),
    Lz(u32),
}

struct Report {
    evals: u64,
    fails: u64,
}
impl Report {
    fn fail(&mut self, what: &str, input: String, expected: String, actual: String) {
        self.fails += 1;
        if self.fails <= 40 {
            println!("{{\"what\":{},\"input\":{},\"expected\":{},\"actual\":{}}}", jstr(what), jstr(&input), jstr(&expected), jstr(&actual));
        }
    }
}

fn fop_str<D: Digest>(o: &FOp<D>) -> String {
    match o {
        FOp::Reseed(d) => format!("R:{}", wf_harness::hex_bytes(&d.as_bytes())),
        FOp::Draw(d) => format!("D:{}", d),
        FOp::Ints(n, dom, nonce) => format!("I:{:x}:{:x}:{:x}", n, dom, nonce),
        FOp::Lz(v) => format!("Z:{:x}", v),
    }
}
fn hist_str<B: Fld, D: Digest>(name: &str, seed: &[u128], ops: &[FOp<D>]) -> String {
    format!("{} {} {} {}", name, B::NAME, hexlist128(seed), ops.iter().map(fop_str).collect::<Vec<_>>().join(" "))
}

/// canonical-form checks on an element returned by draw (independent of how it was produced)
fn elem_checks<B: Fld, E: FieldElement<BaseField = B>>(e: E, problems: &mut Vec<String>) {
    for (i, c) in coeffs::<B, E>(e).iter().enumerate() {
        if *c >= B::M {
            problems.push(format!("coefficient {} as_int {:x} >= modulus", i, c));
        }
    }
    let bytes = e.to_bytes();
    if bytes.len() != E::ELEMENT_BYTES {
        problems.push(format!("to_bytes length {}", bytes.len()));
    }
    match E::read_from_bytes(&bytes) {
        Ok(e2) if e2 == e => {
            // the round trip must also be bit-identical in memory (a non-canonical internal word compares equal
            // under a lenient PartialEq but hashes differently through elements_as_bytes)
            if B::RAW_BELOW_M && e2.as_bytes() != e.as_bytes() {
                problems.push("read_from_bytes(to_bytes(e)) differs from e in memory".into());
            }
        }
        Ok(_) => problems.push("read_from_bytes(to_bytes(e)) != e".into()),
        Err(_) => problems.push("to_bytes(e) is rejected by read_from_bytes".into()),
    }
    if B::RAW_BELOW_M {
        for ch in e.as_bytes().chunks(B::EB) {
            let mut b = [0u8; 16];
            b[..ch.len()].copy_from_slice(ch);
            if u128::from_le_bytes(b) >= B::M {
                problems.push(format!("internal word {:x} >= modulus", u128::from_le_bytes(b)));
            }
        }
    }
}

fn exec<B: Fld, H: ElementHasher<BaseField = B>>(seed: &[u128], ops: &[FOp<H::Digest>], problems: &mut Vec<String>) -> Vec<Out> {
    let elems: Vec<B> = seed.iter().map(|&x| B::from_u128(x)).collect();
    let mut coin = DefaultRandomCoin::<H>::new(&elems);
    let mut out = Vec::with_capacity(ops.len());
    for o in ops {
        out.push(match o {
            FOp::Reseed(d) => { coin.reseed(*d); Out::Unit }
            FOp::Draw(deg) => {
                let r = catch(AssertUnwindSafe(|| match deg {
                    1 => coin.draw::<B>().map(|e| { elem_checks::<B, B>(e, problems); coeffs::<B, B>(e) }).map_err(|_| ()),
                    2 => coin.draw::<QuadExtension<B>>().map(|e| { elem_checks::<B, QuadExtension<B>>(e, problems); coeffs::<B, QuadExtension<B>>(e) }).map_err(|_| ()),
                    _ => coin.draw::<CubeExtension<B>>().map(|e| { elem_checks::<B, CubeExtension<B>>(e, problems); coeffs::<B, CubeExtension<B>>(e) }).map_err(|_| ()),
                }));
                Out::Elem(match r { Ok(Ok(c)) => Ok(c), Ok(Err(())) => Err("err".into()), Err(_) => Err("panic".into()) })
            }
            FOp::Ints(n, dom, nonce) => {
                let r = catch(AssertUnwindSafe(|| coin.draw_integers(*n, *dom, *nonce)));
                Out::Ints(match r { Ok(Ok(v)) => Ok(v.iter().map(|&x| x as u64).collect()), Ok(Err(_)) => Err("err".into()), Err(_) => Err("panic".into()) })
            }
            FOp::Lz(v) => Out::Lz(coin.check_leading_zeros(*v)),
        });
    }
    out
}

/// Reference coin written from the documentation: seed chain + counter-mode expansion + rejection, using only
/// the hasher's public functions and plain integer comparisons.
fn shadow<B: Fld, H: ElementHasher<BaseField = B>>(seed: &[u128], ops: &[FOp<H::Digest>]) -> Vec<Out> {
    let elems: Vec<B> = seed.iter().map(|&x| B::from_u128(x)).collect();
    let mut s = H::hash_elements(&elems);
    let mut ctr: u64 = 0;
    let mut out = Vec::new();
    for o in ops {
        out.push(match o {
            FOp::Reseed(d) => { s = H::merge(&[s, *d]); ctr = 0; Out::Unit }
            FOp::Draw(deg) => {
                let mut res = Err("err".to_string());
                for _ in 0..1000 {
                    ctr += 1;
                    let bytes = H::merge_with_int(s, ctr).as_bytes();
                    let mut cs = Vec::new();
                    for j in 0..*deg as usize {
                        let mut v: u128 = 0;
                        for t in (0..B::EB).rev() {
                            v = (v << 8) | bytes[j * B::EB + t] as u128;
                        }
                        cs.push(v);
                    }
                    if cs.iter().all(|&c| c < B::M) {
                        res = Ok(cs);
                        break;
                    }
                }
                Out::Elem(res)
            }
            FOp::Ints(n, dom, nonce) => {
                if *dom == 0 || (*dom & (*dom - 1)) != 0 {
                    Out::Ints(Err("panic".into())) // documented panic: domain size not a power of two
                } else if *n >= *dom {
                    Out::Ints(Err("err".into())) // documented error: count >= domain size (coin untouched)
                } else {
                    s = H::merge_with_int(s, *nonce);
                    ctr = 0;
                    let mut vals = Vec::new();
                    for _ in 0..(*n).min(1000) {
                        ctr += 1;
                        let bytes = H::merge_with_int(s, ctr).as_bytes();
                        let mut v: u64 = 0;
                        for t in (0..8).rev() {
                            v = (v << 8) | bytes[t] as u64;
                        }
                        vals.push(v % (*dom as u64));
                    }
                    if *n > 1000 { Out::Ints(Err("err".into())) } else { Out::Ints(Ok(vals)) }
                }
            }
            FOp::Lz(v) => {
                let bytes = H::merge_with_int(s, *v).as_bytes();
                let mut z = 0u32;
                'outer: for t in 0..8 {
                    for bit in 0..8 {
                        if (bytes[t] >> bit) & 1 == 1 { break 'outer; }
                        z += 1;
                    }
                }
                Out::Lz(z)
            }
        });
    }
    out
}

fn gen_fints(r: &mut Rng) -> (usize, usize, u64) {
    let k = 1 + r.below(32);
    let dom = 1usize << k;
    let cap = ((dom - 1) as u64).min(255);
    let n = match r.below(10) {
        0 => cap,
        1 => 1,
        2 => (dom as u64).min(255) + r.below(2), // count >= domain size when dom <= 255: documented error
        _ => 1 + r.below(cap),
    } as usize;
    (n.clamp(1, 255), dom, gen_nonce(r))
}

fn falsify_h<B: Fld, H: ElementHasher<BaseField = B>>(name: &str, r: &mut Rng, n: usize, rep: &mut Report) {
    let max_deg = if B::HAS_CUBIC { 3 } else { 2 };
    for it in 0..n {
        let len = match it % 6 { 0 => 0, 1 => 1, _ => 1 + r.below(12) as usize };
        let seed = gen_seed(r, B::M, len);
        let nops = 1 + r.below(8) as usize;
        let mut ops: Vec<FOp<H::Digest>> = Vec::new();
        for _ in 0..nops {
            ops.push(match r.below(10) {
                0..=3 => FOp::Draw(1 + r.below(max_deg) as u8),
                4 | 5 => { let k = r.below(40) as usize; FOp::Reseed(H::hash(&r.bytes(k))) }
                6 | 7 => { let (n, d, nonce) = gen_fints(r); FOp::Ints(n, d, nonce) }
                _ => FOp::Lz(gen_nonce(r)),
            });
        }
        let probe = FOp::Draw(1);
        let mut full = ops.clone();
        full.push(probe.clone());
        let desc = |ops: &[FOp<H::Digest>]| hist_str::<B, H::Digest>(name, &seed, ops);

        // (1) determinism: replay
        let mut problems = Vec::new();
        let a = exec::<B, H>(&seed, &full, &mut problems);
        let b = exec::<B, H>(&seed, &full, &mut Vec::new());
        rep.evals += full.len() as u64;
        if a != b {
            rep.fail("coin not deterministic: two replays of one history differ", desc(&full), format!("{:?}", a), format!("{:?}", b));
        }
        // (2) validity / canonical form of every drawn element
        for p in problems {
            rep.fail("drawn element is not a valid canonical field element", desc(&full), "as_int < MODULUS, read_from_bytes(to_bytes(e)) == e".into(), p);
        }
        // (3) reference expansion: values, counts, ranges, error class, PoW measure
        let s = shadow::<B, H>(&seed, &full);
        for (i, (x, y)) in a.iter().zip(s.iter()).enumerate() {
            rep.evals += 1;
            if let (Out::Ints(Ok(v)), FOp::Ints(n, dom, _)) = (x, &full[i]) {
                if v.len() != *n {
                    rep.fail("draw_integers returned a wrong number of values", desc(&full[..=i]), format!("{}", n), format!("{}", v.len()));
                }
                if let Some(bad) = v.iter().find(|&&q| q >= *dom as u64) {
                    rep.fail("draw_integers returned a value outside the domain", desc(&full[..=i]), format!("< {:x}", dom), format!("{:x}", bad));
                }
            }
            if x != y {
                let what = match &full[i] {
                    FOp::Lz(_) => "check_leading_zeros differs from the trailing-zero count of merge_with_int(seed, nonce) bytes",
                    FOp::Draw(_) => "draw differs from the first valid counter-mode output hash(seed || counter)",
                    FOp::Ints(..) => "draw_integers differs from the reference expansion / documented error class",
                    FOp::Reseed(_) => "reseed",
                };
                rep.fail(what, desc(&full[..=i]), format!("{:?}", y), format!("{:?}", x));
            }
        }
        // (4) check_leading_zeros is pure: interleave calls everywhere, other outputs unchanged
        let mut inter: Vec<FOp<H::Digest>> = Vec::new();
        for o in &full {
            inter.push(FOp::Lz(gen_nonce(r)));
            inter.push(o.clone());
        }
        let c: Vec<Out> = exec::<B, H>(&seed, &inter, &mut Vec::new()).into_iter().skip(1).step_by(2).collect();
        rep.evals += 1;
        if c != a {
            rep.fail("check_leading_zeros changed subsequent outputs", desc(&inter), format!("{:?}", a), format!("{:?}", c));
        }
        // (5) sensitivity: one change in seed / reseed data / nonce / number of draws changes the next draw
        let last = a.last().cloned();
        let mut mutants: Vec<(&str, Vec<u128>, Vec<FOp<H::Digest>>)> = Vec::new();
        if !seed.is_empty() {
            let mut s2 = seed.clone();
            let j = r.below(s2.len() as u64) as usize;
            s2[j] = (s2[j] + 1 + r.below(5) as u128) % B::M;
            mutants.push(("seed element changed", s2, full.clone()));
        }
        { let mut s2 = seed.clone(); s2.push(r.next_u128() % B::M); mutants.push(("seed element appended", s2, full.clone())); }
        { let mut f2 = full.clone(); f2.insert(full.len() - 1, FOp::Draw(1)); mutants.push(("one more draw before", seed.clone(), f2)); }
        { let mut f2 = full.clone(); f2.insert(full.len() - 1, FOp::Reseed(H::hash(&r.bytes(3)))); mutants.push(("one more reseed before", seed.clone(), f2)); }
        // mutate the LAST state-changing absorb so that no later reseed could mask a (hypothetical) dropped input
        if let Some(j) = (0..ops.len()).rev().find(|&j| matches!(ops[j], FOp::Reseed(_))) {
            // only draws may follow position j for the counter not to be the distinguishing input
            let mut f2 = full.clone();
            let k = r.below(40) as usize;
            f2[j] = FOp::Reseed(H::hash(&[&r.bytes(k)[..], b"x"].concat()));
            mutants.push(("reseed data changed", seed.clone(), f2));
        }
        if let Some(j) = (0..ops.len()).rev().find(|&j| matches!(ops[j], FOp::Ints(n, d, _) if n < d)) {
            let mut f2 = full.clone();
            if let FOp::Ints(n, d, nonce) = ops[j] { f2[j] = FOp::Ints(n, d, nonce ^ (1 << r.below(64))); }
            mutants.push(("nonce changed", seed.clone(), f2));
        }
        for (what, s2, f2) in mutants {
            let m = exec::<B, H>(&s2, &f2, &mut Vec::new());
            rep.evals += 1;
            if let (Some(Out::Elem(Ok(x))), Some(Out::Elem(Ok(y)))) = (&last, m.last()) {
                if x == y {
                    rep.fail(&format!("next draw insensitive to history change: {}", what), format!("{} || {}", desc(&full), hist_str::<B, H::Digest>(name, &s2, &f2)),
                             "different next element".into(), format!("{:x?}", y));
                }
            }
        }
    }
}

/// Boundary nonces (sensitivity stream): outputs for two different nonces must differ.  The reference coin of
/// `shadow` calls the library's merge_with_int, so a nonce encoding that is not injective (e.g. the value/modulus
/// split of the Rescue hashers off by one) is invisible to it; pairwise distinctness is the independent oracle.
/// check_leading_zeros may coincide by chance, so the compared signature is draw_integers(8, 2^32, nonce) (256 bits)
/// together with the next base-field draw.
fn boundary_nonces() -> Vec<u64> {
    let p64: u64 = 0xFFFF_FFFF_0000_0001;
    let p62: u64 = 4611624995532046337;
    let mut v = vec![0u64, 1, 2, p64 - 2, p64 - 1, p64, p64 + 1, p64 + 2, (1 << 32) - 1, 1 << 32, (1 << 32) + 1, 0xFFFF_FFFF_0000_0000,
                     (1 << 62) - 1, 1 << 62, (1 << 63) - 1, 1 << 63, (1 << 63) + 1, u64::MAX - 1, u64::MAX];
    for k in 1..=4u64 {
        for d in [-1i64, 0, 1] {
            v.push((k * p62).wrapping_add(d as u64));
        }
    }
    v.sort();
    v.dedup();
    v
}
fn nonce_boundary_h<B: Fld, H: ElementHasher<BaseField = B>>(name: &str, r: &mut Rng, rep: &mut Report) {
    let nonces = boundary_nonces();
    for variant in 0..3 {
        let seed = gen_seed(r, B::M, variant + 1);
        let elems: Vec<B> = seed.iter().map(|&x| B::from_u128(x)).collect();
        let data = H::hash(&r.bytes(5));
        let mut sigs: Vec<(u64, Vec<usize>, u128, u32)> = Vec::new();
        for &nonce in &nonces {
            let mut coin = DefaultRandomCoin::<H>::new(&elems);
            if variant >= 1 { coin.reseed(data); }
            if variant == 2 { let _ = coin.draw::<B>(); }
            let lz = coin.check_leading_zeros(nonce);
            let ints = coin.draw_integers(8, 1usize << 32, nonce).unwrap_or_default();
            let next = coin.draw::<B>().map(|e| e.int()).unwrap_or(u128::MAX);
            rep.evals += 1;
            if ints.len() != 8 || ints.iter().any(|&q| q >= 1usize << 32) {
                rep.fail("draw_integers returned a wrong number of values", format!("{} {} nonce {:x}", name, B::NAME, nonce), "8 values < 2^32".into(), format!("{:x?}", ints));
            }
            sigs.push((nonce, ints, next, lz));
        }
        for i in 0..sigs.len() {
            for j in i + 1..sigs.len() {
                if sigs[i].1 == sigs[j].1 || sigs[i].2 == sigs[j].2 {
                    rep.fail("outputs insensitive to the nonce: draw_integers / the next draw agree for two different nonces",
                             format!("{} {} seed={} variant={} nonces {:x} and {:x}", name, B::NAME, hexlist128(&seed), variant, sigs[i].0, sigs[j].0),
                             "different integers and a different next element".into(),
                             format!("integers {:x?} / {:x?}, next {:x} / {:x}, check_leading_zeros {} / {}", sigs[i].1, sigs[j].1, sigs[i].2, sigs[j].2, sigs[i].3, sigs[j].3));
                }
            }
        }
    }
}
fn nonce_boundary(r: &mut Rng, rep: &mut Report) {
    nonce_boundary_h::<f64::BaseElement, Blake3_192<f64::BaseElement>>("Blake3_192", r, rep);
    nonce_boundary_h::<f62::BaseElement, Blake3_192<f62::BaseElement>>("Blake3_192", r, rep);
    nonce_boundary_h::<f128::BaseElement, Blake3_192<f128::BaseElement>>("Blake3_192", r, rep);
    nonce_boundary_h::<f64::BaseElement, Blake3_256<f64::BaseElement>>("Blake3_256", r, rep);
    nonce_boundary_h::<f62::BaseElement, Blake3_256<f62::BaseElement>>("Blake3_256", r, rep);
    nonce_boundary_h::<f128::BaseElement, Blake3_256<f128::BaseElement>>("Blake3_256", r, rep);
    nonce_boundary_h::<f64::BaseElement, Sha3_256<f64::BaseElement>>("Sha3_256", r, rep);
    nonce_boundary_h::<f62::BaseElement, Sha3_256<f62::BaseElement>>("Sha3_256", r, rep);
    nonce_boundary_h::<f128::BaseElement, Sha3_256<f128::BaseElement>>("Sha3_256", r, rep);
    nonce_boundary_h::<f62::BaseElement, Rp62_248>("Rp62_248", r, rep);
    nonce_boundary_h::<f64::BaseElement, Rp64_256>("Rp64_256", r, rep);
    nonce_boundary_h::<f64::BaseElement, RpJive64_256>("RpJive64_256", r, rep);
}

/// Gap candidates against the reference coin: the real hashers put a candidate into [M, 2^MODULUS_BITS) about once per
/// 76,000 f62 draws (2^-32 for f64, ~2^-82 for f128), so the reference comparison is also run on WideToy<B, 5>, whose
/// first candidate after every reseed has M, M+1 or 2^bits-1 in one coefficient slot.  Oracle: `shadow` (plain integer
/// comparison with the modulus) and the canonical-form checks; no model involved.
fn gap_reference_h<B: Fld>(r: &mut Rng, n: usize, rep: &mut Report) {
    type H<B> = WideToy<B, 5>;
    let max_deg = if B::HAS_CUBIC { 3 } else { 2 };
    for _ in 0..n {
        let len = 1 + r.below(4) as usize;
        let seed = gen_seed(r, B::M, len);
        let mut ops: Vec<FOp<WDigest>> = Vec::new();
        for _ in 0..1 + r.below(4) {
            ops.push(FOp::Draw(1 + r.below(max_deg) as u8));
            ops.push(FOp::Draw(1));
            ops.push(FOp::Reseed(<H<B> as Hasher>::hash(&r.bytes(4))));
        }
        ops.push(FOp::Draw(1 + r.below(max_deg) as u8));
        let mut problems = Vec::new();
        let a = exec::<B, H<B>>(&seed, &ops, &mut problems);
        let s = shadow::<B, H<B>>(&seed, &ops);
        rep.evals += ops.len() as u64;
        for p in problems {
            rep.fail("drawn element is not a valid canonical field element", hist_str::<B, WDigest>("WideToy5", &seed, &ops), "as_int < MODULUS, read_from_bytes(to_bytes(e)) == e".into(), p);
        }
        for (i, (x, y)) in a.iter().zip(s.iter()).enumerate() {
            if x != y {
                rep.fail("draw differs from the first valid counter-mode output hash(seed || counter) (candidate in the gap [M, 2^bits))",
                         hist_str::<B, WDigest>("WideToy5", &seed, &ops[..=i]), format!("{:x?}", y), format!("{:x?}", x));
            }
        }
    }
}

fn falsify(seed: u64, n: usize) {
    let mut r = Rng::new(seed ^ 0xFA15_C19);
    let mut rep = Report { evals: 0, fails: 0 };
    // boundary stream first: nonces 0, 1, p-1, p, p+1 (p = f64 and k*f62 moduli), 2^32, 2^62, 2^63, u64::MAX, all pairs
    nonce_boundary(&mut r, &mut rep);
    let ngap = (n / 10).clamp(40, 2000);
    gap_reference_h::<f64::BaseElement>(&mut r, ngap, &mut rep);
    gap_reference_h::<f62::BaseElement>(&mut r, ngap, &mut rep);
    gap_reference_h::<f128::BaseElement>(&mut r, ngap, &mut rep);
    let per = (n / 12).max(1);
    falsify_h::<f64::BaseElement, Blake3_192<f64::BaseElement>>("Blake3_192", &mut r, per, &mut rep);
    falsify_h::<f62::BaseElement, Blake3_192<f62::BaseElement>>("Blake3_192", &mut r, per, &mut rep);
    falsify_h::<f128::BaseElement, Blake3_192<f128::BaseElement>>("Blake3_192", &mut r, per, &mut rep);
    falsify_h::<f64::BaseElement, Blake3_256<f64::BaseElement>>("Blake3_256", &mut r, per, &mut rep);
    falsify_h::<f62::BaseElement, Blake3_256<f62::BaseElement>>("Blake3_256", &mut r, per, &mut rep);
    falsify_h::<f128::BaseElement, Blake3_256<f128::BaseElement>>("Blake3_256", &mut r, per, &mut rep);
    falsify_h::<f64::BaseElement, Sha3_256<f64::BaseElement>>("Sha3_256", &mut r, per, &mut rep);
    falsify_h::<f62::BaseElement, Sha3_256<f62::BaseElement>>("Sha3_256", &mut r, per, &mut rep);
    falsify_h::<f128::BaseElement, Sha3_256<f128::BaseElement>>("Sha3_256", &mut r, per, &mut rep);
    falsify_h::<f62::BaseElement, Rp62_248>("Rp62_248", &mut r, per, &mut rep);
    falsify_h::<f64::BaseElement, Rp64_256>("Rp64_256", &mut r, per, &mut rep);
    falsify_h::<f64::BaseElement, RpJive64_256>("RpJive64_256", &mut r, per, &mut rep);
    shape(&mut rep);
    println!("evaluations={} failures={}", rep.evals, rep.fails);
}

// ================================================================================================ shape ambiguity replay
/// Documented observation (not a failure): the hashers do not separate hash_elements from merge, so the coin
/// new(E) with bytes(E) = to_bytes(hash_elements(E')) || to_bytes(d) is in the same state as new(E').reseed(d).
fn shape_h<B: Fld, H: ElementHasher<BaseField = B>>(name: &str, rep: &mut Report) {
    rep.evals += 1;
    for t in 0u32..64 {
        let e2: Vec<B> = vec![B::from_u128(1 + t as u128), B::from_u128(2), B::from_u128(3)];
        let s = H::hash_elements(&e2);
        let d = H::hash(&[t as u8, 7, 7]);
        let mut bytes = s.to_bytes();
        bytes.extend_from_slice(&d.to_bytes());
        if bytes.len() % B::EB != 0 {
            eprintln!("shape {} {} not-applicable (digest size)", name, B::NAME);
            return;
        }
        let ints: Vec<u128> = bytes.chunks(B::EB).map(|ch| { let mut b = [0u8; 16]; b[..ch.len()].copy_from_slice(ch); u128::from_le_bytes(b) }).collect();
        if ints.iter().any(|&v| v >= B::M) { continue; }
        let e1: Vec<B> = ints.iter().map(|&v| B::from_u128(v)).collect();
        let mut a = DefaultRandomCoin::<H>::new(&e1);
        let mut b = DefaultRandomCoin::<H>::new(&e2);
        b.reseed(d);
        let xa: Vec<u128> = (0..3).map(|_| a.draw::<B>().unwrap().int()).collect();
        let xb: Vec<u128> = (0..3).map(|_| b.draw::<B>().unwrap().int()).collect();
        let ia = a.draw_integers(5, 64, 9).unwrap();
        let ib = b.draw_integers(5, 64, 9).unwrap();
        let same = xa == xb && ia == ib;
        eprintln!("shape {} {} new({} elements) vs new(3 elements).reseed(d): same_outputs={}", name, B::NAME, e1.len(), same);
        if same {
            rep.fail("history shape ambiguity: new(E) and new(E').reseed(d) are the same coin although seed and reseed data differ (no domain separation between hash_elements and merge; no hash collision involved)",
                     format!("{} {} E={} E'={} d={}", name, B::NAME, hexlist128(&ints), hexlist128(&e2.iter().map(|x| x.int()).collect::<Vec<_>>()), wf_harness::hex_bytes(&d.to_bytes())),
                     "different subsequent outputs".into(), format!("identical: draws {:x?} integers {:?}", xa, ia));
        }
        return;
    }
    eprintln!("shape {} {} no admissible encoding found", name, B::NAME);
}
fn shape(rep: &mut Report) {
    shape_h::<f128::BaseElement, Blake3_256<f128::BaseElement>>("Blake3_256", rep);
    shape_h::<f64::BaseElement, Blake3_256<f64::BaseElement>>("Blake3_256", rep);
    shape_h::<f64::BaseElement, Blake3_192<f64::BaseElement>>("Blake3_192", rep);
    shape_h::<f128::BaseElement, Sha3_256<f128::BaseElement>>("Sha3_256", rep);
    shape_h::<f64::BaseElement, Rp64_256>("Rp64_256", rep);
    shape_h::<f64::BaseElement, RpJive64_256>("RpJive64_256", rep);
    shape_h::<f62::BaseElement, Rp62_248>("Rp62_248", rep);
}

fn main() {
    silence_panics();
    let a: Vec<String> = std::env::args().collect();
    let seed: u64 = a.get(2).and_then(|s| s.parse().ok()).unwrap_or(1);
    let n: usize = a.get(3).and_then(|s| s.parse().ok()).unwrap_or(100);
    match a.get(1).map(|s| s.as_str()) {
        Some("corr") => corr(seed, n),
        Some("falsify") => falsify(seed, n),
        Some("shape") => { let mut rep = Report { evals: 0, fails: 0 }; shape(&mut rep); println!("evaluations={} failures={}", rep.evals, rep.fails); }
        _ => { eprintln!("usage: c19 corr|falsify <seed> <n> | c19 shape"); std::process::exit(2); }
    }
}
