//! C15 harness: FRI completeness and the folding identity.
//!   c15 corr <seed> <n>      -> lines "<case> => <impl result>" (protocol: /verif/ocaml/c15_driver.ml)
//!   c15 falsify <seed> <n>   -> JSON lines, one per property failure (oracle: refmath schoolbook arithmetic,
//!                               algebraic identities, decode(encode x) = x), then "evaluations=<n> failures=<k>"
#[path = "../fri_shared.rs"]
mod fri_shared;
use std::panic::AssertUnwindSafe;

use fri_shared::*;
use wf_harness::{catch, jstr, prng::Rng, refmath::*, silence_panics};
use winter_fri::{folding::fold_positions, utils::map_positions_to_indexes, FriOptions, FriProof};
use winter_math::{FieldElement, StarkField};
use winter_utils::{Deserializable, Serializable};

// ------------------------------------------------------------------------------------------------ corr: index functions
fn corr_index(r: &mut Rng, out: &mut Vec<String>) {
    match r.below(4) {
        0 => {
            let nfold = *r.pick(&[2usize, 4, 8, 16, 2, 4, 1, 3, 0]);
            let domain = match r.below(6) { 0 => r.below(20) as usize, 1 => nfold.saturating_sub(1), _ => 1usize << (1 + r.below(10)) };
            let cnt = r.below(12) as usize;
            let mut ps: Vec<usize> = Vec::new();
            let target = if nfold == 0 { 1 } else { (domain / nfold).max(1) };
            for _ in 0..cnt {
                let extra = if r.chance(1, 6) { 40 } else { 0 };
                let p = r.below((domain as u64).max(1) + extra) as usize;
                match r.below(4) {
                    0 if !ps.is_empty() => { let q = *r.pick(&ps); ps.push(q) }
                    1 => { ps.push(p); ps.push(p + target) }
                    _ => ps.push(p),
                }
            }
            let res = catch(|| fold_positions(&ps, domain, nfold));
            out.push(format!("fold {} {:x} {:x} => {}", enc_nats(&ps), domain, nfold, res.map(|v| enc_nats(&v)).unwrap_or("panic".into())));
        }
        1 => {
            let nfold = *r.pick(&[2usize, 4, 8, 16, 0]);
            let parts = *r.pick(&[1usize, 1, 2, 4, 8, 0, 3]);
            let domain = 1usize << (2 + r.below(9));
            let ps: Vec<usize> = (0..r.below(10)).map(|_| r.below(domain as u64) as usize).collect();
            let res = catch(|| map_positions_to_indexes(&ps, domain, nfold, parts));
            out.push(format!("mapidx {} {:x} {:x} {:x} => {}", enc_nats(&ps), domain, nfold, parts, res.map(|v| enc_nats(&v)).unwrap_or("panic".into())));
        }
        2 => {
            let blowup = *r.pick(&[0usize, 1, 2, 3, 4, 6, 8, 16, 32, 64, 128, 100]);
            let nfold = *r.pick(&[0usize, 1, 2, 3, 4, 5, 8, 16, 32]);
            let remmax = r.below(300) as usize;
            let res = catch(|| FriOptions::new(blowup, nfold, remmax));
            out.push(format!("opts {:x} {:x} {:x} => {}", blowup, nfold, remmax, if res.is_ok() { "ok" } else { "panic" }));
        }
        _ => {
            let blowup = 1usize << r.below(8);
            let nfold = *r.pick(&[2usize, 4, 8, 16, 16, 3]);
            let remmax = *r.pick(&[0usize, 1, 2, 3, 7, 15, 31, 63, 127, 255, 5, 100]);
            let domain = match r.below(4) { 0 => r.below(70000) as usize, 1 => ((remmax + 1) * blowup) + r.below(3) as usize - 1, _ => 1usize << r.below(17) };
            let res = catch(|| FriOptions::new(blowup, nfold, remmax).num_fri_layers(domain));
            out.push(format!("nlayers {:x} {:x} {:x} {:x} => {}", blowup, nfold, remmax, domain, res.map(|v| format!("{:x}", v)).unwrap_or("panic".into())));
        }
    }
}

// ------------------------------------------------------------------------------------------------ corr: drp
fn corr_drp<C: Cfg>(r: &mut Rng, out: &mut Vec<String>) {
    let nfold = *r.pick(&[2usize, 4, 8, 16]);
    let shape = r.below(14);
    let len = match shape {
        0 => nfold,                                 // a single row
        1 => nfold + 1,                             // not divisible: transpose_slice asserts
        2 => 1,
        _ => { let m = if r.chance(1, 6) { 7 } else { 4 }; nfold << (1 + r.below(m)) }
    };
    // the extracted model runs on inductive Z: keep the wide fields small, a few big cases
    let cap = if C::DEG == 2 { 64 } else if C::P == P128 { 128 } else { 512 };
    let cap = if r.chance(1, 12) { (cap * 4).min(1 << 10) } else { cap };
    let len = len.min(cap).max(1);
    let offset: C::B = match r.below(5) { 0 => C::B::ONE, 1 => base::<C>(rand_base_val::<C>(r).max(2)), _ => C::B::GENERATOR };
    let alpha = rand_elem::<C>(r);
    let ev: Vec<C::E> = if len.is_power_of_two() && len >= 2 && r.chance(3, 4) {
        let deg = match r.below(3) { 0 => 0, 1 => len - 1, _ => r.below(len as u64) as usize };
        eval_coset::<C>(&rand_poly::<C>(r, deg), len, offset)
    } else {
        (0..len).map(|_| rand_elem::<C>(r)).collect()
    };
    let res = catch(AssertUnwindSafe(|| drp_n::<C>(nfold, &ev, offset, alpha)));
    out.push(format!("drp {} {:x} {} {} {} => {}", C::TAG, nfold, enc_elem(&emb::<C>(offset)), enc_elem(&alpha), enc_elems(&ev),
        res.map(|v| enc_elems(&v)).unwrap_or("panic".into())));
}

// ------------------------------------------------------------------------------------------------ corr: prove / verify / twice
struct Inst<C: Cfg> { p: Params, maxdeg: usize, evals: Vec<C::E>, positions: Vec<usize> }

fn gen_instance<C: Cfg>(r: &mut Rng, i: usize, thorough: bool) -> Inst<C> {
    let p = gen_params_for::<C>(r, i, thorough);
    let bound = p.domain / p.blowup - 1;
    let deg = match r.below(5) { 0 => 0, 1 | 2 => bound, _ => r.below(bound as u64 + 1) as usize };
    let evals = eval_coset::<C>(&rand_poly::<C>(r, deg), p.domain, C::B::GENERATOR);
    let positions = gen_positions(r, p.domain, p.nfold);
    Inst { maxdeg: bound, evals, positions, p }
}

fn corr_prove<C: Cfg>(r: &mut Rng, i: usize, thorough: bool, out: &mut Vec<String>) {
    let mut ins = gen_instance::<C>(r, i, thorough);
    // sometimes a claimed degree that does not fit the schedule / the polynomial
    match r.below(12) {
        0 => ins.maxdeg = ins.maxdeg.saturating_sub(1),
        1 => ins.maxdeg = ins.maxdeg / 2,
        2 => ins.maxdeg = ins.maxdeg + 1,
        _ => {}
    }
    let opts = FriOptions::new(ins.p.blowup, ins.p.nfold, ins.p.remmax);
    let case = format!("prove {} {} {:x} {:x} {:x} {:x} {} {}", C::TAG, dbg_flag(), ins.p.blowup, ins.p.nfold, ins.p.remmax, ins.maxdeg,
        enc_nats(&ins.positions), enc_elems(&ins.evals));
    let res = match real_prove::<C>(&opts, ins.evals.clone(), &ins.positions) {
        Err(_) => "panic".to_string(),
        Ok((cs, proof)) => match decode_proof::<C>(&proof, ins.p.domain, ins.p.nfold) {
            None => "undecodable".to_string(),
            Some(d) => {
                let at: Vec<C::E> = ins.positions.iter().map(|&p| ins.evals[p]).collect();
                let v = run_verifier::<C>(proof, cs.clone(), ins.p.domain, ins.p.blowup, ins.p.nfold, ins.p.remmax, ins.maxdeg, &at, &ins.positions);
                format!("ok C={} L={} N={} R={} V={}", enc_digs(&cs), d.enc_values(), d.enc_nodes(), enc_elems(&d.remainder), v)
            }
        },
    };
    out.push(format!("{} => {}", case, res));
}

fn corr_verify<C: Cfg>(r: &mut Rng, i: usize, thorough: bool, out: &mut Vec<String>) {
    let ins = gen_instance::<C>(r, i, thorough);
    let opts = FriOptions::new(ins.p.blowup, ins.p.nfold, ins.p.remmax);
    let (mut cs, proof) = match real_prove::<C>(&opts, ins.evals.clone(), &ins.positions) { Ok(x) => x, Err(_) => return };
    let mut d = match decode_proof::<C>(&proof, ins.p.domain, ins.p.nfold) { Some(d) => d, None => return };
    let mut at: Vec<C::E> = ins.positions.iter().map(|&p| ins.evals[p]).collect();
    let mut positions = ins.positions.clone();
    let mut maxdeg = ins.maxdeg;
    match r.below(14) {
        0 if !d.layers.is_empty() => { let l = r.below(d.layers.len() as u64) as usize; let k = r.below(d.layers[l].0.len() as u64) as usize; d.layers[l].0[k] += C::E::ONE; }
        1 => { let k = r.below(at.len() as u64) as usize; at[k] += C::E::ONE; }
        2 => { let k = r.below(cs.len() as u64) as usize; cs[k] = wf_harness::toy::ToyDigest::from_u64(cs[k].to_u64() ^ 1); }
        3 => { let k = r.below(d.remainder.len() as u64) as usize; d.remainder[k] += C::E::ONE; }
        4 if !d.layers.is_empty() => { let l = r.below(d.layers.len() as u64) as usize; d.layers.remove(l); }
        5 => { positions = gen_positions(r, ins.p.domain, ins.p.nfold); at = positions.iter().map(|&p| ins.evals[p]).collect(); }
        6 => { maxdeg = maxdeg / 2; }
        7 => { maxdeg = maxdeg + 1 + r.below(3) as usize; }
        _ => {}
    }
    let v = run_verifier_decoded::<C>(&d, &cs, ins.p.domain, ins.p.blowup, ins.p.nfold, ins.p.remmax, maxdeg, &at, &positions);
    out.push(format!("{} => {}", verify_line::<C>("verify", &d, &cs, ins.p.domain, ins.p.blowup, ins.p.nfold, ins.p.remmax, maxdeg, &at, &positions), v));
}

fn proof_str<C: Cfg>(cs: &[wf_harness::toy::ToyDigest], proof: &FriProof, domain: usize, nfold: usize) -> Option<String> {
    let d = decode_proof::<C>(proof, domain, nfold)?;
    Some(format!("C={} L={} N={} R={}", enc_digs(cs), d.enc_values(), d.enc_nodes(), enc_elems(&d.remainder)))
}

fn corr_twice<C: Cfg>(r: &mut Rng, i: usize, out: &mut Vec<String>) {
    use winter_fri::{DefaultProverChannel, FriProver};
    let a = gen_instance::<C>(r, i, false);
    let mut b = gen_instance::<C>(r, i, false);
    // same options for both proofs; second domain may differ
    let dom2 = if r.chance(1, 2) { a.p.domain } else { (a.p.domain * 2).min(1 << 10) };
    let bound2 = dom2 / a.p.blowup - 1;
    b.evals = eval_coset::<C>(&rand_poly::<C>(r, bound2), dom2, C::B::GENERATOR);
    b.positions = gen_positions(r, dom2, a.p.nfold);
    let opts = FriOptions::new(a.p.blowup, a.p.nfold, a.p.remmax);
    let case = format!("twice {} {:x} {:x} {:x} {} {} {} {}", C::TAG, a.p.blowup, a.p.nfold, a.p.remmax, enc_nats(&a.positions), enc_elems(&a.evals),
        enc_nats(&b.positions), enc_elems(&b.evals));
    let res = catch(AssertUnwindSafe(|| {
        let mut prover = FriProver::<C::B, C::E, DefaultProverChannel<C::E, H<C::B>, Coin<C::B>>, H<C::B>>::new(opts.clone());
        let mut ch1 = DefaultProverChannel::<C::E, H<C::B>, Coin<C::B>>::new(a.p.domain, 1);
        prover.build_layers(&mut ch1, a.evals.clone());
        let p1 = prover.build_proof(&a.positions);
        let mut ch2 = DefaultProverChannel::<C::E, H<C::B>, Coin<C::B>>::new(dom2, 1);
        prover.build_layers(&mut ch2, b.evals.clone());
        let p2 = prover.build_proof(&b.positions);
        (ch1.layer_commitments().to_vec(), p1, ch2.layer_commitments().to_vec(), p2)
    }));
    let s = match res {
        Err(_) => "panic".to_string(),
        Ok((c1, p1, c2, p2)) => match (proof_str::<C>(&c1, &p1, a.p.domain, a.p.nfold), proof_str::<C>(&c2, &p2, dom2, a.p.nfold)) {
            (Some(x), Some(y)) => format!("ok {} / {}", x, y),
            _ => "undecodable".to_string(),
        },
    };
    out.push(format!("{} => {}", case, s));
}

fn corr(seed: u64, n: usize) {
    let mut r = Rng::new(seed);
    let thorough = n >= 20000;
    let mut out = Vec::new();
    for i in 0..n {
        let before = out.len();
        match i % 20 {
            0 | 1 | 2 => corr_index(&mut r, &mut out),
            3 => corr_drp::<C64>(&mut r, &mut out),
            4 => corr_drp::<C128>(&mut r, &mut out),
            5 => corr_drp::<C64x2>(&mut r, &mut out),
            6 => corr_drp::<C128x2>(&mut r, &mut out),
            7 => if r.chance(1, 2) { corr_drp::<C64>(&mut r, &mut out) } else { corr_drp::<C128x2>(&mut r, &mut out) },
            8 | 9 => corr_prove::<C64>(&mut r, i / 20, thorough, &mut out),
            10 | 11 => corr_prove::<C128>(&mut r, i / 20, thorough, &mut out),
            12 => corr_prove::<C64x2>(&mut r, i / 20, thorough, &mut out),
            13 => corr_prove::<C128x2>(&mut r, i / 20, thorough, &mut out),
            14 => if r.chance(1, 2) { corr_prove::<C128>(&mut r, i / 20 + 1, thorough, &mut out) } else { corr_prove::<C64>(&mut r, i / 20 + 2, thorough, &mut out) },
            15 => if r.chance(1, 2) { corr_twice::<C64>(&mut r, i / 20, &mut out) } else { corr_twice::<C128>(&mut r, i / 20, &mut out) },
            16 => corr_verify::<C64>(&mut r, i / 20, thorough, &mut out),
            17 => corr_verify::<C128>(&mut r, i / 20, thorough, &mut out),
            18 => corr_verify::<C64x2>(&mut r, i / 20 + 1, thorough, &mut out),
            _ => corr_verify::<C128x2>(&mut r, i / 20 + 3, thorough, &mut out),
        }
        if out.len() == before { corr_index(&mut r, &mut out); }
        for l in out.drain(..) { println!("{}", l); }
    }
}

// ------------------------------------------------------------------------------------------------ falsifier: reference arithmetic
// Elements as coefficient vectors over u128 residues; quadratic extensions: f64: x^2 = x - 2, f128: x^2 = x + 1.
#[derive(Clone, Copy)]
struct RF { p: u128, deg: usize }
type RE = [u128; 2];
impl RF {
    fn add(&self, a: RE, b: RE) -> RE { [addmod(a[0], b[0], self.p), addmod(a[1], b[1], self.p)] }
    fn mul(&self, a: RE, b: RE) -> RE {
        let p = self.p;
        if self.deg == 1 { return [mulmod(a[0], b[0], p), 0]; }
        let a0b0 = mulmod(a[0], b[0], p);
        let a1b1 = mulmod(a[1], b[1], p);
        let cross = addmod(addmod(mulmod(a[0], b[1], p), mulmod(a[1], b[0], p), p), a1b1, p);
        if p == P64 { [submod(a0b0, addmod(a1b1, a1b1, p), p), cross] } else { [addmod(a0b0, a1b1, p), cross] }
    }
    fn pow(&self, a: RE, mut e: u64) -> RE {
        let mut r: RE = [1, 0];
        let mut b = a;
        while e > 0 { if e & 1 == 1 { r = self.mul(r, b); } b = self.mul(b, b); e >>= 1; }
        r
    }
    fn horner(&self, p: &[RE], x: RE) -> RE {
        let mut acc: RE = [0, 0];
        for c in p.iter().rev() { acc = self.add(self.mul(acc, x), *c); }
        acc
    }
}
fn to_re<E: FieldElement>(e: &E) -> RE { let c = coeffs(e); [c[0], if c.len() > 1 { c[1] } else { 0 }] }

struct Fals { evals: u64, fails: u64 }
impl Fals {
    fn fail(&mut self, what: &str, input: &str, expected: &str, actual: &str) {
        self.fails += 1;
        println!("{{\"what\":{},\"input\":{},\"expected\":{},\"actual\":{}}}", jstr(what), jstr(input), jstr(expected), jstr(actual));
    }
}

/// (a) folding identity: apply_drp(evals of f)[i] = sum_j alpha^j f_j((offset g^i)^N), computed with refmath
fn fals_drp<C: Cfg>(r: &mut Rng, f: &mut Fals) {
    let rf = RF { p: C::P, deg: C::DEG };
    let nfold = *r.pick(&[2usize, 4, 8, 16]);
    let rows = 1usize << (1 + r.below(5));
    let len = rows * nfold;
    let deg = match r.below(4) { 0 => 0, 1 => len - 1, _ => r.below(len as u64) as usize };
    let poly = rand_poly::<C>(r, deg);
    let offset: C::B = if r.chance(1, 4) { base::<C>(rand_base_val::<C>(r).max(2)) } else { C::B::GENERATOR };
    let alpha = rand_elem::<C>(r);
    let ev = eval_coset::<C>(&poly, len, offset);
    let input = format!("drp {} {:x} {} {} {}", C::TAG, nfold, enc_elem(&emb::<C>(offset)), enc_elem(&alpha), enc_elems(&ev));
    let got = match catch(AssertUnwindSafe(|| drp_n::<C>(nfold, &ev, offset, alpha))) {
        Ok(v) => v,
        Err(m) => { f.evals += 1; f.fail("panic in apply_drp on valid input", &input, "folded evaluations", &m); return; }
    };
    // reference: independent root of unity from the field generator: g = GEN^((p-1)/len)
    let gen_val = coeffs(&C::B::GENERATOR)[0];
    let g = powmod(gen_val, (C::P - 1) / len as u128, C::P);
    // the library's root may be a different primitive root; the identity must hold for the library's domain,
    // so take g from the library value but check that it has order `len` with refmath
    let g_lib = coeffs(&C::B::get_root_of_unity(len.ilog2()))[0];
    if powmod(g_lib, len as u128, C::P) != 1 || powmod(g_lib, (len / 2) as u128, C::P) == 1 || powmod(g, len as u128, C::P) != 1 {
        f.fail("root of unity does not have the expected order", &input, "order = len", &format!("{:x}", g_lib));
    }
    let off = coeffs(&offset)[0];
    let slices: Vec<Vec<RE>> = (0..nfold).map(|j| poly.iter().skip(j).step_by(nfold).map(to_re).collect()).collect();
    let a = to_re(&alpha);
    let step = if rows > 16 { rows / 8 } else { 1 };
    let mut i = 0;
    while i < rows {
        let x = mulmod(off, powmod(g_lib, i as u128, C::P), C::P);
        let y: RE = [powmod(x, nfold as u128, C::P), 0];
        let mut acc: RE = [0, 0];
        for j in 0..nfold {
            acc = rf.add(acc, rf.mul(rf.pow(a, j as u64), rf.horner(&slices[j], y)));
        }
        f.evals += 1;
        if to_re(&got[i]) != acc {
            f.fail("drp_identity: folded value differs from sum_j alpha^j f_j(x^N)", &format!("{} row={}", input, i), &format!("{:x},{:x}", acc[0], acc[1]), &enc_elem(&got[i]));
            break;
        }
        i += step;
    }
    // (e) degree propagation: the folded evaluations interpolate to degree <= deg / N over the folded coset offset^N <g^N>
    if rows >= 2 {
        let mut v = got.clone();
        let tw = winter_math::fft::get_inv_twiddles::<C::B>(rows);
        winter_math::fft::interpolate_poly_with_offset(&mut v, &tw, offset.exp_vartime((nfold as u64).into()));
        let d = winter_math::polynom::degree_of(&v);
        f.evals += 1;
        if d > deg / nfold {
            f.fail("degree_propagates: folded degree exceeds floor(d/N)", &input, &format!("<= {}", deg / nfold), &format!("{}", d));
        }
    }
}

/// (b) honest proofs verify, also after a serialization round trip; (c) prover reuse
fn fals_complete<C: Cfg>(r: &mut Rng, i: usize, thorough: bool, f: &mut Fals) {
    let ins = gen_instance::<C>(r, i, thorough);
    // completeness is claimed for well-formed schedules (Props/C15.v C15_num_fri_layers_spec); on the others the
    // prover panics (a layer with one row / an empty remainder), which the correspondence run records
    if !well_formed(&ins.p) { return; }
    let opts = FriOptions::new(ins.p.blowup, ins.p.nfold, ins.p.remmax);
    let at: Vec<C::E> = ins.positions.iter().map(|&p| ins.evals[p]).collect();
    let input = format!("prove {} {} {:x} {:x} {:x} {:x} {} {}", C::TAG, dbg_flag(), ins.p.blowup, ins.p.nfold, ins.p.remmax, ins.maxdeg,
        enc_nats(&ins.positions), enc_elems(&ins.evals));
    f.evals += 1;
    let (cs, proof) = match real_prove::<C>(&opts, ins.evals.clone(), &ins.positions) {
        Ok(x) => x,
        Err(m) => { f.fail("panic in the prover on a valid instance", &input, "a proof", &m); return; }
    };
    let v = run_verifier::<C>(proof.clone(), cs.clone(), ins.p.domain, ins.p.blowup, ins.p.nfold, ins.p.remmax, ins.maxdeg, &at, &ins.positions);
    if v != "ok" { f.fail("fri_complete: honest proof rejected", &input, "ok", &v); }
    // accessors of the proof object
    f.evals += 1;
    if proof.num_layers() != opts.num_fri_layers(ins.p.domain) || proof.size() < proof.to_bytes().len().saturating_sub(8 * proof.num_layers() + 8)
        || FriProof::new_dummy().num_layers() != 0 || FriProof::new_dummy().size() != 3 {
        f.fail("FriProof accessors (num_layers / size / new_dummy) inconsistent with the schedule", &input, "num_layers = num_fri_layers(domain)", &format!("{} {}", proof.num_layers(), proof.size()));
    }
    // serialization round trip
    f.evals += 1;
    let bytes = proof.to_bytes();
    match FriProof::read_from_bytes(&bytes) {
        Err(e) => f.fail("honest proof does not deserialize", &input, "Ok", &format!("{:?}", e)),
        Ok(p2) => {
            if p2 != proof { f.fail("decode(encode(proof)) != proof", &input, "equal", "different"); }
            let v2 = run_verifier::<C>(p2, cs.clone(), ins.p.domain, ins.p.blowup, ins.p.nfold, ins.p.remmax, ins.maxdeg, &at, &ins.positions);
            if v2 != "ok" { f.fail("fri_complete: honest proof rejected after serialization", &input, "ok", &v2); }
        }
    }
    // the hand-written encoder reproduces the library's bytes (ties the decoded level used by the model to the bytes)
    f.evals += 1;
    if let Some(d) = decode_proof::<C>(&proof, ins.p.domain, ins.p.nfold) {
        if d.to_bytes() != bytes { f.fail("encode(decode(proof)) != proof bytes", &input, "equal", "different"); }
    } else { f.fail("honest proof does not parse", &input, "decoded layers", "error"); }
    // the manual prover (public pieces) reproduces commitments and proof
    f.evals += 1;
    let t = commit_phase::<C>(&ins.evals, &opts, &CommitCheat::None);
    if t.commitments != cs { f.fail("commitments differ from Merkle roots of transposed layers / hash of remainder", &input, &enc_digs(&t.commitments), &enc_digs(&cs)); }
    else if query_phase::<C>(&t, &ins.positions).to_bytes() != bytes { f.fail("proof differs from openings of the committed layers at the folded positions", &input, "equal", "different"); }
    // prover reuse
    if r.chance(1, 3) {
        use winter_fri::{DefaultProverChannel, FriProver};
        f.evals += 1;
        let res = catch(AssertUnwindSafe(|| {
            let mut prover = FriProver::<C::B, C::E, DefaultProverChannel<C::E, H<C::B>, Coin<C::B>>, H<C::B>>::new(opts.clone());
            let mut ch = DefaultProverChannel::<C::E, H<C::B>, Coin<C::B>>::new(ins.p.domain, 1);
            prover.build_layers(&mut ch, ins.evals.iter().map(|e| *e + C::E::ONE).collect());
            let _ = prover.build_proof(&ins.positions);
            let n_after = prover.num_layers();
            let mut ch2 = DefaultProverChannel::<C::E, H<C::B>, Coin<C::B>>::new(ins.p.domain, 1);
            prover.build_layers(&mut ch2, ins.evals.clone());
            (n_after, prover.build_proof(&ins.positions), ch2.layer_commitments().to_vec())
        }));
        match res {
            Err(m) => f.fail("prover_reusable: panic on second use", &input, "a proof", &m),
            Ok((n_after, p2, c2)) => {
                if n_after != 0 { f.fail("prover_reusable: layers not cleared by build_proof", &input, "0", &format!("{}", n_after)); }
                if p2 != proof || c2 != cs { f.fail("prover_reusable: second proof differs from a fresh prover's proof", &input, "equal", "different"); }
            }
        }
    }
}

/// (d) fold_positions / num_fri_layers against own loops
fn fals_index(r: &mut Rng, f: &mut Fals) {
    let nfold = *r.pick(&[2usize, 4, 8, 16]);
    let domain = nfold << r.below(10);
    let ps: Vec<usize> = gen_positions(r, domain, nfold);
    f.evals += 1;
    let got = fold_positions(&ps, domain, nfold);
    let t = domain / nfold;
    let mut exp: Vec<usize> = Vec::new();
    for p in &ps { let q = p % t; if !exp.iter().any(|x| *x == q) { exp.push(q); } }
    if got != exp || got.iter().any(|x| *x >= t) {
        f.fail("fold_positions_spec", &format!("fold {} {:x} {:x}", enc_nats(&ps), domain, nfold), &enc_nats(&exp), &enc_nats(&got));
    }
    let blowup = 1usize << (1 + r.below(7));
    let remmax = r.below(256) as usize;
    let dom = 1usize << r.below(20);
    f.evals += 1;
    let k = FriOptions::new(blowup, nfold, remmax).num_fri_layers(dom);
    let (mut d, mut e) = (dom, 0usize);
    while d > (remmax + 1) * blowup { d /= nfold; e += 1; }
    if k != e || d > (remmax + 1) * blowup {
        f.fail("num_fri_layers_spec", &format!("nlayers {:x} {:x} {:x} {:x}", blowup, nfold, remmax, dom), &format!("{:x}", e), &format!("{:x}", k));
    }
}

fn self_test(f: &mut Fals) {
    // schoolbook extension multiplication agrees with the library on fixed operands
    fn one<C: Cfg>(f: &mut Fals) {
        let rf = RF { p: C::P, deg: C::DEG };
        let a = elem::<C::E>(&[12345678901234567 % C::P, 987654321987 % C::P]);
        let b = elem::<C::E>(&[(C::P - 5), 31337]);
        if to_re(&(a * b)) != rf.mul(to_re(&a), to_re(&b)) {
            f.fail("oracle self-test: schoolbook extension product differs from the library", C::TAG, "equal", "different");
            println!("evaluations={} failures={}", f.evals, f.fails);
            std::process::exit(0);
        }
    }
    one::<C64>(f); one::<C128>(f); one::<C64x2>(f); one::<C128x2>(f);
}

fn falsify(seed: u64, n: usize) {
    let mut r = Rng::new(seed ^ 0xC15);
    let thorough = n >= 5000;
    let mut f = Fals { evals: 0, fails: 0 };
    self_test(&mut f);
    for i in 0..n {
        match i % 10 {
            0 => fals_index(&mut r, &mut f),
            1 => fals_drp::<C64>(&mut r, &mut f),
            2 => fals_drp::<C128>(&mut r, &mut f),
            3 => fals_drp::<C64x2>(&mut r, &mut f),
            4 => fals_drp::<C128x2>(&mut r, &mut f),
            5 | 6 => fals_complete::<C64>(&mut r, i / 10, thorough, &mut f),
            7 => fals_complete::<C128>(&mut r, i / 10, thorough, &mut f),
            8 => fals_complete::<C64x2>(&mut r, i / 10, thorough, &mut f),
            _ => fals_complete::<C128x2>(&mut r, i / 10, thorough, &mut f),
        }
    }
    println!("evaluations={} failures={}", f.evals, f.fails);
}

fn main() {
    if std::env::var("HARNESS_VERBOSE").is_err() { silence_panics(); }
    let a: Vec<String> = std::env::args().collect();
    let seed: u64 = a.get(2).and_then(|s| s.parse().ok()).unwrap_or(1);
    let n: usize = a.get(3).and_then(|s| s.parse().ok()).unwrap_or(100);
    match a.get(1).map(|s| s.as_str()) {
        Some("corr") => corr(seed, n),
        Some("falsify") => falsify(seed, n),
        _ => { eprintln!("usage: c15 corr|falsify <seed> <n>"); std::process::exit(2); }
    }
}
