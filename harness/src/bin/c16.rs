//! C16 harness: constraints are enforced on exactly the intended steps.
//!   c16 corr <seed> <nmax> <group>   -> lines "<case> => <impl result>"; groups:
//!        ctor len ovl ft fa bc prep ex lag glue
//!   c16 corr <seed> <nmax> lag <L> <LF>  Lagrange kernel constraints: trace lengths 2^1..2^L on three fields (+ 2^14, 2^16 on f64),
//!                                        zero pattern of every divisor over the whole trace domain; for n <= 2^LF the model
//!                                        side evaluates its divisor at every domain point, above it uses the proved row sets
//!   c16 falsify <seed> <nmax> [<L>]  -> JSON lines (one per property failure found against the brute-force oracle),
//!                                        then "evaluations=<n> failures=<k>"
//! Trace lengths: all powers of two 8..=nmax (nmax = 64 quick, 256 thorough), fully enumerated.
use std::collections::BTreeSet;
use std::panic::AssertUnwindSafe;

use wf_harness::{catch, jstr, lagfam::LagAir, prng::Rng, refmath::*, silence_panics};
use winter_air::{
    Air, AirContext, Assertion, BoundaryConstraints, ConstraintDivisor, FieldExtension, LagrangeConstraintsCompositionCoefficients,
    LagrangeKernelConstraints, LagrangeKernelEvaluationFrame, LagrangeKernelRandElements, LagrangeKernelTransitionConstraints,
    ProofOptions, TraceInfo, TransitionConstraintDegree,
};
use winter_crypto::{hashers::Blake3_256, DefaultRandomCoin, RandomCoin};
use winter_math::{fft, fields::f128, fields::f62, fields::f64, ExtensibleField, FieldElement, StarkField};

// ---------------------------------------------------------------- fields
trait Fld: StarkField + FieldElement<BaseField = Self> {
    const P: u128;
    const NAME: &'static str;
    fn from_u128(v: u128) -> Self;
    fn to_u128(&self) -> u128;
}
impl Fld for f64::BaseElement {
    const P: u128 = 0xFFFF_FFFF_0000_0001;
    const NAME: &'static str = "f64";
    fn from_u128(v: u128) -> Self { Self::new((v % Self::P) as u64) }
    fn to_u128(&self) -> u128 { self.as_int() as u128 }
}
impl Fld for f62::BaseElement {
    const P: u128 = 4611624995532046337;
    const NAME: &'static str = "f62";
    fn from_u128(v: u128) -> Self { Self::new((v % Self::P) as u64) }
    fn to_u128(&self) -> u128 { self.as_int() as u128 }
}
impl Fld for f128::BaseElement {
    const P: u128 = 340282366920938463463374557953744961537;
    const NAME: &'static str = "f128";
    fn from_u128(v: u128) -> Self { Self::new(v % Self::P) }
    fn to_u128(&self) -> u128 { self.as_int() }
}

fn hx<B: Fld>(e: B) -> String { format!("{:x}", e.to_u128()) }
fn rand_elem<B: Fld>(r: &mut Rng) -> B { B::from_u128(r.next_u128() % B::P) }
fn lengths(nmax: usize) -> Vec<usize> { let mut v = vec![]; let mut n = 8; while n <= nmax { v.push(n); n *= 2; } v }

// ---------------------------------------------------------------- assertion descriptions (constructor arguments)
#[derive(Clone, Copy, Debug, PartialEq, Eq)]
struct Spec { kind: char, col: usize, first: usize, stride: usize, nvals: usize }
impl Spec {
    fn show(&self) -> String { format!("{} {:x} {:x} {:x} {:x}", self.kind, self.col, self.first, self.stride, self.nvals) }
    fn build<E: FieldElement>(&self, val: &dyn Fn(usize) -> E) -> Assertion<E> {
        match self.kind {
            's' => Assertion::single(self.col, self.first, val(0)),
            'p' => Assertion::periodic(self.col, self.first, self.stride, val(0)),
            _ => Assertion::sequence(self.col, self.first, self.stride, (0..self.nvals).map(val).collect()),
        }
    }
    /// brute-force set of steps from the DEFINITION of the three kinds (independent of the library)
    fn step_set(&self, n: usize) -> Vec<usize> {
        match self.kind {
            's' => vec![self.first],
            'p' => { let mut v = vec![]; let mut s = self.first; while s < n { v.push(s); s += self.stride; } v }
            _ => if self.nvals == 1 { vec![self.first] } else { (0..self.nvals).map(|i| self.first + i * self.stride).collect() },
        }
    }
    /// validity for a trace of length n (power of two), from the documentation of the three kinds
    fn fits(&self, n: usize) -> bool {
        match self.kind {
            's' => self.first < n,
            'p' => self.stride <= n,
            _ => if self.nvals == 1 { self.first < n } else { self.nvals.checked_mul(self.stride) == Some(n) },
        }
    }
    /// well-formedness per the constructor documentation
    fn well_formed(&self) -> bool {
        let p2 = |x: usize| x.count_ones() == 1;
        match self.kind {
            's' => true,
            'p' => p2(self.stride) && self.stride >= 2 && self.first < self.stride,
            _ => p2(self.stride) && self.stride >= 2 && self.first < self.stride && p2(self.nvals),
        }
    }
}
fn show_assertion<E: FieldElement>(a: &Assertion<E>) -> String {
    format!("ok {:x} {:x} {:x} {:x}", a.column(), a.first_step(), a.stride(), a.values().len())
}

/// every assertion (by constructor arguments) that is valid for trace length n, for the given columns
fn enum_valid(n: usize, cols: &[usize]) -> Vec<Spec> {
    let mut v = vec![];
    for &col in cols {
        for first in 0..n { v.push(Spec { kind: 's', col, first, stride: 0, nvals: 1 }); }
        let mut stride = 2;
        while stride <= n {
            for first in 0..stride { v.push(Spec { kind: 'p', col, first, stride, nvals: 1 }); }
            stride *= 2;
        }
        let mut nvals = 2;
        while nvals * 2 <= n {
            let stride = n / nvals;
            for first in 0..stride { v.push(Spec { kind: 'q', col, first, stride, nvals }); }
            nvals *= 2;
        }
    }
    v
}

// ---------------------------------------------------------------- divisor printing
fn show_divisor<B: Fld>(d: &ConstraintDivisor<B>) -> String {
    let num: Vec<String> = d.numerator().iter().map(|(k, c)| format!("{:x}:{}", k, hx(*c))).collect();
    let ex: Vec<String> = d.exemptions().iter().map(|e| hx(*e)).collect();
    format!("num={} ex={}", if num.is_empty() { "-".into() } else { num.join(",") }, if ex.is_empty() { "-".into() } else { ex.join(",") })
}
fn bits(it: impl Iterator<Item = bool>) -> String { it.map(|b| if b { '1' } else { '0' }).collect() }

fn root<B: Fld>(n: usize) -> B { B::get_root_of_unity(n.ilog2()) }

// ---------------------------------------------------------------- correspondence groups
fn corr_ctor(nmax: usize, out: &mut Vec<String>) {
    let one = f64::BaseElement::ONE;
    let big = [1usize << 63, (1usize << 63) + 1, usize::MAX, (1usize << 32) + 1, 1usize << 32];
    let lim = nmax + 2;
    let mut push = |s: Spec| {
        let r = catch(AssertUnwindSafe(|| show_assertion(&s.build(&|_| one))));
        out.push(format!("ctor {} => {}", s.show(), r.unwrap_or_else(|_| "panic".into())));
    };
    for col in [0usize, 2] {
        for first in (0..=lim).chain(big) { push(Spec { kind: 's', col, first, stride: 0, nvals: 1 }); }
    }
    for first in (0..=lim).chain(big) {
        for stride in (0..=lim).chain([2 * nmax, 4 * nmax]).chain(big) { push(Spec { kind: 'p', col: 1, first, stride, nvals: 1 }); }
    }
    // sequence: every first/stride up to a smaller limit, every number of values 0..=nmax/2+1 (and nmax)
    let slim = 18.min(lim);
    for first in (0..=slim).chain([nmax / 2 - 1, nmax / 2, nmax - 1, nmax, usize::MAX]) {
        for stride in (0..=slim).chain([nmax / 2, nmax, 2 * nmax, 1usize << 63, usize::MAX]) {
            for nvals in (0..=(nmax / 2 + 1)).chain([nmax]) { push(Spec { kind: 'q', col: 0, first, stride, nvals }); }
        }
    }
}

/// every constructible assertion with parameters up to the limits (also ones that fit no trace length <= nmax)
fn enum_constructible(nmax: usize) -> Vec<Spec> {
    let mut v = vec![];
    for first in (0..=nmax + 1).chain([2 * nmax, usize::MAX]) { v.push(Spec { kind: 's', col: 0, first, stride: 0, nvals: 1 }); }
    let mut stride = 2;
    while stride <= 2 * nmax {
        for first in 0..stride {
            v.push(Spec { kind: 'p', col: 0, first, stride, nvals: 1 });
            let mut nvals = 1;
            while nvals <= nmax { v.push(Spec { kind: 'q', col: 0, first, stride, nvals }); nvals *= 2; }
        }
        stride *= 2;
    }
    v.push(Spec { kind: 'p', col: 0, first: 5, stride: 1 << 63, nvals: 1 });
    v.push(Spec { kind: 'q', col: 0, first: 5, stride: 1 << 63, nvals: 2 });
    v.push(Spec { kind: 'q', col: 0, first: 0, stride: 1 << 62, nvals: 4 });
    v.push(Spec { kind: 'q', col: 0, first: 0, stride: 1 << 61, nvals: 4 });
    v
}

fn corr_len(nmax: usize, out: &mut Vec<String>) {
    let one = f64::BaseElement::ONE;
    let mut ns: BTreeSet<usize> = BTreeSet::new();
    if nmax <= 64 { for n in 0..=nmax + 1 { ns.insert(n); } }
    let mut p = 1usize;
    while p <= 4 * nmax { for d in [p - 1, p, p + 1] { ns.insert(d); } p *= 2; }
    for n in [0usize, 3, 6, 12, 24, 48, 96, 1 << 63, usize::MAX] { ns.insert(n); }
    for s in enum_constructible(nmax) {
        let a = s.build(&|i| f64::BaseElement::new(i as u64) + one);
        for &n in &ns {
            let v = match catch(AssertUnwindSafe(|| a.validate_trace_length(n))) {
                Ok(Ok(())) => "ok".to_string(),
                Ok(Err(e)) => {
                    let m = format!("{}", e);
                    if m.contains("power of two") { "not_pow2".into() } else if m.contains("at least") { "too_short".into() }
                    else if m.contains("exactly") { "not_exact".into() } else { "err".into() }
                }
                Err(_) => "panic".into(),
            };
            let g = catch(AssertUnwindSafe(|| a.get_num_steps(n))).map(|x| format!("{:x}", x)).unwrap_or_else(|_| "panic".into());
            let want_steps = n <= 8 * nmax;
            let st = if !want_steps { "-".to_string() } else { catch(AssertUnwindSafe(|| {
                let mut v = vec![];
                a.apply(n, |step, val| v.push(format!("{:x}:{:x}", step, (val - one).as_int())));
                v.join(",")
            })).unwrap_or_else(|_| "panic".into()) };
            out.push(format!("len {} {:x} {} => {} {} {}", s.show(), n, want_steps as u8, v, g, st));
        }
    }
}

fn corr_ovl(r: &mut Rng, nmax: usize, out: &mut Vec<String>) {
    let one = f64::BaseElement::ONE;
    let mut pair = |a: &Spec, b: &Spec| {
        let (x, y) = (a.build(&|_| one), b.build(&|_| one));
        let res = catch(AssertUnwindSafe(|| x.overlaps_with(&y))).map(|v| if v { "1" } else { "0" }.to_string()).unwrap_or_else(|_| "panic".into());
        out.push(format!("ovl {} {} => {}", a.show(), b.show(), res));
    };
    for n in lengths(nmax) {
        // all ordered pairs of assertions valid for n in one column
        let v = enum_valid(n, &[0]);
        for a in &v { for b in &v { pair(a, b); } }
        // different columns: all pairs for n <= 16
        if n <= 16 {
            let w = enum_valid(n, &[1]);
            for a in &v { for b in &w { pair(a, b); pair(b, a); } }
        }
    }
    // pairs of constructible assertions that need not fit a common trace length
    let c = enum_constructible(nmax);
    for _ in 0..20000 { let a = *r.pick(&c); let mut b = *r.pick(&c); if r.chance(1, 8) { b.col = 1; } pair(&a, &b); }
}

fn corr_ft<B: Fld>(r: &mut Rng, nmax: usize, out: &mut Vec<String>) {
    for n in lengths(nmax) {
        let g: B = root(n);
        let kmax = if cfg!(debug_assertions) { n + 1 } else { n };
        // structure (numerator, exemption points, degree) for every count 0..=n+1; for longer traces the counts the
        // context accepts plus the boundary ones.  Evaluations at the two boundary steps, step 0 and a random point
        // for the counts 0, 1, 2, n/2 + 1 (the model's field arithmetic on inductive integers is slow).
        let ks: Vec<usize> = if n <= 64 { (0..=kmax).collect() } else { (0..=n / 2 + 2).chain([n - 1, n]).chain(if kmax > n { vec![n + 1] } else { vec![] }).collect() };
        for k in ks {
            let mut xs: Vec<B> = vec![];
            if k <= 2 || k == n / 2 + 1 || k == n {
                if k < n { xs.push(g.exp(((n - k - 1) as u32).into())); }
                if k > 0 { xs.push(g.exp(((n - k) as u32).into())); }
                xs.push(B::ONE);
                xs.push(rand_elem(r));
            }
            let res = catch(AssertUnwindSafe(|| {
                let d = ConstraintDivisor::<B>::from_transition(n, k);
                let deg = catch(AssertUnwindSafe(|| d.degree())).map(|x| format!("{:x}", x)).unwrap_or_else(|_| "panic".into());
                format!("{} deg={} ev={}", show_divisor(&d), deg,
                    if xs.is_empty() { "-".to_string() } else { xs.iter().map(|&x| format!("{}/{}", hx(d.evaluate_at(x)), hx(d.evaluate_exemptions_at(x)))).collect::<Vec<_>>().join(",") })
            })).unwrap_or_else(|_| "panic".into());
            out.push(format!("ft {} {:x} {:x} {} {} => {}", B::NAME, n, k, hx(g), xs.iter().map(|&x| hx(x)).collect::<Vec<_>>().join(" "), res));
        }
    }
}

fn corr_fa<B: Fld>(r: &mut Rng, nmax: usize, out: &mut Vec<String>) {
    for n in lengths(nmax) {
        let g: B = root(n);
        let mut specs = enum_valid(n, &[0]);
        // assertions that do not fit n: from_assertion must panic
        specs.push(Spec { kind: 's', col: 0, first: n, stride: 0, nvals: 1 });
        specs.push(Spec { kind: 'p', col: 0, first: 1, stride: 2 * n, nvals: 1 });
        specs.push(Spec { kind: 'q', col: 0, first: 1, stride: 4, nvals: n / 2 });
        specs.push(Spec { kind: 'q', col: 0, first: 1, stride: 2, nvals: n / 4 });
        specs.push(Spec { kind: 'q', col: 0, first: 3, stride: 4, nvals: 1 });
        for s in specs {
            // structure and evaluations (a named step, its successor, a random point) for every assertion
            let mut xs: Vec<B> = vec![];
            {
                xs.push(g.exp(((s.first % n) as u32).into()));
                xs.push(g.exp((((s.first + 1) % n) as u32).into()));
                xs.push(rand_elem(r));
            }
            let res = catch(AssertUnwindSafe(|| {
                let a = s.build(&|_| B::ONE);
                let d = ConstraintDivisor::<B>::from_assertion(&a, n);
                format!("{} deg={:x} ev={}", show_divisor(&d), d.degree(),
                    if xs.is_empty() { "-".to_string() } else { xs.iter().map(|&x| hx(d.evaluate_at(x))).collect::<Vec<_>>().join(",") })
            })).unwrap_or_else(|_| "panic".into());
            out.push(format!("fa {} {:x} {} {} {} => {}", B::NAME, n, s.show(), hx(g), xs.iter().map(|&x| hx(x)).collect::<Vec<_>>().join(" "), res));
        }
    }
}

fn context<B: Fld>(n: usize, width: usize, num_assertions: usize) -> AirContext<B> {
    let opts = ProofOptions::new(1, 2, 0, FieldExtension::None, 2, 1);
    AirContext::new(TraceInfo::new(width, n), vec![TransitionConstraintDegree::new(1)], num_assertions, opts)
}

fn panic_kind(m: &str) -> String {
    if m.contains("overlaps with") { "overlap".into() }
    else if m.contains("expected trace width") { "width".into() }
    else if m.contains("expected trace length") { "length".into() }
    else { "panic".into() }
}

/// BoundaryConstraint built through the public BoundaryConstraints::new from one assertion
fn corr_bc<B: Fld>(r: &mut Rng, nmax: usize, out: &mut Vec<String>) {
    for n in lengths(nmax) {
        let g: B = root(n);
        for s in enum_valid(n, &[0]) {
            // sequences: all; singles / periodics: a sample
            if s.kind != 'q' && !(s.first < 3 || r.chance(1, 8)) { continue; }
            let vals: Vec<B> = (0..s.nvals).map(|_| rand_elem(r)).collect();
            let (x, tv): (B, B) = (rand_elem(r), rand_elem(r));
            let set = s.step_set(n);
            let res = catch(AssertUnwindSafe(|| {
                let ctx = context::<B>(n, 1, 1);
                let a = s.build(&|i| vals[i]);
                let bcs = BoundaryConstraints::<B>::new(&ctx, vec![a], vec![], &[B::ONE]);
                let grp = &bcs.main_constraints()[0];
                let c = &grp.constraints()[0];
                format!("poly={} off={:x}:{} at={} steps={}",
                    c.poly().iter().map(|&v| hx(v)).collect::<Vec<_>>().join(","), c.poly_offset().0, hx(c.poly_offset().1),
                    hx(c.evaluate_at(x, tv)),
                    set.iter().map(|&st| hx(c.evaluate_at(g.exp((st as u32).into()), B::ZERO))).collect::<Vec<_>>().join(","))
            })).unwrap_or_else(|m| panic_kind(&m));
            out.push(format!("bc {} {:x} {} {} {} {} {} => {}", B::NAME, n, s.show(), hx(g), hx(x), hx(tv),
                vals.iter().map(|&v| hx(v)).collect::<Vec<_>>().join(","), res));
        }
    }
}

fn prep_case<B: Fld>(n: usize, width: usize, list: &[Spec]) -> String {
    let g: B = root(n);
    let res = catch(AssertUnwindSafe(|| {
        let ctx = context::<B>(n, width, list.len());
        let asserts: Vec<Assertion<B>> = list.iter().enumerate().map(|(k, s)| s.build(&|i| B::from_u128((1000 * (k + 1) + i) as u128))).collect();
        let cc: Vec<B> = (0..list.len()).map(|i| B::from_u128(i as u128 + 1)).collect();
        let bcs = BoundaryConstraints::<B>::new(&ctx, asserts, vec![], &cc);
        bcs.main_constraints().iter().map(|grp| {
            format!("[{} cols={}]", show_divisor(grp.divisor()),
                grp.constraints().iter().map(|c| format!("{:x}/{:x}/{:x}", c.column(), c.poly_offset().0, c.poly().len())).collect::<Vec<_>>().join(","))
        }).collect::<Vec<_>>().join("")
    })).unwrap_or_else(|m| panic_kind(&m));
    format!("prep {} {:x} {:x} {} {} => {}", B::NAME, n, width, hx(g), list.iter().map(|s| s.show().replace(' ', ",")).collect::<Vec<_>>().join(";"), res)
}

fn corr_prep<B: Fld>(r: &mut Rng, nmax: usize, out: &mut Vec<String>) {
    // n = 8: every ordered pair of valid assertions over two columns
    let v8 = enum_valid(8, &[0, 1]);
    for a in &v8 { for b in &v8 { out.push(prep_case::<B>(8, 2, &[*a, *b])); } }
    corr_prep_rand::<B>(r, nmax, out);
}

fn corr_prep_rand<B: Fld>(r: &mut Rng, nmax: usize, out: &mut Vec<String>) {
    for n in lengths(nmax) {
        let v = enum_valid(n, &[0, 1, 2]);
        let cnt = if n == 8 { 300 } else { 250 };
        for _ in 0..cnt {
            let len = 1 + r.below(6) as usize;
            let mut list: Vec<Spec> = (0..len).map(|_| *r.pick(&v)).collect();
            let width = if r.chance(1, 6) { 2 } else { 3 };
            if r.chance(1, 10) {
                // an assertion that does not fit this trace length
                let k = r.below(len as u64) as usize;
                list[k] = *r.pick(&[Spec { kind: 's', col: 0, first: n, stride: 0, nvals: 1 }, Spec { kind: 'p', col: 1, first: 0, stride: 2 * n, nvals: 1 },
                    Spec { kind: 'q', col: 0, first: 1, stride: 2, nvals: n }, Spec { kind: 'q', col: 1, first: 0, stride: 4, nvals: n / 2 }]);
            }
            out.push(prep_case::<B>(n, width, &list));
        }
    }
}

fn corr_ex(nmax: usize, out: &mut Vec<String>) {
    type B = f64::BaseElement;
    for n in lengths(nmax) {
        let degsets: Vec<Vec<(usize, Vec<usize>)>> = vec![
            vec![(1, vec![])], vec![(2, vec![])], vec![(3, vec![])], vec![(5, vec![])], vec![(8, vec![])],
            vec![(1, vec![2])], vec![(2, vec![n])], vec![(7, vec![n, n / 2])], vec![(1, vec![]), (4, vec![4, 2])],
            vec![(3, vec![n / 4]), (2, vec![])],
        ];
        for ds in degsets {
            for (b, c) in &ds {
                let d = TransitionConstraintDegree::with_cycles(*b, c.clone());
                out.push(format!("evd {:x} {:x} {} => {:x}", n, b, if c.is_empty() { "-".into() } else { c.iter().map(|x| format!("{:x}", x)).collect::<Vec<_>>().join(",") }, d.get_evaluation_degree(n)));
            }
            for k in 0..=n + 2 {
                let res = catch(AssertUnwindSafe(|| {
                    let opts = ProofOptions::new(1, 128, 0, FieldExtension::None, 2, 1);
                    let degs: Vec<TransitionConstraintDegree> = ds.iter().map(|(b, c)| TransitionConstraintDegree::with_cycles(*b, c.clone())).collect();
                    let ctx = AirContext::<B>::new(TraceInfo::new(1, n), degs, 1, opts);
                    let ce = ctx.ce_domain_size();
                    let evs: Vec<usize> = ds.iter().map(|(b, c)| TransitionConstraintDegree::with_cycles(*b, c.clone()).get_evaluation_degree(n)).collect();
                    (ce, evs, catch(AssertUnwindSafe(|| ctx.set_num_transition_exemptions(k).num_transition_exemptions())))
                }));
                if let Ok((ce, evs, r)) = res {
                    out.push(format!("ex {:x} {:x} {:x} {} => {}", n, k, ce, evs.iter().map(|x| format!("{:x}", x)).collect::<Vec<_>>().join(","),
                        match r { Ok(v) => format!("ok {:x}", v), Err(_) => "panic".into() }));
                }
            }
        }
    }
}



// ---------------------------------------------------------------- glue: BoundaryConstraints::new on a two-segment trace
// The real BoundaryConstraints::new(context, main_assertions, aux_assertions, coefficients) with main width != aux width:
// each list must be validated against ITS OWN segment's width.  Case line:
//   glue <fld> <n> <mw> <aw> <g> <tag> <main specs ;> <aux specs ;>  =>  ok <#main constraints> <#aux constraints> | width | length | overlap | panic
fn glue_run<B: Fld>(n: usize, mw: usize, aw: usize, main: &[Spec], aux: &[Spec]) -> String {
    catch(AssertUnwindSafe(|| {
        let opts = ProofOptions::new(1, 2, 0, FieldExtension::None, 2, 1);
        let ctx = AirContext::<B>::new_multi_segment(TraceInfo::new_multi_segment(mw, aw, 1, n, vec![]),
            vec![TransitionConstraintDegree::new(1)], vec![TransitionConstraintDegree::new(1)], main.len(), aux.len(), None, opts);
        let ma: Vec<Assertion<B>> = main.iter().enumerate().map(|(k, s)| s.build(&|i| B::from_u128((1000 * (k + 1) + i) as u128))).collect();
        let aa: Vec<Assertion<B>> = aux.iter().enumerate().map(|(k, s)| s.build(&|i| B::from_u128((5000 * (k + 1) + i) as u128))).collect();
        let cc: Vec<B> = (0..main.len() + aux.len()).map(|i| B::from_u128(i as u128 + 1)).collect();
        let bcs = BoundaryConstraints::<B>::new(&ctx, ma, aa, &cc);
        format!("ok {:x} {:x}", bcs.main_constraints().iter().map(|g| g.constraints().len()).sum::<usize>(), bcs.aux_constraints().iter().map(|g| g.constraints().len()).sum::<usize>())
    })).unwrap_or_else(|m| panic_kind(&m))
}
fn glue_line<B: Fld>(n: usize, mw: usize, aw: usize, tag: &str, main: &[Spec], aux: &[Spec]) -> String {
    let sh = |l: &[Spec]| l.iter().map(|s| s.show().replace(' ', ",")).collect::<Vec<_>>().join(";");
    format!("glue {} {:x} {:x} {:x} {} {} {} {} => {}", B::NAME, n, mw, aw, hx(root::<B>(n)), tag, sh(main), sh(aux), glue_run::<B>(n, mw, aw, main, aux))
}
/// (name, column) of the column classes of a segment
fn glue_classes(seg: char, mw: usize, aw: usize) -> Vec<(&'static str, usize)> {
    if seg == 'm' { vec![("0", 0), ("mw-1", mw - 1), ("mw", mw), ("mw+aw-1", mw + aw - 1), ("mw+aw", mw + aw)] }
    else { vec![("0", 0), ("aw-1", aw - 1), ("aw", aw), ("mw-1", mw - 1), ("mw", mw), ("mw+aw-1", mw + aw - 1), ("mw+aw", mw + aw)] }
}
const GLUE_WIDTHS: [(usize, usize); 2] = [(3, 2), (2, 5)];

fn corr_glue<B: Fld>(r: &mut Rng, out: &mut Vec<String>) {
    let single = |col: usize, first: usize| Spec { kind: 's', col, first, stride: 0, nvals: 1 };
    for (mw, aw) in GLUE_WIDTHS {
        for n in [8usize, 16] {
            // column classes of both segments, every combination, three kinds of assertion
            for (mn, mc) in glue_classes('m', mw, aw) { for (an, ac) in glue_classes('a', mw, aw) {
                for kind in ['s', 'p', 'q'] {
                    let mk = |col: usize| match kind { 's' => single(col, 1), 'p' => Spec { kind: 'p', col, first: 1, stride: 4, nvals: 1 }, _ => Spec { kind: 'q', col, first: 0, stride: n / 2, nvals: 2 } };
                    out.push(glue_line::<B>(n, mw, aw, &format!("cols:{}:m={}:a={}", kind, mn, an), &[mk(mc)], &[mk(ac)]));
                }
            } }
            // ill-formed first step / stride / length, in either segment (the other one holds a valid assertion)
            let bad: Vec<(&str, Spec)> = vec![
                ("step=n", single(0, n)), ("step>n", single(0, n + 3)), ("stride=2n", Spec { kind: 'p', col: 0, first: 0, stride: 2 * n, nvals: 1 }),
                ("seq-long", Spec { kind: 'q', col: 0, first: 0, stride: 2, nvals: n }), ("seq-short", Spec { kind: 'q', col: 0, first: 1, stride: 2, nvals: n / 4 }),
                ("stride=3", Spec { kind: 'p', col: 0, first: 0, stride: 3, nvals: 1 }), ("nvals=3", Spec { kind: 'q', col: 0, first: 0, stride: 4, nvals: 3 }),
                ("first>=stride", Spec { kind: 'p', col: 0, first: 4, stride: 4, nvals: 1 }), ("fits", Spec { kind: 'q', col: 0, first: 1, stride: 2, nvals: n / 2 }),
            ];
            for (name, s) in &bad {
                out.push(glue_line::<B>(n, mw, aw, &format!("bad:m:{}", name), &[*s], &[single(0, 0)]));
                out.push(glue_line::<B>(n, mw, aw, &format!("bad:a:{}", name), &[single(0, 0)], &[*s]));
                // an ill-sized assertion AND an out-of-segment column
                let mut t = *s; t.col = aw;
                out.push(glue_line::<B>(n, mw, aw, &format!("bad:a+col:{}", name), &[single(0, 0)], &[t]));
            }
            // duplicates and overlaps within a segment; the same cell named in BOTH segments is not an overlap
            let per = Spec { kind: 'p', col: 1, first: 1, stride: 4, nvals: 1 };
            let seq = Spec { kind: 'q', col: 1, first: 1, stride: n / 2, nvals: 2 };
            for (name, l) in [("dup", vec![single(1, 5), single(1, 5)]), ("single-in-periodic", vec![per, single(1, 5)]), ("periodic-seq", vec![seq, per]),
                              ("disjoint", vec![per, single(1, 2), single(0, 5)]), ("other-column", vec![per, single(0, 5)])] {
                out.push(glue_line::<B>(n, mw, aw, &format!("ovl:m:{}", name), &l, &[single(0, 0)]));
                out.push(glue_line::<B>(n, mw, aw, &format!("ovl:a:{}", name), &[single(0, 0)], &l));
                out.push(glue_line::<B>(n, mw, aw, &format!("ovl:both:{}", name), &l, &l));
            }
            // random lists over all columns 0..mw+aw of both segments
            let all = enum_valid(n, &(0..=mw + aw).collect::<Vec<_>>());
            for _ in 0..120 {
                let ml: Vec<Spec> = (0..1 + r.below(3) as usize).map(|_| { let mut s = *r.pick(&all); if r.chance(2, 3) { s.col %= mw; } s }).collect();
                let al: Vec<Spec> = (0..1 + r.below(3) as usize).map(|_| { let mut s = *r.pick(&all); if r.chance(1, 2) { s.col %= aw; } s }).collect();
                out.push(glue_line::<B>(n, mw, aw, "rand", &ml, &al));
            }
        }
    }
}

/// falsifier: accepted iff every assertion's column is inside ITS segment, it fits the trace, and no two assertions of one
/// segment name a common cell (definitions: Spec::fits / Spec::step_set)
fn falsify_glue<B: Fld>(r: &mut Rng, t: &mut Tally) {
    for (mw, aw) in GLUE_WIDTHS {
        for n in [8usize, 16, 32] {
            let all = enum_valid(n, &(0..=mw + aw).collect::<Vec<_>>());
            let mut cases: Vec<(Vec<Spec>, Vec<Spec>)> = vec![];
            for (_, mc) in glue_classes('m', mw, aw) { for (_, ac) in glue_classes('a', mw, aw) {
                cases.push((vec![Spec { kind: 's', col: mc, first: 0, stride: 0, nvals: 1 }], vec![Spec { kind: 'p', col: ac, first: 1, stride: 2, nvals: 1 }]));
            } }
            for _ in 0..300 {
                let ml: Vec<Spec> = (0..1 + r.below(3) as usize).map(|_| { let mut s = *r.pick(&all); if r.chance(3, 4) { s.col %= mw; } s }).collect();
                let mut al: Vec<Spec> = (0..1 + r.below(3) as usize).map(|_| { let mut s = *r.pick(&all); if r.chance(2, 3) { s.col %= aw; } s }).collect();
                if r.chance(1, 10) { al[0] = Spec { kind: 's', col: 0, first: n, stride: 0, nvals: 1 }; }
                cases.push((ml, al));
            }
            for (ml, al) in cases {
                t.evals += 1;
                let seg_ok = |l: &[Spec], w: usize| {
                    let mut cells = BTreeSet::new();
                    l.iter().all(|s| s.col < w && s.fits(n) && s.step_set(n).into_iter().all(|st| cells.insert((s.col, st))))
                };
                let want = seg_ok(&ml, mw) && seg_ok(&al, aw);
                let got = glue_run::<B>(n, mw, aw, &ml, &al);
                if got.starts_with("ok") != want {
                    t.fail("BoundaryConstraints::new: assertions of a segment are not validated against that segment (width, length, overlap)",
                        format!("{} n={} main_width={} aux_width={} main={:?} aux={:?}", B::NAME, n, mw, aw, ml, al), if want { "accepted".into() } else { "refused".into() }, got);
                }
            }
        }
    }
}

// ---------------------------------------------------------------- Lagrange kernel constraints
// air/src/air/lagrange/{transition,boundary,frame,mod}.rs.  The real constraints are obtained the way the prover and the
// verifier obtain them: an AIR with a Lagrange kernel column (harness/src/lagfam.rs) draws the composition coefficients
// (`get_constraint_composition_coefficients`: trace_len.ilog2() of them) and builds `LagrangeKernelConstraints` through
// `get_lagrange_kernel_constraints`.  TraceInfo refuses traces shorter than 8, so for n = 2, 4 the constraints are built
// directly from log2(n) coefficients.  E = B.
trait LFld: Fld + ExtensibleField<2> + ExtensibleField<3> {}
impl<T: Fld + ExtensibleField<2> + ExtensibleField<3>> LFld for T {}

fn lag_air<B: LFld>(n: usize) -> LagAir<B> {
    LagAir::<B>::new(TraceInfo::new_multi_segment(1, 2, 1, n, vec![]), (), ProofOptions::new(1, 2, 0, FieldExtension::None, 2, 1))
}

/// (number of Lagrange transition coefficients the AIR drew, the constraints built from them)
fn lag_from_air<B: LFld>(n: usize, seed: u64) -> (usize, LagrangeKernelConstraints<B>) {
    let v = n.ilog2() as usize;
    let rand = LagrangeKernelRandElements::new((0..v).map(|i| B::from_u128(3 + i as u128)).collect());
    if n >= 8 {
        let air = lag_air::<B>(n);
        let mut coin = DefaultRandomCoin::<Blake3_256<B>>::new(&[B::from_u128(seed as u128)]);
        let cc = air.get_constraint_composition_coefficients::<B, _>(&mut coin).expect("coefficients");
        let lcc = cc.lagrange.expect("the AIR has a Lagrange kernel column");
        let ncoef = lcc.transition.len();
        (ncoef, air.get_lagrange_kernel_constraints(lcc, &rand).expect("constraints"))
    } else {
        let lcc = LagrangeConstraintsCompositionCoefficients { transition: (0..v).map(|i| B::from_u128(7 + i as u128)).collect(), boundary: B::ONE };
        (v, LagrangeKernelConstraints::new(lcc, &rand, 0))
    }
}

/// constraints with GIVEN coefficients (through the AIR for n >= 8)
fn lag_with<B: LFld>(n: usize, coefs: &[B], cb: B, rand: &[B]) -> LagrangeKernelConstraints<B> {
    let lcc = LagrangeConstraintsCompositionCoefficients { transition: coefs.to_vec(), boundary: cb };
    let rand = LagrangeKernelRandElements::new(rand.to_vec());
    if n >= 8 { lag_air::<B>(n).get_lagrange_kernel_constraints(lcc, &rand).expect("constraints") } else { LagrangeKernelConstraints::new(lcc, &rand, 0) }
}

/// rows 4j..4j+3 -> hex digit j (row 4j is the most significant bit; padded with zeros)
fn hexbits(b: &[bool]) -> String {
    b.chunks(4).map(|c| { let mut d = 0u32; for i in 0..4 { d = 2 * d + (i < c.len() && c[i]) as u32; } std::char::from_digit(d, 16).unwrap() }).collect()
}

/// number of divisors = number of leading indexes evaluate_ith_divisor accepts
fn lag_num_divisors<B: LFld>(tc: &LagrangeKernelTransitionConstraints<B>, upto: usize) -> usize {
    (0..upto).take_while(|&i| catch(AssertUnwindSafe(|| tc.evaluate_ith_divisor::<B>(i, B::from_u128(5)))).is_ok()).count()
}

/// zero pattern of the divisor of constraint k (numbered from 1) over the whole trace domain
fn lag_divisor_pattern<B: LFld>(tc: &LagrangeKernelTransitionConstraints<B>, k: usize, n: usize) -> Result<Vec<bool>, String> {
    catch(AssertUnwindSafe(|| {
        let g: B = root(n);
        let mut x = B::ONE;
        let mut bits = Vec::with_capacity(n);
        for _ in 0..n { bits.push(tc.evaluate_ith_divisor::<B>(k - 1, x) == B::ZERO); x *= g; }
        bits
    }))
}

fn lag_lengths(name: &str, l: u32) -> Vec<usize> {
    let mut v: Vec<usize> = (1..=l).map(|e| 1usize << e).collect();
    if name == "f64" { for e in [14u32, 16] { if e > l { v.push(1usize << e); } } }
    v
}

/// the Lagrange kernel column for random elements r (bit b of the row selects r_b or 1 - r_b), as lagfam builds it
fn lag_kernel_column<B: LFld>(r: &[B], n: usize) -> Vec<B> {
    (0..n).map(|row| r.iter().enumerate().fold(B::ONE, |acc, (bit, &ri)| if row & (1 << bit) == 0 { acc * (B::ONE - ri) } else { acc * ri })).collect()
}
fn lag_interpolate<B: LFld>(col: &[B]) -> Vec<B> {
    let mut v = col.to_vec();
    let tw = fft::get_inv_twiddles::<B>(v.len());
    fft::interpolate_poly(&mut v, &tw);
    v
}
fn hxl<B: Fld>(v: &[B]) -> String { if v.is_empty() { "-".into() } else { v.iter().map(|&e| hx(e)).collect::<Vec<_>>().join(",") } }

fn corr_lag<B: LFld>(r: &mut Rng, seed: u64, l: u32, lf: u32, out: &mut Vec<String>) {
    for n in lag_lengths(B::NAME, l) {
        let v = n.ilog2() as usize;
        let g: B = root(n);
        // number of constraints / divisors
        let res = catch(AssertUnwindSafe(|| {
            let (ncoef, cons) = lag_from_air::<B>(n, seed);
            format!("ncoef={:x} nc={:x} ndiv={:x}", ncoef, cons.transition.num_constraints(), lag_num_divisors(&cons.transition, ncoef + 2))
        })).unwrap_or_else(|_| "panic".into());
        out.push(format!("lagn {} {:x} => {}", B::NAME, n, res));
        // every constraint k = 1..log2 n (the range comes from the trace length, not from the library's count): zero
        // pattern of its divisor over the WHOLE trace domain, value at two random points
        let cons = catch(AssertUnwindSafe(|| lag_from_air::<B>(n, seed).1));
        for k in 1..=v {
            let (x1, x2): (B, B) = (rand_elem(r), rand_elem(r));
            let res = match &cons {
                Err(_) => "panic".to_string(),
                Ok(c) => match lag_divisor_pattern(&c.transition, k, n) {
                    Err(_) => "panic".to_string(),
                    Ok(bits) => format!("pat={} ev={},{}", hexbits(&bits), hx(c.transition.evaluate_ith_divisor::<B>(k - 1, x1)), hx(c.transition.evaluate_ith_divisor::<B>(k - 1, x2))),
                },
            };
            out.push(format!("lagd {} {:x} {:x} {} {} {} {} => {}", B::NAME, n, k, hx(g), if n <= (1usize << lf) { "f" } else { "r" }, hx(x1), hx(x2), res));
        }
    }
    // frames (from_lagrange_kernel_column_poly), numerators, evaluate_and_combine, boundary constraint on honest and
    // corrupted Lagrange kernel columns: every row of the trace domain (x = z = g^i) and points outside it
    // (the model's field arithmetic on inductive integers: 84 us (f64) .. 300 us (f128) per multiplication, 10 ms per inversion)
    let heavy = lf >= 10;
    let full: Vec<usize> = match (B::NAME, heavy) {
        ("f64", false) => vec![4, 8, 16, 32], ("f64", true) => vec![4, 8, 16, 32, 64],
        ("f62", _) => vec![4, 8, 16], (_, false) => vec![4, 8], _ => vec![4, 8, 16],
    };
    for &n in full.iter() {
        let v = n.ilog2() as usize;
        let g: B = root(n);
        let rs: Vec<B> = (0..v).map(|_| rand_elem(r)).collect();
        let coefs: Vec<B> = (0..v).map(|_| rand_elem(r)).collect();
        let cb: B = rand_elem(r);
        let honest = lag_kernel_column(&rs, n);
        let mut cols: Vec<Vec<B>> = vec![honest.clone()];
        // one corrupted column per constraint k: a row of the form odd * 2^(v-k), which constraints 1..k-1 do not read
        for k in 1..=v {
            if n > 32 && k != v && k != 1 { continue; }
            let t = v - k;
            let j = (2 * r.below(1u64 << (k - 1)) as usize + 1) << t;
            let mut c = honest.clone();
            c[j] += B::ONE + rand_elem(r);
            cols.push(c);
        }
        cols.push((0..n).map(|_| rand_elem(r)).collect());
        let cons = lag_with::<B>(n, &coefs, cb, &rs);
        for col in &cols {
            let poly = lag_interpolate(col);
            let mut pts: Vec<(B, B)> = vec![];
            let mut z = B::ONE;
            for i in 0..n { if n <= 32 || i % 8 < 3 { pts.push((z, z)); } z *= g; }
            let o: B = rand_elem(r);
            pts.push((o, o));
            pts.push((rand_elem(r), rand_elem(r)));
            for (z, x) in pts {
                let res = catch(AssertUnwindSafe(|| {
                    let frame = LagrangeKernelEvaluationFrame::from_lagrange_kernel_column_poly(&poly, z);
                    let nums: Vec<String> = (0..v).map(|i| catch(AssertUnwindSafe(|| hx(cons.transition.evaluate_ith_numerator::<B>(&frame, &rs, i)))).unwrap_or_else(|_| "panic".into())).collect();
                    let comb = catch(AssertUnwindSafe(|| hx(cons.transition.evaluate_and_combine::<B>(&frame, &rs, x)))).unwrap_or_else(|_| "panic".into());
                    format!("frame={} nums={} comb={} bnd={}/{}/{}", hxl(frame.inner()), nums.join(","), comb,
                        hx(cons.boundary.evaluate_numerator_at(&frame)), hx(cons.boundary.evaluate_denominator_at(x)), hx(cons.boundary.evaluate_at(x, &frame)))
                })).unwrap_or_else(|_| "panic".into());
                out.push(format!("lagc {} {:x} {} {} {} {} {} {} {} => {}", B::NAME, n, hx(g), hx(z), hx(x), hx(cb), hxl(&coefs), hxl(&rs), hxl(&poly), res));
            }
        }
    }
    // ill-sized inputs: frames, random elements and coefficient vectors of every length 0..v+2 (explicit frames, constraints
    // built directly): which calls panic, what the zips truncate
    for v in [1usize, 2, 3] {
        if B::NAME != "f64" && v != 2 { continue; }
        for fl in 0..=v + 2 { for rl in v - 1..=v + 1 { for cl in v - 1..=v + 1 {
            let frame: Vec<B> = (0..fl).map(|_| rand_elem(r)).collect();
            let rs: Vec<B> = (0..rl).map(|_| rand_elem(r)).collect();
            let coefs: Vec<B> = (0..cl).map(|_| rand_elem(r)).collect();
            let x: B = rand_elem(r);
            let res = catch(AssertUnwindSafe(|| {
                let tc = LagrangeKernelTransitionConstraints::new(coefs.clone());
                let fr = LagrangeKernelEvaluationFrame::new(frame.clone());
                let nums: Vec<String> = (0..cl + 1).map(|i| catch(AssertUnwindSafe(|| hx(tc.evaluate_ith_numerator::<B>(&fr, &rs, i)))).unwrap_or_else(|_| "panic".into())).collect();
                let comb = catch(AssertUnwindSafe(|| hx(tc.evaluate_and_combine::<B>(&fr, &rs, x)))).unwrap_or_else(|_| "panic".into());
                format!("nc={:x} nums={} comb={}", tc.num_constraints(), nums.join(","), comb)
            })).unwrap_or_else(|_| "panic".into());
            out.push(format!("lagm {} {} {} {} {} => {}", B::NAME, hx(x), hxl(&coefs), hxl(&rs), hxl(&frame), res));
        } } }
    }
}

// ---------------------------------------------------------------- falsifier (brute-force oracle)
struct Tally { evals: usize, fails: usize }
impl Tally {
    fn fail(&mut self, what: &str, input: String, expected: String, actual: String) {
        self.fails += 1;
        if self.fails <= 200 {
            println!("{{\"what\":{},\"input\":{},\"expected\":{},\"actual\":{}}}", jstr(what), jstr(&input), jstr(&expected), jstr(&actual));
        }
    }
}

/// reference: product over a set of steps of (x - g^s), with u128 modular arithmetic
fn ref_vanishing(p: u128, g: u128, steps: &[usize], x: u128) -> u128 {
    steps.iter().fold(1u128, |acc, &s| mulmod(acc, submod(x, powmod(g, s as u128, p), p), p))
}

fn falsify_field<B: Fld>(r: &mut Rng, nmax: usize, t: &mut Tally) {
    let p = B::P;
    for n in lengths(nmax) {
        let gb: B = root(n);
        let g = gb.to_u128();
        // the generator has exact order n
        t.evals += 1;
        if powmod(g, n as u128, p) != 1 || powmod(g, (n / 2) as u128, p) == 1 {
            t.fail("trace domain generator does not have order n", format!("{} n={}", B::NAME, n), "g^n=1, g^(n/2)!=1".into(), format!("{:x}", g));
        }
        let dom: Vec<u128> = (0..n).map(|i| powmod(g, i as u128, p)).collect();
        // ---- transition divisor, every exemption count the context accepts (and 0, used by the Lagrange kernel code)
        for k in 0..=n / 2 + 1 {
            let inp = format!("{} from_transition(n={}, k={})", B::NAME, n, k);
            match catch(AssertUnwindSafe(|| ConstraintDivisor::<B>::from_transition(n, k))) {
                Err(m) => t.fail("from_transition panics on an admissible exemption count", inp, "divisor".into(), m),
                Ok(d) => {
                    let enforced: Vec<usize> = (0..n - k).collect();
                    t.evals += 1;
                    if d.degree() != n - k { t.fail("transition divisor degree", inp.clone(), format!("{}", n - k), format!("{}", d.degree())); }
                    for i in 0..n {
                        t.evals += 1;
                        let x = B::from_u128(dom[i]);
                        // numerator (from the public accessor) evaluated with reference arithmetic
                        let num = d.numerator().iter().fold(1u128, |acc, (deg, c)| mulmod(acc, submod(powmod(dom[i], *deg as u128, p), c.to_u128(), p), p));
                        let den_zero = d.evaluate_exemptions_at(x) == B::ZERO;
                        // the quotient vanishes at g^i iff numerator has a zero there that the denominator does not cancel
                        let vanishes = num == 0 && !den_zero;
                        if vanishes != (i < n - k) {
                            t.fail("transition divisor zero set", format!("{} at step {}", inp, i), format!("enforced={}", i < n - k), format!("numerator={:x} denominator_zero={}", num, den_zero));
                        }
                        if i < n - k && d.evaluate_at(x) != B::ZERO {
                            t.fail("transition divisor evaluate_at not zero on an enforced step", format!("{} at step {}", inp, i), "0".into(), hx(d.evaluate_at(x)));
                        }
                    }
                    for _ in 0..3 {
                        t.evals += 1;
                        let x = r.next_u128() % p;
                        let want = ref_vanishing(p, g, &enforced, x);
                        let got = d.evaluate_at(B::from_u128(x)).to_u128();
                        if got != want && !dom.contains(&x) {
                            t.fail("transition divisor differs from product over enforced steps", format!("{} x={:x}", inp, x), format!("{:x}", want), format!("{:x}", got));
                        }
                    }
                }
            }
        }
        // ---- assertions: every assertion valid for n
        let specs = enum_valid(n, &[0]);
        let sets: Vec<Vec<bool>> = specs.iter().map(|s| { let mut b = vec![false; n]; for st in s.step_set(n) { b[st] = true; } b }).collect();
        for (s, set) in specs.iter().zip(&sets) {
            let steps = s.step_set(n);
            let vals: Vec<B> = (0..s.nvals).map(|_| rand_elem(r)).collect();
            let inp = format!("{} n={} assertion {:?}", B::NAME, n, s);
            let res = catch(AssertUnwindSafe(|| {
                let a = s.build(&|i| vals[i]);
                let mut applied = vec![];
                a.apply(n, |st, v| applied.push((st, v)));
                let d = ConstraintDivisor::<B>::from_assertion(&a, n);
                (a.get_num_steps(n), applied, d, a.validate_trace_length(n).is_ok())
            }));
            t.evals += 1;
            match res {
                Err(m) => t.fail("valid assertion refused (panic)", inp, "accepted".into(), m),
                Ok((num_steps, applied, d, vok)) => {
                    if !vok { t.fail("validate_trace_length refuses a valid assertion", inp.clone(), "Ok".into(), "Err".into()); }
                    if num_steps != steps.len() { t.fail("get_num_steps", inp.clone(), format!("{}", steps.len()), format!("{}", num_steps)); }
                    let want_applied: Vec<(usize, B)> = steps.iter().enumerate().map(|(j, &st)| (st, if s.kind == 'q' { vals[j] } else { vals[0] })).collect();
                    if applied != want_applied { t.fail("apply visits other cells than the assertion names", inp.clone(), format!("{:?}", steps), format!("{:?}", applied.iter().map(|x| x.0).collect::<Vec<_>>())); }
                    if d.degree() != steps.len() { t.fail("assertion divisor degree", inp.clone(), format!("{}", steps.len()), format!("{}", d.degree())); }
                    for i in 0..n {
                        t.evals += 1;
                        let z = d.evaluate_at(B::from_u128(dom[i])) == B::ZERO;
                        if z != set[i] { t.fail("assertion divisor zero set", format!("{} at step {}", inp, i), format!("{}", set[i]), format!("{}", z)); }
                    }
                    for _ in 0..2 {
                        t.evals += 1;
                        let x = r.next_u128() % p;
                        let want = ref_vanishing(p, g, &steps, x);
                        let got = d.evaluate_at(B::from_u128(x)).to_u128();
                        if got != want { t.fail("assertion divisor differs from product over named steps", format!("{} x={:x}", inp, x), format!("{:x}", want), format!("{:x}", got)); }
                    }
                    // value polynomial: through the public BoundaryConstraints::new
                    let bres = catch(AssertUnwindSafe(|| {
                        let ctx = context::<B>(n, 1, 1);
                        let bcs = BoundaryConstraints::<B>::new(&ctx, vec![s.build(&|i| vals[i])], vec![], &[B::ONE]);
                        let c = bcs.main_constraints()[0].constraints()[0].clone();
                        let dv = bcs.main_constraints()[0].divisor().clone();
                        (steps.iter().map(|&st| c.evaluate_at(B::from_u128(dom[st]), B::ZERO)).collect::<Vec<B>>(), dv)
                    }));
                    match bres {
                        Err(m) => t.fail("BoundaryConstraints::new panics on one valid assertion", inp.clone(), "constraints".into(), m),
                        Ok((evs, dv)) => {
                            if dv != d { t.fail("group divisor differs from from_assertion", inp.clone(), show_divisor(&d), show_divisor(&dv)); }
                            for (j, e) in evs.iter().enumerate() {
                                t.evals += 1;
                                let want = if s.kind == 'q' { vals[j] } else { vals[0] };
                                if B::ZERO - *e != want { t.fail("value polynomial does not reproduce the asserted value", format!("{} value #{} (step {})", inp, j, steps[j]), hx(want), hx(B::ZERO - *e)); }
                            }
                        }
                    }
                }
            }
        }
        // ---- overlaps: every ordered pair in one column, and a second column
        let one = B::ONE;
        let built: Vec<Assertion<B>> = specs.iter().map(|s| s.build(&|_| one)).collect();
        for (i, a) in built.iter().enumerate() {
            for (j, b) in built.iter().enumerate() {
                t.evals += 1;
                let want = sets[i].iter().zip(&sets[j]).any(|(x, y)| *x && *y);
                match catch(AssertUnwindSafe(|| a.overlaps_with(b))) {
                    Ok(got) if got == want => {}
                    Ok(got) => t.fail("overlaps_with disagrees with intersection of named cells", format!("{} n={} {:?} vs {:?}", B::NAME, n, specs[i], specs[j]), format!("{}", want), format!("{}", got)),
                    Err(m) => t.fail("overlaps_with panics", format!("{} n={} {:?} vs {:?}", B::NAME, n, specs[i], specs[j]), format!("{}", want), m),
                }
            }
        }
        if n <= 32 {
            let other: Vec<Assertion<B>> = enum_valid(n, &[1]).iter().map(|s| s.build(&|_| one)).collect();
            for a in &built { for b in &other { t.evals += 1; if a.overlaps_with(b) || b.overlaps_with(a) { t.fail("overlap reported across columns", format!("{} n={} {} / {}", B::NAME, n, a, b), "false".into(), "true".into()); } } }
        }
        // ---- prepare_assertions through BoundaryConstraints::new: accepted iff all fit and no two name a common cell
        let all = enum_valid(n, &[0, 1, 2]);
        for _ in 0..(if n <= 16 { 400 } else { 150 }) {
            t.evals += 1;
            let len = 1 + r.below(5) as usize;
            let width = if r.chance(1, 5) { 2 } else { 3 };
            let mut list: Vec<Spec> = (0..len).map(|_| *r.pick(&all)).collect();
            if r.chance(1, 12) { list[0] = Spec { kind: 'q', col: 0, first: 0, stride: 2, nvals: n }; }
            let mut cells = BTreeSet::new();
            let mut ok = true;
            for s in &list {
                if s.col >= width || !s.fits(n) { ok = false; break; }
                for st in s.step_set(n) { if !cells.insert((s.col, st)) { ok = false; } }
            }
            let got = catch(AssertUnwindSafe(|| {
                let ctx = context::<B>(n, width, list.len());
                let asserts: Vec<Assertion<B>> = list.iter().map(|s| s.build(&|_| one)).collect();
                let cc = vec![one; list.len()];
                let bcs = BoundaryConstraints::<B>::new(&ctx, asserts, vec![], &cc);
                // every constraint sits in a group whose divisor vanishes exactly on the steps of an assertion of its column
                let mut misplaced = 0usize;
                for grp in bcs.main_constraints() {
                    let zs: Vec<usize> = (0..n).filter(|&i| grp.divisor().evaluate_at(B::from_u128(dom[i])) == B::ZERO).collect();
                    for c in grp.constraints() {
                        if !list.iter().any(|s| s.col == c.column() && s.step_set(n) == zs) { misplaced += 1; }
                    }
                }
                if misplaced > 0 { usize::MAX } else { bcs.main_constraints().iter().map(|g| g.constraints().len()).sum::<usize>() }
            }));
            match (ok, got) {
                (true, Ok(c)) if c == list.len() => {}
                (false, Err(_)) => {}
                (true, Ok(usize::MAX)) => t.fail("a constraint is grouped under a divisor that does not vanish exactly on its assertion's steps", format!("{} n={} {:?}", B::NAME, n, list), "divisor zero set = named steps".into(), "mismatch".into()),
                (true, Ok(c)) => t.fail("constraints lost by prepare/group", format!("{} n={} {:?}", B::NAME, n, list), format!("{}", list.len()), format!("{}", c)),
                (true, Err(m)) => t.fail("disjoint valid assertions refused", format!("{} n={} {:?}", B::NAME, n, list), "accepted".into(), m),
                (false, Ok(_)) => t.fail("overlapping or ill-fitting assertions accepted", format!("{} n={} width={} {:?}", B::NAME, n, width, list), "panic".into(), "accepted".into()),
            }
        }
    }
}

/// trace lengths >= 2^32 (possible on f128 / f62, two-adicity 40 / 39): the exponent of the numerator must not be truncated
fn falsify_long_traces(t: &mut Tally) {
    type B = f128::BaseElement;
    let p = B::P;
    for (log_n, x) in [(32u32, 12345u128), (33, 0xdead_beef_0000_0001), (31, 777)] {
        let n = 1usize << log_n;
        let g = B::get_root_of_unity(log_n).to_u128();
        t.evals += 2;
        // transition divisor with one exemption: D(x) * (x - g^(n-1)) = x^n - 1
        let d = ConstraintDivisor::<B>::from_transition(n, 1);
        let got = mulmod(d.evaluate_at(B::from_u128(x)).to_u128(), submod(x, powmod(g, (n - 1) as u128, p), p), p);
        let want = submod(powmod(x, n as u128, p), 1, p);
        if got != want { t.fail("transition divisor of a long trace is not (x^n - 1)/(x - g^(n-1))", format!("f128 n=2^{} k=1 x={:x}", log_n, x), format!("{:x}", want), format!("{:x}", got)); }
        // periodic assertion with stride 2: D(x) = x^(n/2) - 1
        let a = Assertion::periodic(0, 0, 2, B::ONE);
        let d = ConstraintDivisor::<B>::from_assertion(&a, n);
        let got = d.evaluate_at(B::from_u128(x)).to_u128();
        let want = submod(powmod(x, (n / 2) as u128, p), 1, p);
        if got != want { t.fail("assertion divisor of a long trace is not x^(n/stride) - 1", format!("f128 n=2^{} periodic stride 2 x={:x}", log_n, x), format!("{:x}", want), format!("{:x}", got)); }
    }
}

/// Lagrange kernel constraints against their DEFINITION (issue #240 / the comments of air/src/air/lagrange): log2(n)
/// constraints; constraint k (from 1) is r[v-k]*c(x) - (1 - r[v-k])*c(g^(2^(v-k)) x) over the subgroup of size 2^(k-1), i.e.
/// the rows that are multiples of n / 2^(k-1); the boundary constraint pins row 0.  All reference values in u128 arithmetic.
fn falsify_lagrange<B: LFld>(r: &mut Rng, seed: u64, l: u32, t: &mut Tally) {
    let p = B::P;
    for n in lag_lengths(B::NAME, l) {
        let v = n.ilog2() as usize;
        let gb: B = root(n);
        let g = gb.to_u128();
        let inp = format!("{} Lagrange kernel constraints, trace length {}", B::NAME, n);
        t.evals += 1;
        let (ncoef, cons) = match catch(AssertUnwindSafe(|| lag_from_air::<B>(n, seed))) {
            Err(m) => { t.fail("Lagrange kernel constraints cannot be built", inp, "constraints".into(), m); continue; }
            Ok(x) => x,
        };
        let tc = &cons.transition;
        if ncoef != v { t.fail("number of Lagrange kernel transition coefficients drawn is not log2(trace length)", inp.clone(), format!("{}", v), format!("{}", ncoef)); }
        if tc.num_constraints() != v { t.fail("number of Lagrange kernel transition constraints is not log2(trace length)", inp.clone(), format!("{}", v), format!("{}", tc.num_constraints())); }
        let ndiv = lag_num_divisors(tc, v + 2);
        if ndiv != v { t.fail("number of Lagrange kernel constraint divisors is not log2(trace length)", inp.clone(), format!("{}", v), format!("{}", ndiv)); }
        // ---- enforcement domains: divisor k vanishes on exactly the multiples of n / 2^(k-1)
        let mut union = vec![false; n];
        for k in 1..=v {
            let stride = n >> (k - 1);
            match lag_divisor_pattern(tc, k, n) {
                Err(m) => { t.evals += 1; t.fail("divisor of a Lagrange kernel constraint cannot be evaluated", format!("{} constraint {}", inp, k), "a value".into(), m); }
                Ok(bits) => {
                    t.evals += n;
                    for i in 0..n { union[i] |= bits[i]; }
                    let bad: Vec<usize> = (0..n).filter(|&i| bits[i] != (i % stride == 0)).take(6).collect();
                    if !bad.is_empty() {
                        t.fail("Lagrange kernel constraint divisor zero set", format!("{} constraint {} rows {:?}", inp, k, bad), format!("zero exactly on the multiples of {}", stride),
                            format!("{:?}", bad.iter().map(|&i| bits[i]).collect::<Vec<_>>()));
                    }
                    for _ in 0..2 {
                        t.evals += 1;
                        let x = r.next_u128() % p;
                        let want = submod(powmod(x, 1u128 << (k - 1), p), 1, p);
                        let got = tc.evaluate_ith_divisor::<B>(k - 1, B::from_u128(x)).to_u128();
                        if got != want { t.fail("Lagrange kernel constraint divisor is not x^(2^(k-1)) - 1", format!("{} constraint {} x={:x}", inp, k, x), format!("{:x}", want), format!("{:x}", got)); }
                    }
                }
            }
        }
        // the union of the enforcement domains is the set of even rows (the domain of the last constraint)
        t.evals += 1;
        let bad: Vec<usize> = (0..n).filter(|&i| union[i] != (i % 2 == 0)).take(6).collect();
        if !bad.is_empty() { t.fail("union of the Lagrange kernel enforcement domains is not the set of even rows", format!("{} rows {:?}", inp, bad), "even rows".into(), format!("{:?}", bad.iter().map(|&i| union[i]).collect::<Vec<_>>())); }
        if n > 1024 { continue; }
        // ---- boundary constraint: denominator zero on row 0 only; asserted value = prod (1 - r_i)
        let rs: Vec<u128> = (0..v).map(|_| 2 + r.next_u128() % (p - 2)).collect();
        let coefs: Vec<u128> = (0..v).map(|_| 1 + r.next_u128() % (p - 1)).collect();
        let cb = 1 + r.next_u128() % (p - 1);
        let rsb: Vec<B> = rs.iter().map(|&x| B::from_u128(x)).collect();
        let cons = match catch(AssertUnwindSafe(|| lag_with::<B>(n, &coefs.iter().map(|&x| B::from_u128(x)).collect::<Vec<_>>(), B::from_u128(cb), &rsb))) {
            Err(m) => { t.fail("Lagrange kernel constraints cannot be built", inp, "constraints".into(), m); continue; }
            Ok(c) => c,
        };
        let tc = &cons.transition;
        let dom: Vec<u128> = (0..n).map(|i| powmod(g, i as u128, p)).collect();
        for i in 0..n {
            t.evals += 1;
            let z = cons.boundary.evaluate_denominator_at(B::from_u128(dom[i])) == B::ZERO;
            if z != (i == 0) { t.fail("Lagrange kernel boundary constraint denominator zero set", format!("{} row {}", inp, i), format!("{}", i == 0), format!("{}", z)); }
        }
        let av = rs.iter().fold(1u128, |a, &x| mulmod(a, submod(1, x, p), p));
        // ---- numerators on the honest column and on columns corrupted in one cell
        let honest: Vec<u128> = (0..n).map(|row| rs.iter().enumerate().fold(1u128, |a, (b, &x)| mulmod(a, if row & (1 << b) == 0 { submod(1, x, p) } else { x }, p))).collect();
        t.evals += 1;
        if honest[0] != av { t.fail("reference column: cell 0 is not the asserted value", inp.clone(), format!("{:x}", av), format!("{:x}", honest[0])); }
        let frame_at = |col: &[u128], i: usize| -> LagrangeKernelEvaluationFrame<B> {
            let mut f = vec![B::from_u128(col[i])];
            for j in 0..v { f.push(B::from_u128(col[(i + (1 << j)) % n])); }
            LagrangeKernelEvaluationFrame::new(f)
        };
        // numerator k at row i, from the definition
        let num_ref = |col: &[u128], k: usize, i: usize| -> u128 {
            let rk = rs[v - k];
            mulmod(coefs[k - 1], submod(mulmod(rk, col[i], p), mulmod(submod(1, rk, p), col[(i + (n >> k)) % n], p), p), p)
        };
        let mut columns: Vec<(String, Vec<u128>, usize)> = vec![("honest".into(), honest.clone(), 0)];
        for k in 1..=v {
            let j = (2 * r.below(1u64 << (k - 1)) as usize + 1) << (v - k);
            let mut c = honest.clone();
            c[j] = addmod(c[j], 1 + r.next_u128() % (p - 1), p);
            columns.push((format!("corrupted in row {} (first read by constraint {})", j, k), c, k));
        }
        for (name, col, kc) in &columns {
            let mut nonzero_on_domain = vec![0usize; v + 1];
            for i in 0..n {
                let fr = frame_at(col, i);
                for k in 1..=v {
                    t.evals += 1;
                    match catch(AssertUnwindSafe(|| tc.evaluate_ith_numerator::<B>(&fr, &rsb, k - 1))) {
                        Err(m) => t.fail("evaluate_ith_numerator panics on a well-sized frame", format!("{} {} row {} constraint {}", inp, name, i, k), "a value".into(), m),
                        Ok(got) => {
                            let want = num_ref(col, k, i);
                            if got.to_u128() != want { t.fail("Lagrange kernel numerator differs from its definition", format!("{} {} row {} constraint {}", inp, name, i, k), format!("{:x}", want), hx(got)); }
                            if i % (n >> (k - 1)) == 0 && got != B::ZERO { nonzero_on_domain[k] += 1; }
                        }
                    }
                }
            }
            for k in 1..=v {
                t.evals += 1;
                if *kc == 0 || k < *kc {
                    // constraint k does not read the corrupted cell: it must hold on its whole enforcement domain
                    if nonzero_on_domain[k] != 0 { t.fail("numerator of a satisfied Lagrange kernel constraint is non-zero on its enforcement domain", format!("{} {} constraint {}", inp, name, k), "0 rows".into(), format!("{} rows", nonzero_on_domain[k])); }
                } else if k == *kc && nonzero_on_domain[k] == 0 {
                    t.fail("a corrupted cell is not detected by the constraint that reads it", format!("{} {} constraint {}", inp, name, k), "non-zero numerator on an enforced row".into(), "all zero".into());
                }
            }
        }
        // ---- out-of-domain: frame from the column polynomial, evaluate_and_combine = sum over ALL log2(n) constraints
        if n < 4 || n > 64 { continue; }
        for (name, col, _) in columns.iter().take(3) {
            let poly = lag_interpolate(&col.iter().map(|&x| B::from_u128(x)).collect::<Vec<B>>());
            let pr: Vec<u128> = poly.iter().map(|e| e.to_u128()).collect();
            let horner = |x: u128| pr.iter().rev().fold(0u128, |a, &c| addmod(mulmod(a, x, p), c, p));
            for _ in 0..3 {
                t.evals += 1;
                let z = r.next_u128() % p;
                let fr = LagrangeKernelEvaluationFrame::from_lagrange_kernel_column_poly(&poly, B::from_u128(z));
                let fref: Vec<u128> = std::iter::once(horner(z)).chain((0..v).map(|j| horner(mulmod(z, powmod(g, 1u128 << j, p), p)))).collect();
                if fr.inner().iter().map(|e| e.to_u128()).collect::<Vec<_>>() != fref {
                    t.fail("Lagrange kernel frame is not c(z), c(gz), c(g^2 z), .., c(g^(2^(v-1)) z)", format!("{} {} z={:x}", inp, name, z), format!("{:x?}", fref), hxl(fr.inner()));
                }
                let want = (1..=v).fold(0u128, |acc, k| {
                    let rk = rs[v - k];
                    let num = mulmod(coefs[k - 1], submod(mulmod(rk, fref[0], p), mulmod(submod(1, rk, p), fref[v - k + 1], p), p), p);
                    addmod(acc, mulmod(num, invmod(submod(powmod(z, 1u128 << (k - 1), p), 1, p), p), p), p)
                });
                match catch(AssertUnwindSafe(|| tc.evaluate_and_combine::<B>(&fr, &rsb, B::from_u128(z)))) {
                    Err(m) => t.fail("evaluate_and_combine panics", format!("{} {} z={:x}", inp, name, z), format!("{:x}", want), m),
                    Ok(got) => if got.to_u128() != want { t.fail("evaluate_and_combine is not the sum of all log2(n) constraints, each divided by its divisor", format!("{} {} z={:x}", inp, name, z), format!("{:x}", want), hx(got)); },
                }
                let bw = mulmod(mulmod(submod(fref[0], av, p), cb, p), invmod(submod(z, 1, p), p), p);
                let bg = cons.boundary.evaluate_at(B::from_u128(z), &fr).to_u128();
                if bg != bw { t.fail("Lagrange kernel boundary constraint is not coef * (c(z) - prod(1 - r_i)) / (z - 1)", format!("{} {} z={:x}", inp, name, z), format!("{:x}", bw), format!("{:x}", bg)); }
            }
        }
    }
}

fn falsify_int(nmax: usize, t: &mut Tally) {
    type B = f64::BaseElement;
    // constructors accept exactly the well-formed descriptions
    let lim = nmax + 2;
    let chk = |s: Spec, t: &mut Tally| {
        t.evals += 1;
        let got = catch(AssertUnwindSafe(|| s.build(&|_| B::ONE))).is_ok();
        if got != s.well_formed() { t.fail("constructor acceptance", format!("{:?}", s), format!("{}", s.well_formed()), format!("{}", got)); }
    };
    for first in 0..=lim { for stride in 0..=lim { chk(Spec { kind: 'p', col: 0, first, stride, nvals: 1 }, t); } }
    for first in 0..=10 { for stride in 0..=18 { for nvals in 1..=lim { chk(Spec { kind: 'q', col: 0, first, stride, nvals }, t); } } }
    // validate_trace_length accepts exactly the lengths the assertion fits
    for s in enum_constructible(nmax) {
        if !s.well_formed() { continue; }
        let a = s.build(&|_| B::ONE);
        for n in 0..=2 * nmax + 1 {
            t.evals += 1;
            let want = n.count_ones() == 1 && s.fits(n);
            let got = catch(AssertUnwindSafe(|| a.validate_trace_length(n).is_ok())).unwrap_or(false);
            if got != want { t.fail("validate_trace_length acceptance", format!("{:?} n={}", s, n), format!("{}", want), format!("{}", got)); }
        }
    }
    // exemption counts: accepted iff 1 <= k <= n/2 + 1 (degree-1 constraint: the third bound is never binding); an accepted
    // count leaves at least one enforced step
    for n in lengths(nmax) {
        for k in 0..=n + 2 {
            t.evals += 1;
            let got = catch(AssertUnwindSafe(|| {
                let opts = ProofOptions::new(1, 2, 0, FieldExtension::None, 2, 1);
                AirContext::<B>::new(TraceInfo::new(1, n), vec![TransitionConstraintDegree::new(1)], 1, opts).set_num_transition_exemptions(k).num_transition_exemptions()
            }));
            let want = k >= 1 && k <= n / 2 + 1;
            match got {
                Ok(v) if want && v == k && k < n => {}
                Err(_) if !want => {}
                other => t.fail("set_num_transition_exemptions bounds", format!("n={} k={}", n, k), format!("accepted={}", want), format!("{:?}", other.map_err(|_| "panic"))),
            }
        }
    }
}

fn main() {
    silence_panics();
    let args: Vec<String> = std::env::args().collect();
    let seed: u64 = args.get(2).and_then(|s| s.parse().ok()).unwrap_or(1);
    let nmax: usize = args.get(3).and_then(|s| s.parse().ok()).unwrap_or(64).max(8);
    let mut r = Rng::new(seed);
    match args.get(1).map(|s| s.as_str()) {
        Some("corr") => {
            let mut out = Vec::new();
            match args.get(4).map(|s| s.as_str()).unwrap_or("") {
                "ctor" => corr_ctor(nmax, &mut out),
                "len" => corr_len(nmax, &mut out),
                "ovl" => corr_ovl(&mut r, nmax, &mut out),
                "ft" => { corr_ft::<f64::BaseElement>(&mut r, nmax, &mut out); corr_ft::<f62::BaseElement>(&mut r, nmax, &mut out); corr_ft::<f128::BaseElement>(&mut r, nmax, &mut out); }
                "fa" => { corr_fa::<f64::BaseElement>(&mut r, nmax, &mut out); corr_fa::<f62::BaseElement>(&mut r, nmax, &mut out); corr_fa::<f128::BaseElement>(&mut r, nmax, &mut out); }
                "bc" => { corr_bc::<f64::BaseElement>(&mut r, nmax, &mut out); corr_bc::<f62::BaseElement>(&mut r, nmax, &mut out); corr_bc::<f128::BaseElement>(&mut r, nmax, &mut out); }
                "prep" => { corr_prep::<f64::BaseElement>(&mut r, nmax, &mut out); corr_prep_rand::<f62::BaseElement>(&mut r, nmax.min(32), &mut out); corr_prep_rand::<f128::BaseElement>(&mut r, nmax.min(16), &mut out); }
                "ex" => corr_ex(nmax, &mut out),
                "glue" => { corr_glue::<f64::BaseElement>(&mut r, &mut out); corr_glue::<f128::BaseElement>(&mut r, &mut out); }
                "lag" => {
                    let l: u32 = args.get(5).and_then(|s| s.parse().ok()).unwrap_or(12);
                    let lf: u32 = args.get(6).and_then(|s| s.parse().ok()).unwrap_or(8);
                    corr_lag::<f64::BaseElement>(&mut r, seed, l, lf, &mut out); corr_lag::<f62::BaseElement>(&mut r, seed, l, lf, &mut out); corr_lag::<f128::BaseElement>(&mut r, seed, l, lf, &mut out);
                }
                g => { eprintln!("unknown group {}", g); std::process::exit(2); }
            }
            let mut s = out.join("\n");
            s.push('\n');
            print!("{}", s);
        }
        Some("falsify") => {
            let mut t = Tally { evals: 0, fails: 0 };
            falsify_int(nmax, &mut t);
            falsify_long_traces(&mut t);
            falsify_field::<f64::BaseElement>(&mut r, nmax, &mut t);
            falsify_field::<f62::BaseElement>(&mut r, nmax, &mut t);
            falsify_field::<f128::BaseElement>(&mut r, nmax, &mut t);
            falsify_glue::<f64::BaseElement>(&mut r, &mut t);
            falsify_glue::<f62::BaseElement>(&mut r, &mut t);
            let l: u32 = args.get(4).and_then(|s| s.parse().ok()).unwrap_or(12);
            falsify_lagrange::<f64::BaseElement>(&mut r, seed, l, &mut t);
            falsify_lagrange::<f62::BaseElement>(&mut r, seed, l, &mut t);
            falsify_lagrange::<f128::BaseElement>(&mut r, seed, l, &mut t);
            println!("evaluations={} failures={}", t.evals, t.fails);
        }
        Some("probe") => {
            // outside the property's quantifier (n <= 256): `*degree as u32` in evaluate_at truncates exponents >= 2^32
            type B = f128::BaseElement;
            let n = 1usize << 32;
            let d = ConstraintDivisor::<B>::from_transition(n, 1);
            let x = B::new(12345);
            println!("from_transition(2^32,1).evaluate_at(12345) = {} ; x^(2^32)-1 = {}", hx(d.evaluate_at(x)), hx(x.exp((n as u128).into()) - B::ONE));
            let a = Assertion::periodic(0, 0, 2, B::ONE);
            let d = ConstraintDivisor::<B>::from_assertion(&a, 1usize << 33);
            println!("from_assertion(periodic stride 2, n=2^33): {} evaluate_at(12345) = {}", show_divisor(&d), hx(d.evaluate_at(x)));
        }
        _ => { eprintln!("usage: c16 corr <seed> <nmax> <group> | c16 falsify <seed> <nmax>"); std::process::exit(2); }
    }
}
