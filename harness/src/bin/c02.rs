//! C02 harness: soundness — proofs of invalid executions or for other public inputs are rejected.
//!   c02 falsify <seed> <n> [maxlog]   SOUNDNESS FALSIFIER (maxlog: largest log2 trace length, default 6).  Oracle = airfam::is_valid (reference validity predicate, independent of
//!                               the library and of the Coq model; cross-checked with Trace::validate under catch_unwind).
//!                               stream 1: corrupt ONE cell of a valid trace at every (column, step) class of the quantifier,
//!                               prove with the honest prover code (release profile), verify:
//!                                   is_valid(corrupted) = false  =>  must NOT be accepted,
//!                                   is_valid(corrupted) = true   =>  must be accepted.
//!                               stream 2: a valid proof checked against perturbed public inputs / options / trace shape
//!                               must be rejected.
//!                               prints one JSON object per failure, `classes {...}` (per-class counts) and
//!                               `evaluations=<n> failures=<k>`.
//!   c02 corr <seed> <n>         lines "<case> => <verdict class> <deep evaluations>" for honest proofs with ONE component
//!                               perturbed after proving; the case carries the parsed proof and the coin outputs.
//!   c02 one <seed> <n> <idx> [maxlog]   re-run case <idx> of the falsify stream verbosely (replay).
//!   c02 lag <seed> <n> <idx>    re-run case <idx> of stream 3 (Lagrange kernel column) verbosely (replay).
use std::cell::RefCell;
use std::collections::BTreeMap;
use std::marker::PhantomData;
use std::panic::AssertUnwindSafe;

use wf_harness::{airfam::*, catch, coinrec, coinrec::RecordingCoin, jstr, lagfam::{LagAir, LagProver, LagTrace}, prng::Rng, silence_panics, toy::ToyHasher};
use winter_air::{
    proof::{Context, OodFrame, Proof, Queries, TraceOodFrame},
    Air, AirContext, AuxRandElements, ConstraintCompositionCoefficients, EvaluationFrame, FieldExtension, LagrangeKernelEvaluationFrame, LagrangeKernelRandElements, ProofOptions, TraceInfo,
    TransitionConstraintDegree,
};
use winter_crypto::{
    hashers::{Blake3_192, Blake3_256, Rp62_248, Rp64_256, RpJive64_256, Sha3_256},
    DefaultRandomCoin, ElementHasher, MerkleTree, RandomCoin,
};
use winter_math::{fields::{f128, f62, f64, CubeExtension, QuadExtension}, ExtensibleField, FieldElement, StarkField};
use winter_prover::{matrix::ColMatrix, AuxTraceWithMetadata, DefaultConstraintEvaluator, DefaultTraceLde, Prover, ProverGkrProof, StarkDomain, Trace, TracePolyTable};
use winter_verifier::{verify, AcceptableOptions, VerifierError};

type B62 = f62::BaseElement;
type B64 = f64::BaseElement;
type B128 = f128::BaseElement;

// ------------------------------------------------------------------------------------------------ cases
#[derive(Clone, Debug)]
struct Opts { q: usize, blowup: usize, grind: u32, ext: u8, fold: usize, rem: usize }

#[derive(Clone, Debug)]
struct Case {
    idx: usize,
    class: String,
    field: &'static str,
    hasher: &'static str,
    spec: Spec,
    opts: Opts,
    seg: u8,               // 0 = main segment, 1 = auxiliary segment
    col: usize,
    step: usize,
    delta: u64,            // added to the cell (never 0 mod p)
    publish_corrupted: bool, // the prover publishes assertion values read from the corrupted trace
    aux_shift: bool,       // auxiliary segment: add delta to the WHOLE column (running sums keep every transition; only the step-0 assertion breaks)
    claim: Option<(usize, usize)>, // instead of corrupting the cell: publish a FALSE value for (assertion index, value index); only that assertion is violated
}

fn ext_of(e: u8) -> FieldExtension { match e { 1 => FieldExtension::None, 2 => FieldExtension::Quadratic, _ => FieldExtension::Cubic } }
fn make_opts(o: &Opts) -> Option<ProofOptions> { catch(|| ProofOptions::new(o.q, o.blowup, o.grind, ext_of(o.ext), o.fold, o.rem)).ok() }

const FIELDS: [&str; 3] = ["f64", "f128", "f62"];
fn hashers_of(field: &str) -> &'static [&'static str] {
    match field {
        "f62" => &["blake3_256", "sha3_256", "rp62_248", "toy"],
        "f64" => &["blake3_256", "rp64_256", "sha3_256", "blake3_192", "rpjive64_256", "toy"],
        _ => &["blake3_256", "sha3_256", "blake3_192", "toy"],
    }
}
fn ext_supported(field: &str, ext: u8) -> bool { !(field == "f128" && ext == 3) }

fn case_desc(c: &Case) -> String {
    format!("idx={} class={} field={} hasher={} opts={:?} seg={} cell=({},{}) whole_column={} delta={} publish_corrupted={} false_claim={:?} spec={:?}",
        c.idx, c.class, c.field, c.hasher, c.opts, c.seg, c.col, c.step, c.aux_shift, c.delta, c.publish_corrupted, c.claim, c.spec)
}

// ------------------------------------------------------------------------------------------------ prover with an auxiliary-segment corruption hook
thread_local! {
    /// reference validity of the auxiliary segment built by the last `build_aux_trace` (None: no aux segment built)
    static AUX_VALID: RefCell<Option<bool>> = RefCell::new(None);
    /// does Trace::validate (main + auxiliary segment, under catch_unwind) agree with the reference predicate?
    static AUX_AGREE: RefCell<Option<bool>> = RefCell::new(None);
}

pub struct CProver<B: StarkField, H, R> {
    options: ProofOptions,
    avals: Vec<Vec<B>>,
    aux_corrupt: Option<(usize, usize, u64, bool)>,
    _p: PhantomData<(H, R)>,
}

/// reference validity of the auxiliary segment (definition of the family, see airfam.rs header)
fn aux_is_valid<B: StarkField, E: FieldElement<BaseField = B>>(spec: &Spec, main: &ColMatrix<B>, aux: &[Vec<E>], rands: &[E]) -> bool {
    let n = spec.n();
    let r = |i: usize| if rands.is_empty() { E::ONE } else { rands[i % rands.len()] };
    if aux[0][0] != E::ONE { return false; }
    for j in 1..spec.aux_width { if aux[j][0] != E::ZERO { return false; } }
    if spec.aux_assert_last && aux[0][n - 1] != aux_last_value(rands) { return false; }
    for i in 0..n - spec.exemptions {
        if aux[0][i + 1] != aux[0][i] * (E::from(main.get(0, i)) + r(0)) { return false; }
        for j in 1..spec.aux_width {
            if aux[j][i + 1] != aux[j][i] + r(j) * E::from(main.get(j % spec.width, i)) { return false; }
        }
    }
    true
}

impl<B, H, R> Prover for CProver<B, H, R>
where
    B: StarkField + ExtensibleField<2> + ExtensibleField<3> + 'static,
    H: ElementHasher<BaseField = B> + Send + Sync,
    R: RandomCoin<BaseField = B, Hasher = H> + Send + Sync,
{
    type BaseField = B;
    type Air = FamAir<B>;
    type Trace = FamTrace<B>;
    type HashFn = H;
    type RandomCoin = R;
    type TraceLde<E: FieldElement<BaseField = B>> = DefaultTraceLde<E, H>;
    type ConstraintEvaluator<'a, E: FieldElement<BaseField = B>> = DefaultConstraintEvaluator<'a, FamAir<B>, E>;

    fn get_pub_inputs(&self, trace: &FamTrace<B>) -> PubInputs<B> { PubInputs { spec: trace.spec.clone(), avals: self.avals.clone() } }
    fn options(&self) -> &ProofOptions { &self.options }
    fn new_trace_lde<E: FieldElement<BaseField = B>>(&self, trace_info: &TraceInfo, main_trace: &ColMatrix<B>, domain: &StarkDomain<B>) -> (Self::TraceLde<E>, TracePolyTable<E>) {
        DefaultTraceLde::new(trace_info, main_trace, domain)
    }
    fn new_evaluator<'a, E: FieldElement<BaseField = B>>(&self, air: &'a FamAir<B>, aux_rand_elements: Option<AuxRandElements<E>>, composition_coefficients: ConstraintCompositionCoefficients<E>) -> Self::ConstraintEvaluator<'a, E> {
        DefaultConstraintEvaluator::new(air, aux_rand_elements, composition_coefficients)
    }
    fn build_aux_trace<E: FieldElement<BaseField = B>>(&self, trace: &FamTrace<B>, aux_rand_elements: &AuxRandElements<E>) -> ColMatrix<E> {
        let mut cols = gen_aux::<B, E>(&trace.spec, trace.main_segment(), aux_rand_elements.rand_elements());
        if let Some((c, s, d, whole)) = self.aux_corrupt {
            let dv = E::from(B::from(d as u32)) + E::ONE; // never zero: d < 2^32 - 1
            if whole { for v in cols[c].iter_mut() { *v += dv; } } else { cols[c][s] += dv; }
        }
        let ok = aux_is_valid::<B, E>(&trace.spec, trace.main_segment(), &cols, aux_rand_elements.rand_elements());
        AUX_VALID.with(|v| *v.borrow_mut() = Some(ok));
        // cross-check with the library's executable definition of validity, which the release prover never calls
        let air = FamAir::<B>::new(trace.info().clone(), PubInputs { spec: trace.spec.clone(), avals: self.avals.clone() }, self.options.clone());
        let atm = AuxTraceWithMetadata::<E, ()> { aux_trace: ColMatrix::new(cols.clone()), aux_rand_elements: aux_rand_elements.clone(), gkr_proof: None };
        let lib_valid = catch(AssertUnwindSafe(|| trace.validate::<FamAir<B>, E>(&air, Some(&atm)))).is_ok();
        let ref_valid = ok && is_valid(&trace.spec, &trace.cols(), &self.avals);
        AUX_AGREE.with(|v| *v.borrow_mut() = Some(lib_valid == ref_valid));
        ColMatrix::new(cols)
    }
}

// ------------------------------------------------------------------------------------------------ verdict classes
fn vclass(e: &VerifierError) -> &'static str {
    match e {
        VerifierError::InconsistentBaseField => "field",
        VerifierError::UnacceptableProofOptions | VerifierError::InsufficientConjecturedSecurity(..) | VerifierError::InsufficientProvenSecurity(..) => "options",
        VerifierError::InconsistentOodConstraintEvaluations => "ood",
        VerifierError::TraceQueryDoesNotMatchCommitment => "trace-query",
        VerifierError::ConstraintQueryDoesNotMatchCommitment => "cons-query",
        VerifierError::QuerySeedProofOfWorkVerificationFailed => "pow",
        VerifierError::FriVerificationFailed(_) => "fri",
        VerifierError::ProofDeserializationError(_) => "deser",
        VerifierError::RandomCoinError => "coin",
        VerifierError::UnsupportedFieldExtension(_) => "ext",
        VerifierError::GkrProofVerificationFailed(_) => "gkr",
        _ => "other",
    }
}

#[derive(Debug, Clone, PartialEq)]
enum Outcome { Accepted, Rejected(String), ProveFailed(String) }

struct Run { valid: bool, validate_agrees: Option<bool>, outcome: Outcome }

/// stream 1: one corrupted cell
fn run_corrupt<B, H>(c: &Case) -> Result<Run, String>
where B: StarkField + ExtensibleField<2> + ExtensibleField<3> + 'static, H: ElementHasher<BaseField = B> + Send + Sync {
    let spec = &c.spec;
    let opts = make_opts(&c.opts).ok_or("options")?;
    let mut cols = gen_main::<B>(spec);
    let honest = assertion_values(spec, &cols);
    if !is_valid(spec, &cols, &honest) { return Err("generator-produced-invalid-trace".into()); }
    let mut aux_corrupt = None;
    if c.claim.is_some() {
        // the trace stays as it is; the published assertion value is false
    } else if c.seg == 0 {
        let d = B::from((c.delta % 0xFFFF_FFFE) as u32) + B::ONE;
        cols[c.col][c.step] += d;
    } else {
        aux_corrupt = Some((c.col, c.step, c.delta % 0xFFFF_FFFE, c.aux_shift));
    }
    let mut published = if c.publish_corrupted { assertion_values(spec, &cols) } else { honest };
    if let Some((ai, vj)) = c.claim { published[ai][vj] += B::from((c.delta % 0xFFFF_FFFE) as u32) + B::ONE; }
    let main_valid = is_valid(spec, &cols, &published);
    let trace = FamTrace::new(spec, cols);
    let pi = PubInputs { spec: spec.clone(), avals: published.clone() };
    // cross-check the oracle with the library's executable definition of validity (main segment only)
    let validate_agrees = if spec.aux_width == 0 {
        let air = FamAir::<B>::new(trace.info().clone(), pi.clone(), opts.clone());
        let lib_valid = catch(AssertUnwindSafe(|| trace.validate::<FamAir<B>, B>(&air, None))).is_ok();
        Some(lib_valid == main_valid)
    } else { None };
    let prover = CProver::<B, H, DefaultRandomCoin<H>> { options: opts.clone(), avals: published, aux_corrupt, _p: PhantomData };
    AUX_VALID.with(|v| *v.borrow_mut() = None);
    AUX_AGREE.with(|v| *v.borrow_mut() = None);
    let res = catch(AssertUnwindSafe(|| prover.prove(trace)));
    let aux_valid = AUX_VALID.with(|v| *v.borrow()).unwrap_or(true);
    let validate_agrees = validate_agrees.or(AUX_AGREE.with(|v| *v.borrow()));
    let valid = main_valid && aux_valid;
    let proof = match res {
        Ok(Ok(p)) => p,
        Ok(Err(e)) => return Ok(Run { valid, validate_agrees, outcome: Outcome::ProveFailed(format!("err:{}", e)) }),
        Err(m) => return Ok(Run { valid, validate_agrees, outcome: Outcome::ProveFailed(format!("panic:{}", m.chars().take(120).collect::<String>())) }),
    };
    // through the wire format, as a verifier would receive it
    let proof = match Proof::from_bytes(&proof.to_bytes()) { Ok(p) => p, Err(e) => return Ok(Run { valid, validate_agrees, outcome: Outcome::Rejected(format!("reparse:{}", e)) }) };
    let acc = AcceptableOptions::OptionSet(vec![opts]);
    let outcome = match catch(AssertUnwindSafe(|| verify::<FamAir<B>, H, DefaultRandomCoin<H>>(proof, pi, &acc))) {
        Ok(Ok(())) => Outcome::Accepted,
        Ok(Err(e)) => Outcome::Rejected(vclass(&e).to_string()),
        Err(m) => Outcome::Rejected(format!("panic:{}", m.chars().take(80).collect::<String>())),
    };
    Ok(Run { valid, validate_agrees, outcome })
}

macro_rules! dispatch {
    ($f:ident, $field:expr, $hasher:expr, $($arg:expr),*) => {
        match ($field, $hasher) {
            ("f62", "blake3_256") => $f::<B62, Blake3_256<B62>>($($arg),*),
            ("f62", "sha3_256") => $f::<B62, Sha3_256<B62>>($($arg),*),
            ("f62", "rp62_248") => $f::<B62, Rp62_248>($($arg),*),
            ("f62", "toy") => $f::<B62, ToyHasher<B62>>($($arg),*),
            ("f64", "blake3_256") => $f::<B64, Blake3_256<B64>>($($arg),*),
            ("f64", "blake3_192") => $f::<B64, Blake3_192<B64>>($($arg),*),
            ("f64", "sha3_256") => $f::<B64, Sha3_256<B64>>($($arg),*),
            ("f64", "rp64_256") => $f::<B64, Rp64_256>($($arg),*),
            ("f64", "rpjive64_256") => $f::<B64, RpJive64_256>($($arg),*),
            ("f64", "toy") => $f::<B64, ToyHasher<B64>>($($arg),*),
            ("f128", "blake3_256") => $f::<B128, Blake3_256<B128>>($($arg),*),
            ("f128", "blake3_192") => $f::<B128, Blake3_192<B128>>($($arg),*),
            ("f128", "sha3_256") => $f::<B128, Sha3_256<B128>>($($arg),*),
            ("f128", "toy") => $f::<B128, ToyHasher<B128>>($($arg),*),
            _ => Err("unsupported-field-hasher".to_string()),
        }
    };
}

fn run_case(c: &Case) -> Result<Run, String> { dispatch!(run_corrupt, c.field, c.hasher, c) }

// ------------------------------------------------------------------------------------------------ admissibility (by the real constructors)
fn ctx_accepts(spec: &Spec, opts: &ProofOptions) -> bool {
    catch(AssertUnwindSafe(|| {
        let main: Vec<_> = (0..spec.width).map(|c| if spec.hold[c] || spec.rot_of(c) > 0 { TransitionConstraintDegree::new(1) } else { match spec.per_index(c) {
            Some(i) => TransitionConstraintDegree::with_cycles(spec.degs[c] as usize, vec![spec.periodic[i]]),
            None => TransitionConstraintDegree::new(spec.degs[c] as usize) } }).collect();
        let aux: Vec<_> = (0..spec.aux_width).map(|j| TransitionConstraintDegree::new(if j == 0 { 2 } else { 1 })).collect();
        let info = if spec.aux_width > 0 { TraceInfo::new_multi_segment(spec.width, spec.aux_width, spec.aux_rands, spec.n(), vec![]) } else { TraceInfo::new(spec.width, spec.n()) };
        let ctx: AirContext<B64> = if spec.aux_width > 0 {
            AirContext::new_multi_segment(info, main, aux, spec.assertions.len(), spec.aux_width + spec.aux_assert_last as usize, None, opts.clone())
        } else { AirContext::new(info, main, spec.assertions.len(), opts.clone()) };
        ctx.set_num_transition_exemptions(spec.exemptions).num_constraint_composition_columns()
    })).is_ok()
}

fn pick_fri(r: &mut Rng, lde: usize, blowup: usize) -> (usize, usize) {
    for _ in 0..64 {
        let fold = *r.pick(&[2usize, 4, 8, 16]);
        let rem = *r.pick(&[0usize, 1, 3, 7, 15, 31]);
        if fri_wellformed(lde, blowup, fold, rem) { return (fold, rem); }
    }
    (2, 0)
}

// ------------------------------------------------------------------------------------------------ case generation (stream 1)
static MAX_LOG_N: std::sync::atomic::AtomicU32 = std::sync::atomic::AtomicU32::new(6);

const CLASSES: [&str; 37] = [
    "main:first-step", "main:last-non-exempt(n-k-1)", "main:n-k", "main:n-k+1", "main:last-step", "main:interior", "main:exempt-only",
    "asserted:single:honest-avals", "asserted:single:corrupted-avals",
    "asserted:periodic:first:honest-avals", "asserted:periodic:middle:honest-avals", "asserted:periodic:last:honest-avals", "asserted:periodic:first:corrupted-avals",
    "asserted:periodic:middle:corrupted-avals",
    "asserted:sequence:first:honest-avals", "asserted:sequence:middle:honest-avals", "asserted:sequence:last:honest-avals",
    "asserted:sequence:first:corrupted-avals", "asserted:sequence:middle:corrupted-avals", "asserted:sequence:last:corrupted-avals",
    "aux:first-step", "aux:last-non-exempt(n-k-1)", "aux:n-k", "aux:n-k+1", "aux:last-step", "aux:interior", "random-spec:random-cell",
    "degenerate-spec:random-cell", "asserted:grouped-single:honest-avals", "asserted:grouped-sequence:honest-avals",
    // ONE main column and 2..3 auxiliary columns: more auxiliary than main transition constraints / assertions
    "aux-heavy:first-step", "aux-heavy:interior", "aux-heavy:last-non-exempt(n-k-1)", "aux-heavy:n-k", "aux-heavy:last-step",
    "aux-heavy:whole-column-shift", "aux-heavy:asserted-last-row",
];

/// A structured member of the family: column 0 carries a single assertion, column 1 (hold) a periodic one, column 2 a
/// sequence assertion, further columns are free; optional periodic columns and auxiliary segment.
fn structured_spec(r: &mut Rng, blowup: usize, want_aux: bool, min_k: usize) -> Spec { structured_spec_g(r, blowup, want_aux, min_k, false) }

/// `grouped`: two more assertions that share the divisor (group) of the single and of the sequence assertion: columns 3 and 4
fn structured_spec_g(r: &mut Rng, blowup: usize, want_aux: bool, min_k: usize, grouped: bool) -> Spec {
    let max_log = MAX_LOG_N.load(std::sync::atomic::Ordering::Relaxed);
    let log_n = if max_log > 6 && r.chance(1, 6) { 7 + r.below((max_log - 6) as u64) as u32 } else { 3 + r.below(4) as u32 }; // mostly 8 .. 64
    let n = 1usize << log_n;
    let width = if grouped { 5 + r.below(2) as usize } else { 3 + r.below(3) as usize };
    let nper = r.below(3) as usize;
    let periodic: Vec<usize> = (0..nper).map(|_| pow2_le(r, 1, log_n.min(4))).collect();
    let use_per: Vec<bool> = (0..width).map(|_| nper > 0 && r.chance(1, 2)).collect();
    let maxd = (blowup as u32).min(4);
    let degs: Vec<u32> = (0..width).map(|_| 1 + r.below(maxd as u64) as u32).collect();
    let mut hold = vec![false; width];
    hold[1] = true;
    let k = match r.below(4) { 0 => min_k.max(1), 1 => min_k.max(2), 2 => min_k.max(3), _ => min_k.max(1 + r.below((n / 2) as u64) as usize) };
    let single_step = match r.below(4) { 0 => 0, 1 => n - 1, 2 => n - k.min(n - 1), _ => r.below(n as u64) as usize };
    let ps = pow2_le(r, 1, log_n);
    let ss = pow2_le(r, 1, log_n - 1); // at least two sequence values
    let sfirst = r.below(ss as u64) as usize;
    let mut assertions = vec![
        AKind::Single { col: 0, step: single_step },
        AKind::Periodic { col: 1, first: r.below(ps as u64) as usize, stride: ps },
        AKind::Sequence { col: 2, first: sfirst, stride: ss },
    ];
    if grouped {
        assertions.push(AKind::Single { col: 3, step: single_step });
        assertions.push(AKind::Sequence { col: 4, first: sfirst, stride: ss });
    }
    let (aux_width, aux_rands) = if want_aux { (1 + r.below(3) as usize, 1 + r.below(3) as usize) } else { (0, 0) };
    Spec { width, log_n, degs, periodic, use_per, hold, exemptions: k, assertions, aux_width, aux_rands, aux_assert_last: false,
           seed: r.next_u64(), constant_trace: false, rot: vec![] }
}

/// One main column (one main transition constraint, one main assertion) and 2..3 auxiliary columns: the auxiliary segment has
/// MORE transition constraints and MORE assertions than the main one.  `assert_last`: additionally the last row of aux column 0
/// is asserted (exemptions >= 2, so no enforced transition reads that row).
fn aux_heavy_spec(r: &mut Rng, blowup: usize, min_k: usize, assert_last: bool) -> Spec {
    let log_n = 3 + r.below(4) as u32;
    let n = 1usize << log_n;
    let nper = r.below(2) as usize;
    let periodic: Vec<usize> = (0..nper).map(|_| pow2_le(r, 1, log_n.min(4))).collect();
    let k = match r.below(3) { 0 => min_k.max(1), 1 => min_k.max(2), _ => min_k.max(1 + r.below((n / 2) as u64) as usize) };
    let step = match r.below(3) { 0 => 0, 1 => n - 1, _ => r.below(n as u64) as usize };
    Spec { width: 1, log_n, degs: vec![1 + r.below((blowup as u64).min(3)) as u32], periodic, use_per: vec![nper > 0 && r.chance(1, 2)], hold: vec![false],
           exemptions: k, assertions: vec![AKind::Single { col: 0, step }], aux_width: 2 + r.below(2) as usize, aux_rands: 1 + r.below(3) as usize,
           aux_assert_last: assert_last, seed: r.next_u64(), constant_trace: false, rot: vec![] }
}

fn named_step(r: &mut Rng, steps: &[usize], which: &str) -> usize {
    match which { "first" => steps[0], "last" => steps[steps.len() - 1], _ => if steps.len() > 2 { steps[1 + r.below((steps.len() - 2) as u64) as usize] } else { steps[steps.len() / 2] } }
}

fn gen_case(r: &mut Rng, idx: usize) -> Option<Case> {
    let class = CLASSES[idx % CLASSES.len()];
    // field / hasher / extension: walk through the table of supported combinations so that every one occurs
    let round = idx / CLASSES.len();
    let mut combos: Vec<(&'static str, &'static str, u8)> = vec![];
    for f in FIELDS { for h in hashers_of(f) { for e in 1..=3u8 { if ext_supported(f, e) { combos.push((f, h, e)); } } } }
    let (field, hasher, ext) = combos[(round * 11 + (idx % CLASSES.len()) * 5) % combos.len()];
    let blowup = *r.pick(&[8usize, 8, 16]);
    let heavy = class.starts_with("aux-heavy:");
    let want_aux = class.starts_with("aux:") || (class.starts_with("main:") && r.chance(1, 4));
    let min_k = if class.ends_with("n-k+1") || class == "aux-heavy:asserted-last-row" { 2 } else if class == "main:exempt-only" { 3 } else { 1 };
    for _attempt in 0..40 {
        let spec = if class == "random-spec:random-cell" {
            let mut s = random_spec(r, 6, blowup);
            for d in s.degs.iter_mut() { *d = (*d).min(blowup as u32 - 1).max(1); }
            s
        } else if heavy {
            let al = class == "aux-heavy:asserted-last-row" || r.chance(1, 3);
            aux_heavy_spec(r, blowup, if al { min_k.max(2) } else { min_k }, al)
        } else if class == "degenerate-spec:random-cell" {
            // degenerate but valid members (as in the C01 boundary stream): all columns constant, the all-zero trace, low-degree
            // rotation columns a*x^j
            let mut s = structured_spec(r, blowup, false, 1);
            match r.below(3) {
                0 => { s.hold = vec![true; s.width]; s.assertions = vec![AKind::Single { col: 0, step: r.below(s.n() as u64) as usize }, AKind::Periodic { col: 1, first: 1, stride: 2 }]; }
                1 => { s.constant_trace = true; }
                _ => { s.rot = (0..s.width).map(|c| if c == 1 { 0 } else { 1 + r.below(3) as u32 }).collect(); }
            }
            s
        } else { structured_spec_g(r, blowup, want_aux, min_k, class.starts_with("asserted:grouped")) };
        let n = spec.n();
        let k = spec.exemptions;
        let lde = n * blowup;
        let (fold, rem) = pick_fri(r, lde, blowup);
        let q = 20 + r.below(21) as usize;
        let opts = Opts { q, blowup, grind: *r.pick(&[0u32, 0, 3]), ext, fold, rem };
        let po = match make_opts(&opts) { Some(p) => p, None => continue };
        if !fri_wellformed(lde, blowup, fold, rem) || q >= lde || !ctx_accepts(&spec, &po) { continue; }
        let free_col = |r: &mut Rng| -> usize { if spec.width > 3 { 3 + r.below((spec.width - 3) as u64) as usize } else { r.below(spec.width as u64) as usize } };
        let any_col = r.below(spec.width as u64) as usize;
        let parts: Vec<&str> = class.split(':').collect();
        let mut claim: Option<(usize, usize)> = None;
        let mut aux_shift = false;
        let (seg, col, step, publish_corrupted) = match parts[0] {
            "aux-heavy" => {
                // mostly the columns beyond the number of main constraints / assertions (index >= 1)
                let col = if r.chance(1, 4) { 0 } else { 1 + r.below((spec.aux_width - 1) as u64) as usize };
                let (col, step) = match parts[1] {
                    "first-step" => (col, 0),
                    "last-non-exempt(n-k-1)" => (col, n - k - 1),
                    "n-k" => (col, n - k),
                    "last-step" => (col, n - 1),
                    "whole-column-shift" => { aux_shift = true; (1 + r.below((spec.aux_width - 1) as u64) as usize, 0) }
                    "asserted-last-row" => (0, n - 1),
                    _ => (col, 1 + r.below((n - k - 1).max(1) as u64) as usize),
                };
                (1, col, step, false)
            }
            "main" | "aux" => {
                let seg = if parts[0] == "aux" { 1 } else { 0 };
                let col = if seg == 1 { r.below(spec.aux_width as u64) as usize } else if parts[1] == "exempt-only" { free_col(r) } else { any_col };
                let step = match parts[1] {
                    "first-step" => 0,
                    "last-non-exempt(n-k-1)" => n - k - 1,
                    "n-k" => n - k,
                    "n-k+1" => n - k + 1,
                    "last-step" => n - 1,
                    "exempt-only" => n - k + 1 + r.below((k - 1) as u64) as usize,
                    _ => 1 + r.below((n - k - 1).max(1) as u64) as usize,
                };
                (seg, col, step, r.chance(1, 2))
            }
            "asserted" => {
                let a = match parts[1] { "single" => &spec.assertions[0], "periodic" => &spec.assertions[1], "grouped-single" => &spec.assertions[3], "grouped-sequence" => &spec.assertions[4], _ => &spec.assertions[2] };
                let (col, steps) = assertion_steps(a, n);
                let which = if parts[1] == "single" || parts[1] == "grouped-single" { "first" } else if parts[1] == "grouped-sequence" { *r.pick(&["first", "middle", "last"]) } else { parts[2] };
                let st = named_step(r, &steps, which);
                // every second round of the honest-avals classes: a false claim instead of a corrupted cell, so that ONLY the
                // assertion (and no transition) is violated
                if class.ends_with("honest-avals") && round % 2 == 1 {
                    let ai = spec.assertions.iter().position(|b| b == a).unwrap();
                    let vj = match a { AKind::Sequence { .. } => steps.iter().position(|&x| x == st).unwrap(), _ => 0 };
                    claim = Some((ai, vj));
                }
                (0, col, st, class.ends_with("corrupted-avals"))
            }
            _ => (0, any_col, r.below(n as u64) as usize, r.chance(1, 2)),
        };
        if step >= n { continue; }
        let delta = match r.below(3) { 0 => 0, 1 => 0xFFFF_FFFD, _ => r.next_u64() };
        return Some(Case { idx, class: class.to_string(), field, hasher, spec, opts, seg, col, step, delta, publish_corrupted, aux_shift, claim });
    }
    None
}

// ------------------------------------------------------------------------------------------------ judgement
#[derive(Default)]
struct Tally { evals: usize, fails: usize, xchk: usize, classes: BTreeMap<String, [usize; 4]>, verdicts: BTreeMap<String, usize>, combos: BTreeMap<String, usize>, lagcov: BTreeMap<String, usize> }
// per class: [cases, invalid&rejected, valid&accepted, skipped]

fn fail_json(what: &str, c: &Case, expected: &str, actual: &str, extra: &str) -> String {
    format!("{{\"what\":{},\"input\":{},\"expected\":{},\"actual\":{}{}}}", jstr(what), jstr(&case_desc(c)), jstr(expected), jstr(actual), extra)
}

fn fnv(s: &str) -> u64 { let mut h: u64 = 0xcbf29ce484222325; for b in s.bytes() { h ^= b as u64; h = h.wrapping_mul(0x100000001b3); } h }

fn judge(c: &Case, t: &mut Tally, verbose: bool) {
    let e = t.classes.entry(c.class.clone()).or_insert([0; 4]);
    let run = match run_case(c) { Ok(r) => r, Err(m) => { e[3] += 1; if verbose { println!("skipped: {}", m); } return; } };
    e[0] += 1;
    t.evals += 1;
    // digest of the case without its index (distinct-case count of the evidence) and a few written-out samples
    { let mut c0 = c.clone(); c0.idx = 0; println!("h {:016x}", fnv(&case_desc(&c0))); }
    if c.idx % 97 == 0 { println!("sample {{\"case\":{},\"is_valid\":{},\"outcome\":{}}}", jstr(&case_desc(c)), run.valid, jstr(&format!("{:?}", run.outcome))); }
    *t.combos.entry(format!("{}/{}/ext{}", c.field, c.hasher, c.opts.ext)).or_insert(0) += 1;
    if verbose { println!("{}\nvalid={} validate_agrees={:?} outcome={:?}", case_desc(c), run.valid, run.validate_agrees, run.outcome); }
    if run.validate_agrees.is_some() { t.xchk += 1; }
    if run.validate_agrees == Some(false) {
        t.fails += 1;
        println!("{}", fail_json("oracle-disagreement: is_valid vs Trace::validate", c, "same verdict", &format!("is_valid={}", run.valid), ""));
    }
    let vk = match &run.outcome { Outcome::Accepted => "accepted".to_string(), Outcome::Rejected(s) => format!("rejected:{}", s.split(':').next().unwrap_or("")), Outcome::ProveFailed(s) => format!("prove-failed:{}", s.split(':').next().unwrap_or("")) };
    *t.verdicts.entry(format!("{}{}", if run.valid { "valid->" } else { "invalid->" }, vk)).or_insert(0) += 1;
    match (run.valid, &run.outcome) {
        (false, Outcome::Accepted) => {
            // an apparent acceptance of an invalid trace: repeat with other coin seeds (hashers) before reporting
            let mut confirmations = 0;
            let mut tried = 0;
            for h in hashers_of(c.field) {
                if *h == c.hasher { continue; }
                let mut c2 = c.clone();
                c2.hasher = h;
                if let Ok(r2) = run_case(&c2) { tried += 1; if !r2.valid && r2.outcome == Outcome::Accepted { confirmations += 1; } }
                if tried >= 3 { break; }
            }
            t.fails += 1;
            println!("{}", fail_json("accepted proof of an INVALID trace", c, "rejected (is_valid = false)", "verify = Ok", &format!(",\"confirmed_with_other_hashers\":\"{}/{}\"", confirmations, tried)));
        }
        (false, _) => e[1] += 1,
        (true, Outcome::Accepted) => e[2] += 1,
        (true, o) => {
            t.fails += 1;
            println!("{}", fail_json("corruption leaves the trace VALID but the statement is not accepted", c, "accepted (is_valid = true)", &format!("{:?}", o), ""));
        }
    }
}

// ------------------------------------------------------------------------------------------------ stream 2: perturbed public inputs
fn pert_pub<B, H>(r: &mut Rng, spec: &Spec, o: &Opts, t: &mut Tally, idx: usize) -> Result<(), String>
where B: StarkField + ExtensibleField<2> + ExtensibleField<3> + 'static, H: ElementHasher<BaseField = B> + Send + Sync {
    let opts = make_opts(o).ok_or("options")?;
    let cols = gen_main::<B>(spec);
    let avals = assertion_values(spec, &cols);
    let trace = FamTrace::new(spec, cols);
    let prover = FamProver::<B, H, DefaultRandomCoin<H>>::new(opts.clone());
    let pi = PubInputs { spec: spec.clone(), avals: avals.clone() };
    let proof = match catch(AssertUnwindSafe(|| prover.prove(trace))) { Ok(Ok(p)) => p, _ => return Err("prove".into()) };
    let bytes = proof.to_bytes();
    let acc = AcceptableOptions::OptionSet(vec![opts.clone()]);
    // sanity: the unperturbed statement is accepted
    match catch(AssertUnwindSafe(|| verify::<FamAir<B>, H, DefaultRandomCoin<H>>(Proof::from_bytes(&bytes).unwrap(), pi.clone(), &acc))) {
        Ok(Ok(())) => {}, other => return Err(format!("honest-proof-not-accepted:{:?}", other.map(|x| x.map_err(|e| vclass(&e)))))
    }
    let n = spec.n();
    let check = |class: &str, what: String, proof: Proof, pi2: PubInputs<B>, acc2: &AcceptableOptions, t: &mut Tally| {
        let e = t.classes.entry(format!("pub:{}", class)).or_insert([0; 4]);
        e[0] += 1;
        t.evals += 1;
        let out = catch(AssertUnwindSafe(|| verify::<FamAir<B>, H, DefaultRandomCoin<H>>(proof, pi2, acc2)));
        let vk = match &out { Ok(Ok(())) => "accepted".to_string(), Ok(Err(er)) => format!("rejected:{}", vclass(er)), Err(_) => "rejected:panic".to_string() };
        println!("h {:016x}", fnv(&format!("stream2 {} {} {} {:?} {:?}", std::any::type_name::<H>(), class, what, o, spec)));
        *t.verdicts.entry(format!("pub:{}->{}", class, vk)).or_insert(0) += 1;
        if let Ok(Ok(())) = out {
            t.fails += 1;
            println!("{{\"what\":{},\"input\":{},\"expected\":\"rejected\",\"actual\":\"verify = Ok\"}}",
                jstr(&format!("proof accepted for a DIFFERENT statement ({})", class)),
                jstr(&format!("stream2 idx={} field={} hasher={} opts={:?} perturbation={} spec={:?}", idx, std::any::type_name::<B>(), std::any::type_name::<H>(), o, what, spec)));
        } else { e[1] += 1; }
    };
    let p = || Proof::from_bytes(&bytes).unwrap();
    // (a) every assertion value +-1 (first / middle / last value of sequences)
    for (i, a) in avals.iter().enumerate() {
        let mut js = vec![0, a.len() / 2, a.len() - 1]; js.dedup();
        for j in js {
            for sign in [true, false] {
                let mut av = avals.clone();
                if sign { av[i][j] += B::ONE; } else { av[i][j] -= B::ONE; }
                let kind = match spec.assertions[i] { AKind::Single { .. } => "single", AKind::Periodic { .. } => "periodic", AKind::Sequence { .. } => "sequence" };
                check(&format!("assertion-value:{}", kind), format!("avals[{}][{}]{}1", i, j, if sign { "+" } else { "-" }), p(), PubInputs { spec: spec.clone(), avals: av }, &acc, t);
            }
        }
    }
    // (b) shape fields of the statement (the verifier builds a different AIR / seed)
    let mut shapes: Vec<(&str, Spec)> = vec![];
    { let mut s = spec.clone(); s.seed ^= 1; shapes.push(("spec-seed", s)); }
    { let mut s = spec.clone(); s.exemptions += 1; shapes.push(("exemptions+1", s)); }
    if spec.exemptions > 1 { let mut s = spec.clone(); s.exemptions -= 1; shapes.push(("exemptions-1", s)); }
    { let mut s = spec.clone(); let c = r.below(s.width as u64) as usize; s.degs[c] += 1; if !s.hold[c] { shapes.push(("degree+1", s)); } }
    { let mut s = spec.clone(); let c = r.below(s.width as u64) as usize; if s.degs[c] > 1 && !s.hold[c] { s.degs[c] -= 1; shapes.push(("degree-1", s)); } }
    for (i, a) in spec.assertions.iter().enumerate() {
        let mut s = spec.clone();
        s.assertions[i] = match a {
            AKind::Single { col, step } => AKind::Single { col: *col, step: (*step + 1) % n },
            AKind::Periodic { col, first, stride } => AKind::Periodic { col: *col, first: (*first + 1) % *stride, stride: *stride },
            AKind::Sequence { col, first, stride } => AKind::Sequence { col: *col, first: (*first + 1) % *stride, stride: *stride },
        };
        shapes.push(("assertion-step+1", s));
    }
    for (name, s) in shapes {
        if !ctx_accepts(&s, &opts) { continue; }
        // the perturbed statement keeps the published values; skip the (astronomically unlikely) case where the honest
        // trace also satisfies the perturbed statement
        let cols = gen_main::<B>(spec);
        if is_valid(&s, &cols, &avals) { continue; }
        check(&format!("shape:{}", name), name.to_string(), p(), PubInputs { spec: s, avals: avals.clone() }, &acc, t);
    }
    // (c) proof options: the verifier expects other options / the proof claims other options
    let variants: Vec<(&str, Opts)> = vec![
        ("queries+1", Opts { q: o.q + 1, ..o.clone() }), ("queries-1", Opts { q: o.q - 1, ..o.clone() }),
        ("blowup*2", Opts { blowup: o.blowup * 2, ..o.clone() }), ("blowup/2", Opts { blowup: o.blowup / 2, ..o.clone() }),
        ("grinding+1", Opts { grind: o.grind + 1, ..o.clone() }),
        ("extension", Opts { ext: if o.ext == 1 { 2 } else { 1 }, ..o.clone() }),
        ("folding", Opts { fold: if o.fold == 2 { 4 } else { o.fold / 2 }, ..o.clone() }),
        ("remainder", Opts { rem: if o.rem == 0 { 1 } else { (o.rem + 1) / 2 - 1 }, ..o.clone() }),
    ];
    for (name, v) in variants {
        let vo = match make_opts(&v) { Some(x) => x, None => continue };
        if vo == opts { continue; }
        // verifier accepts only the other option set
        check(&format!("options-expected:{}", name), name.to_string(), p(), pi.clone(), &AcceptableOptions::OptionSet(vec![vo.clone()]), t);
        // the proof claims the other option set, which the verifier would accept
        let mut pr = p();
        pr.context = Context::new::<B>(pr.context.trace_info().clone(), vo.clone());
        check(&format!("options-claimed:{}", name), name.to_string(), pr, pi.clone(), &AcceptableOptions::OptionSet(vec![vo, opts.clone()]), t);
    }
    // (d) trace shape in the proof context
    let mut infos: Vec<(&str, TraceInfo)> = vec![("length*2", TraceInfo::new(spec.width, n * 2)), ("width+1", TraceInfo::new(spec.width + 1, n))];
    if n > 8 { infos.push(("length/2", TraceInfo::new(spec.width, n / 2))); }
    if spec.width > 1 { infos.push(("width-1", TraceInfo::new(spec.width - 1, n))); }
    if spec.aux_width == 0 { infos.push(("aux-segment-added", TraceInfo::new_multi_segment(spec.width, 1, 1, n, vec![]))); }
    infos.push(("meta-added", TraceInfo::with_meta(spec.width, n, vec![1])));
    for (name, info) in infos {
        if spec.aux_width > 0 && name != "meta-added" { continue; }
        if spec.aux_width > 0 { continue; }
        let mut pr = p();
        pr.context = Context::new::<B>(info, opts.clone());
        check(&format!("trace-info:{}", name), name.to_string(), pr, pi.clone(), &acc, t);
    }
    Ok(())
}

fn stream2(r: &mut Rng, n: usize, t: &mut Tally) {
    let mut done = 0;
    let mut i = 0;
    while done < n && i < 10 * n + 10 {
        i += 1;
        let field = FIELDS[i % 3];
        let hs = hashers_of(field);
        let hasher = hs[(i / 3) % hs.len()];
        let ext = { let e = 1 + ((i / 3 / hs.len()) % 3) as u8; if ext_supported(field, e) { e } else { 1 } };
        let blowup = *r.pick(&[8usize, 16]);
        let spec = if r.chance(1, 3) { let mut s = random_spec(r, 6, blowup); for d in s.degs.iter_mut() { *d = (*d).min(blowup as u32 - 1).max(1); } s } else { let wa = r.chance(1, 5); structured_spec(r, blowup, wa, 1) };
        let lde = spec.n() * blowup;
        let (fold, rem) = pick_fri(r, lde, blowup);
        let o = Opts { q: 20 + r.below(21) as usize, blowup, grind: *r.pick(&[0u32, 2]), ext, fold, rem };
        let po = match make_opts(&o) { Some(p) => p, None => continue };
        if !fri_wellformed(lde, blowup, fold, rem) || o.q >= lde || !ctx_accepts(&spec, &po) { continue; }
        let res: Result<(), String> = dispatch!(pert_pub, field, hasher, r, &spec, &o, t, i);
        match res {
            Ok(()) => done += 1,
            Err(m) => { *t.verdicts.entry(format!("pub:skipped:{}", m.chars().take(40).collect::<String>())).or_insert(0) += 1; }
        }
    }
}

// ------------------------------------------------------------------------------------------------ stream 3: Lagrange kernel column
// Members of the Lagrange family (harness/src/lagfam.rs: one main column 0,1,2,.., `aw` auxiliary columns, the last one
// declared as Lagrange kernel column).  The column must hold  c(i) = prod_b (r_b if bit b of i is set else 1 - r_b)  for the
// v = log2(n) random elements r of the GKR step; the library enforces it with ONE boundary constraint c(0) = prod (1 - r_b)
// and v transition constraints (air/src/air/lagrange/transition.rs): constraint k (1..v) is
//      r_(v-k) * c(x) = (1 - r_(v-k)) * c(g^(2^(v-k)) * x)   on the subgroup of size 2^(k-1),
// i.e. it reads the rows i = j * 2^(v-k+1) (as c(x)) and i + 2^(v-k).  Constraint v is the only one that reads odd rows.
// A row m = 2^(v-k) * odd is read by constraint k (as the shifted row) and by every constraint k' > k (as c(x)); multiplying
// the whole block [m, m + 2^(v-k)) by a factor != 1 keeps the (homogeneous) constraints k' > k inside the block and breaks
// constraint k at the single step m - 2^(v-k): exactly ONE violated constraint.
// Oracle (independent of the library): the definition above, evaluated on the column the prover commits to.
#[derive(Clone, Debug)]
enum LagCorr { None, AddRows(Vec<usize>), ScaleBlock { start: usize, len: usize }, ScaleAll }

#[derive(Clone, Debug)]
struct LagCase { idx: usize, class: String, field: &'static str, hasher: &'static str, opts: Opts, log_n: u32, aw: usize, nr: usize, corr: LagCorr, delta: u64 }

#[derive(Clone, Debug, Default)]
struct LagOracle { is_kernel: bool, boundary_violated: bool, violated: Vec<usize> } // violated: constraint numbers k in 1..=v

thread_local! { static LAG_ORACLE: RefCell<Option<LagOracle>> = RefCell::new(None); }

fn lag_oracle<E: FieldElement>(col: &[E], r: &[E]) -> LagOracle {
    let n = col.len();
    let v = r.len();
    let kernel: Vec<E> = (0..n).map(|row| r.iter().enumerate().fold(E::ONE, |acc, (bit, &ri)| if row & (1 << bit) == 0 { acc * (E::ONE - ri) } else { acc * ri })).collect();
    let boundary_violated = col[0] != r.iter().fold(E::ONE, |a, &ri| a * (E::ONE - ri));
    let mut violated = vec![];
    for k in 1..=v {
        let shift = 1usize << (v - k);
        let step = shift * 2;
        let rk = r[v - k];
        if (0..n).step_by(step).any(|i| rk * col[i] != (E::ONE - rk) * col[i + shift]) { violated.push(k); }
    }
    LagOracle { is_kernel: col == &kernel[..], boundary_violated, violated }
}

struct LagCProver<B: StarkField, H, R> { options: ProofOptions, aw: usize, corr: LagCorr, delta: u64, _p: PhantomData<(B, H, R)> }

impl<B, H, R> Prover for LagCProver<B, H, R>
where B: StarkField + ExtensibleField<2> + ExtensibleField<3> + 'static, H: ElementHasher<BaseField = B> + Send + Sync,
      R: RandomCoin<BaseField = B, Hasher = H> + Send + Sync {
    type BaseField = B;
    type Air = LagAir<B>;
    type Trace = LagTrace<B>;
    type HashFn = H;
    type RandomCoin = R;
    type TraceLde<E: FieldElement<BaseField = B>> = DefaultTraceLde<E, H>;
    type ConstraintEvaluator<'a, E: FieldElement<BaseField = B>> = DefaultConstraintEvaluator<'a, LagAir<B>, E>;
    fn get_pub_inputs(&self, _t: &LagTrace<B>) {}
    fn options(&self) -> &ProofOptions { &self.options }
    fn new_trace_lde<E: FieldElement<BaseField = B>>(&self, trace_info: &TraceInfo, main_trace: &ColMatrix<B>, domain: &StarkDomain<B>) -> (Self::TraceLde<E>, TracePolyTable<E>) { DefaultTraceLde::new(trace_info, main_trace, domain) }
    fn new_evaluator<'a, E: FieldElement<BaseField = B>>(&self, air: &'a LagAir<B>, aux: Option<AuxRandElements<E>>, cc: ConstraintCompositionCoefficients<E>) -> Self::ConstraintEvaluator<'a, E> { DefaultConstraintEvaluator::new(air, aux, cc) }
    fn generate_gkr_proof<E: FieldElement<BaseField = B>>(&self, main_trace: &LagTrace<B>, public_coin: &mut Self::RandomCoin) -> (ProverGkrProof<Self>, LagrangeKernelRandElements<E>) {
        let k = main_trace.main.num_rows().ilog2() as usize;
        let v: Vec<E> = (0..k).map(|_| public_coin.draw().unwrap()).collect();
        (k, LagrangeKernelRandElements::new(v))
    }
    fn build_aux_trace<E: FieldElement<BaseField = B>>(&self, main_trace: &LagTrace<B>, aux: &AuxRandElements<E>) -> ColMatrix<E> {
        // the honest columns exactly as LagProver builds them ...
        let main = main_trace.main_segment();
        let r = aux.lagrange().expect("lagrange random elements");
        let sum = r.iter().fold(E::ZERO, |a, &x| a + x) + aux.rand_elements().iter().fold(E::ZERO, |a, &x| a + x);
        let mut cols: Vec<Vec<E>> = (1..self.aw).map(|_| main.get_column(0).iter().map(|v| sum.mul_base(*v)).collect()).collect();
        let n = main.num_rows();
        let mut lag: Vec<E> = (0..n).map(|row| r.iter().enumerate().fold(E::ONE, |acc, (bit, &ri)| if row & (1 << bit) == 0 { acc * (E::ONE - ri) } else { acc * ri })).collect();
        // ... then the corruption of the Lagrange kernel column
        let dv = E::from(B::from((self.delta % 0xFFFF_FFFE) as u32)) + E::ONE;       // never zero
        let lam = E::from(B::from(2 + (self.delta % 1000) as u32));                  // never zero or one
        match &self.corr {
            LagCorr::None => {}
            LagCorr::AddRows(rows) => for &i in rows { lag[i] += dv; },
            LagCorr::ScaleBlock { start, len } => for i in *start..*start + *len { lag[i] *= lam; },
            LagCorr::ScaleAll => for x in lag.iter_mut() { *x *= lam; },
        }
        let rv: Vec<E> = r.iter().copied().collect();
        LAG_ORACLE.with(|o| *o.borrow_mut() = Some(lag_oracle(&lag, &rv)));
        cols.push(lag);
        ColMatrix::new(cols)
    }
}

struct LagRun { oracle: LagOracle, outcome: Outcome }

fn run_lag<B, H>(c: &LagCase) -> Result<LagRun, String>
where B: StarkField + ExtensibleField<2> + ExtensibleField<3> + 'static, H: ElementHasher<BaseField = B> + Send + Sync {
    let opts = make_opts(&c.opts).ok_or("options")?;
    let trace = LagTrace::<B>::new(c.log_n, c.aw, c.nr);
    let prover = LagCProver::<B, H, DefaultRandomCoin<H>> { options: opts.clone(), aw: c.aw, corr: c.corr.clone(), delta: c.delta, _p: PhantomData };
    LAG_ORACLE.with(|o| *o.borrow_mut() = None);
    let res = catch(AssertUnwindSafe(|| prover.prove(trace)));
    let oracle = LAG_ORACLE.with(|o| o.borrow().clone()).ok_or("aux-trace-not-built")?;
    // the oracle's two readings of the definition must agree: the column is the kernel <=> no constraint is violated
    if oracle.is_kernel != (!oracle.boundary_violated && oracle.violated.is_empty()) { return Err("lagrange-oracle-inconsistent".into()); }
    let proof = match res {
        Ok(Ok(p)) => p,
        Ok(Err(e)) => return Ok(LagRun { oracle, outcome: Outcome::ProveFailed(format!("err:{}", e)) }),
        Err(m) => return Ok(LagRun { oracle, outcome: Outcome::ProveFailed(format!("panic:{}", m.chars().take(120).collect::<String>())) }),
    };
    let proof = match Proof::from_bytes(&proof.to_bytes()) { Ok(p) => p, Err(e) => return Ok(LagRun { oracle, outcome: Outcome::Rejected(format!("reparse:{}", e)) }) };
    let acc = AcceptableOptions::OptionSet(vec![opts]);
    let outcome = match catch(AssertUnwindSafe(|| verify::<LagAir<B>, H, DefaultRandomCoin<H>>(proof, (), &acc))) {
        Ok(Ok(())) => Outcome::Accepted,
        Ok(Err(e)) => Outcome::Rejected(vclass(&e).to_string()),
        Err(m) => Outcome::Rejected(format!("panic:{}", m.chars().take(80).collect::<String>())),
    };
    Ok(LagRun { oracle, outcome })
}

fn run_lag_case(c: &LagCase) -> Result<LagRun, String> { dispatch!(run_lag, c.field, c.hasher, c) }

const LAG_NAMED: [&str; 9] = ["lagrange:honest", "lagrange:odd-rows-only", "lagrange:even-rows-only", "lagrange:single-row-0", "lagrange:single-row-1",
    "lagrange:single-row-2", "lagrange:single-row-n/2", "lagrange:single-row-n-1", "lagrange:boundary-value"];
/// trace lengths for which every one of the log2(n) transition constraints must be the ONLY violated one in some case
const LAG_ONLY_LOGS: [u32; 3] = [3, 4, 6];

fn lag_case_desc(c: &LagCase) -> String {
    format!("stream3 idx={} class={} field={} hasher={} opts={:?} n={} aux_width={} aux_rands={} corruption={:?} delta={}", c.idx, c.class, c.field, c.hasher, c.opts, 1usize << c.log_n, c.aw, c.nr, c.corr, c.delta)
}

fn gen_lag_cases(r: &mut Rng, rounds: usize) -> Vec<LagCase> {
    let mut combos: Vec<(&'static str, &'static str, u8)> = vec![];
    for f in FIELDS { for h in hashers_of(f) { for e in 1..=3u8 { if ext_supported(f, e) { combos.push((f, h, e)); } } } }
    let mut out = vec![];
    let mut idx = 0;
    for round in 0..rounds {
        let mut plan: Vec<(String, u32)> = LAG_NAMED.iter().map(|c| (c.to_string(), 3 + r.below(4) as u32)).collect();
        for &lg in LAG_ONLY_LOGS.iter() { for k in 1..=lg { plan.push((format!("lagrange:only-constraint:n{}:k{}", 1usize << lg, k), lg)); } }
        for (ci, (class, log_n)) in plan.into_iter().enumerate() {
            let n = 1usize << log_n;
            let v = log_n as usize;
            let (field, hasher, ext) = combos[(round * 7 + ci * 5) % combos.len()];
            let blowup = *r.pick(&[8usize, 8, 16]);
            let lde = n * blowup;
            let (fold, rem) = pick_fri(r, lde, blowup);
            let q = (20 + r.below(21) as usize).min(lde - 1);
            let opts = Opts { q, blowup, grind: *r.pick(&[0u32, 0, 3]), ext, fold, rem };
            let parts: Vec<&str> = class.split(':').collect();
            let corr = match parts[1] {
                "honest" => LagCorr::None,
                "odd-rows-only" => if r.chance(1, 2) { LagCorr::AddRows((0..n).filter(|i| i % 2 == 1).collect()) } else {
                    let mut rows: Vec<usize> = (0..n).filter(|i| i % 2 == 1 && r.chance(1, 3)).collect();
                    if rows.is_empty() { rows.push(1 + 2 * r.below((n / 2) as u64) as usize); }
                    LagCorr::AddRows(rows) },
                "even-rows-only" => {
                    let mut rows: Vec<usize> = (0..n).filter(|i| i % 2 == 0 && r.chance(1, 3)).collect();
                    if rows.is_empty() { rows.push(2 * r.below((n / 2) as u64) as usize); }
                    LagCorr::AddRows(rows) }
                "single-row-0" => LagCorr::AddRows(vec![0]),
                "single-row-1" => LagCorr::AddRows(vec![1]),
                "single-row-2" => LagCorr::AddRows(vec![2]),
                "single-row-n/2" => LagCorr::AddRows(vec![n / 2]),
                "single-row-n-1" => LagCorr::AddRows(vec![n - 1]),
                "boundary-value" => LagCorr::ScaleAll,
                _ => {
                    let k: usize = parts[3][1..].parse().unwrap();
                    let len = 1usize << (v - k);
                    let odd = 1 + 2 * r.below((1u64 << k) / 2) as usize;   // odd < 2^k
                    LagCorr::ScaleBlock { start: len * odd, len }
                }
            };
            out.push(LagCase { idx, class, field, hasher, opts, log_n, aw: 2 + r.below(2) as usize, nr: r.below(3) as usize, corr, delta: r.next_u64() });
            idx += 1;
        }
    }
    out
}

fn stream3(r: &mut Rng, rounds: usize, t: &mut Tally, only: Option<usize>) {
    for c in gen_lag_cases(r, rounds) {
        if let Some(o) = only { if o != c.idx { continue; } }
        let e = t.classes.entry(c.class.clone()).or_insert([0; 4]);
        let run = match run_lag_case(&c) { Ok(x) => x, Err(m) => {
            e[3] += 1;
            if m == "lagrange-oracle-inconsistent" { t.fails += 1; println!("{{\"what\":\"oracle-disagreement: Lagrange kernel definition vs its constraints\",\"input\":{},\"expected\":\"column is the kernel <=> no constraint violated\",\"actual\":\"inconsistent\"}}", jstr(&lag_case_desc(&c))); }
            if only.is_some() { println!("skipped: {}", m); }
            continue; } };
        e[0] += 1;
        t.evals += 1;
        { let mut c0 = c.clone(); c0.idx = 0; println!("h {:016x}", fnv(&lag_case_desc(&c0))); }
        *t.combos.entry(format!("{}/{}/ext{}", c.field, c.hasher, c.opts.ext)).or_insert(0) += 1;
        let valid = run.oracle.is_kernel;
        if only.is_some() { println!("{}\noracle={:?} outcome={:?}", lag_case_desc(&c), run.oracle, run.outcome); }
        let vk = match &run.outcome { Outcome::Accepted => "accepted".to_string(), Outcome::Rejected(s) => format!("rejected:{}", s.split(':').next().unwrap_or("")), Outcome::ProveFailed(s) => format!("prove-failed:{}", s.split(':').next().unwrap_or("")) };
        *t.verdicts.entry(format!("lagrange:{}{}", if valid { "valid->" } else { "invalid->" }, vk)).or_insert(0) += 1;
        let vio = format!("boundary_violated={} violated_transition_constraints={:?}", run.oracle.boundary_violated, run.oracle.violated);
        // which (n, k) had constraint k as the ONLY violated constraint
        if !run.oracle.boundary_violated && run.oracle.violated.len() == 1 {
            *t.lagcov.entry(format!("n{}:k{}", 1usize << c.log_n, run.oracle.violated[0])).or_insert(0) += 1;
        }
        match (valid, &run.outcome) {
            (false, Outcome::Accepted) => {
                let mut confirmations = 0;
                let mut tried = 0;
                for h in hashers_of(c.field) {
                    if *h == c.hasher { continue; }
                    let mut c2 = c.clone();
                    c2.hasher = h;
                    if let Ok(r2) = run_lag_case(&c2) { tried += 1; if !r2.oracle.is_kernel && r2.outcome == Outcome::Accepted { confirmations += 1; } }
                    if tried >= 3 { break; }
                }
                t.fails += 1;
                println!("{{\"what\":\"accepted proof of an INVALID Lagrange kernel column\",\"input\":{},\"expected\":{},\"actual\":\"verify = Ok\",\"confirmed_with_other_hashers\":\"{}/{}\"}}",
                    jstr(&lag_case_desc(&c)), jstr(&format!("rejected ({})", vio)), confirmations, tried);
            }
            (false, _) => e[1] += 1,
            (true, Outcome::Accepted) => e[2] += 1,
            (true, o) => {
                t.fails += 1;
                println!("{{\"what\":\"valid Lagrange kernel column not accepted\",\"input\":{},\"expected\":\"accepted\",\"actual\":{}}}", jstr(&lag_case_desc(&c)), jstr(&format!("{:?}", o)));
            }
        }
    }
}

// ------------------------------------------------------------------------------------------------ correspondence
fn fhex<E: FieldElement>(e: E) -> String {
    // one base-field element: canonical little-endian bytes -> big-endian hex
    let mut b = e.to_bytes();
    b.reverse();
    let s: String = b.iter().map(|x| format!("{:02x}", x)).collect();
    let s = s.trim_start_matches('0');
    if s.is_empty() { "0".into() } else { s.into() }
}
/// an element of the carrier E (base field or extension): its base-field coefficients c0_c1(_c2)
fn ehex<E: FieldElement>(e: E) -> String { E::slice_as_base_elements(&[e]).iter().map(|&b| fhex(b)).collect::<Vec<_>>().join("_") }
fn lst<E: FieldElement>(v: &[E]) -> String { if v.is_empty() { "-".into() } else { v.iter().map(|&e| ehex(e)).collect::<Vec<_>>().join(",") } }
fn rows<E: FieldElement>(v: &[Vec<E>]) -> String { if v.is_empty() { "-".into() } else { v.iter().map(|r| lst(r)).collect::<Vec<_>>().join("|") } }
fn le_hex_to_be(h: &str) -> String {
    let bytes: Vec<&str> = (0..h.len() / 2).map(|i| &h[2 * i..2 * i + 2]).collect();
    let s: String = bytes.iter().rev().cloned().collect();
    let s = s.trim_start_matches('0');
    if s.is_empty() { "0".into() } else { s.to_string() }
}

fn modulus_hex<B: StarkField>() -> String {
    let mut b = B::get_modulus_le_bytes();
    b.reverse();
    let s: String = b.iter().map(|x| format!("{:02x}", x)).collect();
    s.trim_start_matches('0').to_string()
}
fn opts_words(o: &ProofOptions) -> String {
    let ext = match o.field_extension() { FieldExtension::None => 1, FieldExtension::Quadratic => 2, FieldExtension::Cubic => 3 };
    let f = o.to_fri_options();
    format!("{:x},{:x},{:x},{:x},{:x},{:x}", o.num_queries(), o.blowup_factor(), o.grinding_factor(), ext, f.folding_factor(), f.remainder_max_degree())
}

struct CoinLog { draws: Vec<String>, positions: Option<Vec<usize>>, pow: Option<u32>, seed: Option<Vec<String>> }
fn parse_log(log: &[String]) -> CoinLog {
    let mut draws = vec![];
    let mut positions = None;
    let mut pow = None;
    let mut seed = None;
    for l in log {
        let w: Vec<&str> = l.split(' ').collect();
        if w.len() >= 3 && w[1] == "new" { seed = Some(w[2].trim_matches(|c| c == '[' || c == ']').split(',').filter(|x| !x.is_empty()).map(le_hex_to_be).collect()); }
        if w.len() >= 5 && w[1] == "draw" && w[4] != "err" {
            // "draw deg<D> -> <bytes>": D base-field coefficients, each little-endian
            let deg: usize = w[2].trim_start_matches("deg").parse().unwrap_or(1).max(1);
            let k = w[4].len() / deg;
            draws.push((0..deg).map(|i| le_hex_to_be(&w[4][i * k..(i + 1) * k])).collect::<Vec<_>>().join("_"));
        }
        if w.len() >= 4 && w[1] == "check_leading_zeros" { pow = w[4].parse().ok(); }
        if w.len() >= 2 && w[1] == "draw_integers" {
            if let Some(p) = l.find("-> [") {
                let inner = &l[p + 4..l.len() - 1];
                positions = Some(inner.split(", ").filter(|s| !s.is_empty()).map(|s| s.parse().unwrap()).collect());
            }
        }
    }
    CoinLog { draws, positions, pow, seed }
}

fn field_name<B: StarkField>() -> &'static str {
    if std::any::type_name::<B>().contains("f128") { "f128" } else if std::any::type_name::<B>().contains("f62") { "f62" } else { "f64" }
}

/// one correspondence line: the statement (pi, acceptable options) + a (possibly perturbed) proof.  E is the carrier of the
/// proof's options (base field, quadratic or cubic extension); the trace may have an auxiliary segment.
fn corr_line<B, E, H>(tag: &str, proof: Proof, pi: &PubInputs<B>, acc_opts: &[ProofOptions], out: &mut Vec<String>)
where B: StarkField + ExtensibleField<2> + ExtensibleField<3> + 'static, E: FieldElement<BaseField = B>, H: ElementHasher<BaseField = B> + Send + Sync {
    let spec = &pi.spec;
    let bytes = proof.to_bytes();
    let popts = proof.options().clone();
    let info = proof.trace_info().clone();
    // ---- implementation verdict, coin outputs recorded
    let _ = coinrec::take_log();
    let acc = AcceptableOptions::OptionSet(acc_opts.to_vec());
    let res = catch(AssertUnwindSafe(|| verify::<FamAir<B>, H, RecordingCoin<DefaultRandomCoin<H>>>(proof, pi.clone(), &acc)));
    let log = parse_log(&coinrec::take_log());
    let verdict = match &res { Ok(Ok(())) => "accept".to_string(), Ok(Err(e)) => vclass(e).to_string(), Err(_) => "panic".to_string() };
    // ---- everything the model needs, obtained through the public API of the library
    let proof = Proof::from_bytes(&bytes).unwrap();
    let air = FamAir::<B>::new(info.clone(), pi.clone(), popts.clone());
    let n = air.trace_length();
    let w = info.main_trace_width();
    let aw = if info.is_multi_segment() { info.aux_segment_width() } else { 0 };
    let nr = if info.is_multi_segment() { info.get_num_aux_segment_rand_elements() } else { 0 };
    let lde = air.lde_domain_size();
    let ncols = air.context().num_constraint_composition_columns();
    let nt = air.context().num_transition_constraints();
    let ntm = air.context().num_main_transition_constraints();
    let na = air.context().num_assertions();
    let fri_opts = popts.to_fri_options();
    // the coin outputs in the order in which verify() draws them: auxiliary random elements, transition coefficients (main, then
    // auxiliary), boundary coefficients (main, then auxiliary), z, DEEP coefficients of the trace columns (main, then auxiliary),
    // DEEP coefficients of the constraint columns
    let d = &log.draws;
    let take = |from: usize, k: usize| -> String { if d.len() >= from + k && k > 0 { d[from..from + k].join(",") } else { "-".into() } };
    let ar = take(0, nr);
    let tc = take(nr, nt);
    let bc = take(nr + nt, na);
    let z = if d.len() > nr + nt + na { d[nr + nt + na].clone() } else { lst(&[E::ZERO]) };
    let dt = take(nr + nt + na + 1, w + aw);
    let dc = take(nr + nt + na + 1 + w + aw, ncols);
    let mut positions = log.positions.clone().unwrap_or_default();
    positions.sort_unstable();
    positions.dedup();
    // parsed proof
    let (cur, next, acur, anext, evals) = match proof.ood_frame.clone().parse::<E>(w, aw, ncols) {
        Ok((f, e)) => (f.current_row()[..w].to_vec(), f.next_row()[..w].to_vec(), f.current_row()[w..].to_vec(), f.next_row()[w..].to_vec(), e),
        Err(_) => (vec![], vec![], vec![], vec![], vec![]) };
    let nq = proof.num_unique_queries as usize;
    let (roots, croot) = match proof.commitments.clone().parse::<H>(info.num_segments(), fri_opts.num_fri_layers(lde)) { Ok((t, c, _)) => (t, Some(c)), Err(_) => (vec![], None) };
    // Merkle authentication of the trace openings: every segment against its own root (read_queried_trace_states)
    let mut tauth = false;
    let mut qt: Vec<Vec<B>> = vec![];
    if let Ok((mp, table)) = proof.trace_queries[0].clone().parse::<H, B>(lde, nq, w) {
        qt = table.rows().map(|r| r.to_vec()).collect();
        if !roots.is_empty() && positions.len() == nq { tauth = MerkleTree::<H>::verify_batch(&roots[0], &positions, &mp).is_ok(); }
    }
    let mut qa: Vec<Vec<E>> = vec![];
    if aw > 0 {
        let mut aauth = false;
        if proof.trace_queries.len() > 1 {
            if let Ok((mp, table)) = proof.trace_queries[1].clone().parse::<H, E>(lde, nq, aw) {
                qa = table.rows().map(|r| r.to_vec()).collect();
                if roots.len() > 1 && positions.len() == nq { aauth = MerkleTree::<H>::verify_batch(&roots[1], &positions, &mp).is_ok(); }
            }
        }
        tauth = tauth && aauth;
    }
    let mut cauth = false;
    let mut qc: Vec<Vec<E>> = vec![];
    if let Ok((mp, table)) = proof.constraint_queries.clone().parse::<H, E>(lde, nq, ncols) {
        qc = table.rows().map(|r| r.to_vec()).collect();
        if let Some(cr) = croot { if positions.len() == nq { cauth = MerkleTree::<H>::verify_batch(&cr, &positions, &mp).is_ok(); } }
    }
    // FRI layer-0 openings at the query positions (the values the DEEP evaluations are compared with first)
    let folding = fri_opts.folding_factor();
    let mut fri0: Vec<E> = vec![];
    if let Ok((layers, _)) = proof.fri_proof.clone().parse_layers::<H, E>(lde, folding) {
        if let Some(l0) = layers.first() {
            let row_len = lde / folding;
            let mut folded: Vec<usize> = vec![];
            for p in &positions { let f = p % row_len; if !folded.contains(&f) { folded.push(f); } }
            if l0.len() == folded.len() * folding {
                for p in &positions { let i = folded.iter().position(|&v| v == p % row_len).unwrap(); fri0.push(l0[i * folding + p / row_len]); }
            }
        }
    }
    let pow_ok = match log.pow { Some(v) => v >= popts.grinding_factor(), None => true };
    // boundary groups as the model wants them: sorted by (stride, first, column), grouped by (stride, first)
    let cc_dummy: Vec<B> = vec![B::ONE; na];
    let rands_dummy: Vec<B> = vec![B::ONE; nr];
    let bcs = air.get_boundary_constraints::<B>(if aw > 0 { Some(&rands_dummy[..]) } else { None }, &cc_dummy);
    let mut asr: Vec<(usize, usize, usize, usize, usize)> = spec.assertions.iter().enumerate().map(|(i, a)| match a {
        AKind::Single { col, step } => (0, *step, *col, 1, i),
        AKind::Periodic { col, first, stride } => (*stride, *first, *col, n / stride, i),
        AKind::Sequence { col, first, stride } => if n / stride == 1 { (0, *first, *col, 1, i) } else { (*stride, *first, *col, n / stride, i) },
    }).collect();
    asr.sort();
    let mut groups: Vec<String> = vec![];
    let mut gi = 0;
    while gi < asr.len() {
        let (stride, first, _, m, _) = asr[gi];
        let mut cons: Vec<String> = vec![];
        while gi < asr.len() && asr[gi].0 == stride && asr[gi].1 == first {
            let (_, _, col, _, ai) = asr[gi];
            // value polynomial and x-offset from the library's boundary constraint for this column
            let mut vp: Vec<B> = vec![pi.avals[ai][0]];
            let mut xoff = B::ONE;
            for g in bcs.main_constraints() { for c in g.constraints() { if c.column() == col { vp = c.poly().to_vec(); xoff = c.poly_offset().1; } } }
            cons.push(format!("{:x}/{}/{}", col, fhex(xoff), lst(&vp).replace(',', "+")));
            gi += 1;
        }
        groups.push(format!("{:x}:{:x}:{}", first, m, cons.join(";")));
    }
    // auxiliary boundary groups from the DEFINITION of the family (airfam.rs header): aux[0][0] = 1, aux[j][0] = 0 and, with
    // aux_assert_last, aux[0][n-1] = aux_last_value(rands): single assertions, sorted by (step, column), grouped by step
    let mut agroups: Vec<String> = vec![];
    if aw > 0 {
        let g0: Vec<String> = (0..aw).map(|j| format!("{:x}/1/{}", j, ehex(if j == 0 { E::ONE } else { E::ZERO }))).collect();
        agroups.push(format!("0:1:{}", g0.join(";")));
        if spec.aux_assert_last {
            // the random elements as the verifier drew them (parsed back from the coin log)
            let last = if nr == 0 { lst(&[E::ONE + E::ONE]) } else if d.len() >= nr { add_one::<B>(&d[0]) } else { lst(&[E::ZERO]) };
            agroups.push(format!("{:x}:1:0/1/{}", n - 1, last));
        }
    }
    // family columns (Gallina twin fam_trans): hold / degree / periodic index / k  (k as in Spec::small_consts)
    let mut kr = Rng::new(spec.seed ^ 0xABCD);
    let ks: Vec<B> = (0..spec.width).map(|_| B::from((kr.below(5) + 1) as u32)).collect();
    let fam: Vec<String> = (0..spec.width).map(|c| format!("{}/{:x}/{}/{}", spec.hold[c] as u8, spec.degs[c], match spec.per_index(c) { Some(i) => format!("{:x}", i), None => "-".into() }, fhex(ks[c]))).collect();
    let pers: Vec<Vec<B>> = air.get_periodic_column_polys();
    let fname = field_name::<B>();
    let case = format!(
        "verify {} tag={} ext={} aw={:x} ntm={:x} emod={} acc={} fric=1 pow={} tauth={} cauth={} fri0={} n={:x} k={:x} g={} glde={} off={} per={} groups={} agroups={} fam={} ar={} tc={} bc={} z={} dt={} dc={} pos={} pmod={} popts={} cur={} next={} acur={} anext={} evals={} qt={} qa={} qc={}",
        fname, tag, E::EXTENSION_DEGREE, aw, ntm, modulus_hex::<B>(), acc_opts.iter().map(opts_words).collect::<Vec<_>>().join("|"), pow_ok as u8, tauth as u8, cauth as u8, lst(&fri0),
        n, spec.exemptions, fhex(air.trace_domain_generator()), fhex(air.lde_domain_generator()), fhex(air.domain_offset()),
        rows(&pers), if groups.is_empty() { "-".into() } else { groups.join("!") }, if agroups.is_empty() { "-".into() } else { agroups.join("!") }, fam.join(";"),
        ar, tc, bc, z, dt, dc, if positions.is_empty() { "-".into() } else { positions.iter().map(|p| format!("{:x}", p)).collect::<Vec<_>>().join(",") },
        { let mut b = proof.context.field_modulus_bytes().to_vec(); b.reverse(); let s: String = b.iter().map(|x| format!("{:02x}", x)).collect(); s.trim_start_matches('0').to_string() },
        opts_words(&popts), lst(&cur), lst(&next), lst(&acur), lst(&anext), lst(&evals), rows(&qt), rows(&qa), rows(&qc));
    // on acceptance the DEEP evaluations equal the FRI layer-0 openings (first check of FriVerifier::verify)
    if verdict == "deser" || verdict == "panic" || verdict == "other" || verdict == "coin" || verdict == "ext" { return; } // the model starts from a parsed proof
    if tag == "honest" || tag == "options-claimed-other" {
        if let Some(sd) = &log.seed {
            let ti = &info;
            let mb = B::get_modulus_le_bytes();
            let half = |b: &[u8]| -> String { let mut v = b.to_vec(); v.reverse(); let s: String = v.iter().map(|x| format!("{:02x}", x)).collect(); let s = s.trim_start_matches('0'); if s.is_empty() { "0".to_string() } else { s.to_string() } };
            let (m1, m2) = mb.split_at(mb.len() / 2);
            let pubel: Vec<B> = winter_math::ToElements::<B>::to_elements(pi);
            out.push(format!("seed {} tag={} w={:x} aux={} len={:x} opts={} m1={} m2={} pub={} => {}", fname, tag, ti.main_trace_width(),
                if ti.is_multi_segment() { format!("{:x},{:x}", ti.aux_segment_width(), ti.get_num_aux_segment_rand_elements()) } else { "-".into() },
                ti.length(), opts_words(&popts), half(m1), half(m2), lst(&pubel), sd.join(",")));
        }
    }
    let res_str = if verdict == "accept" { format!("accept {}", lst(&fri0)) } else { verdict };
    out.push(format!("{} => {}", case, res_str));
}

/// `c0_c1(_c2)` (hex) + ONE: aux_last_value(rands) = rands[0] + 1, computed on the logged draw, independently of airfam.rs
fn add_one<B: StarkField>(e: &str) -> String {
    let mut parts: Vec<String> = e.split('_').map(|s| s.to_string()).collect();
    let v = u128::from_str_radix(&parts[0], 16).unwrap_or(0);
    let mut mb = B::get_modulus_le_bytes(); mb.resize(16, 0);
    let m = u128::from_le_bytes(mb[..16].try_into().unwrap());
    parts[0] = format!("{:x}", if v + 1 == m { 0 } else { v + 1 });
    parts.join("_")
}

fn corr_one<B, E, H>(r: &mut Rng, spec: &Spec, o: &Opts, out: &mut Vec<String>) -> Result<(), String>
where B: StarkField + ExtensibleField<2> + ExtensibleField<3> + 'static, E: FieldElement<BaseField = B>, H: ElementHasher<BaseField = B> + Send + Sync {
    let opts = make_opts(o).ok_or("options")?;
    let cols = gen_main::<B>(spec);
    let avals = assertion_values(spec, &cols);
    let trace = FamTrace::new(spec, cols);
    let prover = FamProver::<B, H, DefaultRandomCoin<H>>::new(opts.clone());
    let pi = PubInputs { spec: spec.clone(), avals: avals.clone() };
    let proof = match catch(AssertUnwindSafe(|| prover.prove(trace))) { Ok(Ok(p)) => p, _ => return Err("prove".into()) };
    let bytes = proof.to_bytes();
    let p = || Proof::from_bytes(&bytes).unwrap();
    let air = FamAir::<B>::new(proof.trace_info().clone(), pi.clone(), opts.clone());
    let w = spec.width;
    let aw = spec.aux_width;
    let lde = air.lde_domain_size();
    let ncols = air.context().num_constraint_composition_columns();
    let nq = proof.num_unique_queries as usize;
    let accv = vec![opts.clone()];
    // 0. honest
    corr_line::<B, E, H>("honest", p(), &pi, &accv, out);
    // the model's reference validity predicate against the harness oracle: honest trace and corrupted cells
    {
        let n = spec.n();
        let k = spec.exemptions;
        let mut kr = Rng::new(spec.seed ^ 0xABCD);
        let ks: Vec<B> = (0..spec.width).map(|_| B::from((kr.below(5) + 1) as u32)).collect();
        let fam: Vec<String> = (0..spec.width).map(|c| format!("{}/{:x}/{}/{}", spec.hold[c] as u8, spec.degs[c], match spec.per_index(c) { Some(i) => format!("{:x}", i), None => "-".into() }, fhex(ks[c]))).collect();
        let fname = field_name::<B>();
        let steps = [0usize, n - k - 1, n - k, (n - k + 1).min(n - 1), n - 1, 1 + r.below((n - 2) as u64) as usize, usize::MAX];
        for &st in steps.iter() {
            let mut cols = gen_main::<B>(spec);
            let tag = if st == usize::MAX { "honest".to_string() } else {
                let c = r.below(spec.width as u64) as usize;
                cols[c][st] += B::from(r.next_u64() as u32) + B::ONE;
                format!("cell-{:x}-{:x}", c, st) };
            let published = if r.chance(1, 2) { assertion_values(spec, &cols) } else { avals.clone() };
            let asr: Vec<String> = spec.assertions.iter().zip(&published).map(|(a, v)| match a {
                AKind::Single { col, step } => format!("s/{:x}/{:x}/0/{}", col, step, lst(v).replace(',', "+")),
                AKind::Periodic { col, first, stride } => format!("p/{:x}/{:x}/{:x}/{}", col, first, stride, lst(v).replace(',', "+")),
                AKind::Sequence { col, first, stride } => format!("q/{:x}/{:x}/{:x}/{}", col, first, stride, lst(v).replace(',', "+")),
            }).collect();
            let trows: Vec<Vec<B>> = (0..n).map(|i| (0..spec.width).map(|c| cols[c][i]).collect()).collect();
            out.push(format!("valid {} tag={} n={:x} k={:x} fam={} cyc={} asr={} trace={} => {}", fname, tag, n, k, fam.join(";"),
                rows(&spec.periodic_values::<B>()), asr.join(";"), rows(&trows), is_valid(spec, &cols, &published) as u8));
        }
    }
    // 1./2. out-of-domain frame (main columns first, then auxiliary columns)
    let (frame, evals) = p().ood_frame.parse::<E>(w, aw, ncols).map_err(|e| e.to_string())?;
    let rebuild = |cur: Vec<E>, next: Vec<E>, ev: Vec<E>| -> OodFrame {
        let mut f = OodFrame::default();
        f.set_trace_states::<E, H>(&TraceOodFrame::new(cur, next, w, None));
        f.set_constraint_evaluations(&ev);
        f
    };
    {
        let (mut cur, mut next) = (frame.current_row().to_vec(), frame.next_row().to_vec());
        let c = r.below(w as u64) as usize;
        let tag = if r.chance(1, 2) { cur[c] += E::ONE; "ood-trace-cur" } else { next[c] -= E::ONE; "ood-trace-next" };
        let mut pr = p(); pr.ood_frame = rebuild(cur, next, evals.clone());
        corr_line::<B, E, H>(tag, pr, &pi, &accv, out);
    }
    if aw > 0 {
        // an out-of-domain value of an AUXILIARY column
        let (mut cur, mut next) = (frame.current_row().to_vec(), frame.next_row().to_vec());
        let c = w + r.below(aw as u64) as usize;
        let tag = if r.chance(1, 2) { cur[c] += E::ONE; "ood-aux-cur" } else { next[c] -= E::ONE; "ood-aux-next" };
        let mut pr = p(); pr.ood_frame = rebuild(cur, next, evals.clone());
        corr_line::<B, E, H>(tag, pr, &pi, &accv, out);
    }
    {
        let mut ev = evals.clone();
        let c = r.below(ev.len() as u64) as usize;
        ev[c] += E::from(B::from(r.next_u64() as u32)) + E::ONE;
        let mut pr = p(); pr.ood_frame = rebuild(frame.current_row().to_vec(), frame.next_row().to_vec(), ev);
        corr_line::<B, E, H>("ood-constraint-eval", pr, &pi, &accv, out);
    }
    // 3. a queried trace value
    {
        let (mp, table) = p().trace_queries[0].clone().parse::<H, B>(lde, nq, w).map_err(|e| e.to_string())?;
        let mut rws: Vec<Vec<B>> = table.rows().map(|x| x.to_vec()).collect();
        let (i, j) = (r.below(rws.len() as u64) as usize, r.below(w as u64) as usize);
        rws[i][j] += B::ONE;
        let mut pr = p(); pr.trace_queries[0] = Queries::new::<H, B>(mp, rws);
        corr_line::<B, E, H>("queried-trace-value", pr, &pi, &accv, out);
    }
    if aw > 0 {
        // a queried value of an AUXILIARY column
        let (mp, table) = p().trace_queries[1].clone().parse::<H, E>(lde, nq, aw).map_err(|e| e.to_string())?;
        let mut rws: Vec<Vec<E>> = table.rows().map(|x| x.to_vec()).collect();
        let (i, j) = (r.below(rws.len() as u64) as usize, r.below(aw as u64) as usize);
        rws[i][j] += E::ONE;
        let mut pr = p(); pr.trace_queries[1] = Queries::new::<H, E>(mp, rws);
        corr_line::<B, E, H>("queried-aux-value", pr, &pi, &accv, out);
    }
    // 4. a queried constraint value
    {
        let (mp, table) = p().constraint_queries.clone().parse::<H, E>(lde, nq, ncols).map_err(|e| e.to_string())?;
        let mut rws: Vec<Vec<E>> = table.rows().map(|x| x.to_vec()).collect();
        let (i, j) = (r.below(rws.len() as u64) as usize, r.below(ncols as u64) as usize);
        rws[i][j] -= E::ONE;
        let mut pr = p(); pr.constraint_queries = Queries::new::<H, E>(mp, rws);
        corr_line::<B, E, H>("queried-constraint-value", pr, &pi, &accv, out);
    }
    // 5. options: expected other / claimed other
    {
        let o2 = Opts { q: o.q + 1, ..o.clone() };
        if let Some(v) = make_opts(&o2) {
            corr_line::<B, E, H>("options-expected-other", p(), &pi, &[v.clone()], out);
            let mut pr = p(); pr.context = Context::new::<B>(pr.context.trace_info().clone(), v.clone());
            corr_line::<B, E, H>("options-claimed-other", pr, &pi, &[v, opts.clone()], out);
        }
    }
    // 6. field modulus claimed by the proof
    {
        let mut pr = p();
        let ti = pr.context.trace_info().clone();
        pr.context = if std::any::type_name::<B>().contains("f64") { Context::new::<B62>(ti, opts.clone()) } else { Context::new::<B64>(ti, opts.clone()) };
        corr_line::<B, E, H>("field-modulus", pr, &pi, &accv, out);
    }
    // 7. proof-of-work nonce
    if o.grind > 0 {
        let mut pr = p(); pr.pow_nonce = pr.pow_nonce.wrapping_add(1 + r.below(1000));
        corr_line::<B, E, H>("pow-nonce", pr, &pi, &accv, out);
    }
    // 8. one assertion value of the statement
    {
        let mut av = avals.clone();
        let i = r.below(av.len() as u64) as usize;
        let j = r.below(av[i].len() as u64) as usize;
        av[i][j] += B::ONE;
        corr_line::<B, E, H>("assertion-value", p(), &PubInputs { spec: spec.clone(), avals: av }, &accv, out);
    }
    // 9. exemptions of the statement
    {
        let mut s = spec.clone(); s.exemptions += 1;
        if ctx_accepts(&s, &opts) { corr_line::<B, E, H>("exemptions+1", p(), &PubInputs { spec: s, avals: avals.clone() }, &accv, out); }
    }
    Ok(())
}

/// one correspondence line for a member of the Lagrange family (harness/src/lagfam.rs): the proof is parsed over E, the coin
/// outputs are split in the order of verify() with a Lagrange kernel column: GKR random elements, ordinary auxiliary random
/// elements, transition (main, aux), boundary (main, aux), Lagrange transition (log2 n), Lagrange boundary, z, DEEP trace
/// (1 + aw), DEEP constraint columns, DEEP Lagrange.  The GKR verdict handed to the model is computed from the DEFINITION of
/// the family's GkrVerifier (a proof value > 64 is refused).
fn lag_corr_line<B, E, H>(tag: &str, proof: Proof, acc_opts: &[ProofOptions], out: &mut Vec<String>)
where B: StarkField + ExtensibleField<2> + ExtensibleField<3> + 'static, E: FieldElement<BaseField = B>, H: ElementHasher<BaseField = B> + Send + Sync {
    let bytes = proof.to_bytes();
    let popts = proof.options().clone();
    let info = proof.trace_info().clone();
    let _ = coinrec::take_log();
    let _ = wf_harness::lagfam::take_uses();
    let acc = AcceptableOptions::OptionSet(acc_opts.to_vec());
    let res = catch(AssertUnwindSafe(|| verify::<LagAir<B>, H, RecordingCoin<DefaultRandomCoin<H>>>(proof, (), &acc)));
    let log = parse_log(&coinrec::take_log());
    let _ = wf_harness::lagfam::take_uses();
    let verdict = match &res { Ok(Ok(())) => "accept".to_string(), Ok(Err(e)) => vclass(e).to_string(), Err(_) => "panic".to_string() };
    let proof = Proof::from_bytes(&bytes).unwrap();
    let air = LagAir::<B>::new(info.clone(), (), popts.clone());
    let n = air.trace_length();
    let v = n.ilog2() as usize;
    let w = info.main_trace_width();
    let aw = info.aux_segment_width();
    let nr = info.get_num_aux_segment_rand_elements();
    let lde = air.lde_domain_size();
    let ncols = air.context().num_constraint_composition_columns();
    let nt = air.context().num_transition_constraints();
    let ntm = air.context().num_main_transition_constraints();
    let na = air.context().num_assertions();
    let fri_opts = popts.to_fri_options();
    // the GKR "proof" of the family is the number of random elements to draw; the family's verifier refuses values > 64
    let gkr_val: Option<usize> = proof.gkr_proof.as_ref().and_then(|b| <usize as winter_utils::Deserializable>::read_from_bytes(b).ok());
    let gkr_ok = matches!(gkr_val, Some(x) if x <= 64);
    let gk = if gkr_ok { gkr_val.unwrap() } else { 0 };
    let d = &log.draws;
    let zero = lst(&[E::ZERO]);
    let take = |from: usize, k: usize| -> String { if d.len() >= from + k && k > 0 { d[from..from + k].join(",") } else { "-".into() } };
    let one = |at: usize| -> String { if d.len() > at { d[at].clone() } else { zero.clone() } };
    let lr = take(0, gk);
    let ar = take(gk, nr);
    let mut at = gk + nr;
    let tc = take(at, nt); at += nt;
    let bc = take(at, na); at += na;
    let ltc = take(at, v); at += v;
    let lbc = one(at); at += 1;
    let z = one(at); at += 1;
    let dt = take(at, w + aw); at += w + aw;
    let dc = take(at, ncols); at += ncols;
    let ldc = one(at);
    let mut positions = log.positions.clone().unwrap_or_default();
    positions.sort_unstable();
    positions.dedup();
    let (cur, next, acur, anext, lfr, evals) = match proof.ood_frame.clone().parse::<E>(w, aw, ncols) {
        Ok((f, e)) => (f.current_row()[..w].to_vec(), f.next_row()[..w].to_vec(), f.current_row()[w..].to_vec(), f.next_row()[w..].to_vec(),
                       f.lagrange_kernel_frame().map(|l| l.inner().to_vec()).unwrap_or_default(), e),
        Err(_) => (vec![], vec![], vec![], vec![], vec![], vec![]) };
    let nq = proof.num_unique_queries as usize;
    let (roots, croot) = match proof.commitments.clone().parse::<H>(info.num_segments(), fri_opts.num_fri_layers(lde)) { Ok((t, c, _)) => (t, Some(c)), Err(_) => (vec![], None) };
    let mut tauth = false;
    let mut qt: Vec<Vec<B>> = vec![];
    if let Ok((mp, table)) = proof.trace_queries[0].clone().parse::<H, B>(lde, nq, w) {
        qt = table.rows().map(|r| r.to_vec()).collect();
        if !roots.is_empty() && positions.len() == nq { tauth = MerkleTree::<H>::verify_batch(&roots[0], &positions, &mp).is_ok(); }
    }
    let mut qa: Vec<Vec<E>> = vec![];
    let mut aauth = false;
    if proof.trace_queries.len() > 1 {
        if let Ok((mp, table)) = proof.trace_queries[1].clone().parse::<H, E>(lde, nq, aw) {
            qa = table.rows().map(|r| r.to_vec()).collect();
            if roots.len() > 1 && positions.len() == nq { aauth = MerkleTree::<H>::verify_batch(&roots[1], &positions, &mp).is_ok(); }
        }
    }
    tauth = tauth && aauth;
    let mut cauth = false;
    let mut qc: Vec<Vec<E>> = vec![];
    if let Ok((mp, table)) = proof.constraint_queries.clone().parse::<H, E>(lde, nq, ncols) {
        qc = table.rows().map(|r| r.to_vec()).collect();
        if let Some(cr) = croot { if positions.len() == nq { cauth = MerkleTree::<H>::verify_batch(&cr, &positions, &mp).is_ok(); } }
    }
    let folding = fri_opts.folding_factor();
    let mut fri0: Vec<E> = vec![];
    if let Ok((layers, _)) = proof.fri_proof.clone().parse_layers::<H, E>(lde, folding) {
        if let Some(l0) = layers.first() {
            let row_len = lde / folding;
            let mut folded: Vec<usize> = vec![];
            for p in &positions { let f = p % row_len; if !folded.contains(&f) { folded.push(f); } }
            if l0.len() == folded.len() * folding {
                for p in &positions { let i = folded.iter().position(|&v| v == p % row_len).unwrap(); fri0.push(l0[i * folding + p / row_len]); }
            }
        }
    }
    let pow_ok = match log.pow { Some(x) => x >= popts.grinding_factor(), None => true };
    let fname = field_name::<B>();
    // the family by its definition: main assertion col0[0] = 0, auxiliary assertion aux0[0] = 0, Lagrange column = last
    let case = format!(
        "verify {} tag={} famk=lag ext={} aw={:x} ntm={:x} lag={:x} gkr={} emod={} acc={} fric=1 pow={} tauth={} cauth={} fri0={} n={:x} k=1 g={} glde={} off={} per=- groups=0:1:0/1/0 agroups=0:1:0/1/{} ar={} tc={} bc={} lr={} ltc={} lbc={} ldc={} z={} dt={} dc={} pos={} pmod={} popts={} cur={} next={} acur={} anext={} lfr={} evals={} qt={} qa={} qc={}",
        fname, tag, E::EXTENSION_DEGREE, aw, ntm, aw - 1, gkr_ok as u8, modulus_hex::<B>(), acc_opts.iter().map(opts_words).collect::<Vec<_>>().join("|"), pow_ok as u8, tauth as u8, cauth as u8, lst(&fri0),
        n, fhex(air.trace_domain_generator()), fhex(air.lde_domain_generator()), fhex(air.domain_offset()), zero,
        ar, tc, bc, lr, ltc, lbc, ldc, z, dt, dc, if positions.is_empty() { "-".into() } else { positions.iter().map(|p| format!("{:x}", p)).collect::<Vec<_>>().join(",") },
        { let mut b = proof.context.field_modulus_bytes().to_vec(); b.reverse(); let s: String = b.iter().map(|x| format!("{:02x}", x)).collect(); s.trim_start_matches('0').to_string() },
        opts_words(&popts), lst(&cur), lst(&next), lst(&acur), lst(&anext), lst(&lfr), lst(&evals), rows(&qt), rows(&qa), rows(&qc));
    if verdict == "deser" || verdict == "panic" || verdict == "other" || verdict == "coin" || verdict == "ext" { return; }
    let res_str = if verdict == "accept" { format!("accept {}", lst(&fri0)) } else { verdict };
    out.push(format!("{} => {}", case, res_str));
}

fn lag_corr_one<B, E, H>(r: &mut Rng, log_n: u32, aw: usize, nr: usize, o: &Opts, out: &mut Vec<String>) -> Result<(), String>
where B: StarkField + ExtensibleField<2> + ExtensibleField<3> + 'static, E: FieldElement<BaseField = B>, H: ElementHasher<BaseField = B> + Send + Sync {
    let opts = make_opts(o).ok_or("options")?;
    let trace = LagTrace::<B>::new(log_n, aw, nr);
    let prover = LagProver::<B, H, DefaultRandomCoin<H>>::new(opts.clone(), aw);
    let proof = match catch(AssertUnwindSafe(|| prover.prove(trace))) { Ok(Ok(p)) => p, _ => return Err("prove".into()) };
    let _ = wf_harness::lagfam::take_uses();
    let bytes = proof.to_bytes();
    let p = || Proof::from_bytes(&bytes).unwrap();
    let air = LagAir::<B>::new(proof.trace_info().clone(), (), opts.clone());
    let (w, v) = (1usize, log_n as usize);
    let lde = air.lde_domain_size();
    let ncols = air.context().num_constraint_composition_columns();
    let nq = proof.num_unique_queries as usize;
    let accv = vec![opts.clone()];
    lag_corr_line::<B, E, H>("honest", p(), &accv, out);
    let (frame, evals) = p().ood_frame.parse::<E>(w, aw, ncols).map_err(|e| e.to_string())?;
    let lfr: Vec<E> = frame.lagrange_kernel_frame().map(|l| l.inner().to_vec()).ok_or("no-lagrange-frame")?;
    let rebuild = |cur: Vec<E>, next: Vec<E>, lf: Vec<E>, ev: Vec<E>| -> OodFrame {
        let mut f = OodFrame::default();
        f.set_trace_states::<E, H>(&TraceOodFrame::new(cur, next, w, Some(LagrangeKernelEvaluationFrame::new(lf))));
        f.set_constraint_evaluations(&ev);
        f
    };
    // an entry of the Lagrange OOD frame: entry 0 (read by every constraint and the boundary constraint), entry 1 (read by the
    // LAST transition constraint only), a random one
    for (tag, i) in [("lag-ood-frame-0", 0usize), ("lag-ood-frame-1", 1), ("lag-ood-frame-any", r.below((v + 1) as u64) as usize)] {
        let mut lf = lfr.clone();
        lf[i] += E::ONE;
        let mut pr = p(); pr.ood_frame = rebuild(frame.current_row().to_vec(), frame.next_row().to_vec(), lf, evals.clone());
        lag_corr_line::<B, E, H>(tag, pr, &accv, out);
    }
    {
        // an out-of-domain value of the ordinary auxiliary column
        let (mut cur, next) = (frame.current_row().to_vec(), frame.next_row().to_vec());
        cur[w] += E::ONE;
        let mut pr = p(); pr.ood_frame = rebuild(cur, next, lfr.clone(), evals.clone());
        lag_corr_line::<B, E, H>("ood-aux-cur", pr, &accv, out);
    }
    {
        // the GKR verdict: a GKR proof the family's verifier refuses
        let mut pr = p(); pr.gkr_proof = Some(winter_utils::Serializable::to_bytes(&65usize));
        lag_corr_line::<B, E, H>("gkr-refused", pr, &accv, out);
    }
    {
        // the Lagrange random elements: the GKR step yields one more element (every later coin output moves)
        let mut pr = p(); pr.gkr_proof = Some(winter_utils::Serializable::to_bytes(&(v + 1)));
        lag_corr_line::<B, E, H>("gkr-other-rands", pr, &accv, out);
    }
    {
        // a queried value of the Lagrange kernel column
        let (mp, table) = p().trace_queries[1].clone().parse::<H, E>(lde, nq, aw).map_err(|e| e.to_string())?;
        let mut rws: Vec<Vec<E>> = table.rows().map(|x| x.to_vec()).collect();
        let i = r.below(rws.len() as u64) as usize;
        rws[i][aw - 1] += E::ONE;
        let mut pr = p(); pr.trace_queries[1] = Queries::new::<H, E>(mp, rws);
        lag_corr_line::<B, E, H>("queried-lagrange-value", pr, &accv, out);
    }
    {
        let mut ev = evals.clone();
        let c = r.below(ev.len() as u64) as usize;
        ev[c] += E::ONE;
        let mut pr = p(); pr.ood_frame = rebuild(frame.current_row().to_vec(), frame.next_row().to_vec(), lfr.clone(), ev);
        lag_corr_line::<B, E, H>("ood-constraint-eval", pr, &accv, out);
    }
    Ok(())
}

fn lag_corr_ext<B, H>(r: &mut Rng, log_n: u32, aw: usize, nr: usize, o: &Opts, out: &mut Vec<String>) -> Result<(), String>
where B: StarkField + ExtensibleField<2> + ExtensibleField<3> + 'static, H: ElementHasher<BaseField = B> + Send + Sync {
    match o.ext {
        1 => lag_corr_one::<B, B, H>(r, log_n, aw, nr, o, out),
        2 => lag_corr_one::<B, QuadExtension<B>, H>(r, log_n, aw, nr, o, out),
        _ => lag_corr_one::<B, CubeExtension<B>, H>(r, log_n, aw, nr, o, out),
    }
}

/// Lagrange members of the correspondence: extension {1, 2} x n in {8, 16, 64} (+ one cubic), `rounds` times
fn lag_corr(r: &mut Rng, rounds: usize) -> Vec<String> {
    let mut out = vec![];
    let plan: [(u8, u32); 7] = [(1, 3), (2, 3), (1, 4), (2, 4), (1, 6), (2, 6), (3, 4)];
    for round in 0..rounds {
        for (pi, &(ext, log_n)) in plan.iter().enumerate() {
            for _attempt in 0..20 {
                let field = ["f64", "f64", "f62", "f64", "f128", "f62", "f64"][(pi + round) % 7];
                let field = if ext_supported(field, ext) { field } else { "f64" };
                let n = 1usize << log_n;
                let blowup = *r.pick(&[2usize, 4, 8]);
                let lde = n * blowup;
                let (fold, rem) = pick_fri(r, lde, blowup);
                let o = Opts { q: 1 + r.below(6) as usize, blowup, grind: 0, ext, fold, rem };
                let po = match make_opts(&o) { Some(p) => p, None => continue };
                if !fri_wellformed(lde, blowup, fold, rem) || o.q >= lde || po.to_fri_options().num_fri_layers(lde) == 0 { continue; }
                let (aw, nr) = (2 + r.below(2) as usize, r.below(3) as usize);
                let res = match field {
                    "f64" => lag_corr_ext::<B64, Blake3_256<B64>>(r, log_n, aw, nr, &o, &mut out),
                    "f128" => lag_corr_ext::<B128, Blake3_256<B128>>(r, log_n, aw, nr, &o, &mut out),
                    _ => lag_corr_ext::<B62, Sha3_256<B62>>(r, log_n, aw, nr, &o, &mut out),
                };
                if res.is_ok() { break; }
            }
        }
    }
    out
}

fn corr_ext<B, H>(r: &mut Rng, spec: &Spec, o: &Opts, out: &mut Vec<String>) -> Result<(), String>
where B: StarkField + ExtensibleField<2> + ExtensibleField<3> + 'static, H: ElementHasher<BaseField = B> + Send + Sync {
    match o.ext {
        1 => corr_one::<B, B, H>(r, spec, o, out),
        2 => corr_one::<B, QuadExtension<B>, H>(r, spec, o, out),
        _ => corr_one::<B, CubeExtension<B>, H>(r, spec, o, out),
    }
}

/// (extension degree, auxiliary segment: 0 = none, 1 = 1..3 columns next to 3..5 main columns, 2 = aux-heavy: ONE main column
/// and 2..3 auxiliary columns): every combination occurs within twelve base proofs
const CORR_SCHEDULE: [(u8, u8); 12] = [(1, 0), (1, 1), (2, 0), (1, 2), (2, 1), (1, 0), (3, 0), (2, 2), (1, 0), (3, 1), (1, 1), (3, 2)];

fn corr(r: &mut Rng, n: usize) -> Vec<String> {
    let mut out = vec![];
    let mut i = 0;
    let mut done = 0;
    while done < n && i < 20 * n + 20 {
        i += 1;
        let (ext, auxk) = CORR_SCHEDULE[done % CORR_SCHEDULE.len()];
        // the extracted field arithmetic (inductive Z, Fermat inversion) is slow for 128-bit values: f128 once in six
        let mut field = ["f64", "f62", "f64", "f128", "f62", "f64"][i % 6];
        if !ext_supported(field, ext) { field = "f64"; }
        let blowup = *r.pick(&[2usize, 4, 8]);
        let mut spec = match auxk {
            2 => { let al = r.chance(1, 2); aux_heavy_spec(r, blowup.max(2), if al { 2 } else { 1 }, al) }
            1 => structured_spec(r, blowup.max(2), true, 1),
            _ => { let mut s = if r.chance(1, 3) { random_spec(r, 5, blowup) } else { structured_spec(r, blowup.max(2), false, 1) }; s.aux_width = 0; s.aux_rands = 0; s }
        };
        for d in spec.degs.iter_mut() { *d = (*d).min(blowup as u32).max(1); }
        let lde = spec.n() * blowup;
        // at least one FRI layer so that layer-0 openings exist
        let (fold, rem) = pick_fri(r, lde, blowup);
        let o = Opts { q: 1 + r.below(8) as usize, blowup, grind: *r.pick(&[0u32, 0, 4]), ext, fold, rem };
        let po = match make_opts(&o) { Some(p) => p, None => continue };
        if !fri_wellformed(lde, blowup, fold, rem) || o.q >= lde || !ctx_accepts(&spec, &po) || !admissible(&spec, blowup) { continue; }
        if po.to_fri_options().num_fri_layers(lde) == 0 { continue; }
        let res = match field {
            "f64" => if i % 2 == 0 { corr_ext::<B64, Blake3_256<B64>>(r, &spec, &o, &mut out) } else { corr_ext::<B64, Rp64_256>(r, &spec, &o, &mut out) },
            "f128" => corr_ext::<B128, Blake3_256<B128>>(r, &spec, &o, &mut out),
            _ => corr_ext::<B62, Sha3_256<B62>>(r, &spec, &o, &mut out),
        };
        if res.is_ok() { done += 1; }
    }
    out
}

// ------------------------------------------------------------------------------------------------ main
fn main() {
    silence_panics();
    let args: Vec<String> = std::env::args().collect();
    let cmd: String = args.get(1).cloned().unwrap_or_default();
    let seed: u64 = args.get(2).and_then(|s| s.parse().ok()).unwrap_or(1);
    let n: usize = args.get(3).and_then(|s| s.parse().ok()).unwrap_or(100);
    let h = std::thread::Builder::new().stack_size(256 << 20).spawn(move || cmd_run(&args, cmd, seed, n)).unwrap();
    h.join().unwrap();
}

fn cmd_run(args: &[String], cmd: String, seed: u64, n: usize) {
    match cmd.as_str() {
        "corr" => {
            let mut r = Rng::new(seed ^ 0xC02C);
            for l in corr(&mut r, n) { println!("{}", l); }
            // the Lagrange members: one round of 7 base proofs per 24 ordinary ones
            let mut r = Rng::new(seed ^ 0xC02D);
            for l in lag_corr(&mut r, (n / 24).max(1)) { println!("{}", l); }
        }
        "falsify" | "one" => {
            if let Some(m) = args.get(if cmd == "one" { 5 } else { 4 }).and_then(|s| s.parse::<u32>().ok()) { MAX_LOG_N.store(m.clamp(6, 12), std::sync::atomic::Ordering::Relaxed); }
            // stream 1: n cases (the per-case generator is re-seeded from (seed, idx) so that `one` can replay a single case)
            let mut t = Tally::default();
            let only: Option<usize> = if cmd == "one" { args.get(4).and_then(|s| s.parse().ok()) } else { None };
            for idx in 0..n {
                if let Some(o) = only { if o != idx { continue; } }
                let mut r = Rng::new(seed.wrapping_mul(0x9E37_79B9).wrapping_add(idx as u64 * 0x1_0001));
                if let Some(c) = gen_case(&mut r, idx) { judge(&c, &mut t, only.is_some()); }
            }
            if only.is_none() {
                let mut r = Rng::new(seed ^ 0x5EED_2);
                stream2(&mut r, (n / 40).max(3), &mut t);
                // stream 3: Lagrange kernel column (n / 40 rounds of 22 cases: 22 rounds in the quick tier)
                let mut r = Rng::new(seed ^ 0x1A6_3);
                stream3(&mut r, (n / 40).max(4), &mut t, None);
            }
            let cls: Vec<String> = t.classes.iter().map(|(k, v)| format!("{}:{{\"cases\":{},\"rejected\":{},\"valid_accepted\":{},\"skipped\":{}}}", jstr(k), v[0], v[1], v[2], v[3])).collect();
            println!("classes {{{}}}", cls.join(","));
            let vd: Vec<String> = t.verdicts.iter().map(|(k, v)| format!("{}:{}", jstr(k), v)).collect();
            println!("verdicts {{{}}}", vd.join(","));
            let cb: Vec<String> = t.combos.iter().map(|(k, v)| format!("{}:{}", jstr(k), v)).collect();
            println!("combos {{{}}}", cb.join(","));
            let lc: Vec<String> = t.lagcov.iter().map(|(k, v)| format!("{}:{}", jstr(k), v)).collect();
            println!("lagcov {{{}}}", lc.join(","));
            println!("evaluations={} failures={} validate_crosschecks={}", t.evals, t.fails, t.xchk);
        }
        "lag" => {
            // replay of one case of stream 3: c02 lag <seed> <n> <idx>
            let mut t = Tally::default();
            let mut r = Rng::new(seed ^ 0x1A6_3);
            stream3(&mut r, (n / 40).max(4), &mut t, args.get(4).and_then(|s| s.parse().ok()));
        }
        _ => { eprintln!("usage: c02 corr|falsify|one <seed> <n> [idx]"); std::process::exit(2); }
    }
}

#[allow(dead_code)]
fn _unused<E: FieldElement>(_: EvaluationFrame<E>) {}
