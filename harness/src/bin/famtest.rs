//! Smoke test of the parametric AIR family: prove + verify random members over fields / hashers / extensions.
use winter_air::{FieldExtension, ProofOptions};
use winter_crypto::{hashers::{Blake3_256, Rp64_256}, DefaultRandomCoin, ElementHasher};
use winter_math::{fields::{f128, f64}, ExtensibleField, StarkField};
use winter_prover::{Prover, Trace};
use winter_verifier::{verify, AcceptableOptions};
use wf_harness::{airfam::*, catch, prng::Rng, silence_panics, toy::ToyHasher};

fn run<B, H>(spec: &Spec, opts: &ProofOptions) -> String
where B: StarkField + ExtensibleField<2> + ExtensibleField<3> + 'static, H: ElementHasher<BaseField = B> + Send + Sync {
    let cols = gen_main::<B>(spec);
    let avals = assertion_values(spec, &cols);
    if !is_valid(spec, &cols, &avals) { return "generator-produced-invalid-trace".into(); }
    let trace = FamTrace::new(spec, cols);
    let prover = FamProver::<B, H, DefaultRandomCoin<H>>::new(opts.clone());
    let pi = prover.get_pub_inputs(&trace);
    let res = catch(std::panic::AssertUnwindSafe(|| prover.prove(trace)));
    let proof = match res { Ok(Ok(p)) => p, Ok(Err(e)) => return format!("prove-err:{}", e), Err(m) => return format!("prove-panic:{}", m) };
    let bytes = proof.to_bytes();
    let acc = AcceptableOptions::OptionSet(vec![opts.clone()]);
    let v1 = catch(std::panic::AssertUnwindSafe(|| verify::<FamAir<B>, H, DefaultRandomCoin<H>>(proof, pi.clone(), &acc)));
    let p2 = match winter_air::proof::Proof::from_bytes(&bytes) { Ok(p) => p, Err(e) => return format!("reparse-err:{}", e) };
    let v2 = catch(std::panic::AssertUnwindSafe(|| verify::<FamAir<B>, H, DefaultRandomCoin<H>>(p2, pi, &acc)));
    format!("verify:{} reverify:{} bytes:{}", match v1 { Ok(Ok(())) => "ok".into(), Ok(Err(e)) => format!("err:{}", e), Err(m) => format!("panic:{}", m) },
        match v2 { Ok(Ok(())) => "ok".into(), Ok(Err(e)) => format!("err:{}", e), Err(m) => format!("panic:{}", m) }, bytes.len())
}

fn main() {
    silence_panics();
    let args: Vec<String> = std::env::args().collect();
    let seed: u64 = args.get(1).and_then(|s| s.parse().ok()).unwrap_or(1);
    let n: usize = args.get(2).and_then(|s| s.parse().ok()).unwrap_or(20);
    let mut r = Rng::new(seed);
    let mut bad = 0;
    for i in 0..n {
        let blowup = *r.pick(&[2usize, 4, 8, 16]);
        let mut spec = random_spec(&mut r, 6, blowup);
        if !admissible(&spec, blowup) { for d in spec.degs.iter_mut() { *d = (*d).min(blowup as u32).max(1); } }
        let ext = *r.pick(&[FieldExtension::None, FieldExtension::Quadratic, FieldExtension::Cubic]);
        let fold = *r.pick(&[2usize, 4, 8, 16]);
        let rem = *r.pick(&[0usize, 1, 3, 7, 15, 31]);
        let q = 1 + r.below(8) as usize;
        if !fri_wellformed(spec.n() * blowup, blowup, fold, rem) || q >= spec.n() * blowup { continue; }
        let opts = match catch(|| ProofOptions::new(q, blowup, r.clone().below(3) as u32, ext, fold, rem)) { Ok(o) => o, Err(_) => continue };
        let out = match i % 4 {
            0 => run::<f64::BaseElement, Blake3_256<f64::BaseElement>>(&spec, &opts),
            1 => run::<f64::BaseElement, ToyHasher<f64::BaseElement>>(&spec, &opts),
            2 => run::<f64::BaseElement, Rp64_256>(&spec, &opts),
            _ => if ext == FieldExtension::Cubic { "skip".into() } else { run::<f128::BaseElement, Blake3_256<f128::BaseElement>>(&spec, &opts) },
        };
        let ok = out.starts_with("verify:ok reverify:ok") || out == "skip";
        if !ok { bad += 1; }
        if ok && args.len() < 4 { continue; }
        println!("{} {} w={} n={} degs={:?} per={:?} ex={} asrt={:?} aux={}/{} blowup={} ext={:?} fold={} rem={} q={} => {}", if ok { "OK " } else { "BAD" }, i, spec.width, spec.n(), spec.degs, spec.periodic, spec.exemptions, spec.assertions, spec.aux_width, spec.aux_rands, blowup, ext, fold, rem, q, out);
    }
    println!("bad={}", bad);
}
