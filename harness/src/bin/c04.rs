//! C04 — Fiat–Shamir transcript.  The REAL prover (`Prover::prove`) and the REAL verifier
//! (`winter_verifier::verify`) are run with `RecordingCoin<DefaultRandomCoin<H>>` substituted for the
//! RandomCoin type parameter; both logs are taken and
//!   corr:    abstracted to the model's event alphabet (operation kind + WHICH proof component was absorbed,
//!            found by comparing the logged bytes with values recomputed from the serialized proof) and printed
//!            for comparison with the extracted Coq generators (`tr`) and the Coq decision procedure (`chk`);
//!            plus `ctx` lines: Context::to_elements vs its arithmetic model;
//!   falsify: oracle independent of the model, on the raw logs:
//!            (i)   prover and verifier logs identical operation by operation (data, results), up to the prover's
//!                  failed grinding probes and ONE verifier draw after the last reseed;
//!            (ii)  every reseed argument / nonce equals a value recomputable from the serialized proof, each
//!                  proof component is absorbed;
//!            (iii) sensitivity: flipping one absorbed component of the proof changes every later challenge in
//!                  the real verifier's log (as far as it runs) and in a replay of the logged operation sequence
//!                  on a fresh DefaultRandomCoin;
//!            (iv)  the seed equals context.to_elements() ++ pub_inputs.to_elements().
use std::panic::AssertUnwindSafe;

use winter_air::{
    proof::{Commitments, Context, OodFrame, Proof},
    Air, FieldExtension, ProofOptions, TraceInfo,
};
use winter_crypto::{
    hashers::{Blake3_256, Rp62_248, Rp64_256, Sha3_256},
    DefaultRandomCoin, ElementHasher, Hasher, RandomCoin,
};
use winter_math::{
    fields::{f128, f62, f64, CubeExtension, QuadExtension},
    ExtensibleField, FieldElement, StarkField, ToElements,
};
use winter_prover::Prover;
use winter_utils::{Deserializable, Serializable};
use winter_verifier::{verify, AcceptableOptions};
use wf_harness::{
    airfam::*,
    catch,
    coinrec::{take_log, RecordingCoin},
    lagfam::{take_uses, LagAir, LagProver, LagTrace},
    hex_bytes, jstr,
    prng::Rng,
    silence_panics,
    toy::ToyHasher,
};

// ------------------------------------------------------------------------------------------------ log parsing
#[derive(Clone, Debug, PartialEq)]
enum Op {
    New(Vec<String>),
    Reseed(String),
    Draw { deg: u32, res: String },
    Lz { val: u64, res: u32 },
    Ints { n: usize, dom: usize, nonce: u64, res: String },
    Bad(String),
}

/// Parses the lines of coinrec; all lines must come from one coin instance.
fn parse_log(log: &[String]) -> (Vec<Op>, bool) {
    let mut ops = vec![];
    let mut id: Option<String> = None;
    let mut one_coin = true;
    for l in log {
        let mut it = l.splitn(3, ' ');
        let coin = it.next().unwrap_or("").to_string();
        let kind = it.next().unwrap_or("");
        let rest = it.next().unwrap_or("");
        match &id { None => id = Some(coin), Some(c) => if *c != coin { one_coin = false; } }
        let op = match kind {
            "new" => Op::New(rest.trim_matches(|c| c == '[' || c == ']').split(',').filter(|s| !s.is_empty()).map(|s| s.to_string()).collect()),
            "reseed" => Op::Reseed(rest.to_string()),
            "draw" => {
                let p: Vec<&str> = rest.split(" -> ").collect();
                if p.len() == 2 && p[0].starts_with("deg") { Op::Draw { deg: p[0][3..].parse().unwrap_or(0), res: p[1].to_string() } } else { Op::Bad(l.clone()) }
            }
            "check_leading_zeros" => {
                let p: Vec<&str> = rest.split(" -> ").collect();
                match (p.len(), u64::from_str_radix(p[0], 16), p.get(1).and_then(|s| s.parse().ok())) {
                    (2, Ok(v), Some(r)) => Op::Lz { val: v, res: r },
                    _ => Op::Bad(l.clone()),
                }
            }
            "draw_integers" => {
                let p: Vec<&str> = rest.split(" -> ").collect();
                let a: Vec<&str> = p[0].split(' ').collect();
                if p.len() == 2 && a.len() == 3 {
                    match (a[0].parse(), a[1].parse(), u64::from_str_radix(a[2], 16)) {
                        (Ok(n), Ok(d), Ok(nc)) => Op::Ints { n, dom: d, nonce: nc, res: p[1].to_string() },
                        _ => Op::Bad(l.clone()),
                    }
                } else { Op::Bad(l.clone()) }
            }
            _ => Op::Bad(l.clone()),
        };
        ops.push(op);
    }
    (ops, one_coin)
}

// ------------------------------------------------------------------------------------------------ what the proof carries
struct Known {
    seed: Vec<String>,               // hex of context.to_elements() ++ pub_inputs.to_elements()
    comps: Vec<(String, String)>,    // (token, hex bytes) in the order the proof stores them
    nonce: u64,
    queries: usize,
    lde: usize,
    grinding: u32,
}

fn ood_hashes<B, H, E>(proof: &Proof, main: usize, aux: usize, cc: usize) -> Result<(String, String), String>
where B: StarkField, H: ElementHasher<BaseField = B>, E: FieldElement<BaseField = B> {
    let (frame, evals) = proof.ood_frame.clone().parse::<E>(main, aux, cc).map_err(|e| format!("ood-parse:{}", e))?;
    let (cur, nxt) = (frame.current_row(), frame.next_row());
    let mut v: Vec<E> = Vec::with_capacity(2 * cur.len());
    for i in 0..cur.len() { v.push(cur[i]); v.push(nxt[i]); }
    if let Some(l) = frame.lagrange_kernel_frame() { v.extend_from_slice(l.inner()); }
    Ok((hex_bytes(&H::hash_elements(&v).to_bytes()), hex_bytes(&H::hash_elements(&evals).to_bytes())))
}

fn known_of<B, H>(proof: &Proof, pub_elems: &[B], nseg: usize, layers: usize, cc: usize) -> Result<Known, String>
where B: StarkField + ExtensibleField<2> + ExtensibleField<3>, H: ElementHasher<BaseField = B> {
    let ti = proof.context.trace_info();
    let (main, aux) = (ti.main_trace_width(), ti.aux_segment_width());
    let mut seed: Vec<B> = proof.context.to_elements();
    seed.extend(pub_elems.iter().copied());
    let (troots, croot, froots) = proof.commitments.clone().parse::<H>(nseg, layers).map_err(|e| format!("commitments-parse:{}", e))?;
    let (ot, oe) = match proof.options().field_extension() {
        FieldExtension::None => ood_hashes::<B, H, B>(proof, main, aux, cc)?,
        FieldExtension::Quadratic => ood_hashes::<B, H, QuadExtension<B>>(proof, main, aux, cc)?,
        FieldExtension::Cubic => ood_hashes::<B, H, CubeExtension<B>>(proof, main, aux, cc)?,
    };
    let mut comps = vec![];
    for (i, d) in troots.iter().enumerate() { comps.push((format!("T{}", i), hex_bytes(&d.to_bytes()))); }
    comps.push(("CC".into(), hex_bytes(&croot.to_bytes())));
    comps.push(("OT".into(), ot));
    comps.push(("OE".into(), oe));
    for (i, d) in froots.iter().enumerate() {
        comps.push((if i + 1 == froots.len() { "REM".to_string() } else { format!("F{}", i) }, hex_bytes(&d.to_bytes())));
    }
    Ok(Known {
        seed: seed.iter().map(|e| hex_bytes(&e.to_bytes())).collect(),
        comps,
        nonce: proof.pow_nonce,
        queries: proof.options().num_queries(),
        lde: ti.length() * proof.options().blowup_factor(),
        grinding: proof.options().grinding_factor(),
    })
}

/// Abstraction of a raw log to the model's alphabet.  Nothing here consults the model: components are identified by
/// their bytes, draws are numbered by counting, the grinding search is recognised by its own shape.
fn abstract_log(ops: &[Op], k: &Known, prover_side: bool, tags: &std::collections::HashMap<String, char>) -> Vec<String> {
    let mut out = vec![];
    let mut used = vec![false; k.comps.len()];
    let mut ctr = 0usize;
    let mut i = 0;
    while i < ops.len() {
        match &ops[i] {
            Op::New(s) => { out.push(if *s == k.seed { "N:CTX+PUB".to_string() } else { "N:?".to_string() }); ctr = 0; }
            Op::Reseed(h) => {
                let mut tok = "R:?".to_string();
                for (j, (t, b)) in k.comps.iter().enumerate() {
                    if !used[j] && b == h { used[j] = true; tok = format!("R:{}", t); break; }
                }
                out.push(tok);
                ctr = 0;
            }
            Op::Draw { deg, res } => {
                let tag = tags.get(res).map(|c| format!("@{}", c)).unwrap_or_default();
                out.push(if res == "err" { "D:err".to_string() } else { format!("D{}.{}{}", ctr, deg, tag) });
                ctr += 1;
            }
            Op::Lz { .. } => {
                // maximal run of consecutive probes
                let mut j = i;
                let mut run = vec![];
                while j < ops.len() { if let Op::Lz { val, res } = &ops[j] { run.push((*val, *res)); j += 1; } else { break; } }
                let last = run[run.len() - 1];
                let single = run.len() == 1 && last.0 == k.nonce;
                let search = prover_side && last.0 == k.nonce && last.1 >= k.grinding
                    && run.iter().enumerate().all(|(n, (v, r))| *v == n as u64 + 1 && (n + 1 == run.len() || *r < k.grinding));
                if single || search { out.push("P:NONCE".to_string()); } else { for _ in &run { out.push("P:?".to_string()); } }
                i = j;
                continue;
            }
            Op::Ints { n, dom, nonce, res } => {
                out.push(if *nonce == k.nonce && *dom == k.lde && res != "err" { format!("I:NONCE:{}", n) } else { format!("I:?:{}", n) });
                ctr = *n;
            }
            Op::Bad(_) => out.push("?".to_string()),
        }
        i += 1;
    }
    out
}

// ------------------------------------------------------------------------------------------------ replay on a fresh coin
fn draw_hex<B: StarkField + ExtensibleField<2> + ExtensibleField<3>, R: RandomCoin<BaseField = B>>(coin: &mut R, deg: u32) -> String {
    match deg {
        1 => coin.draw::<B>().map(|e| hex_bytes(&e.to_bytes())).unwrap_or("err".into()),
        2 => coin.draw::<QuadExtension<B>>().map(|e| hex_bytes(&e.to_bytes())).unwrap_or("err".into()),
        3 => coin.draw::<CubeExtension<B>>().map(|e| hex_bytes(&e.to_bytes())).unwrap_or("err".into()),
        _ => "err".into(),
    }
}

fn unhex(s: &str) -> Vec<u8> {
    if s == "-" { return vec![]; }
    (0..s.len() / 2).map(|i| u8::from_str_radix(&s[2 * i..2 * i + 2], 16).unwrap_or(0)).collect()
}

/// Re-executes the logged operation sequence on a fresh DefaultRandomCoin; `flip = Some(i)` perturbs the data of
/// operation i (seed element 0 / reseed digest / nonce of draw_integers).  Returns the result of every operation
/// plus one extra base-field draw at the end (the final state), or None when the perturbed bytes are not a valid
/// digest / element.
fn replay<B, H>(ops: &[Op], seed: &[B], flip: Option<usize>) -> Option<Vec<String>>
where B: StarkField + ExtensibleField<2> + ExtensibleField<3>, H: ElementHasher<BaseField = B> {
    let mut coin: Option<DefaultRandomCoin<H>> = None;
    let mut out = vec![];
    for (i, op) in ops.iter().enumerate() {
        let f = flip == Some(i);
        match op {
            Op::New(_) => {
                let mut s = seed.to_vec();
                if f { s[0] += B::ONE; }
                coin = Some(DefaultRandomCoin::<H>::new(&s));
                out.push(String::new());
            }
            Op::Reseed(h) => {
                let mut b = unhex(h);
                if f { b[0] ^= 1; }
                let d = <H::Digest as Deserializable>::read_from_bytes(&b).ok()?;
                coin.as_mut()?.reseed(d);
                out.push(String::new());
            }
            Op::Draw { deg, .. } => out.push(draw_hex::<B, _>(coin.as_mut()?, *deg)),
            Op::Lz { val, .. } => out.push(format!("{}", coin.as_ref()?.check_leading_zeros(*val))),
            Op::Ints { n, dom, nonce, .. } => {
                let nc = if f { *nonce ^ 1 } else { *nonce };
                out.push(coin.as_mut()?.draw_integers(*n, *dom, nc).map(|v| format!("{:?}", v)).unwrap_or("err".into()));
            }
            Op::Bad(_) => return None,
        }
    }
    out.push(draw_hex::<B, _>(coin.as_mut()?, 1));
    Some(out)
}

fn op_result(op: &Op) -> String {
    match op {
        Op::Draw { res, .. } => res.clone(),
        Op::Lz { res, .. } => format!("{}", res),
        Op::Ints { res, .. } => res.clone(),
        _ => String::new(),
    }
}

// ------------------------------------------------------------------------------------------------ mutation of a proof component
fn mutate_commitment<H: Hasher>(proof: &Proof, idx: usize, nseg: usize, layers: usize) -> Option<Proof> {
    let (t, c, f) = proof.commitments.clone().parse::<H>(nseg, layers).ok()?;
    let mut all: Vec<H::Digest> = t;
    all.push(c);
    all.extend(f);
    let mut bytes: Vec<u8> = vec![];
    for (i, d) in all.iter().enumerate() {
        let mut b = d.to_bytes();
        if i == idx { b[0] ^= 1; }
        bytes.extend(b);
    }
    let mut ser = (bytes.len() as u16).to_le_bytes().to_vec();
    ser.extend(bytes);
    let c2 = Commitments::read_from_bytes(&ser).ok()?;
    c2.clone().parse::<H>(nseg, layers).ok()?;
    let mut p = proof.clone();
    p.commitments = c2;
    Some(p)
}

/// which = 0: first trace-state element, 1: first constraint evaluation
fn mutate_ood(proof: &Proof, which: usize) -> Option<Proof> {
    let mut ser = proof.ood_frame.to_bytes();
    let l1 = u16::from_le_bytes([ser[0], ser[1]]) as usize;
    let l2 = u16::from_le_bytes([ser[2 + l1], ser[3 + l1]]) as usize;
    let pos = if which == 0 { 2 + 1 } else { 2 + l1 + 2 + l2 + 2 };
    if pos >= ser.len() { return None; }
    ser[pos] ^= 1;
    let f = OodFrame::read_from_bytes(&ser).ok()?;
    let mut p = proof.clone();
    p.ood_frame = f;
    Some(p)
}

/// The two documented differences between the logs: the prover's failed grinding probes (all but the last of a run of
/// check_leading_zeros) are dropped; the verifier's draws after its last reseed are dropped (and counted).
fn normalize(pops: &[Op], vops: &[Op]) -> (Vec<Op>, Vec<Op>, usize, usize) {
    let mut p: Vec<Op> = vec![];
    for (i, o) in pops.iter().enumerate() {
        if matches!(o, Op::Lz { .. }) && matches!(pops.get(i + 1), Some(Op::Lz { .. })) { continue; }
        p.push(o.clone());
    }
    let last_reseed = vops.iter().rposition(|o| matches!(o, Op::Reseed(_))).unwrap_or(0);
    let extra: Vec<usize> = (last_reseed + 1..vops.len()).filter(|&i| matches!(vops[i], Op::Draw { .. })).collect();
    let p_after: usize = { let lr = p.iter().rposition(|o| matches!(o, Op::Reseed(_))).unwrap_or(0); (lr + 1..p.len()).filter(|&i| matches!(p[i], Op::Draw { .. })).count() };
    let v: Vec<Op> = vops.iter().enumerate().filter(|(i, _)| !extra.contains(i)).map(|(_, o)| o.clone()).collect();
    (p, v, extra.len(), p_after)
}

// ------------------------------------------------------------------------------------------------ one case
#[derive(Default)]
struct Out { corr: Vec<String>, fails: Vec<String>, evals: usize, skipped: Vec<String>, sens_observed: usize, sens_inconclusive: usize }

fn fail(out: &mut Out, what: &str, input: &str, expected: &str, actual: &str) {
    out.fails.push(format!("{{\"what\":{},\"input\":{},\"expected\":{},\"actual\":{}}}", jstr(what), jstr(input), jstr(expected), jstr(actual)));
}

/// Are n integers below dom enough to tell two independent outputs apart?  Never for ToyHasher: its low output bits are a
/// function of few state bits, so position vectors from related seeds collide with probability ~1/dom.
fn entropy_ok(n: usize, dom: usize, weak_hash: bool) -> bool { !weak_hash && (n as u32) * dom.trailing_zeros() >= 40 }

fn process<B, H>(tag: &str, spec: &Spec, opts: &ProofOptions, falsify: bool, out: &mut Out)
where B: StarkField + ExtensibleField<2> + ExtensibleField<3> + 'static, H: ElementHasher<BaseField = B> + Send + Sync {
    type RC<H> = RecordingCoin<DefaultRandomCoin<H>>;
    let desc = format!("{} w={} n={} degs={:?} per={:?} ex={} asrt={:?} aux={}/{} seed={} opts={:?}", tag, spec.width, spec.n(), spec.degs, spec.periodic,
        spec.exemptions, spec.assertions, spec.aux_width, spec.aux_rands, spec.seed, opts);
    let cols = gen_main::<B>(spec);
    let trace = FamTrace::new(spec, cols);
    let prover = FamProver::<B, H, RC<H>>::new(opts.clone());
    let pi = prover.get_pub_inputs(&trace);
    let _ = take_log();
    let res = catch(AssertUnwindSafe(|| prover.prove(trace)));
    let plog = take_log();
    let counts = (spec.assertions.len(), if spec.aux_width > 0 { spec.aux_width + spec.aux_assert_last as usize } else { 0 });
    core::<B, H, FamAir<B>, _>(tag, &desc, res, plog, vec![], pi, counts, opts, falsify, out);
}

/// The Lagrange-kernel family (harness/src/lagfam.rs): one main column, `aw` auxiliary columns (last = Lagrange kernel),
/// `nr` ordinary auxiliary random elements, log2(n) GKR draws.
fn process_lag<B, H>(tag: &str, log_n: u32, aw: usize, nr: usize, opts: &ProofOptions, falsify: bool, out: &mut Out)
where B: StarkField + ExtensibleField<2> + ExtensibleField<3> + 'static, H: ElementHasher<BaseField = B> + Send + Sync {
    type RC<H> = RecordingCoin<DefaultRandomCoin<H>>;
    let desc = format!("{} lagrange-kernel family n=2^{} aux_width={} aux_rands={} opts={:?}", tag, log_n, aw, nr, opts);
    let trace = match catch(move || LagTrace::<B>::new(log_n, aw, nr)) { Ok(t) => t, Err(_) => { out.skipped.push("lag-inadmissible".into()); return; } };
    let prover = LagProver::<B, H, RC<H>>::new(opts.clone(), aw);
    let _ = take_log();
    let _ = take_uses();
    let res = catch(AssertUnwindSafe(|| prover.prove(trace)));
    let plog = take_log();
    let puses = take_uses();
    core::<B, H, LagAir<B>, _>(tag, &desc, res, plog, puses, (), (1, 1), opts, falsify, out);
}

fn use_map(uses: &[String]) -> (std::collections::HashMap<String, char>, Vec<String>, Vec<String>) {
    let mut m = std::collections::HashMap::new();
    let (mut g, mut a) = (vec![], vec![]);
    for u in uses {
        let (kind, vals) = u.split_once(' ').unwrap_or((u.as_str(), ""));
        let c = if kind == "gkr" { 'G' } else { 'A' };
        if !(if c == 'G' { &g } else { &a }).contains(&vals.to_string()) { if c == 'G' { g.push(vals.to_string()) } else { a.push(vals.to_string()) } }
        for v in vals.split(',').filter(|x| !x.is_empty()) { m.insert(v.to_string(), c); }
    }
    (m, g, a)
}

fn core<B, H, A, Er: std::fmt::Display>(tag: &str, desc: &str, res: Result<Result<Proof, Er>, String>, plog: Vec<String>, puses: Vec<String>, pi: A::PublicInputs,
    counts: (usize, usize), opts: &ProofOptions, falsify: bool, out: &mut Out)
where B: StarkField + ExtensibleField<2> + ExtensibleField<3> + 'static, H: ElementHasher<BaseField = B> + Send + Sync,
      A: Air<BaseField = B>, A::PublicInputs: Clone + ToElements<B> {
    type RC<H> = RecordingCoin<DefaultRandomCoin<H>>;
    let weak = tag.contains("/toy/");
    let desc = desc.to_string();
    let proof = match res { Ok(Ok(p)) => p, Ok(Err(e)) => { out.skipped.push(format!("prove-err:{}", e)); return; } Err(m) => { out.skipped.push(format!("prove-panic:{}", m)); return; } };
    // (ii) is about the SERIALIZED proof: go through bytes when the codec round-trips (C12/C13 own the codec)
    let proof = Proof::from_bytes(&proof.to_bytes()).unwrap_or(proof);
    let acc = AcceptableOptions::OptionSet(vec![opts.clone()]);
    let _ = take_log();
    let _ = take_uses();
    let vres = catch(AssertUnwindSafe(|| verify::<A, H, RC<H>>(proof.clone(), pi.clone(), &acc)));
    let vlog = take_log();
    let vuses = take_uses();
    let rejected: Option<String> = match &vres { Ok(Ok(())) => None, Ok(Err(e)) => Some(format!("honest-proof-rejected:{}", e)), Err(m) => Some(format!("verify-panic:{}", m)) };

    // the shape, read from the AIR / options exactly like the two sides do
    let air = A::new(proof.context.trace_info().clone(), pi.clone(), opts.clone());
    let ti = proof.context.trace_info();
    let nseg = ti.num_segments();
    let lde = ti.length() * opts.blowup_factor();
    let layers = opts.to_fri_options().num_fri_layers(lde);
    let cc = air.context().num_constraint_composition_columns();
    let (am, aa) = counts;
    if am + aa != air.context().num_assertions() { out.skipped.push("assertion-count-mismatch".into()); return; }
    let ext = match opts.field_extension() { FieldExtension::None => 1, FieldExtension::Quadratic => 2, FieldExtension::Cubic => 3 };
    let shape = format!("{} {} {} {} {} {} {} {} {} {} {} {}", ti.main_trace_width(), ti.aux_segment_width(), ti.get_num_aux_segment_rand_elements(),
        air.context().num_main_transition_constraints(), air.context().num_aux_transition_constraints(), am, aa, cc, ext, layers,
        opts.grinding_factor(), opts.num_queries());
    // Lagrange-kernel column: number of GKR draws (what the family's GKR step draws: log2 n) and log2 of the trace length
    let lag = air.context().has_lagrange_kernel_aux_column();
    let shape = if lag { format!("{} 1 {} {}", shape, ti.length().ilog2(), ti.length().ilog2()) } else { format!("{} 0 0 0", shape) };
    let pub_elems: Vec<B> = pi.to_elements();
    let (ptags, pg, pa) = use_map(&puses);
    let (vtags, vg, va) = use_map(&vuses);

    let known = match known_of::<B, H>(&proof, &pub_elems, nseg, layers, cc) { Ok(k) => k, Err(e) => { out.skipped.push(e); return; } };
    let (pops, p_one) = parse_log(&plog);
    let (vops, v_one) = parse_log(&vlog);
    let pabs = abstract_log(&pops, &known, true, &ptags);
    let vabs = abstract_log(&vops, &known, false, &vtags);
    // use oracle (model independent): the values each side USES as GKR randomness / as ordinary auxiliary randomness are the
    // same values; judged even when the proof is rejected (a divergence of uses is a transcript divergence, and it is what
    // makes the verifier reject)
    if falsify && lag {
        let (vg, va) = if rejected.is_some() { (if vg.is_empty() { pg.clone() } else { vg }, if va.is_empty() { pa.clone() } else { va }) } else { (vg, va) };
        if pg != vg { fail(out, "values used as GKR / Lagrange randomness differ between prover and verifier", &desc, &pg.join(" | "), &vg.join(" | ")); }
        if pa != va { fail(out, "values used as auxiliary-segment randomness differ between prover and verifier", &desc, &pa.join(" | "), &va.join(" | ")); }
        if pg.is_empty() || vg.is_empty() { fail(out, "Lagrange family: no GKR randomness use observed", &desc, "", ""); }
    }

    if let Some(why) = &rejected {
        // an honest proof that is rejected is C01's business UNLESS the two transcripts diverge: the verifier's log must
        // be a prefix of the prover's (up to the documented differences)
        out.skipped.push(format!("{} {}", why, desc));
        if falsify {
            out.evals += 1;
            let (p, mut v, _, _) = normalize(&pops, &vops);
            // a verifier that stopped before the PoW check has no unmirrored draw yet
            if !vops.iter().any(|o| matches!(o, Op::Lz { .. })) { v = vops.clone(); }
            let m = p.len().min(v.len());
            if p[..m] != v[..m] {
                let k = p.iter().zip(v.iter()).position(|(a, b)| a != b).unwrap_or(m);
                fail(out, "honest proof rejected and the prover / verifier coin logs diverge", &format!("{} ({}) at op {}", desc, why, k), &format!("{:?}", p.get(k)), &format!("{:?}", v.get(k)));
            }
        } else {
            out.corr.push(format!("tr p {} {} => {}", tag, shape, pabs.join(" ")));
            out.corr.push(format!("chk p {} {} | {} => ok", tag, shape, pabs.join(" ")));
            // the verifier stopped early: what it did must still be a prefix of the model's verifier
            out.corr.push(format!("trp v {} {} | {} => prefix-ok", tag, shape, vabs.join(" ")));
        }
        return;
    }
    if !falsify {
        out.corr.push(format!("tr p {} {} => {}", tag, shape, pabs.join(" ")));
        out.corr.push(format!("tr v {} {} => {}", tag, shape, vabs.join(" ")));
        out.corr.push(format!("chk p {} {} | {} => ok", tag, shape, pabs.join(" ")));
        out.corr.push(format!("chk v {} {} | {} => ok", tag, shape, vabs.join(" ")));
        return;
    }

    // ------------------------------------------------------------------ falsifier (raw logs only)
    out.evals += 1;
    if !p_one || !v_one { fail(out, "more than one coin instance on one side", &desc, "one RandomCoin per run", "several ids"); }
    if pops.iter().chain(vops.iter()).any(|o| matches!(o, Op::Bad(_))) { fail(out, "unparsable coin log line", &desc, "", ""); return; }
    // (iv) seed
    for (side, ops) in [("prover", &pops), ("verifier", &vops)] {
        match ops.first() {
            Some(Op::New(s)) if *s == known.seed => {}
            Some(Op::New(s)) => fail(out, &format!("{}: seed differs from context.to_elements() ++ pub_inputs.to_elements()", side), &desc, &known.seed.join(","), &s.join(",")),
            _ => fail(out, &format!("{}: first coin operation is not new()", side), &desc, "new", &format!("{:?}", ops.first())),
        }
        if ops.iter().skip(1).any(|o| matches!(o, Op::New(_))) { fail(out, &format!("{}: coin re-created", side), &desc, "one new()", "several"); }
    }
    // (ii) every absorbed value is carried by the proof, in proof order, and every carried component is absorbed
    for (side, ops) in [("prover", &pops), ("verifier", &vops)] {
        let reseeds: Vec<&String> = ops.iter().filter_map(|o| if let Op::Reseed(h) = o { Some(h) } else { None }).collect();
        let want: Vec<&String> = known.comps.iter().map(|(_, b)| b).collect();
        if reseeds != want {
            let names: Vec<String> = reseeds.iter().map(|h| known.comps.iter().find(|(_, b)| b == *h).map(|(t, _)| t.clone()).unwrap_or("?".into())).collect();
            fail(out, &format!("{}: reseed data are not exactly the proof's components in order", side), &desc,
                 &known.comps.iter().map(|(t, _)| t.clone()).collect::<Vec<_>>().join(" "), &names.join(" "));
        }
        for o in ops.iter() {
            if let Op::Ints { n, dom, nonce, .. } = o {
                if *nonce != known.nonce || *dom != known.lde || *n != known.queries {
                    fail(out, &format!("{}: draw_integers arguments are not (num_queries, lde_domain_size, proof.pow_nonce)", side), &desc,
                         &format!("{} {} {:x}", known.queries, known.lde, known.nonce), &format!("{} {} {:x}", n, dom, nonce));
                }
            }
        }
        if !ops.iter().any(|o| matches!(o, Op::Ints { .. })) { fail(out, &format!("{}: no draw_integers", side), &desc, "", ""); }
    }
    // (i) identical logs
    {
        for (i, o) in pops.iter().enumerate() {
            if let Op::Lz { res, .. } = o {
                if matches!(pops.get(i + 1), Some(Op::Lz { .. })) && *res >= known.grinding { fail(out, "prover: grinding continued past a successful probe", &desc, "", &format!("{:?}", o)); }
            }
        }
        let (p, v, extra, p_after) = normalize(&pops, &vops);
        if extra != 1 || p_after != 0 {
            fail(out, "draws after the last reseed: expected exactly one on the verifier side and none on the prover side", &desc, "v=1 p=0", &format!("v={} p={}", extra, p_after));
        }
        if p != v {
            let k = p.iter().zip(v.iter()).position(|(a, b)| a != b).unwrap_or(p.len().min(v.len()));
            fail(out, "prover and verifier coin logs differ", &format!("{} at op {}", desc, k), &format!("{:?}", p.get(k)), &format!("{:?}", v.get(k)));
        }
        // the nonce satisfies the PoW on both sides
        for (side, ops) in [("prover", &p), ("verifier", &v)] {
            match ops.iter().find(|o| matches!(o, Op::Lz { .. })) {
                Some(Op::Lz { val, res }) => if *val != known.nonce || *res < known.grinding { fail(out, &format!("{}: PoW check not on proof.pow_nonce or below grinding factor", side), &desc, &format!("{:x} >={}", known.nonce, known.grinding), &format!("{:x} {}", val, res)); },
                _ => fail(out, &format!("{}: no check_leading_zeros", side), &desc, "", ""),
            }
        }
    }
    // replay of the verifier's operation sequence on a fresh coin reproduces the logged results
    let seed_elems: Vec<B> = { let mut s: Vec<B> = proof.context.to_elements(); s.extend(pub_elems.iter().copied()); s };
    let base = replay::<B, H>(&vops, &seed_elems, None);
    match &base {
        Some(b) => for (i, o) in vops.iter().enumerate() { if op_result(o) != b[i] { fail(out, "replay on a fresh DefaultRandomCoin disagrees with the log", &format!("{} op {}", desc, i), &op_result(o), &b[i]); break; } },
        None => fail(out, "replay impossible", &desc, "", ""),
    }
    // (iii-b) sensitivity of the logged operation sequence: perturb each absorption, all later results change
    if let Some(b) = &base {
        for (i, o) in vops.iter().enumerate() {
            if !matches!(o, Op::New(_) | Op::Reseed(_) | Op::Ints { .. }) { continue; }
            match replay::<B, H>(&vops, &seed_elems, Some(i)) {
                None => out.sens_inconclusive += 1,
                Some(m) => {
                    let start = if matches!(o, Op::Ints { .. }) { i } else { i + 1 };
                    for j in start..m.len() {
                        let cmp = match vops.get(j) {
                            Some(Op::Draw { .. }) => true,
                            Some(Op::Ints { n, dom, .. }) => entropy_ok(*n, *dom, weak),
                            None => true, // the final extra draw
                            _ => false,
                        };
                        if cmp { out.sens_observed += 1; if m[j] == b[j] { fail(out, "replay: a challenge does not change when an earlier absorbed value is perturbed", &format!("{} perturbed op {} ({:?}) challenge op {}", desc, i, o, j), "different", &m[j]); } }
                    }
                }
            }
        }
    }
    // (iii-a) sensitivity of the REAL verifier: flip one component of the proof
    let ncomm = nseg + 1 + layers + 1;
    let mut muts: Vec<(String, Option<Proof>)> = vec![];
    for i in 0..ncomm { muts.push((format!("commitment {}", i), mutate_commitment::<H>(&proof, i, nseg, layers))); }
    muts.push(("ood trace state".into(), mutate_ood(&proof, 0)));
    muts.push(("ood constraint evaluation".into(), mutate_ood(&proof, 1)));
    { let mut p = proof.clone(); p.pow_nonce ^= 1; muts.push(("pow nonce".into(), Some(p))); }
    for (name, mp) in muts {
        let mp = match mp { Some(p) => p, None => { out.sens_inconclusive += 1; continue; } };
        let _ = take_log();
        let r = catch(AssertUnwindSafe(|| verify::<A, H, RC<H>>(mp, pi.clone(), &acc)));
        let (mops, _) = parse_log(&take_log());
        // (acceptance of the flipped proof is not judged here: with a constant trace every position has the same opening, so a
        //  flipped nonce can legitimately verify; binding of openings is C02/C03)
        if let Ok(Ok(())) = r { out.skipped.push(format!("note:accepted-after-flip:{}", name.replace(' ', "-"))); }
        let first = mops.iter().zip(vops.iter()).position(|(a, b)| a != b);
        let j = match first {
            Some(j) => j,
            None => {
                if mops.len() >= vops.len() { fail(out, &format!("{}: flipping it changes nothing in the verifier's coin log (not absorbed)", name), &desc, "a change", "identical log"); }
                else { out.sens_inconclusive += 1; }
                continue;
            }
        };
        // the first difference must be the absorption itself (data of a reseed / the nonce), not a result
        let is_absorb = match (&mops[j], &vops[j]) {
            (Op::Reseed(_), Op::Reseed(_)) => true,
            (Op::Lz { val: a, .. }, Op::Lz { val: b, .. }) => a != b,
            _ => false,
        };
        if !is_absorb { fail(out, &format!("{}: first difference in the verifier log is not an absorption", name), &format!("{} op {}", desc, j), &format!("{:?}", vops[j]), &format!("{:?}", mops[j])); continue; }
        for k in j + 1..mops.len().min(vops.len()) {
            match (&mops[k], &vops[k]) {
                (Op::Draw { res: a, deg: d1 }, Op::Draw { res: b, deg: d2 }) => {
                    out.sens_observed += 1;
                    if a == b || d1 != d2 { fail(out, &format!("{}: a later challenge of the real verifier did not change", name), &format!("{} op {}", desc, k), "different", a); }
                }
                (Op::Ints { res: a, n, dom, nonce: n1 }, Op::Ints { res: b, nonce: n2, .. }) => {
                    if name == "pow nonce" && n1 == n2 { fail(out, "pow nonce: draw_integers does not use the proof's nonce", &desc, "", ""); }
                    if entropy_ok(*n, *dom, weak) { out.sens_observed += 1; if a == b { fail(out, &format!("{}: query positions of the real verifier did not change", name), &desc, "different", a); } }
                }
                (Op::Reseed(a), Op::Reseed(b)) => if a != b { fail(out, &format!("{}: a later reseed datum changed although only one component was flipped", name), &format!("{} op {}", desc, k), b, a); },
                (Op::Lz { .. }, Op::Lz { .. }) => {}
                (a, b) => fail(out, &format!("{}: operation kinds diverge after the flip", name), &format!("{} op {}", desc, k), &format!("{:?}", b), &format!("{:?}", a)),
            }
        }
    }
}

// ------------------------------------------------------------------------------------------------ case generation
fn gen_case(r: &mut Rng, i: usize) -> Option<(Spec, ProofOptions)> {
    // boundary stream first: the classes of the quantifier (segments x extension x 0..max layers x grinding)
    let boundary: [(usize, u32, usize, usize, usize, usize, u32, usize, u8); 12] = [
        // width log_n aux_w aux_r blowup fold grind rem ext
        (1, 3, 0, 0, 2, 2, 0, 7, 1),    // 0 FRI layers, no grinding, base field
        (1, 3, 0, 0, 2, 2, 0, 0, 1),    // max layers for n = 8
        (2, 6, 0, 0, 2, 2, 3, 0, 2),    // 6 layers, quadratic
        (3, 5, 2, 3, 4, 4, 1, 1, 3),    // aux segment, cubic
        (1, 4, 1, 0, 8, 8, 0, 3, 1),    // aux segment needing no random element
        (4, 4, 3, 1, 16, 16, 8, 15, 2), // large blowup / folding, grinding 8
        (20, 3, 0, 0, 4, 2, 2, 1, 1),   // wide
        (2, 7, 1, 2, 2, 4, 5, 0, 2),
        (1, 3, 1, 1, 2, 2, 0, 7, 3),    // aux + 0 layers
        (5, 5, 0, 0, 8, 2, 0, 31, 1),
        (3, 6, 2, 2, 4, 16, 4, 0, 1),
        (2, 4, 0, 0, 2, 2, 10, 1, 2),
    ];
    if i < boundary.len() {
        let (w, log_n, aw, ar, blowup, fold, grind, rem, ext) = boundary[i];
        let mut s = Spec::simple(w, log_n, 1 + (i as u32 % 2).min(blowup as u32 - 1), r.next_u64());
        s.aux_width = aw; s.aux_rands = ar;
        let e = match ext { 1 => FieldExtension::None, 2 => FieldExtension::Quadratic, _ => FieldExtension::Cubic };
        let lde = s.n() * blowup;
        if !fri_wellformed(lde, blowup, fold, rem) { return None; }
        let q = 1 + (i % 5);
        if q >= lde { return None; }
        return catch(|| ProofOptions::new(q, blowup, grind, e, fold, rem)).ok().map(|o| (s, o));
    }
    let blowup = *r.pick(&[2usize, 4, 8, 16]);
    let mut spec = random_spec(r, 6, blowup);
    if !admissible(&spec, blowup) { for d in spec.degs.iter_mut() { *d = (*d).min(blowup as u32).max(1); } }
    if !admissible(&spec, blowup) { return None; }
    if r.chance(1, 8) && spec.aux_width > 0 { spec.aux_rands = 0; }
    let ext = *r.pick(&[FieldExtension::None, FieldExtension::Quadratic, FieldExtension::Cubic]);
    let fold = *r.pick(&[2usize, 4, 8, 16]);
    let rem = *r.pick(&[0usize, 0, 1, 3, 7, 15, 31]);
    let q = 1 + r.below(12) as usize;
    let grind = *r.pick(&[0u32, 0, 1, 2, 3, 6]);
    if !fri_wellformed(spec.n() * blowup, blowup, fold, rem) || q >= spec.n() * blowup { return None; }
    catch(|| ProofOptions::new(q, blowup, grind, ext, fold, rem)).ok().map(|o| (spec, o))
}

fn dispatch(i: usize, spec: &Spec, opts: &ProofOptions, falsify: bool, out: &mut Out) {
    let cubic = opts.field_extension() == FieldExtension::Cubic;
    let tag = |f: &str, h: &str| format!("{}/{}/{}", f, h, i);
    match i % 9 {
        0 => process::<f64::BaseElement, ToyHasher<f64::BaseElement>>(&tag("f64", "toy"), spec, opts, falsify, out),
        1 => process::<f64::BaseElement, Blake3_256<f64::BaseElement>>(&tag("f64", "blake3_256"), spec, opts, falsify, out),
        2 => process::<f64::BaseElement, Rp64_256>(&tag("f64", "rp64_256"), spec, opts, falsify, out),
        3 => if cubic { out.skipped.push("f128-cubic-unsupported".into()) } else { process::<f128::BaseElement, ToyHasher<f128::BaseElement>>(&tag("f128", "toy"), spec, opts, falsify, out) },
        4 => if cubic { out.skipped.push("f128-cubic-unsupported".into()) } else { process::<f128::BaseElement, Blake3_256<f128::BaseElement>>(&tag("f128", "blake3_256"), spec, opts, falsify, out) },
        5 => if cubic { out.skipped.push("f62-cubic-unsupported".into()) } else { process::<f62::BaseElement, ToyHasher<f62::BaseElement>>(&tag("f62", "toy"), spec, opts, falsify, out) },
        6 => if cubic { out.skipped.push("f62-cubic-unsupported".into()) } else { process::<f62::BaseElement, Rp62_248>(&tag("f62", "rp62_248"), spec, opts, falsify, out) },
        7 => process::<f64::BaseElement, Sha3_256<f64::BaseElement>>(&tag("f64", "sha3_256"), spec, opts, falsify, out),
        _ => process::<f64::BaseElement, ToyHasher<f64::BaseElement>>(&tag("f64", "toy"), spec, opts, falsify, out),
    }
}

fn gen_lag_case(r: &mut Rng, k: usize) -> Option<(u32, usize, usize, ProofOptions)> {
    let log_n = 3 + r.below(4) as u32;
    let aw = 2 + r.below(3) as usize; // at least one ordinary auxiliary column before the Lagrange kernel column (the family asserts aux col 0 starts at 0)
    // 1..3 ordinary random elements (0 now and then): both the GKR draws and the ordinary draws happen
    let nr = if k % 5 == 4 { 0 } else { 1 + r.below(3) as usize };
    let blowup = *r.pick(&[2usize, 4, 8]);
    let ext = *r.pick(&[FieldExtension::None, FieldExtension::Quadratic, FieldExtension::Cubic]);
    let fold = *r.pick(&[2usize, 4, 8]);
    let rem = *r.pick(&[0usize, 1, 3, 7]);
    let q = 1 + r.below(8) as usize;
    let grind = *r.pick(&[0u32, 0, 1, 3]);
    let lde = (1usize << log_n) * blowup;
    if !fri_wellformed(lde, blowup, fold, rem) || q >= lde { return None; }
    catch(|| ProofOptions::new(q, blowup, grind, ext, fold, rem)).ok().map(|o| (log_n, aw, nr, o))
}

fn dispatch_lag(i: usize, k: usize, c: &(u32, usize, usize, ProofOptions), falsify: bool, out: &mut Out) {
    let (log_n, aw, nr, opts) = (c.0, c.1, c.2, &c.3);
    let cubic = opts.field_extension() == FieldExtension::Cubic;
    let tag = |f: &str, h: &str| format!("{}/{}/lag{}", f, h, i);
    match k % 5 {
        0 => process_lag::<f64::BaseElement, ToyHasher<f64::BaseElement>>(&tag("f64", "toy"), log_n, aw, nr, opts, falsify, out),
        1 => process_lag::<f64::BaseElement, Blake3_256<f64::BaseElement>>(&tag("f64", "blake3_256"), log_n, aw, nr, opts, falsify, out),
        2 => if cubic { out.skipped.push("f128-cubic-unsupported".into()) } else { process_lag::<f128::BaseElement, Blake3_256<f128::BaseElement>>(&tag("f128", "blake3_256"), log_n, aw, nr, opts, falsify, out) },
        3 => process_lag::<f64::BaseElement, Rp64_256>(&tag("f64", "rp64_256"), log_n, aw, nr, opts, falsify, out),
        _ => if cubic { out.skipped.push("f62-cubic-unsupported".into()) } else { process_lag::<f62::BaseElement, ToyHasher<f62::BaseElement>>(&tag("f62", "toy"), log_n, aw, nr, opts, falsify, out) },
    }
}

// ------------------------------------------------------------------------------------------------ Context::to_elements vs its model
fn int_hex_le(b: &[u8]) -> String {
    let mut s: String = b.iter().rev().map(|x| format!("{:02x}", x)).collect();
    while s.len() > 1 && s.starts_with('0') { s.remove(0); }
    s
}

fn ctx_line<B: StarkField>(eb: usize, r: &mut Rng) -> Option<String> {
    let main = match r.below(4) { 0 => 1, 1 => 255, _ => 1 + r.below(255) as usize };
    let aux = match r.below(3) { 0 => 0, _ => r.below((256 - main) as u64) as usize };
    let rands = if aux == 0 { 0 } else { match r.below(3) { 0 => 0, 1 => 255, _ => r.below(256) as usize } };
    let log_len = 3 + r.below(29) as u32;
    let meta_len = match r.below(5) { 0 => 0, 1 => eb - 1, 2 => eb, 3 => 1, _ => r.below(40) as usize };
    let mut meta = r.bytes(meta_len);
    if r.chance(1, 3) && !meta.is_empty() { let l = meta.len(); meta[l - 1] = 0; }
    let ext = *r.pick(&[FieldExtension::None, FieldExtension::Quadratic, FieldExtension::Cubic]);
    let (q, blowup, grind) = (1 + r.below(255) as usize, 1usize << (1 + r.below(7)), r.below(33) as u32);
    let (fold, rem) = (*r.pick(&[2usize, 4, 8, 16]), (1usize << r.below(9)) - 1);
    let ti = catch(|| TraceInfo::new_multi_segment(main, aux, rands, 1usize << log_len, meta.clone())).ok()?;
    let opts = catch(|| ProofOptions::new(q, blowup, grind, ext, fold, rem)).ok()?;
    let ctx = catch(|| Context::new::<B>(ti, opts)).ok()?;
    let elems: Vec<B> = ctx.to_elements();
    let e = match ext { FieldExtension::None => 1, FieldExtension::Quadratic => 2, FieldExtension::Cubic => 3 };
    Some(format!("ctx {} {:x} {:x} {:x} {:x} {} {} {:x} {:x} {:x} {:x} {:x} {:x} => {}", eb, main, aux, rands, 1u64 << log_len, hex_bytes(&meta),
        hex_bytes(&B::get_modulus_le_bytes()), q, blowup, grind, e, fold, rem,
        elems.iter().map(|x| int_hex_le(&x.to_bytes())).collect::<Vec<_>>().join(",")))
}

/// Injectivity falsifier for the seed encoding: perturb ONE field of a well-formed context; the element vectors must differ.
fn seed_injectivity_probe<B: StarkField>(fname: &str, eb: usize, r: &mut Rng, out: &mut Out) {
    let main = 1 + r.below(200) as usize;
    let aux = r.below(40) as usize;
    let rands = if aux == 0 { 0 } else { r.below(200) as usize };
    let log_len = 3 + r.below(20) as u32;
    let meta_len = match r.below(4) { 0 => 0, 1 => 1 + r.below((eb - 2) as u64) as usize, 2 => eb - 1, _ => r.below(50) as usize };
    let meta = r.bytes(meta_len);
    let exts = [FieldExtension::None, FieldExtension::Quadratic, FieldExtension::Cubic];
    let (q, bl, g, e, f, rem) = (1 + r.below(200) as usize, 1 + r.below(6) as u32, r.below(30) as u32, r.below(3) as usize, 1 + r.below(4) as u32, r.below(8) as u32);
    let mk = |main: usize, aux: usize, rands: usize, log_len: u32, meta: Vec<u8>, q: usize, bl: u32, g: u32, e: usize, f: u32, rem: u32| -> Option<Vec<String>> {
        let ti = catch(|| TraceInfo::new_multi_segment(main, aux, rands, 1usize << log_len, meta)).ok()?;
        let o = catch(|| ProofOptions::new(q, 1usize << bl, g, exts[e], 1usize << f, (1usize << rem) - 1)).ok()?;
        let c = catch(|| Context::new::<B>(ti, o)).ok()?;
        let v: Vec<B> = c.to_elements();
        Some(v.iter().map(|x| hex_bytes(&x.to_bytes())).collect())
    };
    let base = match mk(main, aux, rands, log_len, meta.clone(), q, bl, g, e, f, rem) { Some(b) => b, None => return };
    let mut m0 = meta.clone(); m0.push(0);
    let mut m1 = meta.clone(); if !m1.is_empty() { let l = m1.len(); m1[l - 1] ^= 0x80; }
    let variants: Vec<(&str, Option<Vec<String>>)> = vec![
        ("main width + 1", mk(main + 1, aux, rands, log_len, meta.clone(), q, bl, g, e, f, rem)),
        ("aux width + 1", mk(main, aux + 1, rands, log_len, meta.clone(), q, bl, g, e, f, rem)),
        ("aux rand elements + 1", if aux > 0 { mk(main, aux, rands + 1, log_len, meta.clone(), q, bl, g, e, f, rem) } else { None }),
        ("trace length * 2", mk(main, aux, rands, log_len + 1, meta.clone(), q, bl, g, e, f, rem)),
        ("trace metadata with one zero byte appended", mk(main, aux, rands, log_len, m0, q, bl, g, e, f, rem)),
        ("trace metadata last byte changed", if meta.is_empty() { None } else { mk(main, aux, rands, log_len, m1, q, bl, g, e, f, rem) }),
        ("num queries + 1", mk(main, aux, rands, log_len, meta.clone(), q + 1, bl, g, e, f, rem)),
        ("blowup * 2", mk(main, aux, rands, log_len, meta.clone(), q, bl + 1, g, e, f, rem)),
        ("grinding + 1", mk(main, aux, rands, log_len, meta.clone(), q, bl, g + 1, e, f, rem)),
        ("field extension changed", mk(main, aux, rands, log_len, meta.clone(), q, bl, g, (e + 1) % 3, f, rem)),
        ("folding factor changed", mk(main, aux, rands, log_len, meta.clone(), q, bl, g, e, f % 4 + 1, rem)),
        ("remainder max degree changed", mk(main, aux, rands, log_len, meta.clone(), q, bl, g, e, f, (rem + 1) % 8)),
    ];
    for (what, v) in variants {
        if let Some(v) = v {
            out.evals += 1;
            if v == base {
                fail(out, &format!("seed encoding: Context::to_elements unchanged by: {}", what),
                     &format!("{} main={} aux={} rands={} len=2^{} meta={} q={} blowup=2^{} grind={} ext={} fold=2^{} rem=2^{}-1", fname, main, aux, rands, log_len, hex_bytes(&meta), q, bl, g, e, f, rem),
                     "different element vectors", &base.join(","));
            }
        }
    }
}

fn main() {
    silence_panics();
    let args: Vec<String> = std::env::args().collect();
    let mode = args.get(1).map(|s| s.as_str()).unwrap_or("corr");
    let seed: u64 = args.get(2).and_then(|s| s.parse().ok()).unwrap_or(1);
    let n: usize = args.get(3).and_then(|s| s.parse().ok()).unwrap_or(20);
    let falsify = mode == "falsify";
    let mut r = Rng::new(seed ^ if falsify { 0xFA15 } else { 0 });
    let mut out = Out::default();
    let mut done = 0usize;
    let mut i = 0usize;
    while done < n && i < 20 * n + 100 {
        // every sixth case (after the boundary stream) is a member of the Lagrange-kernel family
        if i >= 12 && i % 6 == 4 {
            if let Some(c) = gen_lag_case(&mut r, i / 6) {
                let before = out.corr.len() + out.evals;
                dispatch_lag(i, i / 6, &c, falsify, &mut out);
                if out.corr.len() + out.evals > before { done += 1; }
                for l in out.corr.drain(..) { println!("{}", l); }
                for l in out.fails.drain(..) { println!("{}", l); FAILS.with(|f| *f.borrow_mut() += 1); }
            }
            i += 1;
            continue;
        }
        let c = gen_case(&mut r, i);
        if let Some((spec, opts)) = c {
            let before = out.corr.len() + out.evals;
            dispatch(i, &spec, &opts, falsify, &mut out);
            if out.corr.len() + out.evals > before { done += 1; }
            for l in out.corr.drain(..) { println!("{}", l); }
            for l in out.fails.drain(..) { println!("{}", l); out.sens_inconclusive += 0; FAILS.with(|f| *f.borrow_mut() += 1); }
        }
        i += 1;
    }
    if !falsify {
        let mut rc = Rng::new(seed ^ 0xC7C7);
        for k in 0..(4 * n).max(60) {
            let l = match k % 3 { 0 => ctx_line::<f64::BaseElement>(8, &mut rc), 1 => ctx_line::<f128::BaseElement>(16, &mut rc), _ => ctx_line::<f62::BaseElement>(8, &mut rc) };
            if let Some(l) = l { println!("{}", l); }
        }
    }
    for s in &out.skipped { if s.starts_with("honest-proof-rejected") || s.starts_with("verify-panic") { eprintln!("{}", s); } }
    let mut kinds: std::collections::BTreeMap<String, usize> = Default::default();
    for s in &out.skipped { *kinds.entry(if s.starts_with("prove-panic") { s.chars().take(110).collect() } else { s.split(' ').next().unwrap_or("").chars().take(60).collect() }).or_default() += 1; }
    eprintln!("cases={} skipped={:?} sensitivity_observed={} sensitivity_inconclusive={}", done, kinds, out.sens_observed, out.sens_inconclusive);
    if falsify {
        let proofs = out.evals;
        let mut rs = Rng::new(seed ^ 0x5EED);
        for k in 0..(n / 2).max(30) {
            match k % 3 { 0 => seed_injectivity_probe::<f64::BaseElement>("f64", 8, &mut rs, &mut out), 1 => seed_injectivity_probe::<f128::BaseElement>("f128", 16, &mut rs, &mut out), _ => seed_injectivity_probe::<f62::BaseElement>("f62", 8, &mut rs, &mut out) }
            for l in out.fails.drain(..) { println!("{}", l); FAILS.with(|f| *f.borrow_mut() += 1); }
        }
        println!("sensitivity_observed={} sensitivity_inconclusive={} skipped={} proofs={}", out.sens_observed, out.sens_inconclusive, out.skipped.len(), proofs);
        println!("evaluations={} failures={}", out.evals, FAILS.with(|f| *f.borrow()));
    }
}

thread_local! { static FAILS: std::cell::RefCell<usize> = std::cell::RefCell::new(0); }
