//! C08 harness: quadratic / cubic extension fields.
//!   c08 corr <seed> <n>      -> lines "<fld>.<op> <hex canonical coefficients..> => <impl result>"
//!                               fld: q64 q62 q128 (QuadExtension<f64|f62|f128>), c64 c62 (CubeExtension<f64|f62>)
//!   c08 falsify <seed> <n>   -> JSON lines, one per property failure found against the schoolbook oracle
//! Oracle (independent of the Coq model and of the library): polynomial multiplication over u128 `refmath`
//! arithmetic followed by reduction with the DOCUMENTED irreducible polynomial.
use std::panic::AssertUnwindSafe;

use wf_harness::{catch, hex_bytes, jstr, prng::Rng, refmath::*, silence_panics, watchdog::{self, Progress}};
use winter_math::{
    fields::{f128, f62, f64, CubeExtension, QuadExtension},
    ExtensionOf, FieldElement, StarkField,
};
use winter_utils::{Deserializable, Serializable};

const M64: u128 = 0xFFFF_FFFF_0000_0001;
const M62: u128 = 4611624995532046337;
const M128: u128 = 340282366920938463463374557953744961537;

// ---------------------------------------------------------------- base fields
trait Base: StarkField {
    const P: u128;
    const NB: usize;
    fn fr(v: u128) -> Self;
    fn to(&self) -> u128;
}
impl Base for f64::BaseElement {
    const P: u128 = M64;
    const NB: usize = 8;
    fn fr(v: u128) -> Self { Self::new((v % M64) as u64) }
    fn to(&self) -> u128 { self.as_int() as u128 }
}
impl Base for f62::BaseElement {
    const P: u128 = M62;
    const NB: usize = 8;
    fn fr(v: u128) -> Self { Self::new((v % M62) as u64) }
    fn to(&self) -> u128 { self.as_int() as u128 }
}
impl Base for f128::BaseElement {
    const P: u128 = M128;
    const NB: usize = 16;
    fn fr(v: u128) -> Self { Self::new(v % M128) }
    fn to(&self) -> u128 { self.as_int() }
}

/// a base element with value v, reached either directly or as a sum/difference/product so that the internal
/// representation is not always the one `new` produces (f62 keeps values in [0, 2M) internally)
fn reach<B: Base>(v: u128, mode: u64, t: u128) -> B {
    let p = B::P;
    let t = t % p;
    match mode % 6 {
        0 | 1 | 2 => B::fr(v),
        3 => B::fr(submod(v, t, p)) + B::fr(t),
        4 => B::fr(addmod(v, t, p)) - B::fr(t),
        _ => -B::fr(submod(0, v, p)),
    }
}

// ---------------------------------------------------------------- extension fields
trait Ext: FieldElement<BaseField = <Self as Ext>::B> + ExtensionOf<<Self as Ext>::B> + Serializable + Deserializable {
    type B: Base;
    const TAG: &'static str;
    const N: usize;
    /// x^N = sum RED[i] x^i (documented irreducible polynomial), entries are canonical residues
    fn red() -> Vec<u128>;
    fn mk(c: &[<Self as Ext>::B]) -> Self;
    fn co(&self) -> Vec<u128>;
    fn exp_u64(self, e: u64) -> Self;
    fn try_bytes(b: &[u8]) -> Option<Self>;
    fn from_u32(v: u32) -> Self;
    fn try_u64(v: u64) -> Option<Self>;
    fn try_u128(v: u128) -> Option<Self>;
}
macro_rules! quad {
    ($b:ty, $tag:expr, $red:expr, $pi:ty) => {
        impl Ext for QuadExtension<$b> {
            type B = $b;
            const TAG: &'static str = $tag;
            const N: usize = 2;
            fn red() -> Vec<u128> { $red }
            fn mk(c: &[$b]) -> Self { QuadExtension::new(c[0], c[1]) }
            fn co(&self) -> Vec<u128> { self.to_base_elements().iter().map(|x| x.to()).collect() }
            fn exp_u64(self, e: u64) -> Self { self.exp(e as $pi) }
            fn try_bytes(b: &[u8]) -> Option<Self> { Self::try_from(b).ok() }
            fn from_u32(v: u32) -> Self { Self::from(v) }
            fn try_u64(v: u64) -> Option<Self> { Self::try_from(v).ok() }
            fn try_u128(v: u128) -> Option<Self> { Self::try_from(v).ok() }
        }
    };
}
macro_rules! cube {
    ($b:ty, $tag:expr, $red:expr, $pi:ty) => {
        impl Ext for CubeExtension<$b> {
            type B = $b;
            const TAG: &'static str = $tag;
            const N: usize = 3;
            fn red() -> Vec<u128> { $red }
            fn mk(c: &[$b]) -> Self { CubeExtension::new(c[0], c[1], c[2]) }
            fn co(&self) -> Vec<u128> { self.to_base_elements().iter().map(|x| x.to()).collect() }
            fn exp_u64(self, e: u64) -> Self { self.exp(e as $pi) }
            fn try_bytes(b: &[u8]) -> Option<Self> { Self::try_from(b).ok() }
            fn from_u32(v: u32) -> Self { Self::from(v) }
            fn try_u64(v: u64) -> Option<Self> { Self::try_from(v).ok() }
            fn try_u128(v: u128) -> Option<Self> { Self::try_from(v).ok() }
        }
    };
}
// f64: x^2 - x + 2 (x^2 = x - 2), x^3 - x - 1 (x^3 = x + 1)
quad!(f64::BaseElement, "q64", vec![M64 - 2, 1], u64);
cube!(f64::BaseElement, "c64", vec![1, 1, 0], u64);
// f62: x^2 - x - 1 (x^2 = x + 1), x^3 + 2x + 2 (x^3 = -2x - 2)
quad!(f62::BaseElement, "q62", vec![1, 1], u64);
cube!(f62::BaseElement, "c62", vec![M62 - 2, M62 - 2, 0], u64);
// f128: x^2 - x - 1
quad!(f128::BaseElement, "q128", vec![1, 1], u128);

type Q64 = QuadExtension<f64::BaseElement>;
type Q62 = QuadExtension<f62::BaseElement>;
type Q128 = QuadExtension<f128::BaseElement>;
type C64 = CubeExtension<f64::BaseElement>;
type C62 = CubeExtension<f62::BaseElement>;

// ---------------------------------------------------------------- coefficient generators
fn classes(p: u128) -> Vec<u128> {
    let mut v: Vec<u128> = vec![
        0, 1, 2, 3, 7, p - 1, p - 2, p - 3, (p - 1) / 2, (p + 1) / 2, (p - 1) / 2 - 1, (p + 1) / 2 + 1,
        0xFFFF_FFFF, 1 << 32, (1 << 32) + 1, 0xFFFF_FFFE, 1 << 31,
        1 << 63, (1 << 63) - 1, (1u128 << 63) + 1, (1u128 << 64) - 1, 1u128 << 64, (1u128 << 64) + 1,
        0xFFFF_FFFF_0000_0000, 0xFFFF_FFFE_FFFF_FFFF, (1u128 << 62) - 1, 1u128 << 62, (1u128 << 62) + 1, 1u128 << 61,
        (p - 1) / 3, p / 2 + 2, 1u128 << 127, (1u128 << 127) - 1, 45u128 << 40, u128::MAX, u128::MAX - 1,
    ];
    for x in v.iter_mut() { *x %= p; }
    v.sort();
    v.dedup();
    v
}
fn small(p: u128) -> Vec<u128> {
    vec![0, 1, p - 1, p - 2, (p - 1) / 2, (p + 1) / 2]
}
fn coeff(r: &mut Rng, p: u128, cl: &[u128]) -> u128 {
    match r.below(10) {
        0..=3 => *r.pick(cl),
        4 => r.pick(cl).wrapping_add(r.below(9) as u128).wrapping_sub(4) % p,
        5 => r.next_u64() as u128 % p,
        6 => ((r.next_u64() as u128) << 32) % p,
        _ => r.next_u128() % p,
    }
}
/// operand with structure that makes the partial sums/differences of the Karatsuba-style formulas hit 0 / p-1 / p
fn operand(r: &mut Rng, p: u128, n: usize, cl: &[u128]) -> Vec<u128> {
    let mut a: Vec<u128> = (0..n).map(|_| coeff(r, p, cl)).collect();
    match r.below(12) {
        0 => { a[1] = submod(0, a[0], p); }                                   // a0 + a1 = 0
        1 => { a[1] = submod(p - 1, a[0], p); }                               // a0 + a1 = p - 1
        2 => { a[1] = submod(1, a[0], p); }                                   // a0 + a1 = 1 (wraps to p + 1)
        3 => { let k = n - 1; a[k] = a[0]; }                                  // a0 - a_{n-1} = 0
        4 => { let k = n - 1; a[k] = submod(0, a[1 % n], p); }
        5 => { for x in a.iter_mut() { *x = *r.pick(&small(p)); } }
        6 => { let z = r.below(n as u64) as usize; for (i, x) in a.iter_mut().enumerate() { if i != z { *x = 0; } } }
        _ => {}
    }
    a
}
fn tuples(vals: &[u128], n: usize) -> Vec<Vec<u128>> {
    let mut out: Vec<Vec<u128>> = vec![vec![]];
    for _ in 0..n {
        let mut nxt = Vec::new();
        for t in &out { for v in vals { let mut u = t.clone(); u.push(*v); nxt.push(u); } }
        out = nxt;
    }
    out
}

fn hexs(v: &[u128]) -> String {
    v.iter().map(|x| format!("{:x}", x)).collect::<Vec<_>>().join(" ")
}
fn build<E: Ext>(r: &mut Rng, c: &[u128]) -> E {
    let b: Vec<E::B> = c.iter().map(|v| { let (m, t) = (r.below(6), r.next_u128()); reach::<E::B>(*v, m, t) }).collect();
    E::mk(&b)
}
fn show<E: Ext>(res: Result<E, String>) -> String {
    match res { Ok(e) => hexs(&e.co()), Err(_) => "panic".into() }
}

// ---------------------------------------------------------------- correspondence
const UNARY: [&str; 5] = ["square", "inv", "conj", "neg", "double"];
const BINARY: [&str; 5] = ["mul", "add", "sub", "div", "eq"];

fn corr_case<E: Ext>(r: &mut Rng, op: &str, a: &[u128], b: &[u128], out: &mut Vec<String>) {
    let p = E::B::P;
    let tag = E::TAG;
    let line = match op {
        "mul" | "add" | "sub" | "div" => {
            let (x, y) = (build::<E>(r, a), build::<E>(r, b));
            let res = catch(AssertUnwindSafe(|| match op { "mul" => x * y, "add" => x + y, "sub" => x - y, _ => x / y }));
            format!("{}.{} {} {} => {}", tag, op, hexs(a), hexs(b), show::<E>(res))
        }
        "eq" => {
            let (x, y) = (build::<E>(r, a), build::<E>(r, b));
            format!("{}.eq {} {} => {}", tag, hexs(a), hexs(b), (x == y) as u8)
        }
        "square" | "inv" | "conj" | "neg" | "double" => {
            let x = build::<E>(r, a);
            let res = catch(AssertUnwindSafe(|| match op { "square" => x.square(), "inv" => x.inv(), "conj" => x.conjugate(), "neg" => -x, _ => x.double() }));
            format!("{}.{} {} => {}", tag, op, hexs(a), show::<E>(res))
        }
        "mul_base" => {
            let x = build::<E>(r, a);
            let s = reach::<E::B>(b[0], r.below(6), r.next_u128());
            format!("{}.mul_base {} {:x} => {}", tag, hexs(a), b[0], show::<E>(catch(AssertUnwindSafe(|| x.mul_base(s)))))
        }
        "from_base" => {
            let s = reach::<E::B>(b[0], r.below(6), r.next_u128());
            format!("{}.from_base {:x} => {}", tag, b[0], hexs(&E::from(s).co()))
        }
        "exp" => {
            let x = build::<E>(r, a);
            let e = match r.below(4) { 0 => r.below(6), 1 => r.below(40), 2 => 1u64 << r.below(12), _ => r.below(3000) };
            format!("{}.exp {} {:x} => {}", tag, hexs(a), e, show::<E>(catch(AssertUnwindSafe(|| x.exp_u64(e)))))
        }
        "base_element" => {
            let x = build::<E>(r, a);
            let k = r.below(E::N as u64 + 2) as usize;
            let res = catch(AssertUnwindSafe(|| x.base_element(k).to()));
            format!("{}.base_element {} {} => {}", tag, hexs(a), k, match res { Ok(v) => format!("{:x}", v), Err(_) => "panic".into() })
        }
        "as_base" => {
            let len = r.below(4) as usize;
            let mut elems = Vec::new();
            let mut toks = Vec::new();
            for i in 0..len {
                let c = if i == 0 { a.to_vec() } else if i == 1 { b.to_vec() } else { operand(r, p, E::N, &classes(p)) };
                toks.push(c.iter().map(|x| format!("{:x}", x)).collect::<Vec<_>>().join(","));
                elems.push(build::<E>(r, &c));
            }
            let flat: Vec<u128> = E::slice_as_base_elements(&elems).iter().map(|x| x.to()).collect();
            format!("{}.as_base {} => {}", tag, if toks.is_empty() { "-".into() } else { toks.join(" ") }, if flat.is_empty() { "-".into() } else { hexs(&flat) })
        }
        "from_base_slice" => {
            let len = match r.below(3) { 0 => E::N * r.below(4) as usize, _ => r.below(9) as usize };
            let vals: Vec<u128> = (0..len).map(|i| if i < E::N { a[i] } else if i < 2 * E::N { b[i - E::N] } else { coeff(r, p, &classes(p)) }).collect();
            let bs: Vec<E::B> = vals.iter().map(|v| reach::<E::B>(*v, r.below(6), r.next_u128())).collect();
            let res = catch(AssertUnwindSafe(|| {
                E::slice_from_base_elements(&bs).iter().map(|e| e.co().iter().map(|x| format!("{:x}", x)).collect::<Vec<_>>().join(",")).collect::<Vec<_>>()
            }));
            format!("{}.from_base_slice {} => {}", tag, if vals.is_empty() { "-".into() } else { hexs(&vals) },
                match res { Ok(t) => if t.is_empty() { "-".into() } else { t.join(" ") }, Err(_) => "panic".into() })
        }
        "to_bytes" => {
            let x = build::<E>(r, a);
            format!("{}.to_bytes {} => {}", tag, hexs(a), hex_bytes(&x.to_bytes()))
        }
        "read" | "try_from" => {
            // bytes: canonical encoding, or with a coefficient >= p, or truncated / extended
            let nb = E::B::NB;
            let mut bytes = Vec::new();
            let bad = r.below(4) == 0;
            let badpos = r.below(E::N as u64) as usize;
            for (i, v) in a.iter().enumerate() {
                let mut w = *v;
                if bad && i == badpos {
                    let lim: u128 = if nb == 16 { u128::MAX } else { u64::MAX as u128 };
                    w = match r.below(3) { 0 => p, 1 => lim, _ => p + (r.next_u128() % (lim - p + 1)) };
                }
                bytes.extend_from_slice(&w.to_le_bytes()[..nb]);
            }
            match r.below(6) { 0 => { bytes.pop(); } 1 => { bytes.push(r.next_u64() as u8); } 2 => { bytes.truncate(r.below(bytes.len() as u64 + 1) as usize); } _ => {} }
            let res = if op == "read" { E::read_from_bytes(&bytes).ok() } else { E::try_bytes(&bytes) };
            format!("{}.{} {} => {}", tag, op, hex_bytes(&bytes), match res { Some(e) => hexs(&e.co()), None => "err".into() })
        }
        _ => unreachable!(),
    };
    out.push(line);
}

fn corr_field<E: Ext>(r: &mut Rng, n: usize, out: &mut Vec<String>) {
    let p = E::B::P;
    let cl = classes(p);
    let sm = small(p);
    // 1. boundary stream: every tuple of {0,1,p-1,p-2,(p-1)/2,(p+1)/2} through every unary op; the same tuples as left
    //    operand of every binary op against a boundary tuple and a structured operand; every class in every position
    let tp = tuples(&sm, E::N);
    for a in &tp {
        for op in UNARY { corr_case::<E>(r, op, a, a, out); }
        for (k, op) in BINARY.iter().enumerate() {
            let b = tp[(r.below(tp.len() as u64) as usize + k) % tp.len()].clone();
            corr_case::<E>(r, op, a, &b, out);
            let b2 = operand(r, p, E::N, &cl);
            corr_case::<E>(r, op, a, &b2, out);
            corr_case::<E>(r, op, &b2, a, out);
        }
        corr_case::<E>(r, "eq", a, a, out);
        let sv = *r.pick(&sm); corr_case::<E>(r, "mul_base", a, &[sv], out);
        corr_case::<E>(r, "exp", a, a, out);
    }
    for pos in 0..E::N {
        for c in &cl {
            let mut a = operand(r, p, E::N, &cl);
            a[pos] = *c;
            let b = operand(r, p, E::N, &cl);
            for op in ["mul", "div"] { corr_case::<E>(r, op, &a, &b, out); corr_case::<E>(r, op, &b, &a, out); }
            for op in ["square", "inv", "conj"] { corr_case::<E>(r, op, &a, &a, out); }
            corr_case::<E>(r, "mul_base", &b, &[*c], out);
            corr_case::<E>(r, "from_base", &b, &[*c], out);
            corr_case::<E>(r, "to_bytes", &a, &a, out);
            corr_case::<E>(r, "read", &a, &a, out);
        }
    }
    // 2. random / structured stream over all operations
    let ops = ["mul", "square", "inv", "mul_base", "conj", "div", "add", "sub", "neg", "double", "exp", "eq", "from_base",
        "base_element", "as_base", "from_base_slice", "to_bytes", "read", "try_from", "mul", "inv", "square"];
    for i in 0..n {
        let op = ops[i % ops.len()];
        let a = operand(r, p, E::N, &cl);
        let mut b = operand(r, p, E::N, &cl);
        if op == "eq" && r.chance(1, 3) { b = a.clone(); if r.chance(1, 2) { let k = r.below(E::N as u64) as usize; b[k] = addmod(b[k], 1, p); } }
        if op == "mul" && r.chance(1, 8) { b = a.clone(); }
        corr_case::<E>(r, op, &a, &b, out);
    }
}

// ---------------------------------------------------------------- reference arithmetic (oracle)
fn ref_mul(a: &[u128], b: &[u128], red: &[u128], p: u128) -> Vec<u128> {
    let n = a.len();
    let mut c = vec![0u128; 2 * n - 1];
    for i in 0..n { for j in 0..n { c[i + j] = addmod(c[i + j], mulmod(a[i], b[j], p), p); } }
    for k in (n..2 * n - 1).rev() {
        let t = c[k];
        c[k] = 0;
        for i in 0..n { c[k - n + i] = addmod(c[k - n + i], mulmod(t, red[i], p), p); }
    }
    c.truncate(n);
    c
}
fn ref_pow(a: &[u128], mut e: u128, red: &[u128], p: u128) -> Vec<u128> {
    let mut r = vec![0u128; a.len()];
    r[0] = 1;
    let mut b = a.to_vec();
    while e > 0 {
        if e & 1 == 1 { r = ref_mul(&r, &b, red, p); }
        b = ref_mul(&b, &b, red, p);
        e >>= 1;
    }
    r
}

struct Fails { n: usize }
impl Fails {
    fn emit(&mut self, fld: &str, what: &str, input: String, expected: String, actual: String) {
        println!("{{\"field\":{},\"what\":{},\"input\":{},\"expected\":{},\"actual\":{}}}", jstr(fld), jstr(what), jstr(&input), jstr(&expected), jstr(&actual));
        self.n += 1;
    }
}

fn falsify_field<E: Ext>(r: &mut Rng, n: usize, fails: &mut Fails, prog: &Progress) -> usize {
    let p = E::B::P;
    let red = E::red();
    let cl = classes(p);
    let sm = small(p);
    let nn = E::N;
    let one: Vec<u128> = (0..nn).map(|i| if i == 0 { 1 } else { 0 }).collect();
    let zero = vec![0u128; nn];
    let mut evals = 0;
    // every boundary tuple: inverse exists, a * inv(a) = 1, square = mul, conj^N = id
    let mut inputs: Vec<(Vec<u128>, Vec<u128>, Vec<u128>)> = Vec::new();
    let tp = tuples(&sm, nn);
    for a in &tp { let b = tp[r.below(tp.len() as u64) as usize].clone(); let c = operand(r, p, nn, &cl); inputs.push((a.clone(), b, c)); }
    for pos in 0..nn { for c in &cl { let mut a = operand(r, p, nn, &cl); a[pos] = *c; inputs.push((a, operand(r, p, nn, &cl), operand(r, p, nn, &cl))); } }
    for _ in 0..n { inputs.push((operand(r, p, nn, &cl), operand(r, p, nn, &cl), operand(r, p, nn, &cl))); }
    for (ai, (a, b, c)) in inputs.iter().enumerate() {
        let desc = format!("a=[{}] b=[{}] c=[{}]", hexs(a), hexs(b), hexs(c));
        prog.step(|| format!("{} {}", E::TAG, desc));
        let res = catch(AssertUnwindSafe(|| {
            let bad: std::cell::RefCell<Vec<(String, String, String)>> = std::cell::RefCell::new(Vec::new());
            let (x, y, w) = (build::<E>(r, a), build::<E>(r, b), build::<E>(r, c));
            let chk = |what: &str, got: Vec<u128>, want: Vec<u128>| { if got != want { bad.borrow_mut().push((what.to_string(), hexs(&want), hexs(&got))); } };
            let ab = ref_mul(a, b, &red, p);
            chk("mul vs schoolbook product reduced by the documented polynomial", (x * y).co(), ab.clone());
            chk("mul commutes", (y * x).co(), ab.clone());
            chk("square vs schoolbook", x.square().co(), ref_mul(a, a, &red, p));
            let mut bb = zero.clone(); bb[0] = b[0];
            chk("mul_base vs schoolbook", x.mul_base(E::B::fr(b[0])).co(), ref_mul(a, &bb, &red, p));
            chk("mul by embedded base element", (x * E::from(E::B::fr(b[0]))).co(), ref_mul(a, &bb, &red, p));
            chk("add", (x + y).co(), (0..nn).map(|i| addmod(a[i], b[i], p)).collect());
            chk("sub", (x - y).co(), (0..nn).map(|i| submod(a[i], b[i], p)).collect());
            chk("neg", (-x).co(), (0..nn).map(|i| submod(0, a[i], p)).collect());
            chk("double", x.double().co(), (0..nn).map(|i| addmod(a[i], a[i], p)).collect());
            chk("associativity (a*b)*c", ((x * y) * w).co(), ref_mul(&ab, c, &red, p));
            chk("distributivity a*(b+c)", (x * (y + w)).co(), ref_mul(a, &(0..nn).map(|i| addmod(b[i], c[i], p)).collect::<Vec<_>>(), &red, p));
            chk("one", (x * E::ONE).co(), a.clone());
            // inverse
            let xi = x.inv();
            if *a == zero {
                chk("inv(0) = 0", xi.co(), zero.clone());
            } else {
                chk("a * inv(a) = 1 (library mul)", (x * xi).co(), one.clone());
                chk("a * inv(a) = 1 (schoolbook mul)", ref_mul(a, &xi.co(), &red, p), one.clone());
            }
            if *b != zero {
                chk("(a / b) * b = a", ref_mul(&(x / y).co(), b, &red, p), a.clone());
            }
            // conjugation
            let cx = x.conjugate();
            chk("conjugate multiplicative", (x * y).conjugate().co(), ref_mul(&cx.co(), &y.conjugate().co(), &red, p));
            chk("conjugate additive", (x + y).conjugate().co(), (0..nn).map(|i| addmod(cx.co()[i], y.conjugate().co()[i], p)).collect());
            chk("conjugate fixes base elements", E::from(E::B::fr(b[0])).conjugate().co(), bb.clone());
            let mut it = x; for _ in 0..nn { it = it.conjugate(); }
            chk("conjugate^N = id", it.co(), a.clone());
            let in_base = a[1..].iter().all(|v| *v == 0);
            if (cx.co() == *a) != in_base { bad.borrow_mut().push(("conjugate fixes exactly the base field".into(), format!("fixed={}", in_base), format!("fixed={}", cx.co() == *a))); }
            if ai % 8 == 0 || ai < 64 {
                chk("conjugate(a) = a^p (schoolbook power)", cx.co(), ref_pow(a, p, &red, p));
            }
            // norm lies in the base field
            let mut nm = x; let mut cj = x; for _ in 1..nn { cj = cj.conjugate(); nm = nm * cj; }
            if nm.co()[1..].iter().any(|v| *v != 0) { bad.borrow_mut().push(("norm in base field".into(), "(n,0..)".into(), hexs(&nm.co()))); }
            // equality
            let x2 = build::<E>(r, a);
            if x != x2 { bad.borrow_mut().push(("same coefficients compare unequal".into(), "==".into(), "!=".into())); }
            if (x == y) != (a == b) { bad.borrow_mut().push(("== disagrees with coefficients".into(), format!("{}", a == b), format!("{}", x == y))); }
            // exp with small exponents
            let e = r.below(9);
            chk("exp small", x.exp_u64(e).co(), ref_pow(a, e as u128, &red, p));
            // slices
            let v = vec![x, y, w];
            let flat: Vec<u128> = E::slice_as_base_elements(&v).iter().map(|t| t.to()).collect();
            chk("slice_as_base_elements content", flat, [a.clone(), b.clone(), c.clone()].concat());
            let back = E::slice_from_base_elements(E::slice_as_base_elements(&v));
            if back != &v[..] { bad.borrow_mut().push(("slice_from_base_elements(slice_as_base_elements(v)) = v".into(), "v".into(), "other".into())); }
            let bs: Vec<E::B> = [a.clone(), b.clone()].concat().iter().map(|t| E::B::fr(*t)).collect();
            let g = E::slice_from_base_elements(&bs);
            if g.len() != 2 || g[0].co() != *a || g[1].co() != *b { bad.borrow_mut().push(("slice_from_base_elements content".into(), "a,b".into(), "other".into())); }
            // serialization
            let nb = E::B::NB;
            let mut want = Vec::new(); for t in a { want.extend_from_slice(&t.to_le_bytes()[..nb]); }
            if x.to_bytes() != want { bad.borrow_mut().push(("to_bytes = canonical LE coefficients".into(), hex_bytes(&want), hex_bytes(&x.to_bytes()))); }
            match E::read_from_bytes(&x.to_bytes()) { Ok(d) if d == x && d.co() == *a => {} _ => bad.borrow_mut().push(("read_from_bytes(to_bytes(a)) = a".into(), hexs(a), "mismatch".into())) }
            match E::try_bytes(&x.to_bytes()) { Some(d) if d == x => {} _ => bad.borrow_mut().push(("try_from(to_bytes(a)) = a".into(), hexs(a), "mismatch".into())) }
            // compound assignment operators, integer conversions, raw byte views
            let mut t = x; t += y; chk("+=", t.co(), (x + y).co());
            let mut t = x; t -= y; chk("-=", t.co(), (x - y).co());
            let mut t = x; t *= y; chk("*=", t.co(), ab.clone());
            if *b != zero { let mut t = x; t /= y; chk("/=", t.co(), (x / y).co()); }
            let small32 = (a[0] & 0xFFFF_FFFF) as u32;
            let mut emb = zero.clone(); emb[0] = small32 as u128 % p;
            chk("From<u32>", E::from_u32(small32).co(), emb);
            let v128 = if r.chance(1, 2) { a[0] } else { p.wrapping_add(r.below(5) as u128) };
            let mut e128 = zero.clone(); e128[0] = v128 % p;
            let want128 = if v128 < p { Some(e128) } else { None };
            if E::try_u128(v128).map(|e| e.co()) != want128 { bad.borrow_mut().push(("TryFrom<u128>".into(), format!("{:?}", want128), format!("{:?}", E::try_u128(v128).map(|e| e.co())))); }
            let v64 = if r.chance(1, 2) { a[0] as u64 } else { (p as u64).wrapping_add(r.below(5)) };
            let mut e64 = zero.clone(); e64[0] = v64 as u128;
            let want64 = if (v64 as u128) < p { Some(e64) } else { None };
            if E::try_u64(v64).map(|e| e.co()) != want64 { bad.borrow_mut().push(("TryFrom<u64>".into(), format!("{:?}", want64), format!("{:?}", E::try_u64(v64).map(|e| e.co())))); }
            let raw = E::elements_as_bytes(&v);
            if raw.len() != 3 * nn * nb { bad.borrow_mut().push(("elements_as_bytes length".into(), format!("{}", 3 * nn * nb), format!("{}", raw.len()))); }
            match unsafe { E::bytes_as_elements(raw) } { Ok(w2) if w2 == &v[..] => {} _ => bad.borrow_mut().push(("bytes_as_elements(elements_as_bytes(v)) = v".into(), "v".into(), "other".into())) }
            if unsafe { E::bytes_as_elements(&raw[..raw.len() - 1]) }.is_ok() { bad.borrow_mut().push(("bytes_as_elements accepts a partial element".into(), "Err".into(), "Ok".into())); }
            bad.into_inner()
        }));
        evals += 40;
        match res {
            Ok(bad) => for (what, exp, act) in bad { fails.emit(E::TAG, &what, desc.clone(), exp, act); },
            Err(msg) => fails.emit(E::TAG, &format!("panic: {}", msg), desc.clone(), "no panic".into(), "panic".into()),
        }
    }
    // constants of the type
    if E::ZERO.co() != zero || E::ONE.co() != one || E::EXTENSION_DEGREE != nn || E::ELEMENT_BYTES != nn * E::B::NB {
        fails.emit(E::TAG, "ZERO/ONE/EXTENSION_DEGREE/ELEMENT_BYTES", "constants".into(), "0,1,N,N*nb".into(), "other".into());
    }
    // phi^N = the documented reduction (x * x [* x] through the library)
    let mut phi = zero.clone(); phi[1] = 1;
    let xphi = E::mk(&phi.iter().map(|t| E::B::fr(*t)).collect::<Vec<_>>());
    let mut pw = xphi; for _ in 1..nn { pw = pw * xphi; }
    if pw.co() != red { fails.emit(E::TAG, "phi^N equals the documented polynomial tail", "phi".into(), hexs(&red), hexs(&pw.co())); }
    evals
}

fn main() {
    silence_panics();
    let args: Vec<String> = std::env::args().collect();
    let mode = args.get(1).map(|s| s.as_str()).unwrap_or("corr");
    let seed: u64 = args.get(2).and_then(|s| s.parse().ok()).unwrap_or(1);
    let n: usize = args.get(3).and_then(|s| s.parse().ok()).unwrap_or(1000);
    let mut r = Rng::new(seed);
    match mode {
        "corr" => {
            let mut out = Vec::new();
            corr_field::<Q64>(&mut r, n, &mut out);
            corr_field::<Q62>(&mut r, n, &mut out);
            corr_field::<Q128>(&mut r, n / 2 + 1, &mut out);
            corr_field::<C64>(&mut r, n, &mut out);
            corr_field::<C62>(&mut r, n, &mut out);
            for l in out { println!("{}", l); }
        }
        "falsify" => {
            let (nf, evals) = watchdog::run(std::time::Duration::from_secs(10), move |prog| {
                let mut fails = Fails { n: 0 };
                let mut evals = 0;
                evals += falsify_field::<Q64>(&mut r, n, &mut fails, &prog);
                evals += falsify_field::<Q62>(&mut r, n, &mut fails, &prog);
                evals += falsify_field::<Q128>(&mut r, n / 4 + 1, &mut fails, &prog);
                evals += falsify_field::<C64>(&mut r, n, &mut fails, &prog);
                evals += falsify_field::<C62>(&mut r, n, &mut fails, &prog);
                if <f128::BaseElement as winter_math::ExtensibleField<3>>::is_supported() {
                    fails.emit("c128", "cubic extension of f128 is documented as unsupported", "is_supported".into(), "false".into(), "true".into());
                }
                (fails.n, evals)
            }, |cur| {
                println!("{{\"field\":\"?\",\"what\":\"operation does not terminate (no progress for 10 s)\",\"input\":{},\"expected\":\"returns\",\"actual\":\"hang\"}}", jstr(&cur));
            });
            eprintln!("evaluations={} failures={}", evals, nf);
        }
        _ => { eprintln!("usage: c08 corr|falsify <seed> <n>"); std::process::exit(2); }
    }
}
