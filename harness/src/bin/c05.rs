//! C05 harness: FRI soundness — adversarial provers against the real `FriVerifier`.
//!   c05 corr <seed> <n>      -> lines "verify <decoded transcript> => <verdict of the real verifier>"
//!   c05 falsify <seed> <n>   -> JSON lines, one per failure; oracle = consistency predicate computed from the
//!                               adversary's full transcript (independent of the verifier and of the Gallina model)
//!   c05 replay-adaptive      -> the recorded remainder-after-queries replay (f128, 2^12, N=4, remmax 31, 8 queries)
#[path = "../fri_shared.rs"]
mod fri_shared;
use std::panic::AssertUnwindSafe;

use fri_shared::*;
use wf_harness::{catch, jstr, prng::Rng, silence_panics, toy::ToyDigest};
use winter_crypto::ElementHasher;
use winter_fri::{DefaultProverChannel, FriOptions, FriProver};
use winter_math::{polynom, FieldElement, StarkField};
use winter_utils::{Deserializable, Serializable};

#[derive(Clone, Debug, PartialEq)]
enum Family { LowDegree, BoundPlus1, BoundPlus2, HighDegree, MaxDegree, Random, Corrupt(usize /* per mille */) }

#[derive(Clone, Debug, PartialEq)]
enum Post {
    None,
    TamperOpen,            // change one opened value, commitments unchanged
    AdaptiveProduct,       // R + c * prod (x - x_p) over the folded last-layer positions
    AdaptiveInterpolate,   // interpolant through the opened last-layer values
    DropLayer, SwapLayers, DupLayer,
    SwapCommitments, WrongCommitment,
    TamperEval,            // the evaluation handed to verify() differs from the committed function
    // malformations (corr only)
    RowFewer, RowMore, ValuesNotMultiple, EmptyLayer, RemainderLen(usize), Partitions(usize), PosEvalMismatch,
    MaxDeg(isize), DomainArg, FoldArg, FewerCommitments, MoreCommitments,
}

struct Case<C: Cfg> {
    name: String,
    p: Params,
    maxdeg: usize,
    nfold_arg: usize,
    domain_arg: usize,
    positions: Vec<usize>,
    evals: Vec<C::E>,
    commitments: Vec<ToyDigest>,
    d: Decoded<C::E>,
    /// Some(true) = must accept, Some(false) = must reject (with the reason), None = no claim (malformed shapes)
    expect: Option<(bool, String)>,
}

fn gen_function<C: Cfg>(r: &mut Rng, fam: &Family, domain: usize, bound: usize) -> Vec<C::E> {
    let deg = match fam {
        Family::LowDegree | Family::Corrupt(_) => if r.chance(1, 2) { bound } else { r.below(bound as u64 + 1) as usize },
        Family::BoundPlus1 => bound + 1,
        Family::BoundPlus2 => (bound + 2).min(domain - 1),
        Family::HighDegree => bound + 1 + r.below((domain - 1 - bound) as u64) as usize,
        Family::MaxDegree => domain - 1,
        Family::Random => 0,
    };
    if *fam == Family::Random {
        return (0..domain).map(|_| rand_elem::<C>(r)).collect();
    }
    let mut ev = eval_coset::<C>(&rand_poly::<C>(r, deg), domain, C::B::GENERATOR);
    if let Family::Corrupt(pm) = fam {
        let k = (domain * pm / 1000).max(1);
        let mut idx: Vec<usize> = (0..domain).collect();
        for i in 0..k { let j = i + r.below((domain - i) as u64) as usize; idx.swap(i, j); }
        for &i in &idx[..k] { ev[i] += rand_nonzero_elem::<C>(r); }
    }
    ev
}

/// the consistency predicate: None = consistent, Some(reason) = the verifier must reject
fn inconsistent<C: Cfg>(t: &Transcript<C>, remainder_sent: &[C::E], positions: &[usize], maxdeg: usize) -> Option<String> {
    let nl = t.layers.len();
    let chain = position_chain(positions, t.domain, t.nfold, nl);
    let mut mdp1 = maxdeg + 1;
    for i in 0..nl {
        let honest = drp_n::<C>(t.nfold, &t.layers[i], C::B::GENERATOR, t.alphas[i]);
        let next = if i + 1 < nl { &t.layers[i + 1] } else { &t.last };
        for &p in &chain[i + 1] {
            if honest[p] != next[p] { return Some(format!("(ii) folding of layer {} inconsistent at folded position {}", i, p)); }
        }
        if mdp1 % t.nfold != 0 { return Some(format!("(iv) degree truncation at layer {}", i)); }
        mdp1 /= t.nfold;
    }
    if remainder_sent.len() > mdp1 { return Some("(iv) remainder longer than allowed".into()); }
    let g_last = last_generator::<C>(t.domain, t.nfold, nl);
    for &p in &chain[nl] {
        let x = C::E::from(C::B::GENERATOR * g_last.exp_vartime((p as u64).into()));
        if polynom::eval(remainder_sent, x) != t.last[p] { return Some(format!("(iii) remainder disagrees with the last layer at position {}", p)); }
    }
    if H::<C::B>::hash_elements(remainder_sent) != t.commitments[nl] { return Some("(v) remainder does not hash to its commitment".into()); }
    None
}

fn build_case<C: Cfg>(r: &mut Rng, i: usize, thorough: bool, fam: Family, cheat: CommitCheat, post: Post, cover_last: bool) -> Option<Case<C>> {
    let p = gen_params_for::<C>(r, i, thorough);
    let bound = p.domain / p.blowup - 1;
    if bound + 1 >= p.domain && fam != Family::LowDegree && !matches!(fam, Family::Corrupt(_)) && fam != Family::Random { return None; }
    let opts = FriOptions::new(p.blowup, p.nfold, p.remmax);
    let nl = opts.num_fri_layers(p.domain);
    let cheat = match cheat {
        CommitCheat::WrongAlpha(_) if nl == 0 => return None,
        CommitCheat::WrongAlpha(_) => CommitCheat::WrongAlpha(r.below(nl as u64) as usize),
        CommitCheat::TamperRecommit(_, _) if nl == 0 => return None,
        CommitCheat::TamperRecommit(_, _) => CommitCheat::TamperRecommit(r.below(nl as u64) as usize, r.next_u64() as usize),
        c => c,
    };
    let evals_full = gen_function::<C>(r, &fam, p.domain, bound);
    // ill-formed schedules (a layer with a single row, a remainder domain of one point) make prover and manual prover panic
    let t = match catch(AssertUnwindSafe(|| commit_phase::<C>(&evals_full, &opts, &cheat))) { Ok(t) => t, Err(_) => return None };
    let last_size = t.last.len();
    let mut positions = if cover_last {
        if last_size > 255 { return None; }
        (0..last_size).collect()
    } else { gen_positions(r, p.domain, p.nfold) };
    let mut evals: Vec<C::E> = positions.iter().map(|&q| evals_full[q]).collect();
    let mut d = match catch(AssertUnwindSafe(|| query_phase::<C>(&t, &positions))) { Ok(d) => d, Err(_) => return None };
    let mut commitments = t.commitments.clone();
    let mut maxdeg = bound;
    let mut nfold_arg = p.nfold;
    let mut domain_arg = p.domain;
    let chain = position_chain(&positions, p.domain, p.nfold, nl);
    let mut forced: Option<(bool, String)> = None;
    let mut no_claim = false;
    match &post {
        Post::None => {}
        Post::TamperOpen => {
            if nl == 0 { return None; }
            let l = r.below(nl as u64) as usize;
            let k = r.below(d.layers[l].0.len() as u64) as usize;
            d.layers[l].0[k] += C::E::ONE;
            forced = Some((false, format!("(i) opened value {} of layer {} changed after commitment", k, l)));
        }
        Post::AdaptiveProduct | Post::AdaptiveInterpolate => {
            let g_last = last_generator::<C>(p.domain, p.nfold, nl);
            let newrem = if post == Post::AdaptiveProduct {
                adaptive_product::<C>(&t.remainder, &chain[nl], g_last, elem::<C::E>(&[5]))
            } else {
                let xs: Vec<C::E> = chain[nl].iter().map(|&q| C::E::from(C::B::GENERATOR * g_last.exp_vartime((q as u64).into()))).collect();
                let ys: Vec<C::E> = chain[nl].iter().map(|&q| t.last[q]).collect();
                pad_pow2(polynom::interpolate(&xs, &ys, false))
            };
            if newrem.len() > 4096 { return None; }
            d.remainder = newrem;
            // decided by the predicate below ((v) fires iff the remainder really changed)
        }
        Post::DropLayer => { if nl == 0 { return None; } let l = r.below(nl as u64) as usize; d.layers.remove(l); forced = Some((false, "(vi) layer omitted".into())); }
        Post::SwapLayers => {
            if nl < 2 { return None; }
            let a = r.below(nl as u64) as usize; let b = (a + 1 + r.below(nl as u64 - 1) as usize) % nl;
            d.layers.swap(a, b);
            forced = Some((false, "(vi) layers swapped".into()));
        }
        Post::DupLayer => { if nl == 0 { return None; } let l = r.below(nl as u64) as usize; let x = d.layers[l].clone(); d.layers.insert(l, x); no_claim = true; /* a trailing extra layer is parsed but never read: accepted (malleability, not soundness) */ }
        Post::SwapCommitments => {
            if commitments.len() < 2 { return None; }
            let a = r.below(commitments.len() as u64) as usize; let b = (a + 1) % commitments.len();
            if commitments[a] == commitments[b] { return None; }
            commitments.swap(a, b);
            forced = Some((false, "(vi) commitments swapped".into()));
        }
        Post::WrongCommitment => { let a = r.below(commitments.len() as u64) as usize; commitments[a] = ToyDigest::from_u64(commitments[a].to_u64() ^ (1 << r.below(64))); forced = Some((false, format!("(vi) commitment {} changed", a))); }
        Post::TamperEval => { let k = r.below(evals.len() as u64) as usize; evals[k] += C::E::ONE; forced = Some((false, "(i) evaluation differs from the committed layer 0".into())); }
        Post::RowFewer => { if nl == 0 { return None; } let l = r.below(nl as u64) as usize; let n = d.layers[l].0.len(); if n <= p.nfold { return None; } d.layers[l].0.truncate(n - p.nfold); no_claim = true; }
        Post::RowMore => { if nl == 0 { return None; } let l = r.below(nl as u64) as usize; let extra: Vec<C::E> = d.layers[l].0[..p.nfold].to_vec(); d.layers[l].0.extend(extra); no_claim = true; }
        Post::ValuesNotMultiple => { if nl == 0 { return None; } let l = r.below(nl as u64) as usize; d.layers[l].0.pop(); no_claim = true; }
        Post::EmptyLayer => { if nl == 0 { return None; } let l = r.below(nl as u64) as usize; d.layers[l].0.clear(); no_claim = true; }
        Post::RemainderLen(k) => { d.remainder.resize(*k, C::E::ZERO); no_claim = true; }
        Post::Partitions(k) => { d.partitions = *k; no_claim = true; }
        Post::PosEvalMismatch => { if r.chance(1, 2) { evals.pop(); } else { positions.pop(); } no_claim = true; }
        Post::MaxDeg(delta) => { maxdeg = (maxdeg as isize + delta).max(0) as usize; no_claim = true; }
        Post::DomainArg => { domain_arg = if r.chance(1, 2) { p.domain * 2 } else { p.domain / 2 }; no_claim = true; }
        Post::FoldArg => { nfold_arg = if p.nfold == 16 { 8 } else { p.nfold * 2 }; no_claim = true; }
        Post::FewerCommitments => { commitments.pop(); no_claim = true; }
        Post::MoreCommitments => { commitments.push(ToyDigest::from_u64(r.next_u64())); no_claim = true; }
    }
    let expect = if no_claim { None } else if let Some(f) = forced { Some(f) } else {
        match inconsistent::<C>(&t, &d.remainder, &positions, maxdeg) { None => Some((true, "consistent".into())), Some(why) => Some((false, why)) }
    };
    let prefix = if matches!(post, Post::AdaptiveProduct | Post::AdaptiveInterpolate) { "adaptive-remainder" } else { "strategy" };
    Some(Case { name: format!("{} family={:?} commit={:?} post={:?} cover_last={}", prefix, fam, cheat, post, cover_last), p, maxdeg, nfold_arg, domain_arg, positions, evals, commitments, d, expect })
}

fn run_case<C: Cfg>(c: &Case<C>) -> (String, String) {
    let line = verify_line::<C>("verify", &c.d, &c.commitments, c.domain_arg, c.p.blowup, c.nfold_arg, c.p.remmax, c.maxdeg, &c.evals, &c.positions);
    // options are built from nfold_arg as the verifier's caller would
    let v = run_verifier_decoded::<C>(&c.d, &c.commitments, c.domain_arg, c.p.blowup, c.nfold_arg, c.p.remmax, c.maxdeg, &c.evals, &c.positions);
    (line, v)
}

fn pick_strategy(r: &mut Rng, malformed: bool) -> (Family, CommitCheat, Post, bool) {
    let fams = [Family::LowDegree, Family::BoundPlus1, Family::BoundPlus2, Family::HighDegree, Family::MaxDegree, Family::Random,
        Family::Corrupt(1), Family::Corrupt(10), Family::Corrupt(100), Family::Corrupt(250), Family::Corrupt(500)];
    if malformed {
        let posts = [Post::RowFewer, Post::RowMore, Post::ValuesNotMultiple, Post::EmptyLayer, Post::RemainderLen(0), Post::RemainderLen(3),
            Post::RemainderLen(1), Post::Partitions(2), Post::Partitions(4), Post::PosEvalMismatch, Post::MaxDeg(-1), Post::MaxDeg(1), Post::MaxDeg(-3),
            Post::DomainArg, Post::FoldArg, Post::FewerCommitments, Post::MoreCommitments];
        return (Family::LowDegree, CommitCheat::None, r.pick(&posts).clone(), false);
    }
    let fam = if r.chance(1, 3) { Family::LowDegree } else { r.pick(&fams).clone() };
    match r.below(16) {
        0 | 1 => (fam, CommitCheat::None, Post::None, false),
        2 => (fam, CommitCheat::None, Post::None, true),
        3 => (fam, CommitCheat::WrongAlpha(0), Post::None, r.chance(1, 3)),
        4 => (fam, CommitCheat::TamperRecommit(0, 0), Post::None, r.chance(1, 3)),
        5 => (fam, CommitCheat::RemainderRecommit, Post::None, r.chance(1, 3)),
        6 => (fam, CommitCheat::None, Post::TamperOpen, false),
        7 | 8 => (fam, CommitCheat::None, Post::AdaptiveProduct, false),
        9 => (fam, CommitCheat::None, Post::AdaptiveInterpolate, false),
        10 => (fam, CommitCheat::None, Post::DropLayer, false),
        11 => (fam, CommitCheat::None, if r.chance(1, 2) { Post::SwapLayers } else { Post::DupLayer }, false),
        12 => (fam, CommitCheat::None, Post::SwapCommitments, false),
        13 => (fam, CommitCheat::None, Post::WrongCommitment, false),
        14 => (fam, CommitCheat::None, Post::TamperEval, false),
        _ => (Family::LowDegree, CommitCheat::None, Post::None, false),
    }
}

fn one<C: Cfg>(r: &mut Rng, i: usize, thorough: bool, malformed: bool) -> Option<Case<C>> {
    for _ in 0..20 {
        let (fam, cheat, post, cover) = pick_strategy(r, malformed);
        if let Some(c) = build_case::<C>(r, i, thorough, fam, cheat, post, cover) { return Some(c); }
    }
    None
}

fn dispatch(r: &mut Rng, i: usize, thorough: bool, malformed: bool, f: &mut dyn FnMut(&str, String, String, Option<(bool, String)>)) {
    macro_rules! go { ($c:ty) => {{ if let Some(c) = one::<$c>(r, i, thorough, malformed) { let (l, v) = run_case::<$c>(&c); f(&c.name, l, v, c.expect.clone()); } }}; }
    match i % 8 { 0 | 1 | 2 => go!(C64), 3 | 4 | 5 => go!(C128), 6 => go!(C64x2), _ => go!(C128x2) }
}

fn corr(seed: u64, n: usize) {
    let mut r = Rng::new(seed ^ 0xC05);
    let thorough = n >= 20000;
    let mut emitted = 0;
    let mut i = 0;
    while emitted < n && i < 4 * n {
        let malformed = i % 4 == 3;
        dispatch(&mut r, i, thorough, malformed, &mut |_, l, v, _| { println!("{} => {}", l, v); emitted += 1; });
        i += 1;
    }
}

fn accepted(v: &str) -> bool { v == "ok" }

/// byte-level malformations of an honest serialized proof (below the decoded level of the model): every one must be
/// rejected (by `FriProof::read_from_bytes`, the channel or the verifier) and none may panic.  Classes: every kind of
/// truncation, partition exponent >= usize::BITS, a non-canonical field element in the remainder / in a layer's values,
/// remainder bytes that are not a whole number of elements, a junk byte after a layer's Merkle nodes.
fn bytes_malformed<C: Cfg>(r: &mut Rng, i: usize, evals: &std::cell::Cell<u64>, fails: &std::cell::Cell<u64>) {
    let c = match build_case::<C>(r, i, false, Family::LowDegree, CommitCheat::None, Post::None, false) { Some(c) => c, None => return };
    if c.d.remainder.is_empty() || !well_formed(&c.p) { return; }
    let honest = c.d.to_bytes();
    let eb = <C::E as FieldElement>::ELEMENT_BYTES;
    let mut variants: Vec<(String, Vec<u8>)> = Vec::new();
    for k in [0usize, 1, 2, 3, 5, honest.len() / 3, honest.len() / 2, honest.len() - 2, honest.len() - 1] {
        if k < honest.len() { variants.push((format!("truncated to {} of {} bytes", k, honest.len()), honest[..k].to_vec())); }
    }
    let mut b = honest.clone(); *b.last_mut().unwrap() = 64 + (r.below(100) as u8); variants.push(("partition exponent >= 64".into(), b));
    // remainder: the last (2 + len + 1) bytes are u16 len, bytes, partitions
    let rem_len = c.d.remainder.len() * eb;
    let rem_start = honest.len() - 1 - rem_len;
    let mut b = honest.clone(); for x in b[rem_start..rem_start + eb].iter_mut() { *x = 0xFF; } variants.push(("non-canonical remainder element".into(), b));
    let mut b = honest.clone(); b.insert(rem_start + rem_len, 7); let l = (rem_len + 1) as u16; b[rem_start - 2..rem_start].copy_from_slice(&l.to_le_bytes());
    variants.push(("remainder bytes not a whole number of elements".into(), b));
    if !c.d.layers.is_empty() {
        // first layer: u8 count, u32 len, values ...
        let mut b = honest.clone(); for x in b[5..5 + eb].iter_mut() { *x = 0xFF; } variants.push(("non-canonical element in layer values".into(), b));
        let vlen = c.d.layers[0].0.len() * eb;
        let ppos = 1 + 4 + vlen; // u32 length of the paths
        let plen = u32::from_le_bytes([honest[ppos], honest[ppos + 1], honest[ppos + 2], honest[ppos + 3]]) as usize;
        let mut b = honest.clone(); b.insert(ppos + 4 + plen, 9); b[ppos..ppos + 4].copy_from_slice(&((plen + 1) as u32).to_le_bytes());
        variants.push(("junk byte after the Merkle nodes of layer 0".into(), b));
    }
    for (what, bytes) in variants {
        evals.set(evals.get() + 1);
        let v = match catch(AssertUnwindSafe(|| winter_fri::FriProof::read_from_bytes(&bytes))) {
            Err(_) => "panic".to_string(),
            Ok(Err(_)) => "deser-err".to_string(),
            Ok(Ok(p)) => run_verifier::<C>(p, c.commitments.clone(), c.domain_arg, c.p.blowup, c.nfold_arg, c.p.remmax, c.maxdeg, &c.evals, &c.positions),
        };
        if v == "ok" || v.contains("panic") {
            fails.set(fails.get() + 1);
            println!("{{\"what\":{},\"input\":{},\"expected\":\"an error, no panic\",\"actual\":{}}}", jstr(&format!("malformed proof bytes ({}) {}", what, if v == "ok" { "accepted" } else { "panic" })),
                jstr(&wf_harness::hex_bytes(&bytes)), jstr(&v));
        }
    }
}

fn falsify(seed: u64, n: usize) {
    let mut r = Rng::new(seed ^ 0x5005);
    let thorough = n >= 5000;
    let (evals, fails) = (std::cell::Cell::new(0u64), std::cell::Cell::new(0u64));
    for i in 0..(n / 20).max(8) {
        match i % 4 { 0 => bytes_malformed::<C64>(&mut r, i, &evals, &fails), 1 => bytes_malformed::<C128>(&mut r, i, &evals, &fails),
                      2 => bytes_malformed::<C64x2>(&mut r, i, &evals, &fails), _ => bytes_malformed::<C128x2>(&mut r, i, &evals, &fails) }
    }
    // accessors of FriOptions agree with the constructor arguments
    for (b, nf, rm) in [(2usize, 2usize, 0usize), (8, 4, 7), (16, 16, 255), (128, 8, 31)] {
        let o = FriOptions::new(b, nf, rm);
        evals.set(evals.get() + 1);
        if o.blowup_factor() != b || o.folding_factor() != nf || o.remainder_max_degree() != rm {
            fails.set(fails.get() + 1);
            println!("{{\"what\":\"FriOptions accessors differ from the constructor arguments\",\"input\":\"{} {} {}\",\"expected\":\"same\",\"actual\":\"different\"}}", b, nf, rm);
        }
    }
    // far functions with the whole last layer queried
    for i in 0..n {
        let far = i % 3 == 0;
        let mut cb = |name: &str, line: String, v: String, expect: Option<(bool, String)>| {
            if let Some((must_accept, why)) = expect {
                evals.set(evals.get() + 1);
                if must_accept != accepted(&v) {
                    fails.set(fails.get() + 1);
                    let what = if must_accept { format!("{}: rejected but the transcript is consistent", name) } else { format!("{}: accepted but must reject {}", name, why) };
                    println!("{{\"what\":{},\"input\":{},\"expected\":{},\"actual\":{}}}", jstr(&what), jstr(&line), jstr(if must_accept { "ok" } else { "reject" }), jstr(&v));
                }
            }
        };
        if far {
            // distance statement with a deterministic query set: honest folding of a far function, all last-layer positions queried
            let fams = [Family::BoundPlus1, Family::BoundPlus1, Family::BoundPlus2, Family::HighDegree, Family::MaxDegree, Family::Random, Family::Corrupt(250), Family::Corrupt(500)];
            let fam = r.pick(&fams).clone();
            macro_rules! go { ($c:ty) => {{ if let Some(c) = build_case::<$c>(&mut r, i, thorough, fam.clone(), CommitCheat::None, Post::None, true) {
                let (l, v) = run_case::<$c>(&c);
                evals.set(evals.get() + 1);
                if accepted(&v) { fails.set(fails.get() + 1); println!("{{\"what\":{},\"input\":{},\"expected\":\"reject\",\"actual\":{}}}", jstr(&format!("far-function accepted: {}", c.name)), jstr(&l), jstr(&v)); }
                cb(&c.name, l, v, c.expect.clone());
            } }}; }
            match i % 8 { 0 | 1 | 2 => go!(C64), 3 | 4 | 5 => go!(C128), 6 => go!(C64x2), _ => go!(C128x2) }
        } else {
            dispatch(&mut r, i, thorough, false, &mut cb);
        }
    }
    println!("evaluations={} failures={}", evals.get(), fails.get());
}

/// recorded replay: f128, domain 2^12, blowup 8, folding 4, remainder max degree 31, 8 queries drawn by the channel
fn replay_adaptive() {
    type C = C128;
    let mut r = Rng::new(1);
    let (domain, blowup, nfold, remmax) = (1usize << 12, 8usize, 4usize, 31usize);
    let bound = domain / blowup - 1;
    let evals = eval_coset::<C>(&rand_poly::<C>(&mut r, bound), domain, <C as Cfg>::B::GENERATOR);
    let opts = FriOptions::new(blowup, nfold, remmax);
    let mut channel = DefaultProverChannel::<<C as Cfg>::E, H<<C as Cfg>::B>, Coin<<C as Cfg>::B>>::new(domain, 8);
    let mut prover = FriProver::<<C as Cfg>::B, <C as Cfg>::E, _, H<<C as Cfg>::B>>::new(opts.clone());
    prover.build_layers(&mut channel, evals.clone());
    let positions = channel.draw_query_positions(0);
    let proof = prover.build_proof(&positions);
    let commitments = channel.layer_commitments().to_vec();
    let at: Vec<_> = positions.iter().map(|&p| evals[p]).collect();
    let honest = run_verifier::<C>(proof.clone(), commitments.clone(), domain, blowup, nfold, remmax, bound, &at, &positions);
    let mut d = decode_proof::<C>(&proof, domain, nfold).expect("decode");
    assert_eq!(d.to_bytes(), proof.to_bytes());
    let nl = opts.num_fri_layers(domain);
    let chain = position_chain(&positions, domain, nfold, nl);
    let g_last = last_generator::<C>(domain, nfold, nl);
    d.remainder = adaptive_product::<C>(&d.remainder, &chain[nl], g_last, elem::<<C as Cfg>::E>(&[5]));
    let v = run_verifier_decoded::<C>(&d, &commitments, domain, blowup, nfold, remmax, bound, &at, &positions);
    println!("honest={} positions={} folded_last={} remainder_len={}", honest, enc_nats(&positions), enc_nats(&chain[nl]), d.remainder.len());
    println!("verdict={}", v);
}

fn main() {
    if std::env::var("HARNESS_VERBOSE").is_err() { silence_panics(); }
    let a: Vec<String> = std::env::args().collect();
    let seed: u64 = a.get(2).and_then(|s| s.parse().ok()).unwrap_or(1);
    let n: usize = a.get(3).and_then(|s| s.parse().ok()).unwrap_or(100);
    match a.get(1).map(|s| s.as_str()) {
        Some("corr") => corr(seed, n),
        Some("falsify") => falsify(seed, n),
        Some("replay-adaptive") => { let _ = catch(AssertUnwindSafe(replay_adaptive)).map_err(|m| println!("verdict=panic:{}", m)); }
        _ => { eprintln!("usage: c05 corr|falsify <seed> <n> | replay-adaptive"); std::process::exit(2); }
    }
}
