//! C11 harness: hash functions (BLAKE3/SHA3 wrappers, Rp64_256, Rp62_248, RpJive64_256, frequency-domain MDS).
//!   c11 corr <seed> <n>      -> lines "<case> => <impl result>" (canonical residues / raw words / digests in hex)
//!   c11 falsify <seed> <n>   -> JSON lines, one per property failure found against the textbook oracle
//!   c11 prim                 -> filter: lines "prim <blake3|sha3> <outlen> <hexbytes>" are replaced by the digest of
//!                               the primitive (blake3 / sha3 crates called directly); other lines pass through
//!   c11 probe                -> prints the replays of the two C11 defects (see notes/C11.findings.json)
//!
//! The MDS sources are compiled INTO this binary from /repo's working tree (`#[path]`), so that the crate-private
//! `mds_multiply` / `mds_multiply_freq` are exercised directly on raw words (they say `use math::..`).
extern crate winter_math as math;

#[allow(dead_code)]
#[path = "/repo/crypto/src/hash/mds/mds_f64_12x12.rs"]
mod mds12;
#[allow(dead_code)]
#[path = "/repo/crypto/src/hash/mds/mds_f64_8x8.rs"]
mod mds8;

use std::io::{BufRead, Write};
use std::panic::AssertUnwindSafe;

use wf_harness::{catch, hex_bytes, jstr, prng::Rng, refmath::*, silence_panics};
use winter_crypto::hashers::{Blake3_192, Blake3_256, Rp62_248, Rp64_256, RpJive64_256, Sha3_256};
use winter_crypto::{Digest, ElementHasher, Hasher};
use winter_math::fields::{f128, f62, f64, CubeExtension, QuadExtension};
use winter_math::{FieldElement, StarkField};

const M64: u64 = 0xFFFF_FFFF_0000_0001;
const M62: u64 = 4611624995532046337;
const M128: u128 = 340282366920938463463374557953744961537;

type B64 = f64::BaseElement;
type B62 = f62::BaseElement;
type B128 = f128::BaseElement;

fn hx(v: &[u64]) -> String {
    v.iter().map(|x| format!("{:x}", x)).collect::<Vec<_>>().join(" ")
}
fn hx128(v: &[u128]) -> String {
    v.iter().map(|x| format!("{:x}", x)).collect::<Vec<_>>().join(" ")
}
fn unhex(s: &str) -> Vec<u8> {
    if s == "-" { return vec![]; }
    (0..s.len() / 2).map(|i| u8::from_str_radix(&s[2 * i..2 * i + 2], 16).unwrap()).collect()
}
fn res<T>(r: Result<T, String>, f: impl FnOnce(T) -> String) -> String {
    match r { Ok(v) => f(v), Err(_) => "panic".to_string() }
}

// ------------------------------------------------------------------------------------------------
// the three Rescue hashers behind one interface (values are canonical residues)
macro_rules! rescue {
    ($m:ident, $H:ty, $B:ty) => {
        mod $m {
            use super::*;
            pub type D = <$H as Hasher>::Digest;
            pub fn el(v: u64) -> $B { <$B>::new(v) }
            pub fn dg(v: &[u64]) -> D { D::new([el(v[0]), el(v[1]), el(v[2]), el(v[3])]) }
            pub fn out(d: D) -> Vec<u64> { d.as_elements().iter().map(|e| e.as_int()).collect() }
            pub fn hash(b: &[u8]) -> Result<Vec<u64>, String> { catch(AssertUnwindSafe(|| out(<$H>::hash(b)))) }
            pub fn merge(a: &[u64], b: &[u64]) -> Result<Vec<u64>, String> {
                catch(AssertUnwindSafe(|| out(<$H>::merge(&[dg(a), dg(b)]))))
            }
            pub fn mwi(s: &[u64], v: u64) -> Result<Vec<u64>, String> {
                catch(AssertUnwindSafe(|| out(<$H>::merge_with_int(dg(s), v))))
            }
            /// hash_elements over elements of extension degree `deg` given by their flattened coefficients
            pub fn he_with(deg: usize, flat: &[$B]) -> Result<Vec<u64>, String> {
                catch(AssertUnwindSafe(|| match deg {
                    1 => out(<$H>::hash_elements(flat)),
                    2 => {
                        let v: Vec<QuadExtension<$B>> = flat.chunks(2).map(|c| QuadExtension::new(c[0], c[1])).collect();
                        out(<$H>::hash_elements(&v))
                    }
                    _ => {
                        let v: Vec<CubeExtension<$B>> = flat.chunks(3).map(|c| CubeExtension::new(c[0], c[1], c[2])).collect();
                        out(<$H>::hash_elements(&v))
                    }
                }))
            }
            pub fn he(deg: usize, flat: &[u64]) -> Result<Vec<u64>, String> {
                let f: Vec<$B> = flat.iter().map(|&v| el(v)).collect();
                he_with(deg, &f)
            }
        }
    };
}
rescue!(rp64, Rp64_256, B64);
rescue!(rp62, Rp62_248, B62);
rescue!(jive, RpJive64_256, B64);

/// apply_permutation on internal (Montgomery) words; returns the output internal words.
fn perm64_raw(w: &[u64]) -> Result<Vec<u64>, String> {
    let mut s = [B64::ZERO; 12];
    for i in 0..12 { s[i] = B64::from_mont(w[i]); }
    catch(AssertUnwindSafe(|| { Rp64_256::apply_permutation(&mut s); s.iter().map(|e| e.inner()).collect() }))
}
fn permjive_raw(w: &[u64]) -> Result<Vec<u64>, String> {
    let mut s = [B64::ZERO; 8];
    for i in 0..8 { s[i] = B64::from_mont(w[i]); }
    catch(AssertUnwindSafe(|| { RpJive64_256::apply_permutation(&mut s); s.iter().map(|e| e.inner()).collect() }))
}
fn int64(w: &[u64]) -> Vec<u64> { w.iter().map(|&x| B64::from_mont(x).as_int()).collect() }

fn mds12_raw(w: &[u64]) -> Result<Vec<u64>, String> {
    let mut s = [B64::ZERO; 12];
    for i in 0..12 { s[i] = B64::from_mont(w[i]); }
    catch(AssertUnwindSafe(|| { mds12::mds_multiply(&mut s); s.iter().map(|e| e.inner()).collect() }))
}
fn mds8_raw(w: &[u64]) -> Result<Vec<u64>, String> {
    let mut s = [B64::ZERO; 8];
    for i in 0..8 { s[i] = B64::from_mont(w[i]); }
    catch(AssertUnwindSafe(|| { mds8::mds_multiply(&mut s); s.iter().map(|e| e.inner()).collect() }))
}
fn mds12_freq(w: &[u64]) -> Result<Vec<u64>, String> {
    let mut s = [0u64; 12];
    s.copy_from_slice(w);
    catch(AssertUnwindSafe(|| mds12::mds_multiply_freq(s).to_vec()))
}
fn mds8_freq(w: &[u64]) -> Result<Vec<u64>, String> {
    let mut s = [0u64; 8];
    s.copy_from_slice(w);
    catch(AssertUnwindSafe(|| mds8::mds_multiply_freq(s).to_vec()))
}

// ------------------------------------------------------------------------------------------------
// byte hashers: kind 0 = Blake3_256, 1 = Blake3_192, 2 = Sha3_256
const BH: [&str; 3] = ["b3_256", "b3_192", "sha3"];
fn bh_hash(k: usize, b: &[u8]) -> Vec<u8> {
    match k {
        0 => Blake3_256::<B64>::hash(b).as_bytes().to_vec(),
        1 => Blake3_192::<B64>::hash(b).as_bytes()[..24].to_vec(),
        _ => Sha3_256::<B64>::hash(b).as_bytes().to_vec(),
    }
}
fn arr<const N: usize>(b: &[u8]) -> [u8; N] { let mut a = [0u8; N]; a.copy_from_slice(&b[..N]); a }
fn bh_merge(k: usize, a: &[u8], b: &[u8]) -> Vec<u8> {
    use winter_crypto::Hasher as H;
    match k {
        0 => { type D = <Blake3_256<B64> as H>::Digest; Blake3_256::<B64>::merge(&[D::new(arr(a)), D::new(arr(b))]).as_bytes().to_vec() }
        1 => { type D = <Blake3_192<B64> as H>::Digest; Blake3_192::<B64>::merge(&[D::new(arr(a)), D::new(arr(b))]).as_bytes()[..24].to_vec() }
        _ => { type D = <Sha3_256<B64> as H>::Digest; Sha3_256::<B64>::merge(&[D::new(arr(a)), D::new(arr(b))]).as_bytes().to_vec() }
    }
}
fn bh_mwi(k: usize, s: &[u8], v: u64) -> Vec<u8> {
    use winter_crypto::Hasher as H;
    match k {
        0 => { type D = <Blake3_256<B64> as H>::Digest; Blake3_256::<B64>::merge_with_int(D::new(arr(s)), v).as_bytes().to_vec() }
        1 => { type D = <Blake3_192<B64> as H>::Digest; Blake3_192::<B64>::merge_with_int(D::new(arr(s)), v).as_bytes()[..24].to_vec() }
        _ => { type D = <Sha3_256<B64> as H>::Digest; Sha3_256::<B64>::merge_with_int(D::new(arr(s)), v).as_bytes().to_vec() }
    }
}
fn bh_he_generic<B: StarkField, E: FieldElement<BaseField = B>>(k: usize, v: &[E]) -> Vec<u8> {
    match k {
        0 => Blake3_256::<B>::hash_elements(v).as_bytes().to_vec(),
        1 => Blake3_192::<B>::hash_elements(v).as_bytes()[..24].to_vec(),
        _ => Sha3_256::<B>::hash_elements(v).as_bytes().to_vec(),
    }
}
macro_rules! bh_he_field {
    ($name:ident, $B:ty, $cubic:expr) => {
        fn $name(k: usize, deg: usize, flat: &[$B]) -> Vec<u8> {
            match deg {
                1 => bh_he_generic::<$B, $B>(k, flat),
                2 => { let v: Vec<QuadExtension<$B>> = flat.chunks(2).map(|c| QuadExtension::new(c[0], c[1])).collect(); bh_he_generic::<$B, _>(k, &v) }
                _ => $cubic(k, flat),
            }
        }
    };
}
fn cub64(k: usize, flat: &[B64]) -> Vec<u8> { let v: Vec<CubeExtension<B64>> = flat.chunks(3).map(|c| CubeExtension::new(c[0], c[1], c[2])).collect(); bh_he_generic::<B64, _>(k, &v) }
fn cub62(k: usize, flat: &[B62]) -> Vec<u8> { let v: Vec<CubeExtension<B62>> = flat.chunks(3).map(|c| CubeExtension::new(c[0], c[1], c[2])).collect(); bh_he_generic::<B62, _>(k, &v) }
fn cub128(_k: usize, _flat: &[B128]) -> Vec<u8> { unreachable!("f128 has no cubic extension") }
bh_he_field!(bh_he64, B64, cub64);
bh_he_field!(bh_he62, B62, cub62);
bh_he_field!(bh_he128, B128, cub128);

fn prim(kind: &str, outlen: usize, b: &[u8]) -> Vec<u8> {
    match kind {
        "blake3" => blake3::hash(b).as_bytes()[..outlen].to_vec(),
        _ => { use sha3::Digest as _; sha3::Sha3_256::digest(b)[..outlen].to_vec() }
    }
}

// ------------------------------------------------------------------------------------------------
// generators
fn limb_words() -> Vec<u64> {
    vec![0, 0xFFFF_FFFF, 0x1_0000_0000, M64 - 1, 0xFFFF_FFFF_0000_0000, 0xFFFF_FFFE_FFFF_FFFF, 1, (M64 + 1) / 7, M64 / 23 + 1,
         0x8000_0000_0000_0000, 0x7FFF_FFFF_FFFF_FFFF, 0xFFFF_FFFF_0000_0000 - 1, 0x0000_0001_FFFF_FFFF]
}
/// states of internal words: boundary word in every position over a zero / all-max / random background
fn boundary_states(r: &mut Rng, w: usize) -> Vec<Vec<u64>> {
    let lw = limb_words();
    let mut v = vec![vec![0u64; w], vec![M64 - 1; w], vec![0xFFFF_FFFF; w], vec![0xFFFF_FFFF_0000_0000; w], vec![0xFFFF_FFFE_FFFF_FFFF; w]];
    for &b in lw.iter().take(4) {
        for pos in 0..w {
            let mut s = vec![0u64; w];
            s[pos] = b;
            v.push(s);
        }
    }
    for &b in lw.iter() {
        for pos in 0..w {
            let mut s: Vec<u64> = match r.below(3) { 0 => vec![M64 - 1; w], 1 => (0..w).map(|_| r.next_u64() % M64).collect(), _ => vec![0xFFFF_FFFF; w] };
            s[pos] = b;
            v.push(s);
        }
    }
    v
}
fn rand_state(r: &mut Rng, w: usize) -> Vec<u64> {
    let lw = limb_words();
    (0..w).map(|_| if r.chance(1, 4) { *r.pick(&lw) } else { r.next_u64() % M64 }).collect()
}
fn int_classes(m: u64) -> Vec<u64> {
    let mut v = vec![0, 1, 2, 7, m - 2, m - 1, m, m + 1, m + 2, u64::MAX, u64::MAX - 1, 1 << 63, 1 << 62, (1 << 62) - 1, 0xFFFF_FFFF, 1 << 32];
    for k in 1..5u64 {
        if let Some(x) = m.checked_mul(k) { v.extend([x.wrapping_sub(1), x, x.wrapping_add(1)]); }
    }
    v.sort();
    v.dedup();
    v
}
fn rand_elem(r: &mut Rng, m: u64) -> u64 {
    match r.below(8) { 0 => 0, 1 => m - 1, 2 => 1, 3 => r.below(1 << 20), _ => r.next_u64() % m }
}
fn byte_string(r: &mut Rng, len: usize) -> Vec<u8> {
    match r.below(5) {
        0 => vec![0u8; len],
        1 => vec![0xFF; len],
        2 => { let mut b = r.bytes(len); let k = r.below(9) as usize; for x in b.iter_mut().rev().take(k) { *x = 0; } b }
        _ => r.bytes(len),
    }
}

fn corr(seed: u64, n: usize) -> Vec<String> {
    let mut r = Rng::new(seed);
    let mut out = Vec::new();
    // --- frequency-domain MDS on u64 limbs (the callers pass 32-bit limbs; larger limbs exercise the overflow checks)
    for (w, name) in [(12usize, "mds12"), (8, "mds8")] {
        let f = |s: &[u64]| if w == 12 { mds12_freq(s) } else { mds8_freq(s) };
        let lim = [0u64, 0xFFFF_FFFF, 0x1_0000_0000, 1, 0xFFFF_FFFE];
        let mut cases: Vec<Vec<u64>> = vec![vec![0; w], vec![0xFFFF_FFFF; w]];
        for &b in &lim { for pos in 0..w { for bg in [0u64, 0xFFFF_FFFF] { let mut s = vec![bg; w]; s[pos] = b; cases.push(s); } } }
        for _ in 0..(n / 20).max(20) { cases.push((0..w).map(|_| match r.below(4) { 0 => *r.pick(&lim), _ => r.next_u64() & 0xFFFF_FFFF }).collect()); }
        for _ in 0..10 { cases.push((0..w).map(|_| match r.below(4) { 0 => r.next_u64(), 1 => r.next_u64() >> r.below(40), _ => r.next_u64() & 0xFFFF_FFFF }).collect()); }
        for s in cases { out.push(format!("{}.freq {} => {}", name, hx(&s), res(f(&s), |v| hx(&v)))); }
        // --- mds_multiply on internal words
        let g = |s: &[u64]| if w == 12 { mds12_raw(s) } else { mds8_raw(s) };
        let mut cases = boundary_states(&mut r, w);
        for _ in 0..(n / 20).max(20) { cases.push(rand_state(&mut r, w)); }
        for _ in 0..5 { cases.push((0..w).map(|_| r.next_u64()).collect()); } // non-canonical internal words too
        for s in cases { out.push(format!("{}.raw {} => {}", name, hx(&s), res(g(&s), |v| hx(&v)))); }
    }
    // --- permutations (case = residues of the boundary internal words)
    let np = (n / 100).max(4);
    for (w, name) in [(12usize, "rp64"), (8, "jive")] {
        let mut cases = boundary_states(&mut r, w);
        cases.truncate(5 + 4 * w + if n >= 2000 { 13 * w } else { 0 });
        for _ in 0..np { cases.push(rand_state(&mut r, w)); }
        for s in cases {
            let o = if w == 12 { perm64_raw(&s) } else { permjive_raw(&s) };
            if out.len() % 7 == 0 && s.iter().all(|&x| x < M64) {
                // the raw model (generated f64 arithmetic + mds_multiply on internal words) on a sample of the states
                out.push(format!("{}.permraw {} => {}", name, hx(&s), res(o.clone(), |v| hx(&v))));
            }
            out.push(format!("{}.perm {} => {}", name, hx(&int64(&s)), res(o, |v| hx(&int64(&v)))));
        }
    }
    // --- sponges
    let big = n >= 2000;
    for (name, m, rate) in [("rp64", M64, 8usize), ("rp62", M62, 8), ("jive", M64, 4)] {
        let hash = |b: &[u8]| match name { "rp64" => rp64::hash(b), "rp62" => rp62::hash(b), _ => jive::hash(b) };
        let he = |d: usize, f: &[u64]| match name { "rp64" => rp64::he(d, f), "rp62" => rp62::he(d, f), _ => jive::he(d, f) };
        let merge = |a: &[u64], b: &[u64]| match name { "rp64" => rp64::merge(a, b), "rp62" => rp62::merge(a, b), _ => jive::merge(a, b) };
        let mwi = |s: &[u64], v: u64| match name { "rp64" => rp64::mwi(s, v), "rp62" => rp62::mwi(s, v), _ => jive::mwi(s, v) };
        // every length 0 .. 3 rate blocks (+1 chunk), then a few long ones
        let maxlen = 7 * rate * 3 + 8;
        let step = if big { 1 } else { 5 };
        let mut lens: Vec<usize> = (0..=maxlen).filter(|l| l % step == 0 || l % 7 <= 1 || l % (7 * rate) <= 1 || *l <= 16).collect();
        lens.extend([7 * rate * 4, 7 * rate * 4 + 3, 300]);
        if big { lens.extend([1000, 1001, 7 * rate * 20]); }
        for l in lens { let b = byte_string(&mut r, l); out.push(format!("{}.hash {} => {}", name, hex_bytes(&b), res(hash(&b), |v| hx(&v)))); }
        // hash_elements: every length around the rate boundaries, base / quadratic / cubic typing
        for deg in [1usize, 2, 3] {
            let maxn = (3 * rate + 2) / deg + 1;
            for k in 0..=maxn {
                let flat: Vec<u64> = (0..k * deg).map(|_| rand_elem(&mut r, m)).collect();
                out.push(format!("{}.he {} {} => {}", name, deg, if flat.is_empty() { "-".to_string() } else { hx(&flat) }, res(he(deg, &flat), |v| hx(&v))));
            }
        }
        // raw model: internal words of the digest of hash_elements(new(r0), new(r1), ..)
        for k in [0usize, 1, rate, rate + 1] {
            let flat: Vec<u64> = (0..k).map(|_| rand_elem(&mut r, m)).collect();
            let raw: Result<Vec<u64>, String> = catch(AssertUnwindSafe(|| match name {
                "rp64" => { let e: Vec<B64> = flat.iter().map(|&v| B64::new(v)).collect(); Rp64_256::hash_elements(&e).as_elements().iter().map(|x| x.inner()).collect() }
                "rp62" => { let e: Vec<B62> = flat.iter().map(|&v| B62::new(v)).collect(); Rp62_248::hash_elements(&e).as_elements().iter().map(|x| unsafe { core::mem::transmute::<B62, u64>(*x) }).collect() }
                _ => { let e: Vec<B64> = flat.iter().map(|&v| B64::new(v)).collect(); RpJive64_256::hash_elements(&e).as_elements().iter().map(|x| x.inner()).collect() }
            }));
            out.push(format!("{}.heraw {} => {}", name, if flat.is_empty() { "-".to_string() } else { hx(&flat) }, res(raw, |v| hx(&v))));
        }
        for _ in 0..(n / 200).max(6) {
            let a: Vec<u64> = (0..4).map(|_| rand_elem(&mut r, m)).collect();
            let b: Vec<u64> = (0..4).map(|_| rand_elem(&mut r, m)).collect();
            out.push(format!("{}.merge {} {} => {}", name, hx(&a), hx(&b), res(merge(&a, &b), |v| hx(&v))));
        }
        let mut ints = int_classes(m);
        for _ in 0..4 { ints.push(r.next_u64()); }
        for v in ints {
            let s: Vec<u64> = (0..4).map(|_| rand_elem(&mut r, m)).collect();
            out.push(format!("{}.mwi {} {:x} => {}", name, hx(&s), v, res(mwi(&s, v), |d| hx(&d))));
        }
    }
    // --- byte hashers: the model prints the byte string fed to the primitive, `c11 prim` hashes it
    for k in 0..3 {
        let dl = if k == 1 { 24 } else { 32 };
        for l in [0usize, 1, 7, 31, 32, 33, 63, 64, 65, 100, 136, 137, 200, 1024, 1025] {
            let b = byte_string(&mut r, l);
            out.push(format!("{}.hash {} => {}", BH[k], hex_bytes(&b), hex_bytes(&bh_hash(k, &b))));
        }
        for _ in 0..6 {
            let (a, b) = (byte_string(&mut r, dl), byte_string(&mut r, dl));
            out.push(format!("{}.merge {} {} => {}", BH[k], hex_bytes(&a), hex_bytes(&b), hex_bytes(&bh_merge(k, &a, &b))));
        }
        for v in int_classes(M64) {
            let s = byte_string(&mut r, dl);
            out.push(format!("{}.mwi {} {:x} => {}", BH[k], hex_bytes(&s), v, hex_bytes(&bh_mwi(k, &s, v))));
        }
        for deg in [1usize, 2, 3] {
            for cnt in [0usize, 1, 2, 3, 5, 8, 17] {
                let f64v: Vec<u64> = (0..cnt * deg).map(|_| rand_elem(&mut r, M64)).collect();
                let e: Vec<B64> = f64v.iter().map(|&v| B64::new(v)).collect();
                out.push(format!("{}.he f64 {} {} => {}", BH[k], deg, if f64v.is_empty() { "-".into() } else { hx(&f64v) }, hex_bytes(&bh_he64(k, deg, &e))));
                let f62v: Vec<u64> = (0..cnt * deg).map(|_| rand_elem(&mut r, M62)).collect();
                // f62 internal words are not unique: build half of the elements through a sum so that both representatives occur
                let e: Vec<B62> = f62v.iter().map(|&v| if r.chance(1, 2) { B62::new(v) } else { let k2 = r.next_u64() % M62; B62::new(k2) + B62::new((v + M62 - k2) % M62) }).collect();
                out.push(format!("{}.he f62 {} {} => {}", BH[k], deg, if f62v.is_empty() { "-".into() } else { hx(&f62v) }, hex_bytes(&bh_he62(k, deg, &e))));
                if deg < 3 {
                    let fv: Vec<u128> = (0..cnt * deg).map(|_| match r.below(5) { 0 => 0, 1 => M128 - 1, _ => r.next_u128() % M128 }).collect();
                    let e: Vec<B128> = fv.iter().map(|&v| B128::new(v)).collect();
                    out.push(format!("{}.he f128 {} {} => {}", BH[k], deg, if fv.is_empty() { "-".into() } else { hx128(&fv) }, hex_bytes(&bh_he128(k, deg, &e))));
                }
            }
        }
    }
    out
}

// ------------------------------------------------------------------------------------------------
// the falsifier's oracle: a plain textbook Rescue-Prime sponge over u128 modular arithmetic
struct Ref { p: u64, w: usize, mds: Vec<Vec<u64>>, ark1: Vec<Vec<u64>>, ark2: Vec<Vec<u64>>, alpha: u64, inv_alpha: u64 }

fn inv_exp(alpha: u64, p: u64) -> u64 {
    // alpha^-1 mod (p-1) by the extended Euclidean algorithm on i128
    let (mut a, mut b, mut x0, mut x1) = ((p - 1) as i128, alpha as i128, 0i128, 1i128);
    let n = a;
    while b != 0 { let q = a / b; let t = a - q * b; a = b; b = t; let t = x0 - q * x1; x0 = x1; x1 = t; }
    assert_eq!(a, 1);
    (((x0 % n) + n) % n) as u64
}
/// the numbers inside `BaseElement::new(<n>)` between `const <name>` and the next `];` at column 0
fn parse_table(src: &str, name: &str, w: usize) -> Vec<Vec<u64>> {
    // the table definition starts at column 0 (the `pub const X: .. = X;` re-exports inside the impl are indented)
    let start = src.find(&format!("\nconst {}:", name)).or_else(|| src.find(&format!("\npub const {}:", name))).expect("table");
    let body = &src[start..];
    let end = body.find("\n];").unwrap();
    let mut v = Vec::new();
    for part in body[..end].split("BaseElement::new(").skip(1) {
        let num: String = part.chars().take_while(|c| c.is_ascii_digit() || *c == '_').filter(|c| *c != '_').collect();
        v.push(num.parse::<u64>().unwrap());
    }
    v.chunks(w).map(|c| c.to_vec()).collect()
}
fn reference(name: &str) -> Ref {
    let (path, p, w, alpha) = match name {
        "rp64" => ("/repo/crypto/src/hash/rescue/rp64_256/mod.rs", M64, 12, 7),
        "rp62" => ("/repo/crypto/src/hash/rescue/rp62_248/mod.rs", M62, 12, 3),
        _ => ("/repo/crypto/src/hash/rescue/rp64_256_jive/mod.rs", M64, 8, 7),
    };
    let src = std::fs::read_to_string(path).unwrap();
    Ref { p, w, mds: parse_table(&src, "MDS", w), ark1: parse_table(&src, "ARK1", w), ark2: parse_table(&src, "ARK2", w), alpha, inv_alpha: inv_exp(alpha, p) }
}
impl Ref {
    fn mds_mul(&self, s: &[u64]) -> Vec<u64> {
        let p = self.p as u128;
        (0..self.w).map(|i| { let mut a = 0u128; for j in 0..self.w { a = addmod(a, mulmod(self.mds[i][j] as u128, s[j] as u128, p), p); } a as u64 }).collect()
    }
    fn perm(&self, s: &mut Vec<u64>) {
        let p = self.p as u128;
        for r in 0..7 {
            for x in s.iter_mut() { *x = powmod(*x as u128, self.alpha as u128, p) as u64; }
            *s = self.mds_mul(s);
            for (x, k) in s.iter_mut().zip(&self.ark1[r]) { *x = addmod(*x as u128, *k as u128, p) as u64; }
            for x in s.iter_mut() { *x = powmod(*x as u128, self.inv_alpha as u128, p) as u64; }
            *s = self.mds_mul(s);
            for (x, k) in s.iter_mut().zip(&self.ark2[r]) { *x = addmod(*x as u128, *k as u128, p) as u64; }
        }
    }
    /// the documented sponge: count in the capacity, zero padding (Rp64_256: rate 4..12, capacity 0; Rp62_248: rate 0..8, capacity 11)
    fn sponge(&self, name: &str, xs: &[u64]) -> Vec<u64> {
        let p = self.p as u128;
        let mut s = vec![0u64; self.w];
        if name == "jive" {
            if xs.len() % 4 != 0 { s[0] = 1; }
            let mut i = 0;
            for &x in xs { s[4 + i] = addmod(s[4 + i] as u128, x as u128, p) as u64; i += 1; if i == 4 { self.perm(&mut s); i = 0; } }
            if i > 0 { s[4 + i] = 1; for j in i + 1..4 { s[4 + j] = 0; } self.perm(&mut s); }
            return s[4..8].to_vec();
        }
        let (rs, cap, ds) = if name == "rp64" { (4, 0, 4) } else { (0, 11, 0) };
        s[cap] = (xs.len() as u128 % p) as u64;
        for blk in xs.chunks(8) {
            for (i, &x) in blk.iter().enumerate() { s[rs + i] = addmod(s[rs + i] as u128, x as u128, p) as u64; }
            self.perm(&mut s);
        }
        s[ds..ds + 4].to_vec()
    }
    /// documented byte encoding: 7-byte little-endian chunks, a 1 byte appended to the last chunk
    fn bytes_to_elems(&self, b: &[u8]) -> Vec<u64> {
        let n = (b.len() + 6) / 7;
        b.chunks(7).enumerate().map(|(i, c)| { let mut buf = [0u8; 8]; buf[..c.len()].copy_from_slice(c); if i == n - 1 { buf[c.len()] = 1; } u64::from_le_bytes(buf) % self.p }).collect()
    }
    fn merge(&self, name: &str, a: &[u64], b: &[u64]) -> Vec<u64> {
        let ab: Vec<u64> = a.iter().chain(b).cloned().collect();
        if name != "jive" { return self.sponge(name, &ab); }
        let mut s = ab.clone();
        self.perm(&mut s);
        let p = self.p as u128;
        (0..4).map(|i| addmod(addmod(ab[i] as u128, ab[4 + i] as u128, p), addmod(s[i] as u128, s[4 + i] as u128, p), p) as u64).collect()
    }
    fn mwi(&self, name: &str, seed: &[u64], v: u64) -> Vec<u64> {
        let mut xs = seed.to_vec();
        xs.push(v % self.p);
        if v >= self.p { xs.push(v / self.p); }
        if name != "jive" { return self.sponge(name, &xs); }
        let p = self.p as u128;
        let n = xs.len() as u64;
        let mut st = xs.clone();
        st.resize(8, 0);
        st[7] = n;
        let init = st.clone();
        self.perm(&mut st);
        (0..4).map(|i| addmod(addmod(init[i] as u128, init[4 + i] as u128, p), addmod(st[i] as u128, st[4 + i] as u128, p), p) as u64).collect()
    }
}

struct Fals { evals: u64, fails: u64 }
impl Fals {
    fn check(&mut self, what: &str, input: String, expected: String, actual: String) {
        self.evals += 1;
        if expected != actual {
            self.fails += 1;
            println!("{{\"what\":{},\"input\":{},\"expected\":{},\"actual\":{}}}", jstr(what), jstr(&input), jstr(&expected), jstr(&actual));
        }
    }
}
fn show(r: &Result<Vec<u64>, String>) -> String { match r { Ok(v) => hx(v), Err(_) => "panic".into() } }

/// the same residue reached through different operation sequences (different internal words for f62)
fn alt64(r: &mut Rng, v: u64) -> B64 {
    match r.below(4) {
        0 => B64::new(v),
        1 => { let k = r.next_u64() % M64; B64::new(k) + B64::new(((v as u128 + M64 as u128 - k as u128) % M64 as u128) as u64) }
        2 => { let k = r.next_u64() % (M64 - 1) + 1; (B64::new(v) * B64::new(k)) / B64::new(k) }
        _ => -(-B64::new(v)),
    }
}
fn alt62(r: &mut Rng, v: u64) -> B62 {
    match r.below(4) {
        0 => B62::new(v),
        1 => { let k = r.next_u64() % M62; B62::new(k) + B62::new((v + M62 - k) % M62) }
        2 => { let k = r.next_u64() % (M62 - 1) + 1; (B62::new(v) * B62::new(k)) / B62::new(k) }
        _ => -(-B62::new(v)),
    }
}

fn falsify(seed: u64, n: usize) -> Fals {
    let mut r = Rng::new(seed ^ 0xC11);
    let mut f = Fals { evals: 0, fails: 0 };
    let refs = [("rp64", reference("rp64")), ("rp62", reference("rp62")), ("jive", reference("jive"))];
    // constants: INV_MDS * MDS = I (public constants of Rp64_256 / RpJive64_256), alpha * inv_alpha = 1 mod p-1
    {
        let mds: Vec<Vec<u64>> = Rp64_256::MDS.iter().map(|r| r.iter().map(|e| e.as_int()).collect()).collect();
        let inv: Vec<Vec<u64>> = Rp64_256::INV_MDS.iter().map(|r| r.iter().map(|e| e.as_int()).collect()).collect();
        f.check("rp64 public MDS constant equals the table in the source", "MDS".into(), format!("{:?}", refs[0].1.mds), format!("{:?}", mds));
        let mut ok = true;
        for i in 0..12 { for j in 0..12 { let mut a = 0u128; for k in 0..12 { a = addmod(a, mulmod(inv[i][k] as u128, mds[k][j] as u128, M64 as u128), M64 as u128); } ok &= a == (i == j) as u128; } }
        f.check("rp64 INV_MDS * MDS = I", "-".into(), "true".into(), ok.to_string());
        let mds: Vec<Vec<u64>> = RpJive64_256::MDS.iter().map(|r| r.iter().map(|e| e.as_int()).collect()).collect();
        let inv: Vec<Vec<u64>> = RpJive64_256::INV_MDS.iter().map(|r| r.iter().map(|e| e.as_int()).collect()).collect();
        let mut ok = true;
        for i in 0..8 { for j in 0..8 { let mut a = 0u128; for k in 0..8 { a = addmod(a, mulmod(inv[i][k] as u128, mds[k][j] as u128, M64 as u128), M64 as u128); } ok &= a == (i == j) as u128; } }
        f.check("jive INV_MDS * MDS = I", "-".into(), "true".into(), ok.to_string());
    }
    // MDS fast path == matrix product, as field elements (raw-word equality, i.e. the result must be canonical)
    for (w, name) in [(12usize, "rp64"), (8, "jive")] {
        let rf = if w == 12 { &refs[0].1 } else { &refs[2].1 };
        let mut cases = boundary_states(&mut r, w);
        for _ in 0..(n / 10).max(50) { cases.push(rand_state(&mut r, w)); }
        // states whose product lands just above the modulus: a single word c with row-coefficient * c in [M, M + 2^32)
        for &coef in rf.mds[0].iter() { for d in 0..3u64 { let c = ((M64 as u128 + d as u128 + coef as u128 - 1) / coef as u128) as u64; for pos in 0..w { let mut s = vec![0u64; w]; s[pos] = c; cases.push(s); } } }
        for s in cases {
            let got = if w == 12 { mds12_raw(&s) } else { mds8_raw(&s) };
            // expected internal words: the matrix applied to the internal words mod M (linear map commutes with the Montgomery factor)
            let exp = rf.mds_mul(&s.iter().map(|&x| x % M64).collect::<Vec<_>>());
            f.check(&format!("{} mds_multiply (frequency domain) equals MDS * state as canonical internal words", name), hx(&s), hx(&exp), show(&got));
        }
    }
    // permutation == textbook permutation, output canonical
    for (w, name) in [(12usize, "rp64"), (8, "jive")] {
        let rf = if w == 12 { &refs[0].1 } else { &refs[2].1 };
        let mut cases = boundary_states(&mut r, w);
        cases.truncate(5 + 4 * w);
        for _ in 0..(n / 20).max(20) { cases.push(rand_state(&mut r, w)); }
        for s in cases {
            let got = if w == 12 { perm64_raw(&s) } else { permjive_raw(&s) };
            let mut e = int64(&s);
            rf.perm(&mut e);
            f.check(&format!("{} apply_permutation equals the textbook permutation", name), hx(&int64(&s)), hx(&e), res(got.clone(), |v| hx(&int64(&v))));
            if let Ok(v) = got { f.check(&format!("{} apply_permutation output words are canonical", name), hx(&s), "true".into(), v.iter().all(|&x| x < M64).to_string()); }
        }
    }
    // sponges against the textbook sponge; determinism; length / trailing-zero separation; residue-only dependence
    for (name, rf) in refs.iter() {
        let name = *name;
        let rate = if name == "jive" { 4 } else { 8 };
        let hash = |b: &[u8]| match name { "rp64" => rp64::hash(b), "rp62" => rp62::hash(b), _ => jive::hash(b) };
        let he = |d: usize, fl: &[u64]| match name { "rp64" => rp64::he(d, fl), "rp62" => rp62::he(d, fl), _ => jive::he(d, fl) };
        let merge = |a: &[u64], b: &[u64]| match name { "rp64" => rp64::merge(a, b), "rp62" => rp62::merge(a, b), _ => jive::merge(a, b) };
        let mwi = |s: &[u64], v: u64| match name { "rp64" => rp64::mwi(s, v), "rp62" => rp62::mwi(s, v), _ => jive::mwi(s, v) };
        let maxlen = 7 * rate * 3 + 8;
        let mut lens: Vec<usize> = (0..=maxlen).collect();
        lens.extend([7 * rate * 4 + 1, 500, 777]);
        for _ in 0..(n / 50) { lens.push(r.below(400) as usize); }
        for l in lens {
            let b = byte_string(&mut r, l);
            let got = hash(&b);
            f.check(&format!("{} hash(bytes) equals the textbook sponge of the documented 7-byte encoding", name), hex_bytes(&b), hx(&rf.sponge(name, &rf.bytes_to_elems(&b))), show(&got));
            f.check(&format!("{} hash is deterministic", name), hex_bytes(&b), show(&got), show(&hash(&b)));
            // inputs differing only in length / trailing zero bytes must be told apart
            let mut b2 = b.clone();
            b2.push(0);
            let g2 = hash(&b2);
            f.check(&format!("{} hash distinguishes b from b ++ [0]", name), hex_bytes(&b), "distinct".into(), if got.is_ok() && g2.is_ok() && got != g2 { "distinct".into() } else { format!("{} / {}", show(&got), show(&g2)) });
        }
        for k in 0..=(3 * rate + 3) {
            let xs: Vec<u64> = (0..k).map(|_| rand_elem(&mut r, rf.p)).collect();
            let exp = hx(&rf.sponge(name, &xs));
            f.check(&format!("{} hash_elements equals the textbook sponge", name), hx(&xs), exp.clone(), show(&he(1, &xs)));
            if k % 2 == 0 { f.check(&format!("{} hash_elements over quadratic extension elements equals hashing the flattening", name), hx(&xs), exp.clone(), show(&he(2, &xs))); }
            if k % 3 == 0 { f.check(&format!("{} hash_elements over cubic extension elements equals hashing the flattening", name), hx(&xs), exp.clone(), show(&he(3, &xs))); }
            // residue-only dependence
            let got = match name {
                "rp62" => { let e: Vec<B62> = xs.iter().map(|&v| alt62(&mut r, v)).collect(); rp62::he_with(1, &e) }
                "rp64" => { let e: Vec<B64> = xs.iter().map(|&v| alt64(&mut r, v)).collect(); rp64::he_with(1, &e) }
                _ => { let e: Vec<B64> = xs.iter().map(|&v| alt64(&mut r, v)).collect(); jive::he_with(1, &e) }
            };
            f.check(&format!("{} hash_elements depends only on the residues", name), hx(&xs), exp.clone(), show(&got));
            let mut xs2 = xs.clone();
            xs2.push(0);
            f.check(&format!("{} hash_elements distinguishes xs from xs ++ [0]", name), hx(&xs), "distinct".into(), if he(1, &xs) != he(1, &xs2) { "distinct".into() } else { "equal".into() });
        }
        for _ in 0..(n / 100).max(8) {
            let a: Vec<u64> = (0..4).map(|_| rand_elem(&mut r, rf.p)).collect();
            let b: Vec<u64> = (0..4).map(|_| rand_elem(&mut r, rf.p)).collect();
            f.check(&format!("{} merge equals its definition (sponge of the concatenation / Jive compression)", name), format!("{} {}", hx(&a), hx(&b)), hx(&rf.merge(name, &a, &b)), show(&merge(&a, &b)));
            if name != "jive" {
                let ab: Vec<u64> = a.iter().chain(&b).cloned().collect();
                f.check(&format!("{} merge(a,b) = hash_elements(a ++ b)", name), hx(&ab), show(&he(1, &ab)), show(&merge(&a, &b)));
            }
        }
        let mut seen: Vec<(u64, Vec<u64>)> = Vec::new();
        let seed: Vec<u64> = (0..4).map(|_| rand_elem(&mut r, rf.p)).collect();
        let mut ints = int_classes(rf.p);
        for _ in 0..(n / 100).max(8) { ints.push(r.next_u64()); }
        ints.sort();
        ints.dedup();
        for v in ints {
            let got = mwi(&seed, v);
            f.check(&format!("{} merge_with_int equals its definition", name), format!("{} {:x}", hx(&seed), v), hx(&rf.mwi(name, &seed, v)), show(&got));
            if let Ok(d) = got {
                for (v0, d0) in &seen { if *d0 == d { f.check(&format!("{} merge_with_int injective in the integer", name), format!("{:x} {:x}", v0, v), "distinct".into(), "equal".into()); } }
                f.evals += 1;
                seen.push((v, d));
            }
        }
    }
    // byte hashers against the primitives applied to the canonical little-endian bytes
    for k in 0..3 {
        let (pk, dl) = match k { 0 => ("blake3", 32), 1 => ("blake3", 24), _ => ("sha3", 32) };
        for l in (0..70).chain([136, 137, 1000]) {
            let b = byte_string(&mut r, l);
            f.check(&format!("{} hash = primitive(bytes)", BH[k]), hex_bytes(&b), hex_bytes(&prim(pk, dl, &b)), hex_bytes(&bh_hash(k, &b)));
        }
        for _ in 0..10 {
            let (a, b) = (byte_string(&mut r, dl), byte_string(&mut r, dl));
            let ab: Vec<u8> = a.iter().chain(&b).cloned().collect();
            f.check(&format!("{} merge = primitive(a ++ b)", BH[k]), hex_bytes(&ab), hex_bytes(&prim(pk, dl, &ab)), hex_bytes(&bh_merge(k, &a, &b)));
            let v = *r.pick(&int_classes(M64));
            let mut sv = a.clone();
            sv.extend(v.to_le_bytes());
            f.check(&format!("{} merge_with_int = primitive(seed ++ le64(value))", BH[k]), hex_bytes(&sv), hex_bytes(&prim(pk, dl, &sv)), hex_bytes(&bh_mwi(k, &a, v)));
        }
        for cnt in 0..12usize {
            let xs: Vec<u64> = (0..cnt * 6).map(|_| rand_elem(&mut r, M64)).collect();
            let bytes: Vec<u8> = xs.iter().flat_map(|v| v.to_le_bytes()).collect();
            let exp = hex_bytes(&prim(pk, dl, &bytes));
            for deg in [1usize, 2, 3] {
                let e: Vec<B64> = xs.iter().map(|&v| alt64(&mut r, v)).collect();
                f.check(&format!("{} hash_elements(f64, degree {}) = primitive(canonical LE bytes)", BH[k], deg), hx(&xs), exp.clone(), hex_bytes(&bh_he64(k, deg, &e)));
            }
            let xs: Vec<u64> = (0..cnt * 6).map(|_| rand_elem(&mut r, M62)).collect();
            let bytes: Vec<u8> = xs.iter().flat_map(|v| v.to_le_bytes()).collect();
            let exp = hex_bytes(&prim(pk, dl, &bytes));
            for deg in [1usize, 2, 3] {
                let e: Vec<B62> = xs.iter().map(|&v| alt62(&mut r, v)).collect();
                f.check(&format!("{} hash_elements(f62, degree {}) = primitive(canonical LE bytes)", BH[k], deg), hx(&xs), exp.clone(), hex_bytes(&bh_he62(k, deg, &e)));
            }
            let xs: Vec<u128> = (0..cnt * 2).map(|_| r.next_u128() % M128).collect();
            let bytes: Vec<u8> = xs.iter().flat_map(|v| v.to_le_bytes()).collect();
            let exp = hex_bytes(&prim(pk, dl, &bytes));
            for deg in [1usize, 2] {
                let e: Vec<B128> = xs.iter().map(|&v| { let k2 = r.next_u128() % M128; if r.chance(1, 2) { B128::new(v) } else { B128::new(k2) + B128::new(submod(v, k2, M128)) } }).collect();
                f.check(&format!("{} hash_elements(f128, degree {}) = primitive(canonical LE bytes)", BH[k], deg), hx128(&xs), exp.clone(), hex_bytes(&bh_he128(k, deg, &e)));
            }
        }
    }
    f
}

fn probe() {
    // defect 1: hash() of a byte string of more than 8 chunks whose last chunk is partial
    for l in [56usize, 57, 62, 63, 64, 70] {
        let b = vec![0xABu8; l];
        println!("Rp64_256::hash([0xAB; {}]) = {}", l, show(&rp64::hash(&b)));
        println!("Rp62_248::hash([0xAB; {}]) = {}", l, show(&rp62::hash(&b)));
        println!("RpJive64_256::hash([0xAB; {}]) = {}", l, show(&jive::hash(&b)));
    }
    // defect 2: mds_multiply returns a non-canonical internal word
    let mut s = vec![0u64; 12];
    s[0] = (M64 + 1) / 7;
    println!("mds12::mds_multiply(from_mont([(M+1)/7,0,..])) inner = {}  (M = {:x})", show(&mds12_raw(&s)), M64);
    let mut s = vec![0u64; 8];
    s[0] = (M64 as u128 + 22).div_euclid(23) as u64;
    println!("mds8::mds_multiply(from_mont([ceil(M/23),0,..])) inner = {}", show(&mds8_raw(&s)));
}

fn main() {
    if std::env::var("C11_LOUD").is_err() { silence_panics(); }
    let a: Vec<String> = std::env::args().collect();
    let cmd = a.get(1).map(|s| s.as_str()).unwrap_or("");
    let seed: u64 = a.get(2).and_then(|s| s.parse().ok()).unwrap_or(1);
    let n: usize = a.get(3).and_then(|s| s.parse().ok()).unwrap_or(1000);
    match cmd {
        "corr" => { let o = std::io::stdout(); let mut o = o.lock(); for l in corr(seed, n) { writeln!(o, "{}", l).unwrap(); } }
        "falsify" => { let f = falsify(seed, n); println!("evaluations={} failures={}", f.evals, f.fails); }
        "prim" => {
            let o = std::io::stdout();
            let mut o = o.lock();
            for line in std::io::stdin().lock().lines() {
                let line = line.unwrap();
                let t: Vec<&str> = line.split(' ').collect();
                if t.len() == 4 && t[0] == "prim" { writeln!(o, "{}", hex_bytes(&prim(t[1], t[2].parse().unwrap(), &unhex(t[3])))).unwrap(); } else { writeln!(o, "{}", line).unwrap(); }
            }
        }
        "probe" => probe(),
        _ => { eprintln!("usage: c11 corr|falsify <seed> <n> | prim | probe"); std::process::exit(2); }
    }
}
