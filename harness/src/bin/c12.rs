//! C12 harness: serialization round trip (winter_utils serde layer, field elements, digests, air/fri structures).
//!   c12 corr <seed> <n>     -> lines "<case> => <impl result>" (protocol: ocaml/c12_driver.ml)
//!        enc <ty> <args..>  => hex of to_bytes() of the value built with the REAL constructor | panic
//!        dec <ty> <hex>     => ok <show> rem=<unread> | err eof | err invalid | err other | panic
//!                              (the common result of SliceReader, std::io::Cursor and ReadAdapter over a chunked source;
//!                               "READERS-DISAGREE ..." with the three results otherwise)
//!     stderr: "cells {"<impl>|<class>":n,..}" (serde/mod.rs impl x complete/trailing/truncated), "dist <class>=<count> ..."
//!   c12 falsify <seed> <n>  -> one JSON object per failure of the model-independent oracle
//!        T::read_from(reader over v.to_bytes() ++ junk) == Ok(v) and exactly junk is left unread,
//!        for SliceReader, std::io::Cursor and ReadAdapter (slice source, random chunking, short-read sources
//!        delivering 1 / 3 / 7 / 1-3-7 / 255-2 bytes per read); final line "evaluations=<n> failures=<k>"
use std::collections::{BTreeMap, BTreeSet};
use std::fmt::Debug;
use std::panic::AssertUnwindSafe;

use wf_harness::{catch, hex_bytes, jstr, prng::Rng, silence_panics};
use winter_air::{
    proof::{Commitments, Context, OodFrame, Proof, Queries, TraceOodFrame},
    FieldExtension, ProofOptions, TraceInfo,
};
use winter_crypto::{
    hashers::{Blake3_192, Blake3_256, Rp64_256},
    BatchMerkleProof, DefaultRandomCoin, ElementHasher, Hasher,
};
use winter_fri::{DefaultProverChannel, FriOptions, FriProof, FriProver};
use winter_math::{
    fft,
    fields::{f128, f62, f64, CubeExtension, QuadExtension},
    FieldElement, StarkField,
};
use winter_utils::{
    ByteReader, ByteWriter, Deserializable, DeserializationError, ReadAdapter, Serializable, SliceReader,
};

type F64 = f64::BaseElement;
type F62 = f62::BaseElement;
type F128 = f128::BaseElement;
type D32 = <Blake3_256<F64> as Hasher>::Digest;
type D24 = <Blake3_192<F64> as Hasher>::Digest;
type ED = <Rp64_256 as Hasher>::Digest;

const M64: u64 = 0xFFFF_FFFF_0000_0001;
const M62: u64 = 4611624995532046337;
const M128: u128 = 340282366920938463463374557953744961537;

// ------------------------------------------------------------------------------------------------ show
trait Show {
    fn show(&self) -> String;
}
macro_rules! show_hex { ($($t:ty),*) => { $(impl Show for $t { fn show(&self) -> String { format!("{:x}", self) } })* } }
show_hex!(u8, u16, u32, u64, u128, usize);
impl Show for bool {
    fn show(&self) -> String { if *self { "1".into() } else { "0".into() } }
}
impl<T: Show> Show for Option<T> {
    fn show(&self) -> String { match self { None => "N".into(), Some(v) => format!("S{}", v.show()) } }
}
impl<T: Show> Show for Vec<T> {
    fn show(&self) -> String { format!("[{}]", self.iter().map(|x| x.show()).collect::<Vec<_>>().join(",")) }
}
impl<T: Show, const C: usize> Show for [T; C] {
    fn show(&self) -> String { format!("[{}]", self.iter().map(|x| x.show()).collect::<Vec<_>>().join(",")) }
}
impl<A: Show, B: Show> Show for (A, B) {
    fn show(&self) -> String { format!("({},{})", self.0.show(), self.1.show()) }
}
impl<A: Show, B: Show, C: Show> Show for (A, B, C) {
    fn show(&self) -> String { format!("({},{},{})", self.0.show(), self.1.show(), self.2.show()) }
}
impl Show for () {
    fn show(&self) -> String { "()".into() }
}
impl<A: Show> Show for (A,) {
    fn show(&self) -> String { format!("({},)", self.0.show()) }
}
impl<A: Show, B: Show, C: Show, D: Show> Show for (A, B, C, D) {
    fn show(&self) -> String { format!("({},{},{},{})", self.0.show(), self.1.show(), self.2.show(), self.3.show()) }
}
impl<A: Show, B: Show, C: Show, D: Show, E: Show> Show for (A, B, C, D, E) {
    fn show(&self) -> String { format!("({},{},{},{},{})", self.0.show(), self.1.show(), self.2.show(), self.3.show(), self.4.show()) }
}
impl<A: Show, B: Show, C: Show, D: Show, E: Show, F: Show> Show for (A, B, C, D, E, F) {
    fn show(&self) -> String { format!("({},{},{},{},{},{})", self.0.show(), self.1.show(), self.2.show(), self.3.show(), self.4.show(), self.5.show()) }
}
impl<K: Show, V: Show> Show for BTreeMap<K, V> {
    fn show(&self) -> String {
        format!("{{{}}}", self.iter().map(|(k, v)| format!("{}:{}", k.show(), v.show())).collect::<Vec<_>>().join(","))
    }
}
impl<K: Show> Show for BTreeSet<K> {
    fn show(&self) -> String { format!("{{{}}}", self.iter().map(|k| k.show()).collect::<Vec<_>>().join(",")) }
}
impl Show for String {
    fn show(&self) -> String { hex_bytes(self.as_bytes()) }
}
impl Show for F64 { fn show(&self) -> String { format!("{:x}", self.as_int()) } }
impl Show for F62 { fn show(&self) -> String { format!("{:x}", self.as_int()) } }
impl Show for F128 { fn show(&self) -> String { format!("{:x}", self.as_int()) } }
impl<B: winter_math::ExtensibleField<2> + Show> Show for QuadExtension<B> {
    fn show(&self) -> String { let e = self.to_base_elements(); format!("({},{})", e[0].show(), e[1].show()) }
}
impl<B: winter_math::ExtensibleField<3> + Show> Show for CubeExtension<B> {
    fn show(&self) -> String { let e = self.to_base_elements(); format!("({},{},{})", e[0].show(), e[1].show(), e[2].show()) }
}
/// thin wrappers: `bool` has no Serializable impl of its own (write_bool/read_bool are reader/writer methods), and
/// the digest types are only reachable as associated types
#[derive(Debug, Clone, Copy, PartialEq, Eq)]
struct Bo(bool);
impl Serializable for Bo { fn write_into<W: ByteWriter>(&self, t: &mut W) { t.write_bool(self.0) } }
impl Deserializable for Bo { fn read_from<R: ByteReader>(s: &mut R) -> Result<Self, DeserializationError> { Ok(Bo(s.read_bool()?)) } }
impl Show for Bo { fn show(&self) -> String { self.0.show() } }
macro_rules! wrap_digest { ($w:ident, $t:ty) => {
    #[derive(Debug, Clone, Copy, PartialEq, Eq)]
    struct $w($t);
    impl Serializable for $w { fn write_into<W: ByteWriter>(&self, t: &mut W) { self.0.write_into(t) } }
    impl Deserializable for $w { fn read_from<R: ByteReader>(s: &mut R) -> Result<Self, DeserializationError> { Ok($w(<$t>::read_from(s)?)) } }
} }
wrap_digest!(Dg32, D32);
wrap_digest!(Dg24, D24);
wrap_digest!(EDg, ED);
impl Show for Dg32 { fn show(&self) -> String { hex_bytes(&self.0.to_bytes()) } }
impl Show for Dg24 { fn show(&self) -> String { hex_bytes(&self.0.to_bytes()) } }
impl Show for EDg {
    fn show(&self) -> String { format!("[{}]", self.0.as_elements().iter().map(|e| e.show()).collect::<Vec<_>>().join(",")) }
}
/// air/fri structures: the derived Debug output with blanks removed (field names and order of the Rust structs)
macro_rules! show_dbg { ($($t:ty),*) => { $(impl Show for $t { fn show(&self) -> String { format!("{:?}", self).replace(' ', "") } })* } }
show_dbg!(FieldExtension, ProofOptions, TraceInfo, Context, Commitments, Queries, OodFrame, FriProof, Proof);

// ------------------------------------------------------------------------------------ Debug-tree parser
/// minimal parser of derived Debug output: extracts, in order, every list of integers `[a, b, ..]`
/// and every bare integer field value
#[derive(Debug, Clone)]
enum Dbg { Num(u128), Ident(String), List(Vec<Dbg>), Node(String, Vec<(String, Dbg)>) }

struct DP<'a> { s: &'a [u8], i: usize }
impl<'a> DP<'a> {
    fn ws(&mut self) { while self.i < self.s.len() && (self.s[self.i] == b' ' || self.s[self.i] == b'\n') { self.i += 1; } }
    fn peek(&mut self) -> u8 { self.ws(); if self.i < self.s.len() { self.s[self.i] } else { 0 } }
    fn word(&mut self) -> String {
        self.ws();
        let st = self.i;
        while self.i < self.s.len() && (self.s[self.i].is_ascii_alphanumeric() || self.s[self.i] == b'_') { self.i += 1; }
        String::from_utf8(self.s[st..self.i].to_vec()).unwrap()
    }
    fn value(&mut self) -> Dbg {
        let c = self.peek();
        if c == b'[' {
            self.i += 1;
            let mut v = vec![];
            loop {
                if self.peek() == b']' { self.i += 1; break; }
                v.push(self.value());
                if self.peek() == b',' { self.i += 1; }
            }
            return Dbg::List(v);
        }
        let w = self.word();
        if !w.is_empty() && w.as_bytes()[0].is_ascii_digit() { return Dbg::Num(w.parse().unwrap()); }
        match self.peek() {
            b'{' => {
                self.i += 1;
                let mut f = vec![];
                loop {
                    if self.peek() == b'}' { self.i += 1; break; }
                    let name = self.word();
                    assert_eq!(self.peek(), b':'); self.i += 1;
                    f.push((name, self.value()));
                    if self.peek() == b',' { self.i += 1; }
                }
                Dbg::Node(w, f)
            }
            b'(' => {
                self.i += 1;
                let mut f = vec![];
                loop {
                    if self.peek() == b')' { self.i += 1; break; }
                    f.push((String::new(), self.value()));
                    if self.peek() == b',' { self.i += 1; }
                }
                Dbg::Node(w, f)
            }
            _ => Dbg::Ident(w),
        }
    }
}
fn dbg_of<T: Debug>(v: &T) -> Dbg { let s = format!("{:?}", v); DP { s: s.as_bytes(), i: 0 }.value() }
impl Dbg {
    fn field(&self, name: &str) -> &Dbg {
        match self { Dbg::Node(_, f) => &f.iter().find(|(n, _)| n == name).unwrap_or_else(|| panic!("no field {name}")).1, _ => panic!("not a node") }
    }
    fn idx(&self, i: usize) -> &Dbg { match self { Dbg::Node(_, f) => &f[i].1, Dbg::List(l) => &l[i], _ => panic!("not indexable") } }
    fn blob(&self) -> Vec<u8> {
        match self { Dbg::List(l) => l.iter().map(|x| match x { Dbg::Num(n) => *n as u8, _ => panic!("not a byte") }).collect(), _ => panic!("not a list") }
    }
    fn num(&self) -> u128 { match self { Dbg::Num(n) => *n, _ => panic!("not a number") } }
    fn list(&self) -> &Vec<Dbg> { match self { Dbg::List(l) => l, _ => panic!("not a list") } }
}

// flat argument syntax of the struct cases (what ocaml/c12_driver.ml parses)
fn args_qry(q: &Queries) -> String { let d = dbg_of(q); format!("{} {}", hex_bytes(&d.field("values").blob()), hex_bytes(&d.field("paths").blob())) }
fn args_ood(o: &OodFrame) -> String {
    let d = dbg_of(o);
    format!("{} {} {}", hex_bytes(&d.field("trace_states").blob()), hex_bytes(&d.field("lagrange_kernel_trace_states").blob()), hex_bytes(&d.field("evaluations").blob()))
}
fn args_com(c: &Commitments) -> String { hex_bytes(&dbg_of(c).idx(0).blob()) }
fn args_fri(p: &FriProof) -> String {
    let d = dbg_of(p);
    let layers = d.field("layers").list();
    let mut s = format!("{:x} {} {:x}", d.field("num_partitions").num(), hex_bytes(&d.field("remainder").blob()), layers.len());
    for l in layers { s += &format!(" {} {}", hex_bytes(&l.field("values").blob()), hex_bytes(&l.field("paths").blob())); }
    s
}
fn fe_num(d: &Dbg) -> u8 { match d { Dbg::Ident(s) if s == "None" => 1, Dbg::Ident(s) if s == "Quadratic" => 2, Dbg::Ident(s) if s == "Cubic" => 3, _ => panic!("fe") } }
fn args_po_dbg(d: &Dbg) -> String {
    format!("{:x} {:x} {:x} {} {:x} {:x}", d.field("num_queries").num(), d.field("blowup_factor").num(), d.field("grinding_factor").num(),
        fe_num(d.field("field_extension")), d.field("fri_folding_factor").num(), d.field("fri_remainder_max_degree").num())
}
fn args_ti_dbg(d: &Dbg) -> String {
    format!("{:x} {:x} {:x} {:x} {}", d.field("main_segment_width").num(), d.field("aux_segment_width").num(),
        d.field("num_aux_segment_rands").num(), d.field("trace_length").num(), hex_bytes(&d.field("trace_meta").blob()))
}
fn field_of_modulus(m: &[u8]) -> &'static str {
    if m == M64.to_le_bytes() { "f64" } else if m == M62.to_le_bytes() { "f62" } else if m == M128.to_le_bytes() { "f128" } else { "?" }
}
fn args_ctx(c: &Context) -> String {
    let d = dbg_of(c);
    format!("{} {} {}", field_of_modulus(c.field_modulus_bytes()), args_ti_dbg(d.field("trace_info")), args_po_dbg(d.field("options")))
}
fn args_proof(p: &Proof) -> String {
    let mut s = format!("{} {:x} {} {:x}", args_ctx(&p.context), p.num_unique_queries, args_com(&p.commitments), p.trace_queries.len());
    for q in &p.trace_queries { s += " "; s += &args_qry(q); }
    s += &format!(" {} {} {} {:x} ", args_qry(&p.constraint_queries), args_ood(&p.ood_frame), args_fri(&p.fri_proof), p.pow_nonce);
    s += &match &p.gkr_proof { None => "N".to_string(), Some(b) => format!("S {}", hex_bytes(b)) };
    s
}

// --------------------------------------------------------------------------------------------- decoding
fn remaining<R: ByteReader>(r: &mut R) -> Vec<u8> {
    let mut v = vec![];
    while r.has_more_bytes() { match r.read_u8() { Ok(b) => v.push(b), Err(_) => break } }
    v
}
fn classify<T: Show>(r: Result<(Result<T, DeserializationError>, usize), String>) -> String {
    match r {
        Err(_) => "panic".into(),
        Ok((Ok(v), rem)) => format!("ok {} rem={}", v.show(), rem),
        Ok((Err(DeserializationError::UnexpectedEOF), _)) => "err eof".into(),
        Ok((Err(DeserializationError::InvalidValue(_)), _)) => "err invalid".into(),
        Ok((Err(_), _)) => "err other".into(),
    }
}
fn dec_with<T: Deserializable + Show, R: ByteReader>(mk: impl FnOnce() -> R) -> String {
    classify(catch(AssertUnwindSafe(|| {
        let mut r = mk();
        let v = T::read_from(&mut r);
        let rem = if v.is_ok() { remaining(&mut r).len() } else { 0 };
        (v, rem)
    })))
}
/// chunk-size patterns of the sources behind ReadAdapter (rotated over the cases)
const ADAPTER_PATTERNS: [&[usize]; 7] = [&[1], &[3], &[7], &[1, 3, 7], &[255, 2], &[usize::MAX], &[16, 1, 300]];
/// every decoding case goes through ALL THREE ByteReader implementations (SliceReader, std::io::Cursor, ReadAdapter over a
/// chunked source); the line carries the common result, or all three when they disagree (then no model result can match)
fn dec_all<T: Deserializable + Show>(bytes: &[u8], k: usize) -> String {
    let a = dec_with::<T, _>(|| SliceReader::new(bytes));
    let b = dec_with::<T, _>(|| std::io::Cursor::new(bytes));
    let mut ch = Chunked { data: bytes, pos: 0, sizes: ADAPTER_PATTERNS[k % ADAPTER_PATTERNS.len()].to_vec(), k: 0 };
    let c = dec_with::<T, _>(|| ReadAdapter::new(&mut ch));
    if a == b && b == c { a } else { format!("READERS-DISAGREE SliceReader[{}] Cursor[{}] ReadAdapter{:?}[{}]", a, b, ADAPTER_PATTERNS[k % ADAPTER_PATTERNS.len()], c) }
}
/// serde/mod.rs impl exercised by a correspondence type name ("" = none of them: field elements, air/fri structures)
fn corr_tag(ty: &str) -> &'static str {
    match ty {
        "u8" => "u8", "u16" => "u16", "u32" => "u32", "u64" => "u64", "u128" => "u128", "usize" => "usize", "bool" => "bool",
        "unit" => "unit", "tup1" => "tuple1", "tup2" => "tuple2", "tup" => "tuple3", "tup4" => "tuple4", "tup5" => "tuple5", "tup6" => "tuple6",
        "opt_u32" | "opt_vec_u8" => "option", "vec_u16" | "vec_vec_u8" | "vec_opt_u64" => "vec", "arr4_u16" => "array",
        "string" => "string", "map_u32_bytes" => "map", "set_u64" => "set",
        _ => "",
    }
}

/// Lines are streamed: a decoding case is printed as "<case> => " BEFORE the library is called, so that a
/// process abort inside the library (allocation failure is not a panic) leaves the culprit as the last line.
struct Out { count: usize, dist: BTreeMap<String, usize>, cells: BTreeMap<(String, String), usize>, tag_override: Option<&'static str> }
impl Out {
    fn cell(&mut self, class: &str, ty: &str) {
        let cl = match class { "dec-exact" => "complete", "dec-trailing" => "trailing", "dec-truncated" => "truncated", _ => return };
        let tag = self.tag_override.unwrap_or(corr_tag(ty));
        if !tag.is_empty() { *self.cells.entry((tag.to_string(), cl.to_string())).or_insert(0) += 1; }
    }
    fn push(&mut self, class: &str, line: String) { *self.dist.entry(class.to_string()).or_insert(0) += 1; self.count += 1; println!("{}", line); }
    fn dec<T: Deserializable + Show>(&mut self, class: &str, ty: &str, bytes: &[u8]) {
        use std::io::Write;
        *self.dist.entry(class.to_string()).or_insert(0) += 1;
        self.count += 1;
        self.cell(class, ty);
        print!("dec {} {} => ", ty, hex_bytes(bytes));
        std::io::stdout().flush().unwrap();
        println!("{}", dec_all::<T>(bytes, self.count));
    }
}

/// decoding cases derived from one valid encoding: exact, trailing bytes, truncations, single-byte mutations
fn dec_cases<T: Deserializable + Show>(o: &mut Out, r: &mut Rng, ty: &str, bytes: &[u8], muts: usize) {
    let one = |o: &mut Out, class: &str, b: &[u8]| o.dec::<T>(class, ty, b);
    one(o, "dec-exact", bytes);
    let mut t = bytes.to_vec();
    let k = 1 + r.below(3) as usize;
    t.extend(r.bytes(k));
    one(o, "dec-trailing", &t);
    let n = bytes.len();
    if n <= 48 { for k in 0..n { one(o, "dec-truncated", &bytes[..k]); } }
    else { for _ in 0..4 { let k = r.below(n as u64) as usize; one(o, "dec-truncated", &bytes[..k]); } one(o, "dec-truncated", &bytes[..n - 1]); }
    if n > 0 {
        for _ in 0..muts {
            let mut m = bytes.to_vec();
            // positions: prefer the header region where the length prefixes and limits live
            let pos = if r.chance(2, 3) { r.below(n.min(16) as u64) as usize } else { r.below(n as u64) as usize };
            let old = m[pos];
            m[pos] = match r.below(6) { 0 => 0, 1 => 255, 2 => old.wrapping_add(1), 3 => old.wrapping_sub(1), 4 => old ^ (1 << r.below(8)), _ => r.next_u64() as u8 };
            if m[pos] == old { m[pos] = old.wrapping_add(1); }
            one(o, "dec-mutated", &m);
        }
    }
}
fn enc_dec<T: Serializable + Deserializable + Show>(o: &mut Out, r: &mut Rng, ty: &str, args: &str, v: &T, muts: usize) {
    let bytes = v.to_bytes();
    o.push("enc", format!("enc {} {} => {}", ty, args, hex_bytes(&bytes)));
    dec_cases::<T>(o, r, ty, &bytes, muts);
}

// ------------------------------------------------------------------------------------------ generators
fn usize_boundaries() -> Vec<u64> {
    let mut v = vec![0u64, 1, 2, u64::MAX, u64::MAX - 1, 1 << 63, (1 << 63) - 1];
    for k in 1..=9u32 { let p = 1u64 << (7 * k); v.push(p - 1); v.push(p); v.push(p + 1); }
    for k in 1..=7u32 { let p = 1u64 << (8 * k); v.push(p - 1); v.push(p); }
    v.sort(); v.dedup(); v
}
fn rand_size(r: &mut Rng) -> u64 { let bits = r.below(65); if bits == 0 { 0 } else { r.next_u64() >> (64 - bits) } }
fn hexlist<T: std::fmt::LowerHex>(v: &[T]) -> String { if v.is_empty() { "-".into() } else { v.iter().map(|x| format!("{:x}", x)).collect::<Vec<_>>().join(",") } }
fn rand_utf8(r: &mut Rng, n: usize) -> String {
    let pool = ['a', 'Z', '0', ' ', '\u{e9}', '\u{4e16}', '\u{1F600}', '\u{7f}', '\u{80}', '\u{7ff}', '\u{800}', '\u{ffff}', '\u{10000}', '\u{10ffff}', '\0'];
    (0..n).map(|_| *r.pick(&pool)).collect()
}
fn f64v(r: &mut Rng) -> u64 { match r.below(5) { 0 => *r.pick(&[0, 1, 2, M64 - 1, M64 - 2, 0xFFFF_FFFF, 1 << 32, 1 << 63]), _ => r.next_u64() % M64 } }
fn f62v(r: &mut Rng) -> u64 { match r.below(5) { 0 => *r.pick(&[0, 1, 2, M62 - 1, M62 - 2, 1 << 61]), _ => r.next_u64() % M62 } }
fn f128v(r: &mut Rng) -> u128 { match r.below(5) { 0 => *r.pick(&[0, 1, 2, M128 - 1, M128 - 2, 1 << 64, (1 << 64) - 1, 1 << 127]), _ => r.next_u128() % M128 } }

fn fe_of(n: u64) -> FieldExtension { match n { 1 => FieldExtension::None, 2 => FieldExtension::Quadratic, _ => FieldExtension::Cubic } }

/// ProofOptions through the real constructor (may panic)
fn mk_po(a: &[u64; 6]) -> Result<ProofOptions, String> {
    let a = *a;
    catch(move || ProofOptions::new(a[0] as usize, a[1] as usize, a[2] as u32, fe_of(a[3]), a[4] as usize, a[5] as usize))
}
fn po_args(a: &[u64; 6]) -> String { format!("{:x} {:x} {:x} {:x} {:x} {:x}", a[0], a[1], a[2], a[3], a[4], a[5]) }
fn rand_po_args(r: &mut Rng, valid: bool) -> [u64; 6] {
    let mut a = [
        *r.pick(&[1, 2, 27, 128, 254, 255]), *r.pick(&[2, 4, 8, 16, 32, 64, 128]), *r.pick(&[0, 1, 16, 31, 32]),
        1 + r.below(3), *r.pick(&[2, 4, 8, 16]), *r.pick(&[0, 1, 3, 7, 15, 31, 63, 127, 255]),
    ];
    if !valid {
        let i = r.below(6) as usize;
        a[i] = match i {
            0 => *r.pick(&[0, 256, 257, 511, u64::MAX]),
            1 => *r.pick(&[0, 1, 3, 6, 129, 255, 256, 1 << 20]),
            2 => *r.pick(&[33, 34, 255, 256, u32::MAX as u64]),
            3 => a[3],
            4 => *r.pick(&[0, 1, 3, 5, 17, 32, 255, 256]),
            _ => *r.pick(&[2, 4, 254, 256, 511, 1023, u64::MAX]),
        };
    }
    a
}
struct TiArgs { main: u64, aux: u64, rands: u64, len: u64, meta: Vec<u8> }
fn mk_ti(a: &TiArgs) -> Result<TraceInfo, String> {
    let (m, x, rd, l, meta) = (a.main as usize, a.aux as usize, a.rands as usize, a.len as usize, a.meta.clone());
    catch(move || TraceInfo::new_multi_segment(m, x, rd, l, meta))
}
fn ti_args(a: &TiArgs) -> String { format!("{:x} {:x} {:x} {:x} {}", a.main, a.aux, a.rands, a.len, hex_bytes(&a.meta)) }
fn ti_boundaries() -> Vec<TiArgs> {
    let t = |main, aux, rands, len, n: usize| TiArgs { main, aux, rands, len, meta: (0..n).map(|i| (i * 7 + 3) as u8).collect() };
    vec![
        t(1, 0, 0, 8, 0), t(255, 0, 0, 8, 0), t(254, 0, 0, 8, 0), t(256, 0, 0, 8, 0), t(0, 0, 0, 8, 0), t(0, 5, 1, 8, 0),
        t(3, 2, 0, 8, 0), t(3, 2, 1, 8, 0), t(3, 0, 1, 8, 0), t(1, 254, 255, 16, 0), t(1, 255, 1, 16, 0), t(2, 254, 1, 16, 0),
        t(100, 100, 255, 1 << 20, 3), t(100, 100, 256, 1 << 20, 3), t(5, 0, 0, 4, 0), t(5, 0, 0, 7, 0), t(5, 0, 0, 9, 0), t(5, 0, 0, 0, 0),
        t(5, 0, 0, 12, 0), t(5, 0, 0, 1 << 31, 0), t(5, 0, 0, 1 << 32, 0), t(5, 0, 0, 1 << 62, 0), t(5, 0, 0, 1 << 63, 0), t(5, 0, 0, (1 << 63) + 1, 0),
        t(5, 0, 0, u64::MAX, 0), t(7, 1, 1, 64, 1), t(7, 1, 1, 64, 255), t(7, 1, 1, 64, 256), t(7, 1, 1, 64, 65535), t(7, 1, 1, 64, 65536),
        t(u64::MAX, 2, 1, 8, 0), t(u64::MAX, 0, 0, 8, 0), t(128, 127, 1, 8, 0), t(128, 128, 1, 8, 0),
    ]
}
fn rand_ti_args(r: &mut Rng) -> TiArgs {
    let main = 1 + r.below(255);
    let aux = if r.chance(1, 2) { 0 } else { r.below(256 - main) };
    let rands = if aux == 0 { 0 } else { r.below(256) };
    let n = match r.below(4) { 0 => 0, 1 => r.below(4), 2 => r.below(300), _ => r.below(2000) } as usize;
    TiArgs { main, aux, rands, len: 1u64 << (3 + r.below(40)), meta: r.bytes(n) }
}

/// a tiny hasher whose digest is ONE byte, to build Commitments / Merkle node blobs of any length
mod h1 {
    use super::*;
    use winter_crypto::Digest;
    #[derive(Debug, Default, Copy, Clone, Eq, PartialEq)]
    pub struct D1(pub u8);
    impl Digest for D1 { fn as_bytes(&self) -> [u8; 32] { let mut r = [0u8; 32]; r[0] = self.0; r } }
    impl Serializable for D1 { fn write_into<W: ByteWriter>(&self, t: &mut W) { t.write_u8(self.0) } }
    impl Deserializable for D1 { fn read_from<R: ByteReader>(s: &mut R) -> Result<Self, DeserializationError> { Ok(D1(s.read_u8()?)) } }
    pub struct H1;
    impl Hasher for H1 {
        type Digest = D1;
        const COLLISION_RESISTANCE: u32 = 4;
        fn hash(bytes: &[u8]) -> D1 { D1(bytes.iter().fold(7u8, |a, b| a.wrapping_mul(31).wrapping_add(*b))) }
        fn merge(v: &[D1; 2]) -> D1 { D1(v[0].0.wrapping_mul(3).wrapping_add(v[1].0)) }
        fn merge_with_int(s: D1, v: u64) -> D1 { D1(s.0.wrapping_add(v as u8)) }
    }
    impl ElementHasher for H1 {
        type BaseField = F64;
        fn hash_elements<E: FieldElement<BaseField = F64>>(e: &[E]) -> D1 { Self::hash(E::elements_as_bytes(e)) }
    }
}
use h1::{D1, H1};

fn mk_com(bytes: &[u8]) -> Commitments {
    // trace_roots ++ constraint_root ++ fri_roots, one byte per digest
    let n = bytes.len();
    assert!(n >= 1);
    let k = n / 3;
    Commitments::new::<H1>(bytes[..k].iter().map(|b| D1(*b)).collect(), D1(bytes[k]), bytes[k + 1..].iter().map(|b| D1(*b)).collect())
}
fn mk_qry_f64(r: &mut Rng, nq: usize, cols: usize, nodes: &[usize]) -> Queries {
    let vals: Vec<Vec<F64>> = (0..nq).map(|_| (0..cols).map(|_| F64::new(f64v(r))).collect()).collect();
    let mp = BatchMerkleProof::<H1> { leaves: vec![], nodes: nodes.iter().map(|&k| (0..k).map(|_| D1(r.next_u64() as u8)).collect()).collect(), depth: 3 };
    Queries::new::<H1, F64>(mp, vals)
}
fn mk_qry_q128(r: &mut Rng, nq: usize, cols: usize) -> Queries {
    let vals: Vec<Vec<QuadExtension<F128>>> = (0..nq).map(|_| (0..cols).map(|_| QuadExtension::new(F128::new(f128v(r)), F128::new(f128v(r)))).collect()).collect();
    let mp = BatchMerkleProof::<Blake3_256<F128>> { leaves: vec![], nodes: vec![vec![Blake3_256::<F128>::hash(&r.bytes(3)); 2], vec![]], depth: 4 };
    Queries::new::<Blake3_256<F128>, QuadExtension<F128>>(mp, vals)
}
fn mk_ood<E: FieldElement>(mk: &mut dyn FnMut() -> E, width: usize, main: usize, lagr: usize, evals: usize) -> OodFrame
where H1: ElementHasher<BaseField = E::BaseField> {
    let cur: Vec<E> = (0..width).map(|_| mk()).collect();
    let nxt: Vec<E> = (0..width).map(|_| mk()).collect();
    let lk = if lagr > 0 { Some(winter_air::LagrangeKernelEvaluationFrame::new((0..lagr).map(|_| mk()).collect())) } else { None };
    let mut f = OodFrame::default();
    let tf = TraceOodFrame::new(cur, nxt, main, lk);
    f.set_trace_states::<E, H1>(&tf);
    let ev: Vec<E> = (0..evals).map(|_| mk()).collect();
    f.set_constraint_evaluations(&ev);
    f
}
/// a real FRI proof from the real prover
fn mk_fri<E: FieldElement<BaseField = F64>>(r: &mut Rng, log_len: u32, blowup: usize, folding: usize, rem_deg: usize, nq: usize) -> FriProof {
    type H = Blake3_256<F64>;
    let len = 1usize << log_len;
    let domain = len * blowup;
    let options = FriOptions::new(blowup, folding, rem_deg);
    let mut p: Vec<E> = (0..len).map(|_| E::from(F64::new(f64v(r)))).collect();
    p.resize(domain, E::ZERO);
    let tw = fft::get_twiddles::<F64>(domain);
    fft::evaluate_poly(&mut p, &tw);
    let mut channel = DefaultProverChannel::<E, H, DefaultRandomCoin<H>>::new(domain, nq);
    let mut prover = FriProver::<F64, E, _, H>::new(options);
    prover.build_layers(&mut channel, p);
    let positions = channel.draw_query_positions(0);
    prover.build_proof(&positions)
}
fn mk_ctx(field: &str, t: &TraceInfo, o: &ProofOptions) -> Result<Context, String> {
    let (t, o) = (t.clone(), o.clone());
    match field {
        "f64" => catch(move || Context::new::<F64>(t, o)),
        "f62" => catch(move || Context::new::<F62>(t, o)),
        _ => catch(move || Context::new::<F128>(t, o)),
    }
}
fn mk_proof(r: &mut Rng, big: bool) -> Proof {
    let field = *r.pick(&["f64", "f62", "f128"]);
    let mut ta = rand_ti_args(r);
    ta.len = 1 << (3 + r.below(20));
    if !big { ta.meta.truncate(40); }
    let t = mk_ti(&ta).unwrap();
    let o = loop { let a = rand_po_args(r, true); let o = mk_po(&a).unwrap(); if (ta.len as usize) * o.blowup_factor() <= u32::MAX as usize { break o; } };
    let context = mk_ctx(field, &t, &o).unwrap();
    let nseg = t.num_segments();
    let nq = 1 + r.below(if big { 40 } else { 4 }) as usize;
    let trace_queries = (0..nseg).map(|_| { let (c, n1, n2) = (1 + r.below(if big { 60 } else { 5 }) as usize, r.below(4) as usize, r.below(3) as usize); mk_qry_f64(r, nq, c, &[n1, n2]) }).collect();
    let ncom = 1 + r.below(if big { 300 } else { 12 }) as usize;
    let mut mk = || F64::new(7);
    let width = t.width();
    let lag = if t.is_multi_segment() && r.chance(1, 2) { 1 + r.below(20) as usize } else { 0 };
    let ood = mk_ood::<F64>(&mut mk, if big { width } else { width.min(6) }, 1, lag, 1 + r.below(8) as usize);
    let fri = if r.chance(1, 4) { FriProof::new_dummy() } else { let (ll, ff, rd) = (3 + r.below(4) as u32, *r.pick(&[2, 4]), *r.pick(&[0, 1, 3, 7])); catch(AssertUnwindSafe(|| mk_fri::<F64>(r, ll, 4, ff, rd, nq))).unwrap_or_else(|_| FriProof::new_dummy()) };
    Proof {
        context,
        num_unique_queries: r.next_u64() as u8,
        commitments: { let b = r.bytes(ncom); mk_com(&b) },
        trace_queries,
        constraint_queries: { let c = 1 + r.below(8) as usize; mk_qry_f64(r, nq, c, &[1]) },
        ood_frame: ood,
        fri_proof: fri,
        pow_nonce: *r.pick(&[0, 1, u64::MAX, 0x0123_4567_89ab_cdef]),
        gkr_proof: match r.below(3) { 0 => None, 1 => Some(vec![]), _ => { let k = r.below(if big { 400 } else { 10 }) as usize; Some(r.bytes(k)) } },
    }
}

// ---------------------------------------------------------------------------------------- correspondence
fn corr(seed: u64, n: usize) {
    let mut r = Rng::new(seed);
    let r = &mut r;
    let mut o = Out { count: 0, dist: BTreeMap::new(), cells: BTreeMap::new(), tag_override: None };
    let o = &mut o;
    let reps = (n / 40).max(2);

    // --- sizes (vint64): all 7k / 8k boundaries +-1, then random bit lengths
    for v in usize_boundaries() { enc_dec::<usize>(o, r, "usize", &format!("{:x}", v), &(v as usize), 6); }
    for _ in 0..reps * 4 { let v = rand_size(r); enc_dec::<usize>(o, r, "usize", &format!("{:x}", v), &(v as usize), 2); }
    // every first byte (length class) with random continuation: canonical and non-canonical encodings
    for b in 0..=255u8 { let mut bs = vec![b]; let k = r.below(10) as usize; bs.extend(r.bytes(k)); o.dec::<usize>("dec-random", "usize", &bs); }

    // --- fixed-width integers, bool
    for v in [0u64, 1, 0x7f, 0x80, 0xff] { enc_dec::<u8>(o, r, "u8", &format!("{:x}", v), &(v as u8), 1); }
    for v in [0u64, 1, 0xff, 0x100, 0xffff, 0x1234] { enc_dec::<u16>(o, r, "u16", &format!("{:x}", v), &(v as u16), 1); }
    for v in [0u64, 1, 0xffff, 0x10000, 0xffff_ffff, 0x0102_0304] { enc_dec::<u32>(o, r, "u32", &format!("{:x}", v), &(v as u32), 1); }
    for v in [0u64, 1, u64::MAX, 1 << 63, 0x0102_0304_0506_0708] { enc_dec::<u64>(o, r, "u64", &format!("{:x}", v), &v, 1); }
    for v in [0u128, 1, u128::MAX, 1 << 127, 0x0102_0304_0506_0708_090a_0b0c_0d0e_0f10] { enc_dec::<u128>(o, r, "u128", &format!("{:x}", v), &v, 1); }
    for _ in 0..reps { let v = r.next_u128(); enc_dec::<u128>(o, r, "u128", &format!("{:x}", v), &v, 0); let w = r.next_u64(); enc_dec::<u64>(o, r, "u64", &format!("{:x}", w), &w, 0); }
    enc_dec::<Bo>(o, r, "bool", "0", &Bo(false), 0);
    enc_dec::<Bo>(o, r, "bool", "1", &Bo(true), 0);
    for b in [2u8, 3, 0x7f, 0x80, 0xff] { o.dec::<Bo>("dec-malformed", "bool", &[b]); }

    // --- Option / Vec / array / tuple / String / BTreeMap / BTreeSet, nested
    for v in [None, Some(0u32), Some(u32::MAX), Some(0x0100)] {
        let a = match v { None => "N".to_string(), Some(x) => format!("S{:x}", x) };
        enc_dec::<Option<u32>>(o, r, "opt_u32", &a, &v, 3);
    }
    for b in [2u8, 255] { let bs = [b, 1, 2, 3, 4]; o.dec::<Option<u32>>("dec-malformed", "opt_u32", &bs); }
    for len in [0usize, 1, 2, 63, 64, 127, 128, 129, 300] {
        let v: Vec<u16> = (0..len).map(|_| r.next_u64() as u16).collect();
        enc_dec::<Vec<u16>>(o, r, "vec_u16", &hexlist(&v), &v, 3);
    }
    for _ in 0..reps {
        let v: Vec<Vec<u8>> = (0..r.below(5)).map(|_| { let n = *r.pick(&[0usize, 1, 2, 127, 128, 130]); r.bytes(n) }).collect();
        let a = if v.is_empty() { String::new() } else { v.iter().map(|b| hex_bytes(b)).collect::<Vec<_>>().join(" ") };
        enc_dec::<Vec<Vec<u8>>>(o, r, "vec_vec_u8", &a, &v, 3);
        let w: Vec<Option<u64>> = (0..r.below(6)).map(|_| if r.chance(1, 3) { None } else { Some(rand_size(r)) }).collect();
        let a = w.iter().map(|x| match x { None => "N".to_string(), Some(x) => format!("S{:x}", x) }).collect::<Vec<_>>().join(" ");
        enc_dec::<Vec<Option<u64>>>(o, r, "vec_opt_u64", &a, &w, 3);
    }
    // hostile lengths: a huge element count followed by little data must be an error, never a panic / allocation
    for big in [1u64 << 60, u64::MAX, 1 << 56, (1 << 32) + 1, 1 << 31, 70000] {
        let mut bs = (big as usize).to_bytes();
        let k = r.below(6) as usize;
        bs.extend(r.bytes(k));
        o.dec::<Vec<Vec<u8>>>("dec-hostile-len", "vec_vec_u8", &bs);
        o.dec::<Vec<u16>>("dec-hostile-len", "vec_u16", &bs);
        o.dec::<String>("dec-hostile-len", "string", &bs);
        o.dec::<BTreeMap<u32, Vec<u8>>>("dec-hostile-len", "map_u32_bytes", &bs);
        o.dec::<BTreeSet<u64>>("dec-hostile-len", "set_u64", &bs);
        let mut ob = vec![1u8]; ob.extend(&bs);
        o.dec::<Option<Vec<u8>>>("dec-hostile-len", "opt_vec_u8", &ob);
    }
    for v in [None, Some(vec![]), Some(vec![0u8]), Some(r.bytes(127)), Some(r.bytes(128)), Some(r.bytes(16384))] {
        let a = match &v { None => "N".to_string(), Some(b) => format!("S {}", hex_bytes(b)) };
        enc_dec::<Option<Vec<u8>>>(o, r, "opt_vec_u8", &a, &v, 3);
    }
    for n in [0usize, 1, 5, 40, 127, 128] {
        let s = rand_utf8(r, n);
        enc_dec::<String>(o, r, "string", &hex_bytes(s.as_bytes()), &s, 6);
    }
    for bad in [vec![1u8, 0x80], vec![2, 0xc3, 0x28], vec![3, 0xed, 0xa0, 0x80], vec![4, 0xf4, 0x90, 0x80, 0x80], vec![2, 0xc0, 0xaf], vec![1, 0xff]] {
        o.dec::<String>("dec-malformed", "string", &bad);
    }
    for _ in 0..reps {
        let v: [u16; 4] = [r.next_u64() as u16, 0, 0xffff, r.next_u64() as u16];
        enc_dec::<[u16; 4]>(o, r, "arr4_u16", &hexlist(&v), &v, 1);
        let t = (r.next_u64() as u8, r.next_u64() as u32, Bo(r.chance(1, 2)));
        enc_dec::<(u8, u32, Bo)>(o, r, "tup", &format!("{:x} {:x} {}", t.0, t.1, t.2 .0 as u8), &t, 3);
        let m: BTreeMap<u32, Vec<u8>> = (0..r.below(6)).map(|_| (*r.pick(&[0u32, 1, 255, 256, 65536, u32::MAX, 77]), { let n = r.below(4) as usize; r.bytes(n) })).collect();
        let a = m.iter().map(|(k, v)| format!("{:x}:{}", k, hex_bytes(v))).collect::<Vec<_>>().join(" ");
        enc_dec::<BTreeMap<u32, Vec<u8>>>(o, r, "map_u32_bytes", &a, &m, 4);
        let s: BTreeSet<u64> = (0..r.below(7)).map(|_| *r.pick(&[0u64, 1, 2, 255, 256, u64::MAX, 1 << 40])).collect();
        enc_dec::<BTreeSet<u64>>(o, r, "set_u64", &hexlist(&s.iter().copied().collect::<Vec<_>>()), &s, 4);
    }
    // --- coverage round: every remaining impl of serde/mod.rs: (), the tuples of arity 1, 2, 4, 5, 6 (fields of pairwise
    // different widths, so a reordering of the reads is visible), and the write-only impls [T] and str whose bytes are read back
    // as Vec<T> / String
    enc_dec::<()>(o, r, "unit", "", &(), 0);
    for _ in 0..reps.min(4) {
        let t1 = (*r.pick(&[0u16, 1, 0xff, 0x100, 0xffff, 0x1234]),);
        enc_dec::<(u16,)>(o, r, "tup1", &format!("{:x}", t1.0), &t1, 2);
        let t2 = (r.next_u64() as u16, r.next_u64() as u8);
        enc_dec::<(u16, u8)>(o, r, "tup2", &format!("{:x} {:x}", t2.0, t2.1), &t2, 2);
        let t4 = (r.next_u64() as u8, r.next_u64() as u16, r.next_u64() as u32, r.next_u64());
        enc_dec::<(u8, u16, u32, u64)>(o, r, "tup4", &format!("{:x} {:x} {:x} {:x}", t4.0, t4.1, t4.2, t4.3), &t4, 3);
        let t5 = (r.next_u64() as u8, r.next_u64() as u16, r.next_u64() as u32, r.next_u64(), r.next_u128());
        enc_dec::<(u8, u16, u32, u64, u128)>(o, r, "tup5", &format!("{:x} {:x} {:x} {:x} {:x}", t5.0, t5.1, t5.2, t5.3, t5.4), &t5, 3);
        let t6 = (r.next_u64() as u8, r.next_u64() as u16, r.next_u64() as u32, r.next_u64(), r.next_u128(), rand_size(r) as usize);
        enc_dec::<(u8, u16, u32, u64, u128, usize)>(o, r, "tup6", &format!("{:x} {:x} {:x} {:x} {:x} {:x}", t6.0, t6.1, t6.2, t6.3, t6.4, t6.5), &t6, 3);
    }
    { // the vint64 field of the 6-tuple in its 9-byte form, at the end and truncated inside it
        let t6 = (0u8, 0xffffu16, 0u32, u64::MAX, 1u128 << 127, u64::MAX as usize);
        enc_dec::<(u8, u16, u32, u64, u128, usize)>(o, r, "tup6", &format!("{:x} {:x} {:x} {:x} {:x} {:x}", t6.0, t6.1, t6.2, t6.3, t6.4, t6.5), &t6, 3);
    }
    for len in [0usize, 1, 2, 5, 127, 128] {
        let v: Vec<u16> = (0..len).map(|_| r.next_u64() as u16).collect();
        let bytes = <[u16] as Serializable>::to_bytes(&v[..]);
        o.push("enc", format!("enc slice_u16 {} => {}", hexlist(&v), hex_bytes(&bytes)));
        o.tag_override = Some("slice");
        dec_cases::<Vec<u16>>(o, r, "vec_u16", &bytes, 2);
        o.tag_override = None;
    }
    for n in [0usize, 1, 5, 40, 127, 128] {
        let st = rand_utf8(r, n);
        let bytes = <str as Serializable>::to_bytes(st.as_str());
        o.push("enc", format!("enc str {} => {}", hex_bytes(st.as_bytes()), hex_bytes(&bytes)));
        o.tag_override = Some("str");
        dec_cases::<String>(o, r, "string", &bytes, 2);
        o.tag_override = None;
    }

    // unsorted / duplicate keys on the wire (from_iter semantics)
    {
        let mut bs = 3usize.to_bytes();
        for (k, v) in [(9u32, vec![1u8]), (2, vec![]), (9, vec![7, 7])] { bs.extend(k.to_bytes()); bs.extend(v.to_bytes()); }
        o.dec::<BTreeMap<u32, Vec<u8>>>("dec-malformed", "map_u32_bytes", &bs);
        let mut bs = 4usize.to_bytes();
        for k in [5u64, 1, 5, 3] { bs.extend(k.to_bytes()); }
        o.dec::<BTreeSet<u64>>("dec-malformed", "set_u64", &bs);
    }

    // --- field elements (canonical residues; the reader must reject >= M), extensions, digests
    for _ in 0..reps * 2 {
        let v = f64v(r); enc_dec::<F64>(o, r, "f64", &format!("{:x}", v), &F64::new(v), 2);
        let v = f62v(r); enc_dec::<F62>(o, r, "f62", &format!("{:x}", v), &F62::new(v), 2);
        let v = f128v(r); enc_dec::<F128>(o, r, "f128", &format!("{:x}", v), &F128::new(v), 2);
    }
    for v in [M64, M64 + 1, u64::MAX, M64 - 1] { let b = v.to_le_bytes(); o.dec::<F64>("dec-noncanonical", "f64", &b); }
    for v in [M62, M62 + 1, u64::MAX, 1 << 62, M62 - 1] { let b = v.to_le_bytes(); o.dec::<F62>("dec-noncanonical", "f62", &b); }
    for v in [M128, M128 + 1, u128::MAX, M128 - 1] { let b = v.to_le_bytes(); o.dec::<F128>("dec-noncanonical", "f128", &b); }
    for _ in 0..reps {
        let (a, b, c) = (f64v(r), f64v(r), f64v(r));
        enc_dec(o, r, "q64", &format!("{:x} {:x}", a, b), &QuadExtension::new(F64::new(a), F64::new(b)), 2);
        enc_dec(o, r, "c64", &format!("{:x} {:x} {:x}", a, b, c), &CubeExtension::new(F64::new(a), F64::new(b), F64::new(c)), 2);
        let (a, b, c) = (f62v(r), f62v(r), f62v(r));
        enc_dec(o, r, "q62", &format!("{:x} {:x}", a, b), &QuadExtension::new(F62::new(a), F62::new(b)), 2);
        enc_dec(o, r, "c62", &format!("{:x} {:x} {:x}", a, b, c), &CubeExtension::new(F62::new(a), F62::new(b), F62::new(c)), 2);
        let (a, b) = (f128v(r), f128v(r));
        enc_dec(o, r, "q128", &format!("{:x} {:x}", a, b), &QuadExtension::new(F128::new(a), F128::new(b)), 2);
        let d = r.bytes(32); enc_dec(o, r, "dig32", &hex_bytes(&d), &Dg32(D32::read_from_bytes(&d).unwrap()), 1);
        let d = r.bytes(24); enc_dec(o, r, "dig24", &hex_bytes(&d), &Dg24(D24::read_from_bytes(&d).unwrap()), 1);
        let e = [f64v(r), f64v(r), f64v(r), f64v(r)];
        enc_dec(o, r, "edig", &format!("{:x} {:x} {:x} {:x}", e[0], e[1], e[2], e[3]), &EDg(ED::from([F64::new(e[0]), F64::new(e[1]), F64::new(e[2]), F64::new(e[3])])), 2);
    }
    { // ElementDigest reader reduces non-canonical limbs instead of rejecting them
        let mut b = vec![]; for v in [M64, u64::MAX, M64 + 5, 3] { b.extend(v.to_le_bytes()); }
        o.dec::<EDg>("dec-noncanonical", "edig", &b);
    }

    // --- FieldExtension / ProofOptions: every byte value of every field position
    for v in 1..=3u64 { enc_dec(o, r, "fe", &format!("{}", v), &fe_of(v), 0); }
    for b in [0u8, 4, 5, 128, 255] { o.dec::<FieldExtension>("dec-malformed", "fe", &[b]); }
    let good = ProofOptions::new(28, 8, 16, FieldExtension::Quadratic, 4, 31).to_bytes();
    for pos in 0..6 { for b in 0..=255u8 { let mut m = good.clone(); m[pos] = b; o.dec::<ProofOptions>("dec-po-sweep", "po", &m); } }
    for i in 0..reps * 6 {
        let a = rand_po_args(r, i % 3 != 0);
        match mk_po(&a) {
            Ok(p) => enc_dec(o, r, "po", &po_args(&a), &p, 3),
            Err(_) => o.push("enc-ctor-panic", format!("enc po {} => panic", po_args(&a))),
        }
    }
    for a in [[255u64, 128, 32, 3, 16, 255], [1, 2, 0, 1, 2, 0], [256, 2, 0, 1, 2, 0], [0, 2, 0, 1, 2, 0], [1, 256, 0, 1, 2, 0], [1, 2, 33, 1, 2, 0], [1, 2, 0, 1, 32, 0], [1, 2, 0, 1, 2, 511], [1, 2, 0, 1, 2, u64::MAX], [1, 1, 0, 1, 2, 0], [1, 2, 0, 1, 1, 0]] {
        match mk_po(&a) {
            Ok(p) => enc_dec(o, r, "po", &po_args(&a), &p, 2),
            Err(_) => o.push("enc-ctor-panic", format!("enc po {} => panic", po_args(&a))),
        }
    }

    // --- TraceInfo: constructor boundaries, all three constructors, header sweeps
    for a in ti_boundaries().iter().chain((0..reps * 3).map(|_| rand_ti_args(r)).collect::<Vec<_>>().iter()) {
        match mk_ti(a) {
            Ok(t) => enc_dec(o, r, "ti", &ti_args(a), &t, if a.meta.len() > 1000 { 6 } else { 10 }),
            Err(_) => o.push("enc-ctor-panic", format!("enc ti {} => panic", ti_args(a))),
        }
    }
    for (w, l) in [(1u64, 8u64), (255, 8), (256, 8), (0, 8), (17, 1 << 30), (17, 6)] {
        let res = catch(move || TraceInfo::new(w as usize, l as usize).to_bytes());
        o.push("enc", format!("enc ti_new {:x} {:x} => {}", w, l, res.map(|b| hex_bytes(&b)).unwrap_or("panic".into())));
        let meta = r.bytes(3);
        let m2 = meta.clone();
        let res = catch(move || TraceInfo::with_meta(w as usize, l as usize, m2).to_bytes());
        o.push("enc", format!("enc ti_meta {:x} {:x} {} => {}", w, l, hex_bytes(&meta), res.map(|b| hex_bytes(&b)).unwrap_or("panic".into())));
    }
    let good = TraceInfo::new_multi_segment(100, 50, 7, 1 << 10, vec![9, 8, 7]).to_bytes();
    for pos in 0..6 { for b in 0..=255u8 { let mut m = good.clone(); m[pos] = b; o.dec::<TraceInfo>("dec-ti-sweep", "ti", &m); } }
    let good = TraceInfo::new(200, 8).to_bytes();
    for pos in 1..3 { for b in 0..=255u8 { let mut m = good.clone(); m[pos] = b; o.dec::<TraceInfo>("dec-ti-sweep", "ti", &m); } }
    for bs in [vec![1u8, 0, 0, 200, 0, 0], vec![1, 0, 0, 64, 0, 0], vec![1, 0, 0, 63, 0, 0], vec![255, 0, 0, 3, 0, 0], vec![254, 1, 0, 3, 0, 0], vec![254, 2, 1, 3, 0, 0], vec![3, 2, 0, 3, 0, 0], vec![3, 0, 1, 3, 0, 0]] {
        o.dec::<TraceInfo>("dec-ti-boundary", "ti", &bs);
    }

    // --- Context
    for i in 0..reps * 3 {
        let field = *r.pick(&["f64", "f62", "f128"]);
        let mut ta = rand_ti_args(r);
        ta.meta.truncate(20);
        if i % 4 == 0 { ta.len = *r.pick(&[1 << 24, 1 << 25, 1 << 31, 1 << 32, 1 << 40]); }
        let pa = rand_po_args(r, true);
        if let (Ok(t), Ok(p)) = (mk_ti(&ta), mk_po(&pa)) {
            let args = format!("{} {} {}", field, ti_args(&ta), po_args(&pa));
            match mk_ctx(field, &t, &p) {
                Ok(c) => enc_dec(o, r, "ctx", &args, &c, 8),
                Err(_) => o.push("enc-ctor-panic", format!("enc ctx {} => panic", args)),
            }
        }
    }
    for bs in [vec![1u8, 0, 0, 3, 0, 0, 0, 1, 2, 0, 1, 2, 0], vec![1, 0, 0, 3, 0, 0, 1, 5, 1, 2, 0, 1, 2, 0], vec![1, 0, 0, 3, 0, 0, 255, 5, 1, 2, 0, 1, 2, 0]] {
        o.dec::<Context>("dec-malformed", "ctx", &bs);
    }

    // Context::read_from enforces the limits of Context::new: trace length and LDE domain must fit into 32 bits
    for (e, bf) in [(31u8, 1u8), (31, 2), (32, 2), (33, 2), (24, 128), (25, 128), (25, 64), (63, 2), (30, 4), (30, 2)] {
        let mut bs = vec![1u8, 0, 0, e, 0, 0, 8];
        bs.extend(M64.to_le_bytes());
        bs.extend([1u8, bf, 0, 1, 2, 0]);
        o.dec::<Context>("dec-ctx-boundary", "ctx", &bs);
    }
    // --- Commitments / Queries / OodFrame / FriProof built with the real constructors
    for n in [1usize, 2, 3, 32, 255, 256, 65533, 65534] {
        let c = mk_com(&r.bytes(n));
        enc_dec(o, r, "com", &args_com(&c), &c, 4);
    }
    for n in [65535usize, 65536] { // the writer asserts len < u16::MAX
        let c = mk_com(&vec![5u8; n]);
        let res = catch(AssertUnwindSafe(|| c.to_bytes()));
        o.push("enc-writer-assert", format!("enc com {} => {}", args_com(&c), res.map(|b| hex_bytes(&b)).unwrap_or("panic".into())));
    }
    for (nq, cols, nodes) in [(1usize, 1usize, vec![]), (1, 1, vec![0usize]), (2, 3, vec![2, 1]), (255, 1, vec![255; 3]), (3, 255, vec![1]), (254, 254, vec![4, 4, 4])] {
        let q = mk_qry_f64(r, nq, cols, &nodes);
        enc_dec(o, r, "qry", &args_qry(&q), &q, 6);
    }
    // (the 2 MB 255x255 quadratic-f128 table is exercised by the falsifier only: the extracted list functions are not tail recursive)
    { let q = mk_qry_q128(r, 100, 100); enc_dec(o, r, "qry", &args_qry(&q), &q, 4); }
    {
        let mut k = 0u64;
        let mut mk = || { k += 1; F64::new(k) };
        for (w, main, lag, ev) in [(1usize, 1usize, 0usize, 1usize), (2, 1, 1, 1), (255, 255, 0, 8), (255, 200, 33, 64), (30, 10, 5, 2)] {
            let f = mk_ood::<F64>(&mut mk, w, main, lag, ev);
            enc_dec(o, r, "ood", &args_ood(&f), &f, 6);
        }
        let mut j = 0u64;
        let mut mkc = || { j += 1; CubeExtension::new(F64::new(j), F64::new(M64 - j), F64::new(j * j)) };
        let f = mk_ood::<CubeExtension<F64>>(&mut mkc, 255, 100, 33, 128);
        enc_dec(o, r, "ood", &args_ood(&f), &f, 6);
        let f = OodFrame::default();
        enc_dec(o, r, "ood", &args_ood(&f), &f, 2);
    }
    {
        let d = FriProof::new_dummy();
        enc_dec(o, r, "fri", &args_fri(&d), &d, 2);
        for (ll, bl, ff, rd, nq) in [(3u32, 2usize, 2usize, 0usize, 1usize), (4, 4, 2, 1, 3), (6, 8, 4, 3, 20), (8, 8, 16, 255, 50), (10, 2, 2, 0, 255), (9, 16, 8, 7, 27), (5, 8, 4, 255, 5)] {
            let p = mk_fri::<F64>(r, ll, bl, ff, rd, nq);
            enc_dec(o, r, "fri", &args_fri(&p), &p, 12);
        }
        let p = mk_fri::<CubeExtension<F64>>(r, 8, 4, 2, 255, 10); // maximal remainder: 256 cubic elements
        enc_dec(o, r, "fri", &args_fri(&p), &p, 12);
        let p = mk_fri::<QuadExtension<F64>>(r, 7, 4, 4, 15, 9);
        enc_dec(o, r, "fri", &args_fri(&p), &p, 12);
        // num_partitions is a log2: 63 is the largest accepted exponent
        for np in [0u8, 1, 62, 63, 64, 65, 128, 255] { let bs = vec![0u8, 0, 0, np]; o.dec::<FriProof>("dec-fri-boundary", "fri", &bs); }
        // a layer with zero value bytes is rejected by the reader
        let bs = vec![1u8, 0, 0, 0, 0, 0, 0, 0, 0, 0, 0, 0];
        o.dec::<FriProof>("dec-malformed", "fri", &bs);
    }

    // --- whole proofs (public struct; components from the real constructors / the real FRI prover)
    {
        let d = Proof::new_dummy();
        enc_dec(o, r, "proof", &args_proof(&d), &d, 30);
        for i in 0..reps.min(12) {
            let p = mk_proof(r, i % 3 == 2);
            enc_dec(o, r, "proof", &args_proof(&p), &p, 30);
        }
    }

    // --- purely random byte strings through every reader
    for _ in 0..reps * 4 {
        let n = r.below(40) as usize;
        let bs = r.bytes(n);
        o.dec::<ProofOptions>("dec-random", "po", &bs);
        o.dec::<TraceInfo>("dec-random", "ti", &bs);
        o.dec::<Context>("dec-random", "ctx", &bs);
        o.dec::<Queries>("dec-random", "qry", &bs);
        o.dec::<OodFrame>("dec-random", "ood", &bs);
        o.dec::<FriProof>("dec-random", "fri", &bs);
        o.dec::<Commitments>("dec-random", "com", &bs);
        o.dec::<Proof>("dec-random", "proof", &bs);
        o.dec::<String>("dec-random", "string", &bs);
        o.dec::<Vec<Option<u64>>>("dec-random", "vec_opt_u64", &bs);
        o.dec::<BTreeMap<u32, Vec<u8>>>("dec-random", "map_u32_bytes", &bs);
    }

    // which serde/mod.rs impl x input class cells were driven (each decoding case runs on all three readers)
    let c = o.cells.iter().map(|((t, c), v)| format!("\"{}|{}\":{}", t, c, v)).collect::<Vec<_>>().join(",");
    eprintln!("cells {{{}}}", c);
    let d = o.dist.iter().map(|(k, v)| format!("{}={}", k, v)).collect::<Vec<_>>().join(" ");
    eprintln!("dist {} total={}", d, o.count);
}

// --------------------------------------------------------------------------------------------- falsifier
struct Fails { n: usize, evals: usize, cells: BTreeMap<(String, String, String), usize> }
impl Fails {
    fn fail(&mut self, what: &str, input: &str, expected: &str, actual: &str) {
        self.n += 1;
        let clip = |s: &str| if s.chars().count() > 400 { format!("{}..({} bytes)", s.chars().take(400).collect::<String>(), s.len()) } else { s.to_string() };
        println!("{{\"what\":{},\"input\":{},\"expected\":{},\"actual\":{}}}", jstr(what), jstr(&clip(input)), jstr(&clip(expected)), jstr(&clip(actual)));
    }
}
/// a std::io::Read that hands out the data in prescribed chunk sizes (for ReadAdapter)
struct Chunked<'a> { data: &'a [u8], pos: usize, sizes: Vec<usize>, k: usize }
impl<'a> std::io::Read for Chunked<'a> {
    fn read(&mut self, buf: &mut [u8]) -> std::io::Result<usize> {
        let want = self.sizes[self.k % self.sizes.len()].max(1);
        self.k += 1;
        let n = want.min(buf.len()).min(self.data.len() - self.pos);
        buf[..n].copy_from_slice(&self.data[self.pos..self.pos + n]);
        self.pos += n;
        Ok(n)
    }
}
fn check_reader<T, R>(name: &str, ty: &str, desc: &str, v: &T, junk: &[u8], mk: impl FnOnce() -> R, f: &mut Fails)
where T: Deserializable + PartialEq + Debug, R: ByteReader {
    f.evals += 1;
    let res = catch(AssertUnwindSafe(|| { let mut rd = mk(); let x = T::read_from(&mut rd); let rem = if x.is_ok() { remaining(&mut rd) } else { vec![] }; (x, rem) }));
    // round 2: the ReadAdapter repairs of C13 are committed, so a ReadAdapter-only failure is a C12 failure
    // ("whichever byte-source implementation is used")
    let tag = format!("roundtrip:{}:{}", name, ty);
    match res {
        Err(m) => f.fail(&tag, desc, "Ok(v), junk unread", &format!("panic: {}", m)),
        Ok((Err(e), _)) => f.fail(&tag, desc, "Ok(v), junk unread", &format!("Err({})", e)),
        Ok((Ok(x), rem)) => {
            if &x != v { f.fail(&tag, desc, &format!("{:?}", v), &format!("{:?}", x)); }
            else if rem != junk { f.fail(&tag, desc, &format!("unread={}", hex_bytes(junk)), &format!("unread={}", hex_bytes(&rem))); }
        }
    }
}
fn rt<T: Serializable + Deserializable + PartialEq + Debug>(ty: &str, desc: &str, v: &T, r: &mut Rng, f: &mut Fails) {
    let enc = catch(AssertUnwindSafe(|| v.to_bytes()));
    let bytes = match enc { Ok(b) => b, Err(m) => { f.evals += 1; f.fail(&format!("encode-panicked:{}", ty), desc, "bytes", &format!("panic: {}", m)); return; } };
    // size hint must not matter; write_into a second writer gives the same bytes
    let mut w2 = Vec::new(); v.write_into(&mut w2);
    if w2 != bytes { f.fail(&format!("to_bytes-vs-write_into:{}", ty), desc, &hex_bytes(&bytes), &hex_bytes(&w2)); }
    let jl = 1 + r.below(4) as usize;
    for junk in [vec![], r.bytes(jl)] {
        let mut all = bytes.clone(); all.extend(&junk);
        check_reader::<T, _>("SliceReader", ty, desc, v, &junk, || SliceReader::new(&all), f);
        check_reader::<T, _>("Cursor", ty, desc, v, &junk, || std::io::Cursor::new(&all), f);
        let mut src: &[u8] = &all;
        check_reader::<T, _>("ReadAdapter/slice", ty, desc, v, &junk, || ReadAdapter::new(&mut src), f);
        let mut ch = Chunked { data: &all, pos: 0, sizes: vec![1 + r.below(7) as usize, 1 + r.below(300) as usize, 1], k: 0 };
        check_reader::<T, _>("ReadAdapter/chunked", ty, desc, v, &junk, || ReadAdapter::new(&mut ch), f);
        // short-read sources (socket / pipe like): a fixed number of bytes per read() call, so that fixed-width reads
        // find 0 < k < N bytes in the BufReader right after byte-wise reads left a consumed prefix in the local buffer
        for (name, sizes) in [("ReadAdapter/short_one", vec![1usize]), ("ReadAdapter/short_three", vec![3]), ("ReadAdapter/short_seven", vec![7]),
                              ("ReadAdapter/short_one_three_seven", vec![1, 3, 7]), ("ReadAdapter/short_block_two", vec![255, 2])] {
            let mut ch = Chunked { data: &all, pos: 0, sizes, k: 0 };
            check_reader::<T, _>(name, ty, desc, v, &junk, || ReadAdapter::new(&mut ch), f);
        }
    }
    // read_from_bytes convenience entry point
    f.evals += 1;
    match catch(AssertUnwindSafe(|| T::read_from_bytes(&bytes))) {
        Ok(Ok(x)) if &x == v => {}
        other => f.fail(&format!("roundtrip:read_from_bytes:{}", ty), desc, "Ok(v)", &format!("{:?}", other.map(|r| r.map(|_| "different value")))),
    }
}


// ------------------------------------------------------------ impl x reader x input-class matrix (coverage round)
/// one decoding experiment, generic over the reader implementation
trait Visit { fn visit<R: ByteReader>(&mut self, name: &str, mk: impl FnOnce() -> R); }
/// runs the experiment on SliceReader, std::io::Cursor and ReadAdapter (source delivering `sizes` bytes per read())
fn for_readers(all: &[u8], sizes: &[usize], v: &mut impl Visit) {
    v.visit("SliceReader", || SliceReader::new(all));
    v.visit("Cursor", || std::io::Cursor::new(all));
    let mut ch = Chunked { data: all, pos: 0, sizes: sizes.to_vec(), k: 0 };
    v.visit("ReadAdapter", || ReadAdapter::new(&mut ch));
}
enum Expect<'a, T> { Value(&'a T, &'a [u8]), Eof }
struct Cell<'a, T> { tag: &'a str, ty: &'a str, desc: String, class: &'a str, expect: Expect<'a, T>, via_read: bool, f: &'a mut Fails }
impl<'a, T: Deserializable + PartialEq + Debug> Visit for Cell<'a, T> {
    fn visit<R: ByteReader>(&mut self, name: &str, mk: impl FnOnce() -> R) {
        self.f.evals += 1;
        *self.f.cells.entry((self.tag.to_string(), name.to_string(), self.class.to_string())).or_insert(0) += 1;
        let what = format!("matrix:{}:{}:{}:{}", self.tag, name, self.class, self.ty);
        let via_read = self.via_read;
        let junk_len = match &self.expect { Expect::Value(_, j) => j.len(), Expect::Eof => 0 };
        let res = catch(AssertUnwindSafe(|| {
            let mut rd = mk();
            let x = if via_read { rd.read::<T>() } else { T::read_from(&mut rd) };
            // end-of-data observations through the reader's own interface (no byte is consumed by them)
            let eor_k = rd.check_eor(junk_len);
            let eor_k1 = rd.check_eor(junk_len + 1);
            let more = rd.has_more_bytes();
            let rem = if x.is_ok() { remaining(&mut rd) } else { vec![] };
            let more_after = rd.has_more_bytes();
            let eor_after = rd.check_eor(1);
            (x, eor_k, eor_k1, more, rem, more_after, eor_after)
        }));
        match (&self.expect, res) {
            (_, Err(m)) => self.f.fail(&what, &self.desc, "no panic", &format!("panic: {}", m)),
            (Expect::Eof, Ok((x, ..))) => match x {
                Err(DeserializationError::UnexpectedEOF) => {}
                Err(e) => self.f.fail(&what, &self.desc, "Err(UnexpectedEOF)", &format!("Err({:?})", e)),
                Ok(v) => self.f.fail(&what, &self.desc, "Err(UnexpectedEOF)", &format!("Ok({:?})", v)),
            },
            (Expect::Value(v, junk), Ok((x, eor_k, eor_k1, more, rem, more_after, eor_after))) => match x {
                Err(e) => self.f.fail(&what, &self.desc, "Ok(v), junk unread", &format!("Err({})", e)),
                Ok(x) => {
                    if &x != *v { self.f.fail(&what, &self.desc, &format!("{:?}", v), &format!("{:?}", x)); }
                    else if rem != *junk { self.f.fail(&what, &self.desc, &format!("unread={}", hex_bytes(junk)), &format!("unread={}", hex_bytes(&rem))); }
                    else if eor_k.is_err() { self.f.fail(&what, &self.desc, &format!("check_eor({}) = Ok after decoding", junk.len()), &format!("{:?}", eor_k)); }
                    // the in-memory readers know the exact end; ReadAdapter may answer optimistically before it has seen EOF (C13)
                    else if name != "ReadAdapter" && eor_k1 != Err(DeserializationError::UnexpectedEOF) { self.f.fail(&what, &self.desc, &format!("check_eor({}) = Err(UnexpectedEOF) after decoding", junk.len() + 1), &format!("{:?}", eor_k1)); }
                    else if more != !junk.is_empty() { self.f.fail(&what, &self.desc, &format!("has_more_bytes() = {}", !junk.is_empty()), &format!("{}", more)); }
                    else if more_after || eor_after != Err(DeserializationError::UnexpectedEOF) { self.f.fail(&what, &self.desc, "at end of data: has_more_bytes() = false, check_eor(1) = Err(UnexpectedEOF)", &format!("{} {:?}", more_after, eor_after)); }
                }
            },
        }
    }
}
/// `bytes` (the encoding of `v` by the impl named `tag`) decoded as T: complete, with trailing bytes, and every proper prefix
/// (all of them up to 64 bytes, otherwise the first 16, the last 8 and 16 random ones), each on all three readers
fn matrix_bytes<T: Deserializable + PartialEq + Debug>(tag: &str, ty: &str, desc: &str, bytes: &[u8], v: &T, r: &mut Rng, f: &mut Fails) {
    let pat = |r: &mut Rng| ADAPTER_PATTERNS[r.below(ADAPTER_PATTERNS.len() as u64) as usize];
    for via_read in [false, true] {
        for_readers(bytes, pat(r), &mut Cell { tag, ty, desc: desc.to_string(), class: "complete", expect: Expect::Value(v, &[]), via_read, f });
    }
    let jl = 1 + r.below(4) as usize;
    let junk = r.bytes(jl);
    let mut all = bytes.to_vec();
    all.extend(&junk);
    for_readers(&all, pat(r), &mut Cell { tag, ty, desc: format!("{} ++ junk {}", desc, hex_bytes(&junk)), class: "trailing", expect: Expect::Value(v, &junk), via_read: false, f });
    let n = bytes.len();
    let ks: Vec<usize> = if n <= 64 { (0..n).collect() } else { (0..16).chain(n - 8..n).chain((0..16).map(|_| r.below(n as u64) as usize)).collect() };
    for k in ks {
        for_readers(&bytes[..k], pat(r), &mut Cell::<T> { tag, ty, desc: format!("{} truncated to {} of {} bytes: {}", desc, k, n, hex_bytes(&bytes[..k.min(40)])), class: "truncated", expect: Expect::Eof, via_read: false, f });
    }
}
fn matrix<T: Serializable + Deserializable + PartialEq + Debug>(tag: &str, ty: &str, v: &T, r: &mut Rng, f: &mut Fails) {
    match catch(AssertUnwindSafe(|| v.to_bytes())) {
        Ok(b) => matrix_bytes(tag, ty, &format!("{:?}", v), &b, v, r, f),
        Err(m) => { f.evals += 1; f.fail(&format!("encode-panicked:{}", ty), &format!("{:?}", v), "bytes", &format!("panic: {}", m)); }
    }
}
/// every Serializable / Deserializable impl of utils/core/src/serde/mod.rs (tags as in checks/c12.py)
fn serde_matrix(r: &mut Rng, f: &mut Fails, reps: usize) {
    matrix("unit", "()", &(), r, f);
    for v in [0u8, 1, 0x7f, 0x80, 0xff] { matrix("u8", "u8", &v, r, f); }
    for v in [0u16, 1, 0xff, 0x100, u16::MAX] { matrix("u16", "u16", &v, r, f); }
    for v in [0u32, 1, 0xffff, 0x10000, u32::MAX] { matrix("u32", "u32", &v, r, f); }
    for v in [0u64, 1, u64::MAX, 1 << 63] { matrix("u64", "u64", &v, r, f); }
    for v in [0u128, 1, u128::MAX, 1 << 127] { matrix("u128", "u128", &v, r, f); }
    for v in usize_boundaries() { matrix("usize", "usize", &(v as usize), r, f); }
    matrix("bool", "bool", &Bo(true), r, f);
    matrix("bool", "bool", &Bo(false), r, f);
    for _ in 0..reps {
        let (a, b, c, d, e, g) = (r.next_u64() as u8, r.next_u64() as u16, r.next_u64() as u32, r.next_u64(), r.next_u128(), rand_size(r) as usize);
        matrix("tuple1", "(u16,)", &(b,), r, f);
        matrix("tuple1", "(String,)", &(rand_utf8(r, 3),), r, f);
        matrix("tuple2", "(u16,u8)", &(b, a), r, f);
        matrix("tuple2", "(Vec<u8>,u64)", &(r.bytes(5), d), r, f);
        matrix("tuple3", "(u8,u32,bool)", &(a, c, Bo(r.chance(1, 2))), r, f);
        matrix("tuple4", "(u8,u16,u32,u64)", &(a, b, c, d), r, f);
        matrix("tuple4", "(String,Option<u8>,Vec<u16>,bool)", &(rand_utf8(r, 2), if r.chance(1, 2) { Some(a) } else { None }, vec![b; r.below(3) as usize], Bo(r.chance(1, 2))), r, f);
        matrix("tuple5", "(u8,u16,u32,u64,u128)", &(a, b, c, d, e), r, f);
        matrix("tuple5", "(usize,u128,Option<u16>,u8,String)", &(g, e, Some(b), a, rand_utf8(r, 1)), r, f);
        matrix("tuple6", "(u8,u16,u32,u64,u128,usize)", &(a, b, c, d, e, g), r, f);
        matrix("tuple6", "(usize,bool,Vec<u8>,u16,(u8,u8),u32)", &(g, Bo(r.chance(1, 2)), r.bytes(3), b, (a, a ^ 0xff), c), r, f);
        matrix("option", "Option<u32>", &Some(c), r, f);
        matrix("option", "Option<Option<u16>>", &(if r.chance(1, 3) { None } else { Some(if r.chance(1, 2) { None } else { Some(b) }) }), r, f);
        matrix("array", "[u16;4]", &[b, 0, 0xffff, !b], r, f);
        matrix("array", "[Option<u16>;5]", &[None, Some(0), Some(u16::MAX), None, Some(b)], r, f);
        let n = *r.pick(&[0usize, 1, 2, 5, 127, 128]);
        let v16: Vec<u16> = (0..n).map(|_| r.next_u64() as u16).collect();
        matrix("vec", "Vec<u16>", &v16, r, f);
        matrix("vec", "Vec<Vec<u8>>", &vec![r.bytes(2), vec![], r.bytes(1)], r, f);
        // write-only impls: [T] is read back as Vec<T>, str as String, &T as T
        matrix_bytes("slice", "[u16] -> Vec<u16>", &format!("{:?}", v16), &<[u16] as Serializable>::to_bytes(&v16[..]), &v16, r, f);
        let vs: Vec<String> = (0..r.below(4)).map(|_| rand_utf8(r, 2)).collect();
        matrix_bytes("slice", "[String] -> Vec<String>", &format!("{:?}", vs), &<[String] as Serializable>::to_bytes(&vs[..]), &vs, r, f);
        let sl = *r.pick(&[0usize, 1, 3, 42, 127, 128]);
        let st = rand_utf8(r, sl);
        matrix_bytes("str", "str -> String", &hex_bytes(st.as_bytes()), &<str as Serializable>::to_bytes(st.as_str()), &st, r, f);
        matrix("string", "String", &st, r, f);
        matrix_bytes("ref", "&u32 -> u32", &format!("{}", c), &<&u32 as Serializable>::to_bytes(&&c), &c, r, f);
        matrix_bytes("ref", "&(u8,String) -> (u8,String)", &format!("{:?}", (a, &st)), &<&(u8, String) as Serializable>::to_bytes(&&(a, st.clone())), &(a, st.clone()), r, f);
        let m: BTreeMap<u32, Vec<u8>> = (0..1 + r.below(4)).map(|_| (*r.pick(&[0u32, 1, 255, 256, u32::MAX, 77]), { let n = r.below(4) as usize; r.bytes(n) })).collect();
        matrix("map", "BTreeMap<u32,Vec<u8>>", &m, r, f);
        let st: BTreeSet<u64> = (0..1 + r.below(5)).map(|_| *r.pick(&[0u64, 1, 2, 255, 256, u64::MAX, 1 << 40])).collect();
        matrix("set", "BTreeSet<u64>", &st, r, f);
    }
    matrix("array", "[u64;0]", &([] as [u64; 0]), r, f);
    matrix("map", "BTreeMap<u32,Vec<u8>>", &BTreeMap::<u32, Vec<u8>>::new(), r, f);
    matrix("set", "BTreeSet<u64>", &BTreeSet::<u64>::new(), r, f);
    matrix("option", "Option<u32>", &None::<u32>, r, f);
}

fn falsify(seed: u64, n: usize) {
    let mut r = Rng::new(seed ^ 0xC12);
    let r = &mut r;
    let mut f = Fails { n: 0, evals: 0, cells: BTreeMap::new() };
    let f = &mut f;
    let reps = (n / 60).max(3);

    serde_matrix(r, f, reps.min(8));
    for v in usize_boundaries() { rt("usize", &format!("{:#x}", v), &(v as usize), r, f); }
    for _ in 0..reps * 4 { let v = rand_size(r); rt("usize", &format!("{:#x}", v), &(v as usize), r, f); }
    for v in [0u8, 1, 127, 128, 255] { rt("u8", &format!("{}", v), &v, r, f); }
    for v in [0u16, 1, 255, 256, u16::MAX] { rt("u16", &format!("{}", v), &v, r, f); }
    for v in [0u32, 1, 65535, 65536, u32::MAX] { rt("u32", &format!("{}", v), &v, r, f); }
    for v in [0u64, 1, u64::MAX, 1 << 63] { rt("u64", &format!("{}", v), &v, r, f); }
    for v in [0u128, 1, u128::MAX, 1 << 127] { rt("u128", &format!("{}", v), &v, r, f); }
    rt("bool", "true", &Bo(true), r, f); rt("bool", "false", &Bo(false), r, f); rt("unit", "()", &(), r, f);
    for _ in 0..reps {
        let k = *r.pick(&[0usize, 1, 3, 42, 127, 128, 1000]);
        let s = rand_utf8(r, k);
        rt("String", &hex_bytes(s.as_bytes()), &s, r, f);
        let v: Vec<String> = (0..r.below(4)).map(|_| rand_utf8(r, 3)).collect();
        rt("Vec<String>", &format!("{:?}", v), &v, r, f);
        let o: Option<Vec<Option<String>>> = if r.chance(1, 4) { None } else { Some((0..r.below(4)).map(|_| if r.chance(1, 2) { None } else { Some(rand_utf8(r, 2)) }).collect()) };
        rt("Option<Vec<Option<String>>>", &format!("{:?}", o), &o, r, f);
        let m: BTreeMap<String, (u16, Vec<u64>)> = (0..r.below(5)).map(|_| { let (k, j) = (1 + r.below(3) as usize, r.below(3) as usize); (rand_utf8(r, k), (r.next_u64() as u16, vec![r.next_u64(); j])) }).collect();
        rt("BTreeMap<String,(u16,Vec<u64>)>", &format!("{:?}", m), &m, r, f);
        let s: BTreeSet<(u8, u32)> = (0..r.below(6)).map(|_| (r.below(3) as u8, r.below(4) as u32)).collect();
        rt("BTreeSet<(u8,u32)>", &format!("{:?}", s), &s, r, f);
        let a: [Option<u16>; 5] = [None, Some(0), Some(u16::MAX), None, Some(r.next_u64() as u16)];
        rt("[Option<u16>;5]", &format!("{:?}", a), &a, r, f);
        let t6 = (r.next_u64() as u8, r.next_u64() as u16, r.next_u64() as u32, r.next_u64(), r.next_u128(), rand_size(r) as usize);
        rt("(u8,u16,u32,u64,u128,usize)", &format!("{:?}", t6), &t6, r, f);
        let vv: Vec<Vec<Vec<u8>>> = (0..r.below(4)).map(|_| (0..r.below(4)).map(|_| { let n = *r.pick(&[0usize, 1, 127, 128, 300]); r.bytes(n) }).collect()).collect();
        rt("Vec<Vec<Vec<u8>>>", &format!("lens {:?}", vv.iter().map(|x| x.iter().map(|y| y.len()).collect::<Vec<_>>()).collect::<Vec<_>>()), &vv, r, f);
        let e0: [u64; 0] = []; rt("[u64;0]", "[]", &e0, r, f);
        let k = *r.pick(&[16383usize, 16384, 16385, 70000]);
        let big: Vec<u8> = r.bytes(k);
        rt("Vec<u8>", &format!("len {}", big.len()), &big, r, f);
    }
    // byte-wise reads (length prefixes, Vec<u8>, String) immediately followed by fixed-width values, with total
    // offsets straddling the 256-byte block boundary of ReadAdapter's BufReader (whole-buffer sources), and plain
    // sequences of fixed-width values behind a vint64 prefix (short-read sources)
    for n in (240usize..=262).chain(496..=520) {
        let t = (r.bytes(n), r.next_u64());
        rt("(Vec<u8>,u64)", &format!("vec len {} then u64", n), &t, r, f);
    }
    for n in [0usize, 1, 2, 31, 32, 33, 100] {
        let v: Vec<u64> = (0..n).map(|_| r.next_u64()).collect();
        rt("Vec<u64>", &format!("len {}", n), &v, r, f);
        let w: Vec<F64> = (0..n).map(|_| F64::new(f64v(r))).collect();
        rt("Vec<f64>", &format!("len {}", n), &w, r, f);
        let s = rand_utf8(r, n);
        let t = (s, r.next_u128(), r.next_u64() as u16);
        rt("(String,u128,u16)", &format!("{} chars", n), &t, r, f);
        let t = (r.bytes(n + 250), F128::new(f128v(r)), Dg32(D32::read_from_bytes(&r.bytes(32)).unwrap()));
        rt("(Vec<u8>,f128,ByteDigest<32>)", &format!("vec len {}", n + 250), &t, r, f);
    }
    // every internal representation of a residue: zeros and other residues produced by wrap-around arithmetic
    // (f62 keeps elements in [0, 2M) internally: ZERO also exists as the internal word M)
    {
        macro_rules! wrap_vals { ($F:ty, $m:expr, $rv:ident, $name:expr) => {{
            let mut vals: Vec<(String, $F)> = vec![];
            for _ in 0..reps.max(6) {
                let v = $rv(r);
                let v = if v == 0 { 1 } else { v };
                let x = <$F>::new(v);
                vals.push((format!("x+(-x) x={}", v), x + (-x)));
                vals.push((format!("(-x)+x x={}", v), (-x) + x));
                vals.push((format!("new(v)+new(M-v) v={}", v), <$F>::new(v) + <$F>::new($m - v)));
                vals.push((format!("x-x x={}", v), x - x));
                vals.push((format!("x*0 x={}", v), x * <$F>::ZERO));
                vals.push((format!("(x+(-x))*x x={}", v), (x + (-x)) * x));
                vals.push((format!("-(x+(-x)) x={}", v), -(x + (-x))));
                vals.push((format!("(x+(-x)).double x={}", v), (x + (-x)).double()));
                vals.push((format!("x+(-x)+ONE x={}", v), x + (-x) + <$F>::ONE));
                vals.push((format!("new(M-v)+new(v)+new(v) v={}", v), <$F>::new($m - v) + <$F>::new(v) + <$F>::new(v)));
                vals.push((format!("x*x.inv-ONE x={}", v), x * x.inv() - <$F>::ONE));
            }
            vals.push(("new(M-1)+ONE".into(), <$F>::new($m - 1) + <$F>::ONE));
            vals.push(("ONE+new(M-1)".into(), <$F>::ONE + <$F>::new($m - 1)));
            vals.push(("new(M-1)+new(2)".into(), <$F>::new($m - 1) + <$F>::new(2)));
            vals.push(("-ZERO".into(), -<$F>::ZERO));
            vals.push(("ZERO-ZERO".into(), <$F>::ZERO - <$F>::ZERO));
            vals.push(("new(M)".into(), <$F>::new($m)));
            vals.push(("new((M-1)/2)+new((M+1)/2)".into(), <$F>::new(($m - 1) / 2) + <$F>::new(($m + 1) / 2)));
            for (d, e) in vals.iter() {
                rt($name, &format!("wraparound {}", d), e, r, f);
                rt(&format!("Quad<{}>", $name), &format!("wraparound coefficient {}", d), &QuadExtension::new(*e, <$F>::ONE), r, f);
                rt(&format!("Quad<{}>", $name), &format!("wraparound coefficient (second) {}", d), &QuadExtension::new(<$F>::new(3), *e), r, f);
                rt(&format!("Vec<{}>", $name), &format!("wraparound element {}", d), &vec![<$F>::ONE, *e, <$F>::new(5)], r, f);
                rt(&format!("(u8,{},Option<{}>)", $name, $name), &format!("wraparound {}", d), &(7u8, *e, Some(*e)), r, f);
            }
            vals
        }} }
        let v62 = wrap_vals!(F62, M62, f62v, "f62");
        for (d, e) in v62.iter() {
            rt("Cube<f62>", &format!("wraparound coefficient {}", d), &CubeExtension::new(F62::ONE, *e, F62::new(2)), r, f);
            let q = QuadExtension::new(*e, *e);
            rt("Quad<f62>", &format!("wraparound both coefficients, squared {}", d), &(q * q + q), r, f);
        }
        // the rp62_248 digest is made of f62 elements: digests of many inputs (elements come out of the permutation arithmetic)
        for i in 0..40u32 { let dg = <winter_crypto::hashers::Rp62_248 as Hasher>::hash(&i.to_le_bytes()); rt("ElementDigest(rp62_248 hash)", &format!("hash of {}", i), &dg, r, f); }
        let v64 = wrap_vals!(F64, M64, f64v, "f64");
        for (d, e) in v64.iter() {
            rt("Cube<f64>", &format!("wraparound coefficient {}", d), &CubeExtension::new(F64::ONE, *e, F64::new(2)), r, f);
            rt("ElementDigest(rp64_256)", &format!("wraparound limb {}", d), &ED::from([*e, F64::ONE, *e, F64::new(9)]), r, f);
        }
        let _ = wrap_vals!(F128, M128, f128v, "f128");
    }
    // field / extension elements reached through arithmetic (not only through new()), digests
    for _ in 0..reps * 3 {
        let (a, b) = (F64::new(f64v(r)), F64::new(f64v(r)));
        for (d, e) in [("a", a), ("a*b", a * b), ("a+b", a + b), ("a-b", a - b), ("-a", -a), ("a.double", a.double()), ("a.inv", a.inv()), ("a^5", a.exp(5))] { rt("f64", &format!("{} a={} b={}", d, a.as_int(), b.as_int()), &e, r, f); }
        let (a, b) = (F62::new(f62v(r)), F62::new(f62v(r)));
        for (d, e) in [("a", a), ("a*b", a * b), ("a+b", a + b), ("a-b", a - b), ("-a", -a), ("a.inv", a.inv())] { rt("f62", &format!("{} a={} b={}", d, a.as_int(), b.as_int()), &e, r, f); }
        let (a, b) = (F128::new(f128v(r)), F128::new(f128v(r)));
        for (d, e) in [("a", a), ("a*b", a * b), ("a+b", a + b), ("a-b", a - b), ("-a", -a), ("a.inv", a.inv())] { rt("f128", &format!("{} a={} b={}", d, a.as_int(), b.as_int()), &e, r, f); }
        let q = QuadExtension::new(F64::new(f64v(r)), F64::new(f64v(r))); rt("Quad<f64>", &format!("{:?}", q), &(q * q + q), r, f);
        let c = CubeExtension::new(F64::new(f64v(r)), F64::new(f64v(r)), F64::new(f64v(r))); rt("Cube<f64>", &format!("{:?}", c), &(c * c - c), r, f);
        let q = QuadExtension::new(F62::new(f62v(r)), F62::new(f62v(r))); rt("Quad<f62>", &format!("{:?}", q), &(q * q), r, f);
        let c = CubeExtension::new(F62::new(f62v(r)), F62::new(f62v(r)), F62::new(f62v(r))); rt("Cube<f62>", &format!("{:?}", c), &(c * c), r, f);
        let q = QuadExtension::new(F128::new(f128v(r)), F128::new(f128v(r))); rt("Quad<f128>", &format!("{:?}", q), &(q * q), r, f);
        let v: Vec<QuadExtension<F64>> = (0..r.below(5)).map(|_| QuadExtension::new(F64::new(f64v(r)), F64::new(f64v(r)))).collect(); rt("Vec<Quad<f64>>", &format!("{:?}", v), &v, r, f);
        let d = r.bytes(32); rt("ByteDigest<32>", &hex_bytes(&d), &D32::read_from_bytes(&d).unwrap(), r, f);
        let d = r.bytes(24); rt("ByteDigest<24>", &hex_bytes(&d), &D24::read_from_bytes(&d).unwrap(), r, f);
        rt("ByteDigest<32>(hash)", "blake3", &Blake3_256::<F64>::hash(&r.bytes(9)), r, f);
        let e = ED::from([F64::new(f64v(r)), F64::new(f64v(r)) * F64::new(f64v(r)), -F64::new(f64v(r)), F64::new(f64v(r))]); rt("ElementDigest(rp64_256)", &format!("{:?}", e), &e, r, f);
        rt("ElementDigest(rp64_256 hash)", "rp64", &Rp64_256::hash(&r.bytes(11)), r, f);
        let e62 = <winter_crypto::hashers::Rp62_248 as Hasher>::hash(&r.bytes(11)); rt("ElementDigest(rp62_248 hash)", "rp62", &e62, r, f);
        let ej = <winter_crypto::hashers::RpJive64_256 as Hasher>::hash(&r.bytes(11)); rt("ElementDigest(rpjive64_256 hash)", "rpjive", &ej, r, f);
    }
    // ProofOptions: the whole accepted set of the limits that matter
    for nq in [1u64, 2, 127, 128, 254, 255] { for bf in [2u64, 4, 8, 16, 32, 64, 128] { for gf in [0u64, 1, 31, 32] { for fe in 1..=3u64 { for ff in [2u64, 4, 8, 16] { for rd in [0u64, 1, 3, 7, 15, 31, 63, 127, 255] {
        if (nq + bf + gf + fe + ff + rd + r.below(5)) % 5 != 0 && !(nq == 255 || rd == 255 || bf == 128) { continue; }
        let a = [nq, bf, gf, fe, ff, rd];
        match mk_po(&a) { Ok(p) => rt("ProofOptions", &format!("new{:?}", a), &p, r, f), Err(m) => { f.evals += 1; f.fail("constructor-rejected:ProofOptions", &format!("{:?}", a), "accepted", &m) } }
    } } } } } }
    for v in 1..=3 { rt("FieldExtension", &format!("{}", v), &fe_of(v), r, f); }
    // TraceInfo: every accepted boundary
    for a in ti_boundaries().iter().chain((0..reps * 4).map(|_| rand_ti_args(r)).collect::<Vec<_>>().iter()) {
        if let Ok(t) = mk_ti(a) { rt("TraceInfo", &format!("new_multi_segment({}, {}, {}, {}, meta[{}])", a.main, a.aux, a.rands, a.len, a.meta.len()), &t, r, f); }
    }
    for w in [1usize, 2, 127, 128, 254, 255] { for e in [3u32, 4, 31, 32, 62, 63] {
        if let Ok(t) = catch(move || TraceInfo::new(w, 1usize << e)) { rt("TraceInfo", &format!("new({}, 2^{})", w, e), &t, r, f); }
        if let Ok(t) = catch(move || TraceInfo::with_meta(w, 1usize << e, vec![1; 65535])) { rt("TraceInfo", &format!("with_meta({}, 2^{}, meta[65535])", w, e), &t, r, f); }
    } }
    for main in [1usize, 100, 254] { for aux in [0usize, 1, 255 - main] { for rands in [0usize, 1, 255] {
        if let Ok(t) = catch(move || TraceInfo::new_multi_segment(main, aux, rands, 8, vec![])) { rt("TraceInfo", &format!("new_multi_segment({}, {}, {}, 8, [])", main, aux, rands), &t, r, f); }
    } } }
    // Context: three fields x boundary options x boundary trace lengths
    for field in ["f64", "f62", "f128"] { for le in [3u32, 10, 24, 25, 30, 31] { for bf in [2usize, 8, 128] {
        let t = TraceInfo::new_multi_segment(255 - 33, 33, 255, 1 << le, vec![1, 2, 3]);
        let o = ProofOptions::new(255, bf, 32, FieldExtension::Cubic, 16, 255);
        if let Ok(c) = mk_ctx(field, &t, &o) { rt("Context", &format!("{} len=2^{} blowup={}", field, le, bf), &c, r, f); }
    } } }
    // Commitments / Queries / OodFrame / FriProof / Proof
    for n in [1usize, 2, 100, 32767, 32768, 65533, 65534] { let c = mk_com(&r.bytes(n)); rt("Commitments", &format!("{} one-byte digests", n), &c, r, f); }
    { let c = Commitments::new::<Blake3_192<F64>>(vec![Blake3_192::<F64>::hash(b"a"); 2], Blake3_192::<F64>::hash(b"b"), vec![Blake3_192::<F64>::hash(b"c"); 2727]); rt("Commitments", "2730 24-byte digests (65520 bytes)", &c, r, f); }
    rt("Commitments", "default", &Commitments::default(), r, f);
    for (nq, cols, nodes) in [(1usize, 1usize, vec![]), (2, 3, vec![2usize, 1]), (255, 255, vec![255; 8]), (7, 100, vec![0, 0, 3])] { let q = mk_qry_f64(r, nq, cols, &nodes); rt("Queries", &format!("f64 {}x{} nodes {:?}", nq, cols, nodes.len()), &q, r, f); }
    { let q = mk_qry_q128(r, 255, 255); rt("Queries", "quad f128 255x255 (2 MB)", &q, r, f); }
    {
        let mut k = 0u64;
        let mut mk = || { k += 3; F64::new(k) };
        for (w, main, lag, ev) in [(1usize, 1usize, 0usize, 1usize), (255, 255, 0, 8), (255, 200, 33, 64), (30, 10, 5, 2)] { let fr = mk_ood::<F64>(&mut mk, w, main, lag, ev); rt("OodFrame", &format!("f64 width={} lagrange={} evals={}", w, lag, ev), &fr, r, f); }
        let mut j = 0u64;
        let mut mkc = || { j += 1; CubeExtension::new(F64::new(j), F64::new(M64 - j), F64::new(j * j)) };
        let fr = mk_ood::<CubeExtension<F64>>(&mut mkc, 255, 100, 64, 1024); rt("OodFrame", "cubic f64 width=255 lagrange=64 evals=1024", &fr, r, f);
        rt("OodFrame", "default", &OodFrame::default(), r, f);
    }
    rt("FriProof", "dummy", &FriProof::new_dummy(), r, f);
    for (ll, bl, ff, rd, nq) in [(3u32, 2usize, 2usize, 0usize, 1usize), (6, 8, 4, 3, 20), (8, 8, 16, 255, 50), (12, 2, 2, 0, 255), (9, 16, 8, 7, 27), (10, 4, 2, 255, 100)] { let p = mk_fri::<F64>(r, ll, bl, ff, rd, nq); rt("FriProof", &format!("f64 len=2^{} blowup={} folding={} rem={} queries={}", ll, bl, ff, rd, nq), &p, r, f); }
    { let p = mk_fri::<CubeExtension<F64>>(r, 8, 4, 2, 255, 10); rt("FriProof", "cubic f64 maximal remainder", &p, r, f); }
    rt("Proof", "dummy", &Proof::new_dummy(), r, f);
    for i in 0..reps.min(25) { let p = mk_proof(r, i % 3 == 0); rt("Proof", &format!("composed #{} segs={} fri_layers={}", i, p.trace_queries.len(), p.fri_proof.num_layers()), &p, r, f); }

    // constructor-accepted values whose encoding is not decodable: length prefixes narrowed without a check
    {
        let mut fr = OodFrame::default();
        fr.set_constraint_evaluations(&vec![F64::ONE; 8192]); // 65536 bytes: `len as u16` wraps to 0
        rt("OodFrame", "constructor-unbounded: set_constraint_evaluations(8192 f64 elements)", &fr, r, f);
        let c = Commitments::new::<Blake3_192<F64>>(vec![], Blake3_192::<F64>::hash(b"b"), vec![Blake3_192::<F64>::hash(b"c"); 2730]);
        rt("Commitments", "constructor-unbounded: 2731 24-byte digests (65544 bytes)", &c, r, f);
    }
    println!("#cells {{{}}}", f.cells.iter().map(|((t, rd, c), v)| format!("\"{}|{}|{}\":{}", t, rd, c, v)).collect::<Vec<_>>().join(","));
    println!("evaluations={} failures={}", f.evals, f.n);
}

fn main() {
    if std::env::var("C12_VERBOSE").is_err() { silence_panics(); }
    let a: Vec<String> = std::env::args().collect();
    let seed: u64 = a.get(2).and_then(|s| s.parse().ok()).unwrap_or(1);
    let n: usize = a.get(3).and_then(|s| s.parse().ok()).unwrap_or(400);
    std::thread::Builder::new().stack_size(256 << 20).spawn(move || match a.get(1).map(|s| s.as_str()) {
        Some("corr") => corr(seed, n),
        Some("falsify") => falsify(seed, n),
        _ => eprintln!("usage: c12 corr|falsify <seed> <n>"),
    }).unwrap().join().unwrap();
}
