//! C01 harness: completeness of the STARK prover/verifier pair over the parametric AIR family (`wf_harness::airfam`).
//!   c01 corr <seed> <n> <group>      -> lines "<case> => <impl result>"; groups: opts tinfo ctx fri deep deeplag lagshape
//!        (shape-level admissibility: what the real constructors accept / panic on, #composition columns, #FRI layers)
//!   c01 falsify <seed> <n>           -> completeness falsifier: JSON failure records, then "evaluations=<n> failures=<k>"
//!   c01 replay '<json case>'         -> runs one case, prints its outcome (exit 0 always)
//!   c01 probe <seed> <n>             -> (diagnostic) outcome of ill-formed FRI schedules / q >= LDE, never a failure
//!   c01 xfalsify <seed> <n> [reps]   -> the X stream of the coverage round (wrapper family XAir: Lagrange column, aux assertion kinds, traces using the
//!                                       exempt rows; direct Trace::validate cross-check with auxiliary segment); run by checks/c01.py with the DEBUG
//!                                       build (the prover's #[cfg(debug_assertions)] self-checks) and with the release build
//! Oracle of the falsifier: the family's reference validity predicate `is_valid` (independent of the library): valid
//! => prove = Ok, verify = Ok, verify(from_bytes(to_bytes(proof))) = Ok, to_bytes(from_bytes(bytes)) = bytes.
//! `falsify` is built with --release: debug builds run `Trace::validate` and debug-only degree checks, which the degenerate traces trip;
//! `xfalsify` carries its own reference computation of the actual constraint degrees and therefore also runs in the debug profile.
//! `corr ... deep`: the algebraic model (deep_poly / v_deep / segment / ood_lhs of coq/Model/Stark.v over Z/p) against the REAL composer code:
//! prover/src/composer/mod.rs and verifier/src/composer.rs are compiled into this binary straight from /repo (#[path]), so the
//! comparison follows the working tree on every run without any hook in /repo.
extern crate alloc;
extern crate winter_air as air;
extern crate winter_math as math;
extern crate winter_utils as utils;
mod prover_src {
    pub use winter_prover::{StarkDomain, TracePolyTable};
    pub mod constraints { pub use winter_prover::CompositionPoly; }
    #[allow(dead_code, unused_imports)]
    #[path = "/repo/prover/src/composer/mod.rs"]
    pub mod composer;
}
mod verifier_src {
    #[allow(dead_code, unused_imports)]
    #[path = "/repo/verifier/src/composer.rs"]
    pub mod composer;
}
use std::panic::AssertUnwindSafe;

use wf_harness::{airfam::*, catch, jstr, prng::Rng, silence_panics, toy::ToyHasher};
use winter_air::{proof::Proof, Air, AirContext, Assertion, AuxRandElements, ConstraintCompositionCoefficients, EvaluationFrame, FieldExtension, GkrVerifier,
    LagrangeKernelRandElements, ProofOptions, TraceInfo, TransitionConstraintDegree};
use winter_crypto::{
    hashers::{Blake3_192, Blake3_256, Rp62_248, Rp64_256, RpJive64_256, Sha3_256},
    DefaultRandomCoin, ElementHasher, RandomCoin,
};
use winter_fri::FriOptions;
use winter_math::{fields::{f128, f62, f64}, ExtensibleField, ExtensionOf, FieldElement, StarkField};
use winter_prover::{matrix::ColMatrix, DefaultConstraintEvaluator, DefaultTraceLde, Prover, ProverGkrProof, StarkDomain, Trace, TracePolyTable};
use winter_verifier::{verify, AcceptableOptions};

// ------------------------------------------------------------------------------------------------ cases
#[derive(Clone, Debug, PartialEq, Eq)]
struct Opts { q: usize, blowup: usize, grind: u32, ext: u8, fold: usize, rem: usize }

#[derive(Clone, Debug, PartialEq, Eq)]
struct Case { field: String, hasher: String, opts: Opts, spec: Spec, lag: usize,   // lag > 0: the Lagrange-kernel family with `lag` auxiliary columns (spec: only log_n is used)
              x: Option<X> }   // Some: the X wrapper family of the coverage round (see the section "X family")

/// Knobs of the X wrapper family (coverage round): the airfam member `spec` with, additionally,
///  lagx: a Lagrange-kernel column appended to the auxiliary segment (needs spec.aux_width >= 1);
///  rows: 0 = the trace of gen_main as is; 1 = every cell of the main rows n-e+1..n-1 (the rows that only take part in EXEMPT
///        transitions) that is not under a periodic assertion is overwritten with a random value; 2 = the same for the auxiliary
///        columns (except asserted cells and the Lagrange column);
///  aux:  0 = only the family's own auxiliary assertions (single, first step); 1 = a SEQUENCE assertion on auxiliary column 1 at the
///        steps first + i*stride (first >= 1), values r_1 * (prefix sums of main column 1 % w, published); 2 = one more auxiliary column
///        holding r_0 + 1 (constraint next = cur) with a PERIODIC assertion at first + i*stride
#[derive(Clone, Copy, Debug, PartialEq, Eq)]
struct X { lagx: bool, rows: u8, aux: u8, first: usize, stride: usize }

fn ext_of(e: u8) -> FieldExtension { match e { 1 => FieldExtension::None, 2 => FieldExtension::Quadratic, _ => FieldExtension::Cubic } }

fn arr<T: std::fmt::Display>(v: &[T]) -> String { format!("[{}]", v.iter().map(|x| x.to_string()).collect::<Vec<_>>().join(",")) }
fn barr(v: &[bool]) -> String { arr(&v.iter().map(|&b| b as u8).collect::<Vec<_>>()) }

fn case_json(c: &Case) -> String {
    let s = &c.spec;
    let asr: Vec<String> = s.assertions.iter().map(|a| match a {
        AKind::Single { col, step } => format!("[0,{},{},0]", col, step),
        AKind::Periodic { col, first, stride } => format!("[1,{},{},{}]", col, first, stride),
        AKind::Sequence { col, first, stride } => format!("[2,{},{},{}]", col, first, stride),
    }).collect();
    let xs = match &c.x { Some(x) => format!("\"x\":[{},{},{},{},{}],", x.lagx as u8, x.rows, x.aux, x.first, x.stride), None => String::new() };
    format!("{{{}\"lag\":{},\"field\":{},\"hasher\":{},\"opts\":{{\"q\":{},\"blowup\":{},\"grind\":{},\"ext\":{},\"fold\":{},\"rem\":{}}},\"spec\":{{\"width\":{},\"log_n\":{},\"degs\":{},\"periodic\":{},\"use_per\":{},\"hold\":{},\"exemptions\":{},\"assertions\":[{}],\"aux_width\":{},\"aux_rands\":{},\"aux_assert_last\":{},\"seed\":{},\"constant_trace\":{},\"rot\":{}}}}}",
        xs, c.lag, jstr(&c.field), jstr(&c.hasher), c.opts.q, c.opts.blowup, c.opts.grind, c.opts.ext, c.opts.fold, c.opts.rem,
        s.width, s.log_n, arr(&s.degs), arr(&s.periodic), barr(&s.use_per), barr(&s.hold), s.exemptions, asr.join(","),
        s.aux_width, s.aux_rands, s.aux_assert_last as u8, s.seed, s.constant_trace as u8, arr(&s.rot))
}

// minimal JSON reader (objects, arrays, unsigned integers, strings without escapes beyond \" \\)
#[derive(Clone, Debug)]
enum J { N(u64), S(String), A(Vec<J>), O(Vec<(String, J)>) }
impl J {
    fn get_opt(&self, k: &str) -> Option<&J> { match self { J::O(v) => v.iter().find(|(a, _)| a == k).map(|(_, b)| b), _ => None } }
    fn get(&self, k: &str) -> &J { match self { J::O(v) => v.iter().find(|(a, _)| a == k).map(|(_, b)| b).unwrap_or_else(|| panic!("missing key {}", k)), _ => panic!("not an object") } }
    fn n(&self) -> u64 { match self { J::N(x) => *x, _ => panic!("not a number") } }
    fn s(&self) -> String { match self { J::S(x) => x.clone(), _ => panic!("not a string") } }
    fn a(&self) -> &Vec<J> { match self { J::A(x) => x, _ => panic!("not an array") } }
}
struct P<'a> { b: &'a [u8], i: usize }
impl<'a> P<'a> {
    fn ws(&mut self) { while self.i < self.b.len() && (self.b[self.i] as char).is_whitespace() { self.i += 1; } }
    fn val(&mut self) -> J {
        self.ws();
        match self.b[self.i] {
            b'{' => { self.i += 1; let mut v = vec![]; loop { self.ws(); if self.b[self.i] == b'}' { self.i += 1; break; } if self.b[self.i] == b',' { self.i += 1; continue; }
                        let k = match self.val() { J::S(s) => s, _ => panic!("key") }; self.ws(); assert_eq!(self.b[self.i], b':'); self.i += 1; let x = self.val(); v.push((k, x)); } J::O(v) }
            b'[' => { self.i += 1; let mut v = vec![]; loop { self.ws(); if self.b[self.i] == b']' { self.i += 1; break; } if self.b[self.i] == b',' { self.i += 1; continue; } v.push(self.val()); } J::A(v) }
            b'"' => { self.i += 1; let mut s = String::new(); while self.b[self.i] != b'"' { if self.b[self.i] == b'\\' { self.i += 1; } s.push(self.b[self.i] as char); self.i += 1; } self.i += 1; J::S(s) }
            b't' => { self.i += 4; J::N(1) }
            b'f' => { self.i += 5; J::N(0) }
            _ => { let st = self.i; while self.i < self.b.len() && self.b[self.i].is_ascii_digit() { self.i += 1; } J::N(std::str::from_utf8(&self.b[st..self.i]).unwrap().parse().expect("number")) }
        }
    }
}
fn case_of_json(txt: &str) -> Case {
    let j = P { b: txt.as_bytes(), i: 0 }.val();
    let (o, s) = (j.get("opts"), j.get("spec"));
    let us = |x: &J| x.a().iter().map(|v| v.n() as usize).collect::<Vec<_>>();
    let bs = |x: &J| x.a().iter().map(|v| v.n() != 0).collect::<Vec<_>>();
    let assertions = s.get("assertions").a().iter().map(|a| { let t = us(a); match t[0] { 0 => AKind::Single { col: t[1], step: t[2] }, 1 => AKind::Periodic { col: t[1], first: t[2], stride: t[3] }, _ => AKind::Sequence { col: t[1], first: t[2], stride: t[3] } } }).collect();
    let x = j.get_opt("x").map(|v| { let t = us(v); X { lagx: t[0] != 0, rows: t[1] as u8, aux: t[2] as u8, first: t[3], stride: t[4] } });
    Case { x, lag: j.get_opt("lag").map(|x| x.n() as usize).unwrap_or(0), field: j.get("field").s(), hasher: j.get("hasher").s(),
        opts: Opts { q: o.get("q").n() as usize, blowup: o.get("blowup").n() as usize, grind: o.get("grind").n() as u32, ext: o.get("ext").n() as u8, fold: o.get("fold").n() as usize, rem: o.get("rem").n() as usize },
        spec: Spec { width: s.get("width").n() as usize, log_n: s.get("log_n").n() as u32, degs: us(s.get("degs")).iter().map(|&x| x as u32).collect(), periodic: us(s.get("periodic")),
            use_per: bs(s.get("use_per")), hold: bs(s.get("hold")), exemptions: s.get("exemptions").n() as usize, assertions, aux_width: s.get("aux_width").n() as usize,
            aux_rands: s.get("aux_rands").n() as usize, aux_assert_last: s.get("aux_assert_last").n() != 0, seed: s.get("seed").n(), constant_trace: s.get("constant_trace").n() != 0,
            rot: s.get_opt("rot").map(|x| us(x).iter().map(|&x| x as u32).collect()).unwrap_or_default() } }
}

// ------------------------------------------------------------------------------------------------ one run
fn clip(s: &str) -> String { let t: String = s.chars().map(|c| if c == '\n' { ' ' } else { c }).collect(); if t.len() > 160 { t[..160].to_string() } else { t } }

/// "ok" | "invalid-trace" | "prove-err:…" | "prove-panic:…" | "verify-err:…" | "verify-panic:…" | "reparse-err:…" | "reparse-panic:…" |
/// "reverify-err:…" | "reverify-panic:…" | "rebytes-differ"
fn run_one<B, H>(spec: &Spec, opts: &ProofOptions) -> String
where B: StarkField + ExtensibleField<2> + ExtensibleField<3> + 'static, H: ElementHasher<BaseField = B> + Send + Sync {
    let cols = gen_main::<B>(spec);
    let avals = assertion_values(spec, &cols);
    if !is_valid(spec, &cols, &avals) { return "invalid-trace".into(); }
    let trace = FamTrace::new(spec, cols);
    let prover = FamProver::<B, H, DefaultRandomCoin<H>>::new(opts.clone());
    let pi = prover.get_pub_inputs(&trace);
    let proof = match catch(AssertUnwindSafe(|| prover.prove(trace))) { Ok(Ok(p)) => p, Ok(Err(e)) => return format!("prove-err:{}", clip(&e.to_string())), Err(m) => return format!("prove-panic:{}", clip(&m)) };
    let bytes = proof.to_bytes();
    let acc = AcceptableOptions::OptionSet(vec![opts.clone()]);
    match catch(AssertUnwindSafe(|| verify::<FamAir<B>, H, DefaultRandomCoin<H>>(proof, pi.clone(), &acc))) {
        Ok(Ok(())) => {}, Ok(Err(e)) => return format!("verify-err:{}", clip(&e.to_string())), Err(m) => return format!("verify-panic:{}", clip(&m)) }
    let p2 = match catch(AssertUnwindSafe(|| Proof::from_bytes(&bytes))) { Ok(Ok(p)) => p, Ok(Err(e)) => return format!("reparse-err:{}", clip(&e.to_string())), Err(m) => return format!("reparse-panic:{}", clip(&m)) };
    if p2.to_bytes() != bytes { return "rebytes-differ".into(); }
    match catch(AssertUnwindSafe(|| verify::<FamAir<B>, H, DefaultRandomCoin<H>>(p2, pi, &acc))) {
        Ok(Ok(())) => {}, Ok(Err(e)) => return format!("reverify-err:{}", clip(&e.to_string())), Err(m) => return format!("reverify-panic:{}", clip(&m)) }
    "ok".into()
}


// ------------------------------------------------------------------------------------------------ Lagrange-kernel family
// main: one column 0,1,2,.. (next = cur + 1, col0[0] = 0); aux: `w - 1` columns (sum r_i) * main and the Lagrange kernel column
// (last), built from log2(n) random elements drawn by a dummy GKR step — the generic-field version of winterfell/src/tests.rs.
#[derive(Debug, Clone, Default)]
pub struct LagGkrVerifier;
impl GkrVerifier for LagGkrVerifier {
    type GkrProof = usize;
    type Error = String;
    fn verify<E, Hh>(&self, gkr_proof: usize, public_coin: &mut impl RandomCoin<BaseField = E::BaseField, Hasher = Hh>) -> Result<LagrangeKernelRandElements<E>, String>
    where E: FieldElement, Hh: ElementHasher<BaseField = E::BaseField> {
        if gkr_proof > 64 { return Err("bad gkr proof".into()); }
        let mut v = Vec::with_capacity(gkr_proof);
        for _ in 0..gkr_proof { v.push(public_coin.draw().map_err(|e| e.to_string())?); }
        Ok(LagrangeKernelRandElements::new(v))
    }
}
pub struct LagAir<B: StarkField> { ctx: AirContext<B> }
impl<B: StarkField + ExtensibleField<2> + ExtensibleField<3>> Air for LagAir<B> {
    type BaseField = B;
    type PublicInputs = ();
    type GkrProof = usize;
    type GkrVerifier = LagGkrVerifier;
    fn new(trace_info: TraceInfo, _pi: (), options: ProofOptions) -> Self {
        let aw = trace_info.aux_segment_width();
        LagAir { ctx: AirContext::new_multi_segment(trace_info, vec![TransitionConstraintDegree::new(1)], vec![TransitionConstraintDegree::new(1)], 1, 1, Some(aw - 1), options) }
    }
    fn context(&self) -> &AirContext<B> { &self.ctx }
    fn evaluate_transition<E: FieldElement<BaseField = B>>(&self, frame: &EvaluationFrame<E>, _p: &[E], result: &mut [E]) { result[0] = frame.next()[0] - frame.current()[0] - E::ONE; }
    fn get_assertions(&self) -> Vec<Assertion<B>> { vec![Assertion::single(0, 0, B::ZERO)] }
    fn evaluate_aux_transition<F, E>(&self, _m: &EvaluationFrame<F>, _a: &EvaluationFrame<E>, _p: &[F], _r: &[E], _result: &mut [E])
    where F: FieldElement<BaseField = B>, E: FieldElement<BaseField = B> + ExtensionOf<F> {}
    fn get_aux_assertions<E: FieldElement<BaseField = B>>(&self, _r: &[E]) -> Vec<Assertion<E>> { vec![Assertion::single(0, 0, E::ZERO)] }
    fn get_auxiliary_proof_verifier<E: FieldElement<BaseField = B>>(&self) -> LagGkrVerifier { LagGkrVerifier }
}
pub struct LagTrace<B: StarkField> { main: ColMatrix<B>, info: TraceInfo }
impl<B: StarkField> Trace for LagTrace<B> {
    type BaseField = B;
    fn info(&self) -> &TraceInfo { &self.info }
    fn main_segment(&self) -> &ColMatrix<B> { &self.main }
    fn read_main_frame(&self, row_idx: usize, frame: &mut EvaluationFrame<B>) {
        let next = (row_idx + 1) % self.main.num_rows();
        self.main.read_row_into(row_idx, frame.current_mut());
        self.main.read_row_into(next, frame.next_mut());
    }
}
pub struct LagProver<B: StarkField, H> { options: ProofOptions, aw: usize, _p: std::marker::PhantomData<(B, H)> }
impl<B, H> Prover for LagProver<B, H>
where B: StarkField + ExtensibleField<2> + ExtensibleField<3> + 'static, H: ElementHasher<BaseField = B> + Send + Sync {
    type BaseField = B;
    type Air = LagAir<B>;
    type Trace = LagTrace<B>;
    type HashFn = H;
    type RandomCoin = DefaultRandomCoin<H>;
    type TraceLde<E: FieldElement<BaseField = B>> = DefaultTraceLde<E, H>;
    type ConstraintEvaluator<'a, E: FieldElement<BaseField = B>> = DefaultConstraintEvaluator<'a, LagAir<B>, E>;
    fn get_pub_inputs(&self, _t: &LagTrace<B>) {}
    fn options(&self) -> &ProofOptions { &self.options }
    fn new_trace_lde<E: FieldElement<BaseField = B>>(&self, trace_info: &TraceInfo, main_trace: &ColMatrix<B>, domain: &StarkDomain<B>) -> (Self::TraceLde<E>, TracePolyTable<E>) { DefaultTraceLde::new(trace_info, main_trace, domain) }
    fn new_evaluator<'a, E: FieldElement<BaseField = B>>(&self, air: &'a LagAir<B>, aux: Option<AuxRandElements<E>>, cc: ConstraintCompositionCoefficients<E>) -> Self::ConstraintEvaluator<'a, E> { DefaultConstraintEvaluator::new(air, aux, cc) }
    fn generate_gkr_proof<E: FieldElement<BaseField = B>>(&self, main_trace: &LagTrace<B>, public_coin: &mut Self::RandomCoin) -> (ProverGkrProof<Self>, LagrangeKernelRandElements<E>) {
        let k = main_trace.main.num_rows().ilog2() as usize;
        let v: Vec<E> = (0..k).map(|_| public_coin.draw().unwrap()).collect();
        (k, LagrangeKernelRandElements::new(v))
    }
    fn build_aux_trace<E: FieldElement<BaseField = B>>(&self, main_trace: &LagTrace<B>, aux: &AuxRandElements<E>) -> ColMatrix<E> {
        let main = main_trace.main_segment();
        let r = aux.lagrange().expect("lagrange random elements");
        let sum = r.iter().fold(E::ZERO, |a, &x| a + x) + aux.rand_elements().iter().fold(E::ZERO, |a, &x| a + x);
        let mut cols: Vec<Vec<E>> = (1..self.aw).map(|_| main.get_column(0).iter().map(|v| sum.mul_base(*v)).collect()).collect();
        let n = main.num_rows();
        cols.push((0..n).map(|row| r.iter().enumerate().fold(E::ONE, |acc, (bit, &ri)| if row & (1 << bit) == 0 { acc * (E::ONE - ri) } else { acc * ri })).collect());
        ColMatrix::new(cols)
    }
}

fn run_lag<B, H>(log_n: u32, aw: usize, opts: &ProofOptions) -> String
where B: StarkField + ExtensibleField<2> + ExtensibleField<3> + 'static, H: ElementHasher<BaseField = B> + Send + Sync {
    let n = 1usize << log_n;
    let col: Vec<B> = (0..n).map(|i| B::from(i as u32)).collect();
    // reference validity (independent of the library): increments by one from zero
    if col[0] != B::ZERO || (0..n - 1).any(|i| col[i + 1] != col[i] + B::ONE) { return "invalid-trace".into(); }
    // number of ordinary auxiliary random elements: 0, 1 or 2 depending on the width, so that both the GKR draw and the
    // ordinary aux-randomness draw happen (their order matters to the transcript: seeded change C04-m2)
    let nr = aw % 3;
    let info = match catch(move || TraceInfo::new_multi_segment(1, aw, nr, n, vec![])) { Ok(i) => i, Err(_) => return "inadmissible".into() };
    let trace = LagTrace { main: ColMatrix::new(vec![col]), info };
    let prover = LagProver::<B, H> { options: opts.clone(), aw, _p: std::marker::PhantomData };
    finish_run::<LagAir<B>, H, _>(catch(AssertUnwindSafe(|| prover.prove(trace))), (), opts)
}

fn finish_run<A, H, Er: std::fmt::Display>(res: Result<Result<Proof, Er>, String>, pi: A::PublicInputs, opts: &ProofOptions) -> String
where A: Air, A::PublicInputs: Clone, H: ElementHasher<BaseField = A::BaseField> {
    let proof = match res { Ok(Ok(p)) => p, Ok(Err(e)) => return format!("prove-err:{}", clip(&e.to_string())), Err(m) => return format!("prove-panic:{}", clip(&m)) };
    let bytes = proof.to_bytes();
    let acc = AcceptableOptions::OptionSet(vec![opts.clone()]);
    match catch(AssertUnwindSafe(|| verify::<A, H, DefaultRandomCoin<H>>(proof, pi.clone(), &acc))) {
        Ok(Ok(())) => {}, Ok(Err(e)) => return format!("verify-err:{}", clip(&e.to_string())), Err(m) => return format!("verify-panic:{}", clip(&m)) }
    let p2 = match catch(AssertUnwindSafe(|| Proof::from_bytes(&bytes))) { Ok(Ok(p)) => p, Ok(Err(e)) => return format!("reparse-err:{}", clip(&e.to_string())), Err(m) => return format!("reparse-panic:{}", clip(&m)) };
    if p2.to_bytes() != bytes { return "rebytes-differ".into(); }
    match catch(AssertUnwindSafe(|| verify::<A, H, DefaultRandomCoin<H>>(p2, pi, &acc))) {
        Ok(Ok(())) => {}, Ok(Err(e)) => return format!("reverify-err:{}", clip(&e.to_string())), Err(m) => return format!("reverify-panic:{}", clip(&m)) }
    "ok".into()
}

// ------------------------------------------------------------------------------------------------ X family (coverage round)
// A wrapper around the shared AIR family (airfam is not modified): the same main / auxiliary transition functions and
// assertions (delegated to FamAir), plus the knobs of `X`: a Lagrange-kernel column after the family's auxiliary columns,
// sequence / periodic assertions on auxiliary columns, and traces that USE the rows which only take part in exempt transitions
// (main and auxiliary).  With it comes a reference computation, independent of the library's debug code, of
//   * validity of the auxiliary segment (`x_aux_valid`), and
//   * whether every transition constraint attains exactly its declared degree on the trace at hand (`x_main_exact`, `x_aux_exact`)
//     and whether the constraint evaluation domain is then the smallest possible one (`x_domain_ok`): exactly what the prover's
//     debug-only `validate_transition_degrees` asserts.
#[derive(Clone, Debug, Default)]
struct XLog { main_exact: bool, domain_ok: bool, used: usize, aux_exact: Option<bool>, aux_valid: Option<bool>, aux_used: usize }
thread_local! { static XLOG: std::cell::RefCell<XLog> = std::cell::RefCell::new(XLog::default()); }
fn xlog() -> XLog { XLOG.with(|l| l.borrow().clone()) }

fn x_extra_cols(x: &X) -> usize { (x.aux == 2) as usize + x.lagx as usize }
fn x_aux_total(spec: &Spec, x: &X) -> usize { if spec.aux_width == 0 { 0 } else { spec.aux_width + x_extra_cols(x) } }
fn x_steps(x: &X, n: usize) -> Vec<usize> { (0..n / x.stride.max(1)).map(|i| x.first + i * x.stride).collect() }
fn x_info(spec: &Spec, x: &X) -> TraceInfo {
    if spec.aux_width > 0 { TraceInfo::new_multi_segment(spec.width, x_aux_total(spec, x), spec.aux_rands, spec.n(), vec![]) } else { TraceInfo::new(spec.width, spec.n()) }
}
/// the random element the family uses for auxiliary column i (mirror of airfam: cyclic, ONE when there is none)
fn x_rand<E: FieldElement>(rands: &[E], i: usize) -> E { if rands.is_empty() { E::ONE } else { rands[i % rands.len()] } }
/// is the cell (col,row) of the auxiliary segment (without the Lagrange column) under an assertion?
fn x_aux_asserted(spec: &Spec, x: &X, col: usize, row: usize) -> bool {
    let n = spec.n();
    (row == 0 && col < spec.aux_width) || (spec.aux_assert_last && col == 0 && row == n - 1)
        || (x.aux == 1 && col == 1 && row >= x.first && (row - x.first) % x.stride == 0)
        || (x.aux == 2 && col == spec.aux_width && row % x.stride == x.first)
}
/// prefix sums of main column 1 % w at the steps of the auxiliary sequence assertion (published: the verifier needs them)
fn x_seq_vals<B: StarkField>(spec: &Spec, x: &X, cols: &[Vec<B>]) -> Vec<B> {
    if x.aux != 1 { return vec![]; }
    let c = &cols[1 % spec.width];
    x_steps(x, spec.n()).iter().map(|&s| c[..s].iter().fold(B::ZERO, |a, &v| a + v)).collect()
}

#[derive(Clone, Debug)]
pub struct XPub<B: StarkField> { fam: PubInputs<B>, x: X, seq: Vec<B> }
impl<B: StarkField> winter_math::ToElements<B> for XPub<B> {
    fn to_elements(&self) -> Vec<B> {
        let mut v = winter_math::ToElements::to_elements(&self.fam);
        v.extend([self.x.lagx as u32, self.x.aux as u32, self.x.first as u32, self.x.stride as u32, self.seq.len() as u32].map(B::from));
        v.extend(self.seq.iter().copied());
        v
    }
}

pub struct XAir<B: StarkField + ExtensibleField<2> + ExtensibleField<3>> { ctx: AirContext<B>, inner: FamAir<B>, x: X, seq: Vec<B> }
impl<B: StarkField + ExtensibleField<2> + ExtensibleField<3>> Air for XAir<B> {
    type BaseField = B;
    type PublicInputs = XPub<B>;
    type GkrProof = usize;
    type GkrVerifier = LagGkrVerifier;
    fn new(trace_info: TraceInfo, pi: XPub<B>, options: ProofOptions) -> Self {
        let spec = pi.fam.spec.clone();
        let x = pi.x;
        // the wrapped member sees the trace shape it was written for (its own auxiliary columns only)
        let inner_info = if spec.aux_width > 0 { TraceInfo::new_multi_segment(spec.width, spec.aux_width, spec.aux_rands, spec.n(), vec![]) } else { TraceInfo::new(spec.width, spec.n()) };
        let inner = FamAir::<B>::new(inner_info, pi.fam.clone(), options.clone());
        let (main_deg, mut aux_deg) = degrees_of(&spec).expect("degrees");
        if x.aux == 2 { aux_deg.push(TransitionConstraintDegree::new(1)); }
        let ctx = if spec.aux_width > 0 {
            let naa = spec.aux_width + spec.aux_assert_last as usize + (x.aux != 0) as usize;
            let lag = if x.lagx { Some(x_aux_total(&spec, &x) - 1) } else { None };
            AirContext::new_multi_segment(trace_info, main_deg, aux_deg, spec.assertions.len(), naa, lag, options)
        } else { AirContext::new(trace_info, main_deg, spec.assertions.len(), options) };
        XAir { ctx: ctx.set_num_transition_exemptions(spec.exemptions), inner, x, seq: pi.seq }
    }
    fn context(&self) -> &AirContext<B> { &self.ctx }
    fn evaluate_transition<E: FieldElement<BaseField = B>>(&self, frame: &EvaluationFrame<E>, p: &[E], result: &mut [E]) { self.inner.evaluate_transition(frame, p, result) }
    fn get_assertions(&self) -> Vec<Assertion<B>> { self.inner.get_assertions() }
    fn get_periodic_column_values(&self) -> Vec<Vec<B>> { self.inner.get_periodic_column_values() }
    fn evaluate_aux_transition<F, E>(&self, m: &EvaluationFrame<F>, a: &EvaluationFrame<E>, p: &[F], r: &[E], result: &mut [E])
    where F: FieldElement<BaseField = B>, E: FieldElement<BaseField = B> + ExtensionOf<F> {
        self.inner.evaluate_aux_transition(m, a, p, r, result);
        if self.x.aux == 2 { let h = self.inner.spec.aux_width; result[h] = a.next()[h] - a.current()[h]; }
    }
    fn get_aux_assertions<E: FieldElement<BaseField = B>>(&self, r: &[E]) -> Vec<Assertion<E>> {
        let mut v = self.inner.get_aux_assertions(r);
        match self.x.aux {
            1 => v.push(Assertion::sequence(1, self.x.first, self.x.stride, self.seq.iter().map(|&s| x_rand(r, 1).mul_base(s)).collect())),
            2 => v.push(Assertion::periodic(self.inner.spec.aux_width, self.x.first, self.x.stride, x_rand(r, 0) + E::ONE)),
            _ => {}
        }
        v
    }
    fn get_auxiliary_proof_verifier<E: FieldElement<BaseField = B>>(&self) -> LagGkrVerifier { LagGkrVerifier }
}

pub struct XTrace<B: StarkField> { info: TraceInfo, main: ColMatrix<B>, spec: Spec, x: X }
impl<B: StarkField> XTrace<B> {
    fn new(spec: &Spec, x: &X, cols: Vec<Vec<B>>) -> Self { XTrace { info: x_info(spec, x), main: ColMatrix::new(cols), spec: spec.clone(), x: *x } }
    fn cols(&self) -> Vec<Vec<B>> { (0..self.spec.width).map(|c| self.main.get_column(c).to_vec()).collect() }
}
impl<B: StarkField> Trace for XTrace<B> {
    type BaseField = B;
    fn info(&self) -> &TraceInfo { &self.info }
    fn main_segment(&self) -> &ColMatrix<B> { &self.main }
    fn read_main_frame(&self, row_idx: usize, frame: &mut EvaluationFrame<B>) {
        let next = (row_idx + 1) % self.main.num_rows();
        self.main.read_row_into(row_idx, frame.current_mut());
        self.main.read_row_into(next, frame.next_mut());
    }
}

/// the Lagrange kernel column for the given random elements (as in winterfell/src/tests.rs)
fn lagrange_col<E: FieldElement>(r: &[E], n: usize) -> Vec<E> {
    (0..n).map(|row| r.iter().enumerate().fold(E::ONE, |acc, (bit, &ri)| if row & (1 << bit) == 0 { acc * (E::ONE - ri) } else { acc * ri })).collect()
}

/// the auxiliary segment of the X family: the family's honest columns (gen_aux), the optional periodic-assertion column, the
/// optional use of the exempt rows, the optional Lagrange column
fn x_build_aux<B: StarkField, E: FieldElement<BaseField = B>>(spec: &Spec, x: &X, main: &ColMatrix<B>, rands: &[E], lag: Option<&[E]>) -> Vec<Vec<E>> {
    let (n, e) = (spec.n(), spec.exemptions);
    let mut cols = gen_aux::<B, E>(spec, main, rands);
    if x.aux == 2 { cols.push(vec![x_rand(rands, 0) + E::ONE; n]); }
    if x.rows >= 2 && e >= 2 {
        let mut r = Rng::new(spec.seed ^ 0xA0A0_5EED);
        for row in n - e + 1..n { for c in 0..cols.len() {
            if !x_aux_asserted(spec, x, c, row) { cols[c][row] = x_rand(rands, c).mul_base(B::from(r.next_u64() as u32)) + E::from(B::from(r.next_u64() as u32)); }
        } }
    }
    if let Some(l) = lag { cols.push(lagrange_col(l, n)); }
    cols
}

/// sum_i col[i] * g^i: n times the coefficient of x^(n-1) of the polynomial interpolating `col` over the trace domain <g>
/// (inverse DFT written out; g^(-(n-1)) = g)
fn top_coeff<B: StarkField, E: FieldElement<BaseField = B>>(col: &[E], g: B) -> E {
    let (mut acc, mut p) = (E::ZERO, B::ONE);
    for &v in col { acc += v.mul_base(p); p *= g; }
    acc
}

/// Reference: does every MAIN transition constraint attain exactly its declared degree on this trace?  Returns also the number of
/// exempt steps n-e..n-2 at which the transition relation is violated.  The family's small constants k_c are re-derived here (they
/// are private to airfam); `consistent` = the re-derived relation vanishes on all non-exempt steps (it must: the trace passed is_valid).
fn x_main_exact<B: StarkField>(spec: &Spec, cols: &[Vec<B>]) -> (bool, usize, bool) {
    let (n, e, w) = (spec.n(), spec.exemptions, spec.width);
    let g = B::get_root_of_unity(spec.log_n);
    let pers = spec.periodic_values::<B>();
    let ks: Vec<B> = { let mut r = Rng::new(spec.seed ^ 0xABCD); (0..w).map(|_| B::from((r.below(5) + 1) as u32)).collect() };
    // values of every constraint polynomial on the trace domain
    let mut cv = vec![vec![B::ZERO; n]; w];
    for i in 0..n {
        let cur: Vec<B> = (0..w).map(|c| cols[c][i]).collect();
        let nxt = step_main(spec, &cur, i, &pers, &ks);
        for c in 0..w { cv[c][i] = cols[c][(i + 1) % n] - nxt[c]; }
    }
    let consistent = (0..n - e).all(|i| (0..w).all(|c| cv[c][i] == B::ZERO));
    let used = (n - e..n - 1).filter(|&i| (0..w).any(|c| cv[c][i] != B::ZERO)).count();
    let mut exact = true;
    for c in 0..w {
        let linear = spec.hold[c] || spec.rot_of(c) > 0 || (spec.degs[c] == 1 && spec.per_index(c).is_none());
        if linear {
            // the constraint polynomial has degree <= n-1, so it IS the interpolant of its values on the trace domain; declared degree 1:
            // expected quotient degree (n-1) - (n-e) = e-1; for e = 1 a constant (degree_of(0) = 0 too)
            if e >= 2 && top_coeff::<B, B>(&cv[c], g) == B::ZERO { exact = false; }
        } else {
            // leading term T_c(x)^d * (1 + P(x^(n/cyc))): degree d(n-1) + (n/cyc)(cyc-1) iff both leading coefficients are non-zero
            if top_coeff::<B, B>(&cols[c], g) == B::ZERO { exact = false; }
            if let Some(i) = spec.per_index(c) { let cyc = pers[i].len(); let h = g.exp(((n / cyc) as u64).into()); if top_coeff::<B, B>(&pers[i], h) == B::ZERO { exact = false; } }
        }
    }
    (exact, used, consistent)
}

/// Reference: validity of the auxiliary segment (transition relation on the non-exempt steps, all auxiliary assertions) and degree
/// exactness of the auxiliary constraints; `aux` without the Lagrange column.
fn x_aux_check<B: StarkField, E: FieldElement<BaseField = B>>(spec: &Spec, x: &X, main: &[Vec<B>], aux: &[Vec<E>], rands: &[E], seq: &[B]) -> (bool, bool, usize) {
    let (n, e, w, aw) = (spec.n(), spec.exemptions, spec.width, spec.aux_width);
    let g = B::get_root_of_unity(spec.log_n);
    let mut cv = vec![vec![E::ZERO; n]; aux.len()];
    for i in 0..n {
        let nx = (i + 1) % n;
        cv[0][i] = aux[0][nx] - aux[0][i] * (E::from(main[0][i]) + x_rand(rands, 0));
        for j in 1..aw { cv[j][i] = aux[j][nx] - (aux[j][i] + x_rand(rands, j).mul_base(main[j % w][i])); }
        if x.aux == 2 { cv[aw][i] = aux[aw][nx] - aux[aw][i]; }
    }
    let mut valid = (0..n - e).all(|i| cv.iter().all(|c| c[i] == E::ZERO));
    valid &= aux[0][0] == E::ONE && (1..aw).all(|j| aux[j][0] == E::ZERO);
    if spec.aux_assert_last { valid &= aux[0][n - 1] == aux_last_value(rands); }
    if x.aux == 1 { valid &= x_steps(x, n).iter().zip(seq).all(|(&s, &v)| aux[1][s] == x_rand(rands, 1).mul_base(v)); }
    if x.aux == 2 { valid &= x_steps(x, n).iter().all(|&s| aux[aw][s] == x_rand(rands, 0) + E::ONE); }
    let used = (n - e..n - 1).filter(|&i| cv.iter().any(|c| c[i] != E::ZERO)).count();
    // column 0: next = cur * (main_0 + r_0), declared degree 2: exact iff both factors have full degree n-1
    let mut exact = top_coeff::<B, E>(&aux[0], g) != E::ZERO && top_coeff::<B, B>(&main[0], g) != B::ZERO;
    // the linear ones: as for the main segment
    if e >= 2 { for j in 1..aux.len() { if top_coeff::<B, E>(&cv[j], g) == E::ZERO { exact = false; } } }
    (valid, exact, used)
}

/// Reference: declared degrees -> (expected quotient degrees, smallest sufficient evaluation domain = the one the context uses?)
fn x_domain_ok(spec: &Spec, x: &X) -> bool {
    let (n, e) = (spec.n(), spec.exemptions);
    let mut degs: Vec<(usize, Vec<usize>)> = (0..spec.width).map(|c| if spec.hold[c] || spec.rot_of(c) > 0 { (1, vec![]) } else { match spec.per_index(c) {
        Some(i) => (spec.degs[c] as usize, vec![spec.periodic[i]]), None => (spec.degs[c] as usize, vec![]) } }).collect();
    for j in 0..spec.aux_width { degs.push((if j == 0 { 2 } else { 1 }, vec![])); }
    if x.aux == 2 && spec.aux_width > 0 { degs.push((1, vec![])); }
    let ce = degs.iter().map(|(b, cyc)| (b + cyc.len() - 1).next_power_of_two().max(2)).max().unwrap();
    let maxdeg = degs.iter().map(|(b, cyc)| (b * (n - 1) + cyc.iter().map(|c| (n / c) * (c - 1)).sum::<usize>()).saturating_sub(n - e)).max().unwrap();
    maxdeg.max(n + 1).next_power_of_two() == n * ce
}

/// overwrite the main cells that only take part in exempt transitions (rows n-e+1..n-1) and are not under a periodic assertion
fn x_use_exempt_rows<B: StarkField>(spec: &Spec, cols: &mut [Vec<B>]) {
    let (n, e) = (spec.n(), spec.exemptions);
    let mut r = Rng::new(spec.seed ^ 0xE0E0_5EED);
    for row in n - e + 1..n { for c in 0..spec.width {
        let pinned = spec.assertions.iter().any(|a| matches!(a, AKind::Periodic { col, first, stride } if *col == c && row % stride == *first));
        if !pinned { cols[c][row] = B::from(r.next_u64() as u32) + B::from((r.next_u64() >> 33) as u32); }
    } }
}

pub struct XProver<B: StarkField, H> { options: ProofOptions, _p: std::marker::PhantomData<(B, H)> }
impl<B, H> Prover for XProver<B, H>
where B: StarkField + ExtensibleField<2> + ExtensibleField<3> + 'static, H: ElementHasher<BaseField = B> + Send + Sync {
    type BaseField = B;
    type Air = XAir<B>;
    type Trace = XTrace<B>;
    type HashFn = H;
    type RandomCoin = DefaultRandomCoin<H>;
    type TraceLde<E: FieldElement<BaseField = B>> = DefaultTraceLde<E, H>;
    type ConstraintEvaluator<'a, E: FieldElement<BaseField = B>> = DefaultConstraintEvaluator<'a, XAir<B>, E>;
    fn get_pub_inputs(&self, t: &XTrace<B>) -> XPub<B> {
        let cols = t.cols();
        XPub { fam: PubInputs { spec: t.spec.clone(), avals: assertion_values(&t.spec, &cols) }, x: t.x, seq: x_seq_vals(&t.spec, &t.x, &cols) }
    }
    fn options(&self) -> &ProofOptions { &self.options }
    fn new_trace_lde<E: FieldElement<BaseField = B>>(&self, trace_info: &TraceInfo, main_trace: &ColMatrix<B>, domain: &StarkDomain<B>) -> (Self::TraceLde<E>, TracePolyTable<E>) { DefaultTraceLde::new(trace_info, main_trace, domain) }
    fn new_evaluator<'a, E: FieldElement<BaseField = B>>(&self, air: &'a XAir<B>, aux: Option<AuxRandElements<E>>, cc: ConstraintCompositionCoefficients<E>) -> Self::ConstraintEvaluator<'a, E> { DefaultConstraintEvaluator::new(air, aux, cc) }
    fn generate_gkr_proof<E: FieldElement<BaseField = B>>(&self, t: &XTrace<B>, public_coin: &mut Self::RandomCoin) -> (ProverGkrProof<Self>, LagrangeKernelRandElements<E>) {
        let k = t.main.num_rows().ilog2() as usize;
        let v: Vec<E> = (0..k).map(|_| public_coin.draw().unwrap()).collect();
        (k, LagrangeKernelRandElements::new(v))
    }
    fn build_aux_trace<E: FieldElement<BaseField = B>>(&self, t: &XTrace<B>, aux: &AuxRandElements<E>) -> ColMatrix<E> {
        let lag: Option<Vec<E>> = if t.x.lagx { Some(aux.lagrange().expect("lagrange random elements").iter().copied().collect()) } else { None };
        let mut cols = x_build_aux::<B, E>(&t.spec, &t.x, t.main_segment(), aux.rand_elements(), lag.as_deref());
        let main = t.cols();
        let lagc = if t.x.lagx { cols.pop() } else { None };
        let (valid, exact, used) = x_aux_check::<B, E>(&t.spec, &t.x, &main, &cols, aux.rand_elements(), &x_seq_vals(&t.spec, &t.x, &main));
        XLOG.with(|l| { let mut l = l.borrow_mut(); l.aux_valid = Some(valid); l.aux_exact = Some(exact); l.aux_used = used; });
        if let Some(c) = lagc { cols.push(c); }
        ColMatrix::new(cols)
    }
}

/// well-formedness of an X case as a member of the wrapper family (independent of the library)
fn x_wellformed(s: &Spec, x: &X) -> bool {
    let n = s.n();
    let mut t = s.clone(); t.aux_assert_last = false;
    spec_wellformed(&t) && (!s.aux_assert_last || (s.aux_width > 0 && s.exemptions >= 2)) && x.rows <= 2 && x.aux <= 2
        && (!x.lagx || s.aux_width >= 1) && s.aux_rands <= 255 && (s.aux_width == 0 || s.aux_rands >= 1)
        && match x.aux { 0 => true, 1 => s.aux_width >= 2 && x.stride >= 2 && x.stride.is_power_of_two() && x.stride <= n && x.first >= 1 && x.first < x.stride,
                         _ => s.aux_width >= 1 && x.stride >= 2 && x.stride.is_power_of_two() && x.stride <= n && x.first < x.stride }
        && s.width + x_aux_total(s, x) <= 255
}

fn run_x<B, H>(spec: &Spec, x: &X, opts: &ProofOptions) -> String
where B: StarkField + ExtensibleField<2> + ExtensibleField<3> + 'static, H: ElementHasher<BaseField = B> + Send + Sync {
    let mut cols = gen_main::<B>(spec);
    if x.rows >= 1 && spec.exemptions >= 2 { x_use_exempt_rows(spec, &mut cols); }
    let avals = assertion_values(spec, &cols);
    if !is_valid(spec, &cols, &avals) { return "invalid-trace".into(); }
    let (main_exact, used, consistent) = x_main_exact(spec, &cols);
    if !consistent { return "invalid-trace:re-derived constants disagree with airfam".into(); }
    XLOG.with(|l| *l.borrow_mut() = XLog { main_exact, domain_ok: x_domain_ok(spec, x), used, aux_exact: None, aux_valid: None, aux_used: 0 });
    let trace = XTrace::new(spec, x, cols);
    let prover = XProver::<B, H> { options: opts.clone(), _p: std::marker::PhantomData };
    let pi = prover.get_pub_inputs(&trace);
    let res = catch(AssertUnwindSafe(|| prover.prove(trace)));
    if xlog().aux_valid == Some(false) { return "invalid-trace:aux".into(); }
    finish_run::<XAir<B>, H, _>(res, pi, opts)
}

/// which of the two assertions of the library's debug-only degree validation (prover/src/constraints/evaluation_table.rs
/// validate_transition_degrees) is this outcome, if any: "degrees" | "domain-size"
fn diagnostic_kind(out: &str) -> Option<&'static str> {
    if !out.starts_with("prove-panic:") { return None; }
    // assert_eq! prefixes the message with "assertion `left == right` failed: "
    let head = &out[..out.len().min(110)];
    if head.contains("transition constraint degrees didn't match") { Some("degrees") } else if head.contains("incorrect constraint evaluation domain size") { Some("domain-size") } else { None }
}
/// Reference prediction for the last X run in a DEBUG build: which assertion of validate_transition_degrees fires (the degree comparison comes
/// first in the library, the domain-size comparison second); None = the validation is satisfied
fn x_predicted_diagnostic() -> Option<&'static str> {
    let l = xlog();
    if !l.main_exact || l.aux_exact == Some(false) { Some("degrees") } else if !l.domain_ok { Some("domain-size") } else { None }
}
/// open finding F-C01-debug-degree-diagnostics: a DEBUG build, an X case, the reference predicts the diagnostic and the library panics with
/// exactly that assertion.  Must be called right after run_case (reads the reference log of that run).
fn known_diagnostic(c: &Case, out: &str) -> Option<&'static str> {
    if !cfg!(debug_assertions) || c.x.is_none() { return None; }
    match (x_predicted_diagnostic(), diagnostic_kind(out)) { (Some(p), Some(k)) if p == k => Some(k), _ => None }
}

const FIELDS: [&str; 3] = ["f62", "f64", "f128"];
fn hashers_of(field: &str) -> &'static [&'static str] {
    match field { "f62" => &["blake3_256", "blake3_192", "sha3_256", "rp62_248", "toy"], "f64" => &["blake3_256", "blake3_192", "sha3_256", "rp64_256", "rpjive64_256", "toy"], _ => &["blake3_256", "blake3_192", "sha3_256", "toy"] }
}
fn ext_supported(field: &str, ext: u8) -> bool { !(field == "f128" && ext == 3) }

fn make_opts(o: &Opts) -> Option<ProofOptions> { catch(|| ProofOptions::new(o.q, o.blowup, o.grind, ext_of(o.ext), o.fold, o.rem)).ok() }

fn run_case(c: &Case) -> String {
    let opts = match make_opts(&c.opts) { Some(o) => o, None => return "options-rejected".into() };
    type B62 = f62::BaseElement; type B64 = f64::BaseElement; type B128 = f128::BaseElement;
    macro_rules! go { ($b:ty, $h:ty) => { if let Some(x) = &c.x { run_x::<$b, $h>(&c.spec, x, &opts) } else if c.lag > 0 { run_lag::<$b, $h>(c.spec.log_n, c.lag, &opts) } else { run_one::<$b, $h>(&c.spec, &opts) } } }
    match (c.field.as_str(), c.hasher.as_str()) {
        ("f62", "blake3_256") => go!(B62, Blake3_256<B62>),
        ("f62", "blake3_192") => go!(B62, Blake3_192<B62>),
        ("f62", "sha3_256") => go!(B62, Sha3_256<B62>),
        ("f62", "rp62_248") => go!(B62, Rp62_248),
        ("f62", "toy") => go!(B62, ToyHasher<B62>),
        ("f64", "blake3_256") => go!(B64, Blake3_256<B64>),
        ("f64", "blake3_192") => go!(B64, Blake3_192<B64>),
        ("f64", "sha3_256") => go!(B64, Sha3_256<B64>),
        ("f64", "rp64_256") => go!(B64, Rp64_256),
        ("f64", "rpjive64_256") => go!(B64, RpJive64_256),
        ("f64", "toy") => go!(B64, ToyHasher<B64>),
        ("f128", "blake3_256") => go!(B128, Blake3_256<B128>),
        ("f128", "blake3_192") => go!(B128, Blake3_192<B128>),
        ("f128", "sha3_256") => go!(B128, Sha3_256<B128>),
        ("f128", "toy") => go!(B128, ToyHasher<B128>),
        _ => "unsupported-field-hasher".into(),
    }
}

// ------------------------------------------------------------------------------------------------ admissibility (by the REAL constructors)
fn degrees_of(spec: &Spec) -> Option<(Vec<TransitionConstraintDegree>, Vec<TransitionConstraintDegree>)> {
    catch(AssertUnwindSafe(|| {
        let main: Vec<_> = (0..spec.width).map(|c| if spec.hold[c] || spec.rot_of(c) > 0 { TransitionConstraintDegree::new(1) } else { match spec.per_index(c) {
            Some(i) => TransitionConstraintDegree::with_cycles(spec.degs[c] as usize, vec![spec.periodic[i]]),
            None => TransitionConstraintDegree::new(spec.degs[c] as usize) } }).collect();
        let aux: Vec<_> = (0..spec.aux_width).map(|j| TransitionConstraintDegree::new(if j == 0 { 2 } else { 1 })).collect();
        (main, aux)
    })).ok()
}

/// well-formedness of the spec as a member of the family (index ranges etc.), independent of the library
fn spec_wellformed(s: &Spec) -> bool {
    let n = s.n();
    s.width >= 1 && s.degs.len() == s.width && s.use_per.len() == s.width && s.hold.len() == s.width && (s.rot.is_empty() || s.rot.len() == s.width)
        && s.degs.iter().all(|&d| d >= 1) && s.periodic.iter().all(|&p| p >= 2 && p.is_power_of_two() && p <= n)
        && !s.assertions.is_empty()
        && s.assertions.iter().all(|a| match a {
            AKind::Single { col, step } => *col < s.width && *step < n,
            AKind::Periodic { col, first, stride } => *col < s.width && *stride >= 2 && stride.is_power_of_two() && *stride <= n && first < stride && s.hold[*col],
            AKind::Sequence { col, first, stride } => *col < s.width && *stride >= 2 && stride.is_power_of_two() && *stride <= n && first < stride })
        && { let mut cols: Vec<usize> = s.assertions.iter().map(|a| assertion_steps(a, n).0).collect(); cols.sort(); cols.windows(2).all(|w| w[0] != w[1]) }
        && (s.aux_width > 0 || s.aux_rands == 0) && !s.aux_assert_last
}

/// Do the real constructors accept (TraceInfo, degrees, AirContext, exemptions)?  Returns (ce_blowup-implied num columns) on acceptance.
fn ctx_accepts<B: StarkField>(spec: &Spec, opts: &ProofOptions) -> Option<usize> {
    let (main, aux) = degrees_of(spec)?;
    catch(AssertUnwindSafe(|| {
        let info = if spec.aux_width > 0 { TraceInfo::new_multi_segment(spec.width, spec.aux_width, spec.aux_rands, spec.n(), vec![]) } else { TraceInfo::new(spec.width, spec.n()) };
        let ctx: AirContext<B> = if spec.aux_width > 0 {
            AirContext::new_multi_segment(info, main, aux, spec.assertions.len(), spec.aux_width + spec.aux_assert_last as usize, None, opts.clone())
        } else { AirContext::new(info, main, spec.assertions.len(), opts.clone()) };
        ctx.set_num_transition_exemptions(spec.exemptions).num_constraint_composition_columns()
    })).ok()
}


/// Reference admissibility of the family member's shape, written from the documented rules (mirror of Shape.ctx_model in
/// coq/Model/Stark.v), independent of the library: used to notice a library that starts REJECTING parameter sets of the
/// supported class (the falsifier would otherwise skip them silently).
fn ref_ctx_accepts(s: &Spec, blowup: usize) -> bool {
    let n = s.n() as u128;
    let pow2 = |x: u128| x > 0 && x & (x - 1) == 0;
    let degs: Vec<(u128, Vec<u128>)> = (0..s.width).map(|c| if s.hold[c] || s.rot_of(c) > 0 { (1, vec![]) } else { match s.per_index(c) {
        Some(i) => (s.degs[c] as u128, vec![s.periodic[i] as u128]), None => (s.degs[c] as u128, vec![]) } })
        .chain((0..s.aux_width).map(|j| (if j == 0 { 2 } else { 1 }, vec![]))).collect();
    if degs.iter().any(|(b, cyc)| *b == 0 || cyc.iter().any(|&c| c < 2 || !pow2(c))) { return false; }
    if n < 8 || !pow2(n) || s.width == 0 || s.width + s.aux_width > 255 || (s.aux_width == 0 && s.aux_rands != 0) || s.aux_rands > 255 { return false; }
    if s.assertions.is_empty() { return false; }
    let min_blowup = |b: u128, k: u128| (b + k - 1).next_power_of_two().max(2);
    let ce = degs.iter().map(|(b, cyc)| min_blowup(*b, cyc.len() as u128)).max().unwrap_or(0);
    if (blowup as u128) < ce { return false; }
    let e = s.exemptions as u128;
    if e == 0 || e > n / 2 + 1 { return false; }
    degs.iter().all(|(b, cyc)| { let ed = b * (n - 1) + cyc.iter().map(|c| (n / c) * (c - 1)).sum::<u128>(); e + ed <= ce * n - 1 + n })
}

/// admissible in the sense of the property: constructors accept, FRI schedule well-formed, fewer queries than LDE points,
/// extension supported by the field
fn admissible(c: &Case) -> bool {
    if let Some(x) = &c.x {
        if c.lag != 0 || c.spec.log_n < 3 || c.spec.log_n > 20 || !x_wellformed(&c.spec, x) { return false; }
        let opts = match make_opts(&c.opts) { Some(o) => o, None => return false };
        let lde = c.spec.n() * c.opts.blowup;
        if !fri_wellformed(lde, c.opts.blowup, c.opts.fold, c.opts.rem) || c.opts.q >= lde { return false; }
        if !ext_supported(&c.field, c.opts.ext) || !hashers_of(&c.field).contains(&c.hasher.as_str()) { return false; }
        // the REAL constructors decide (TraceInfo, AirContext with the Lagrange index, set_num_transition_exemptions)
        let (spec, x) = (c.spec.clone(), *x);
        return catch(AssertUnwindSafe(move || { let _ = XAir::<f64::BaseElement>::new(x_info(&spec, &x), XPub { fam: PubInputs { spec: spec.clone(), avals: vec![] }, x, seq: vec![] }, opts); })).is_ok();
    }
    if c.lag > 0 {
        let lde = c.spec.n() * c.opts.blowup;
        return c.lag >= 2 && c.lag <= 254 && c.spec.log_n >= 3 && c.spec.log_n <= 16 && make_opts(&c.opts).is_some() && fri_wellformed(lde, c.opts.blowup, c.opts.fold, c.opts.rem)
            && c.opts.q < lde && ext_supported(&c.field, c.opts.ext) && hashers_of(&c.field).contains(&c.hasher.as_str());
    }
    if !spec_wellformed(&c.spec) || c.spec.log_n < 3 || c.spec.log_n > 20 { return false; }
    let opts = match make_opts(&c.opts) { Some(o) => o, None => return false };
    let lde = c.spec.n() * c.opts.blowup;
    if !fri_wellformed(lde, c.opts.blowup, c.opts.fold, c.opts.rem) || c.opts.q >= lde { return false; }
    if !ext_supported(&c.field, c.opts.ext) || !hashers_of(&c.field).contains(&c.hasher.as_str()) { return false; }
    ctx_accepts::<f64::BaseElement>(&c.spec, &opts).is_some()
}

// ------------------------------------------------------------------------------------------------ shrinking
fn fail_class(out: &str) -> String {
    let kind = out.split(':').next().unwrap_or("").to_string();
    let rest: String = out[kind.len()..].chars().take(40).map(|c| if c.is_ascii_digit() { '#' } else { c }).collect();
    format!("{}{}", kind, rest)
}

fn drop_col(s: &Spec, c: usize) -> Option<Spec> {
    if s.width <= 1 { return None; }
    let mut t = s.clone();
    t.width -= 1; t.degs.remove(c); t.use_per.remove(c); t.hold.remove(c); if !t.rot.is_empty() { t.rot.remove(c); }
    t.assertions = s.assertions.iter().filter_map(|a| { let (col, _) = assertion_steps(a, s.n()); if col == c { None } else { let nc = if col > c { col - 1 } else { col };
        Some(match a { AKind::Single { step, .. } => AKind::Single { col: nc, step: *step }, AKind::Periodic { first, stride, .. } => AKind::Periodic { col: nc, first: *first, stride: *stride },
                       AKind::Sequence { first, stride, .. } => AKind::Sequence { col: nc, first: *first, stride: *stride } }) } }).collect();
    if t.assertions.is_empty() { t.assertions.push(AKind::Single { col: 0, step: 0 }); }
    Some(t)
}

fn shrinks(c: &Case) -> Vec<Case> {
    let mut v = vec![];
    let s = &c.spec;
    let with = |f: &dyn Fn(&mut Case)| { let mut d = c.clone(); f(&mut d); d };
    // fewer columns (halve from the end, then single drops)
    if s.width > 1 {
        let mut t = s.clone(); let keep = (s.width + 1) / 2;
        let mut ok = true; for c in (keep..s.width).rev() { match drop_col(&t, c) { Some(u) => t = u, None => { ok = false; break; } } }
        if ok { v.push(Case { spec: t, ..c.clone() }); }
        for col in [s.width - 1, 0] { if let Some(t) = drop_col(s, col) { v.push(Case { spec: t, ..c.clone() }); } }
    }
    if s.log_n > 3 { v.push(with(&|d| { d.spec.log_n -= 1; let n = d.spec.n(); d.spec.exemptions = d.spec.exemptions.min(n / 2 + 1);
        if let Some(x) = d.x.as_mut() { x.stride = x.stride.min(n); x.first %= x.stride.max(1); if x.aux == 1 && x.first == 0 { x.first = 1; } }
        for p in d.spec.periodic.iter_mut() { *p = (*p).min(n); }
        d.spec.assertions = d.spec.assertions.iter().map(|a| match a { AKind::Single { col, step } => AKind::Single { col: *col, step: step % n },
            AKind::Periodic { col, first, stride } => { let st = (*stride).min(n); AKind::Periodic { col: *col, first: first % st, stride: st } },
            AKind::Sequence { col, first, stride } => { let st = (*stride).min(n); AKind::Sequence { col: *col, first: first % st, stride: st } } }).collect(); })); }
    if let Some(x) = c.x {
        if x.rows > 0 { v.push(with(&|d| d.x.as_mut().unwrap().rows = 0)); v.push(with(&|d| d.x.as_mut().unwrap().rows -= 1)); }
        if x.aux > 0 { v.push(with(&|d| d.x.as_mut().unwrap().aux = 0)); }
        if x.lagx { v.push(with(&|d| d.x.as_mut().unwrap().lagx = false)); }
        if s.aux_assert_last { v.push(with(&|d| d.spec.aux_assert_last = false)); }
    }
    if s.aux_width > 0 { v.push(with(&|d| { d.spec.aux_width = 0; d.spec.aux_rands = 0; d.spec.aux_assert_last = false; if let Some(x) = d.x.as_mut() { x.lagx = false; x.aux = 0; } }));
        if s.aux_width > 1 { v.push(with(&|d| d.spec.aux_width = 1)); } if s.aux_rands > 1 { v.push(with(&|d| d.spec.aux_rands = 1)); } }
    if !s.periodic.is_empty() { v.push(with(&|d| { d.spec.periodic.clear(); for u in d.spec.use_per.iter_mut() { *u = false; } })); }
    if s.degs.iter().any(|&d| d > 1) { v.push(with(&|d| for x in d.spec.degs.iter_mut() { *x = 1; })); v.push(with(&|d| for x in d.spec.degs.iter_mut() { if *x > 1 { *x -= 1; } })); }
    if s.exemptions > 1 { v.push(with(&|d| d.spec.exemptions = 1)); v.push(with(&|d| d.spec.exemptions -= 1)); }
    if s.assertions.len() > 1 { for i in 0..s.assertions.len() { v.push(with(&|d| { d.spec.assertions.remove(i); })); } }
    for i in 0..s.assertions.len() { if let AKind::Sequence { col, .. } | AKind::Periodic { col, .. } = s.assertions[i] { if !matches!(s.assertions[i], AKind::Periodic { .. }) || true {
        v.push(with(&|d| d.spec.assertions[i] = AKind::Single { col, step: 0 })); } } }
    if !s.rot.is_empty() { v.push(with(&|d| d.spec.rot.clear())); }
    if s.hold.iter().any(|&h| h) && !s.assertions.iter().any(|a| matches!(a, AKind::Periodic { .. })) { v.push(with(&|d| for h in d.spec.hold.iter_mut() { *h = false; })); }
    if s.constant_trace { v.push(with(&|d| d.spec.constant_trace = false)); }
    if c.lag > 2 { v.push(with(&|d| d.lag = 2)); }
    // options
    let o = &c.opts;
    if o.q > 1 { v.push(with(&|d| d.opts.q = 1)); v.push(with(&|d| d.opts.q /= 2)); v.push(with(&|d| d.opts.q -= 1)); }
    if o.grind > 0 { v.push(with(&|d| d.opts.grind = 0)); }
    if o.ext > 1 { v.push(with(&|d| d.opts.ext = 1)); }
    if o.blowup > 2 { v.push(with(&|d| d.opts.blowup /= 2)); }
    if o.fold > 2 { v.push(with(&|d| d.opts.fold = 2)); v.push(with(&|d| d.opts.fold /= 2)); }
    if o.rem > 0 { v.push(with(&|d| d.opts.rem = 0)); v.push(with(&|d| d.opts.rem = (d.opts.rem + 1) / 2 - 1)); }
    if c.hasher != "blake3_256" { v.push(with(&|d| d.hasher = "blake3_256".into())); }
    if c.field != "f128" && c.opts.ext != 3 { v.push(with(&|d| d.field = "f128".into())); }
    if c.field != "f64" { v.push(with(&|d| d.field = "f64".into())); }
    v
}

fn shrink(c: &Case, out: &str, budget: &mut usize) -> (Case, String) {
    let class = fail_class(out);
    let (mut cur, mut cur_out) = (c.clone(), out.to_string());
    'outer: loop {
        for cand in shrinks(&cur) {
            if *budget == 0 { break 'outer; }
            if cand == cur || !admissible(&cand) { continue; }
            *budget -= 1;
            let o = run_case(&cand);
            if o != "ok" && o != "invalid-trace" && fail_class(&o) == class && known_diagnostic(&cand, &o).is_none() { cur = cand; cur_out = o; continue 'outer; }
        }
        break;
    }
    (cur, cur_out)
}

// ------------------------------------------------------------------------------------------------ generators
struct Tally { diag_seen: Vec<&'static str>, last_cell: bool, evals: usize, fails: usize, skipped: usize, classes: Vec<String>, strata: std::collections::BTreeMap<String, usize> }

fn check(c: &Case, t: &mut Tally, stratum: &str) {
    if !admissible(c) {
        // the library's constructors and the reference rules must agree on what is admissible
        if c.lag == 0 && c.x.is_none() && spec_wellformed(&c.spec) && c.spec.log_n >= 3 && c.spec.log_n <= 20 {
            if let Some(o) = make_opts(&c.opts) {
                let (lib, reference) = (ctx_accepts::<f64::BaseElement>(&c.spec, &o).is_some(), ref_ctx_accepts(&c.spec, c.opts.blowup));
                if lib != reference {
                    t.evals += 1; t.fails += 1;
                    println!("{{\"what\":\"completeness:constructors-disagree-with-reference-admissibility\",\"input\":{},\"expected\":\"accepted = {}\",\"actual\":\"accepted = {}\",\"stratum\":{}}}", case_json(c), reference, lib, jstr(stratum));
                }
            }
        }
        t.skipped += 1; *t.strata.entry(format!("SKIPPED:{}", stratum)).or_insert(0) += 1; return;
    }
    if c.lag == 0 && !ref_ctx_accepts(&c.spec, c.opts.blowup) {
        t.evals += 1; t.fails += 1;
        println!("{{\"what\":\"completeness:constructors-disagree-with-reference-admissibility\",\"input\":{},\"expected\":\"accepted = false\",\"actual\":\"accepted = true\",\"stratum\":{}}}", case_json(c), jstr(stratum));
    }
    let out = run_case(c);
    t.evals += 1;
    t.last_cell = false;
    *t.strata.entry(stratum.to_string()).or_insert(0) += 1;
    if let Some(x) = &c.x {
        // debug profile: the prover's debug-only degree validation compares declared and actual constraint degrees and panics on valid traces on
        // which they differ (degenerate columns) and on some degree-exact ones (domain-size assertion): open finding F-C01-debug-degree-diagnostics
        // (notes/C01.design.md, "Coverage round").  A panic is attributed to that finding only if the REFERENCE computation predicts exactly that
        // assertion; it is then reported with a "what" the finding's signature matches, one line per kind per run (the rest is counted).  A predicted
        // diagnostic that does not fire, any other panic, and that assertion where the reference predicts none are ordinary failures.
        let l = xlog();
        if let Some(kind) = known_diagnostic(c, &out) {
            *t.strata.entry(format!("debug-degree-diagnostic:{}", kind)).or_insert(0) += 1;
            if std::env::var("C01_SHOW_DIAGNOSTICS").is_ok() { eprintln!("diagnostic {} {:?} {} {}", stratum, l, out, case_json(c)); }
            if !t.diag_seen.contains(&kind) {
                t.diag_seen.push(kind);
                println!("{{\"what\":{},\"input\":{},\"expected\":\"prove Ok; verify Ok (the property names no build profile; release builds prove and verify this case)\",\"actual\":{},\"stratum\":{},\"reference\":{},\"replay\":{}}}",
                    jstr(&format!("debug-degree-diagnostic:{}: {}", kind, &out["prove-panic:".len()..])), case_json(c), jstr(&out), jstr(stratum), jstr(&format!("{:?}", l)), jstr(&format!("c01 replay '{}'", case_json(c))));
            }
            return;
        }
        if out == "ok" {
            if cfg!(debug_assertions) { if let Some(kind) = x_predicted_diagnostic() {
                t.fails += 1;
                println!("{{\"what\":\"harness:reference-predicts-debug-degree-diagnostic-but-prover-is-silent\",\"input\":{},\"expected\":{},\"actual\":\"ok\",\"stratum\":{},\"reference\":{},\"replay\":{}}}",
                    case_json(c), jstr(&format!("debug build: validate_transition_degrees panics ({})", kind)), jstr(stratum), jstr(&format!("{:?}", l)), jstr(&format!("c01 replay '{}'", case_json(c))));
                return;
            } }
            let (s, e) = (&c.spec, c.spec.exemptions);
            let tot = x_aux_total(s, x);
            let shape = if tot == 0 { "none" } else if tot < s.width { "lt" } else if tot == s.width { "eq" } else { "gt" };
            let aux_all = tot == 0 || l.aux_used == e - 1;
            let ex = if e == 1 { "e1".to_string() } else { format!("e{}{}:{}", e.min(4), if e > 4 { "+" } else { "" },
                if l.used == e - 1 && aux_all { "used" } else if l.used == e - 1 { "used-main-only" } else if l.used == 0 && l.aux_used == 0 { "unused" } else { "partly-used" }) };
            *t.strata.entry(format!("cell:aux-{}:lag{}:{}", shape, x.lagx as u8, ex)).or_insert(0) += 1;
            t.last_cell = true;
        }
    }
    if out == "ok" { return; }
    if out == "invalid-trace" { // generator defect, not a property failure: report loudly as a harness failure
        t.fails += 1;
        println!("{{\"what\":\"harness:generator-produced-invalid-trace\",\"input\":{},\"expected\":\"valid trace\",\"actual\":\"invalid\"}}", case_json(c));
        return;
    }
    t.fails += 1;
    let class = fail_class(&out);
    // shrink only the first few of each class (the rest are reported unshrunk)
    let seen = t.classes.iter().filter(|x| **x == class).count();
    t.classes.push(class);
    let (m, mout) = if seen < 2 { let mut b = 150; shrink(c, &out, &mut b) } else { (c.clone(), out.clone()) };
    let kind = mout.split(':').next().unwrap_or("").to_string();
    println!("{{\"what\":{},\"input\":{},\"expected\":\"prove Ok; verify Ok; verify(from_bytes(to_bytes(proof))) Ok\",\"actual\":{},\"stratum\":{},\"unshrunk\":{},\"replay\":{}}}",
        jstr(&format!("completeness:{}", kind)), case_json(&m), jstr(&mout), jstr(stratum), case_json(c), jstr(&format!("c01 replay '{}'", case_json(&m))));
}

fn base_opts() -> Opts { Opts { q: 3, blowup: 4, grind: 0, ext: 1, fold: 4, rem: 3 } }

/// repair a spec so that its declared degrees fit the given blowup (keeps the intent of the stratum)
fn fit_degrees(s: &mut Spec, blowup: usize) {
    for c in 0..s.width {
        let cyc = if s.per_index(c).is_some() { 1 } else { 0 };
        let maxd = (blowup + 1 - cyc) as u32;
        if s.degs[c] > maxd { s.degs[c] = maxd; }
        if s.degs[c] < 1 { s.degs[c] = 1; }
    }
}

fn pick_fh(r: &mut Rng, ext: u8) -> (String, String) {
    loop {
        let f = *r.pick(&FIELDS);
        if !ext_supported(f, ext) { continue; }
        let hs = hashers_of(f);
        // the toy hasher is for the model correspondence; sample it rarely here
        let h = hs[r.below(hs.len() as u64) as usize];
        if h == "toy" && !r.chance(1, 4) { continue; }
        return (f.to_string(), h.to_string());
    }
}

/// A well-formed FRI schedule for an LDE domain of the given size (random among the well-formed ones)
fn pick_fri(r: &mut Rng, lde: usize, blowup: usize) -> (usize, usize) {
    for _ in 0..64 {
        let fold = *r.pick(&[2usize, 4, 8, 16]);
        let rem = *r.pick(&[0usize, 1, 3, 7, 15, 31, 63, 127, 255]);
        if fri_wellformed(lde, blowup, fold, rem) { return (fold, rem); }
    }
    (2, 0)
}

fn boundary_stream(r: &mut Rng, t: &mut Tally, thorough: bool) {
    // ---- degenerate but valid traces (constant / zero / low-degree columns), every field
    for f in FIELDS {
        for (name, mk) in [
            ("degenerate:one-constant-column", Box::new(|| { let mut s = Spec::simple(1, 4, 1, 5); s.hold = vec![true]; s }) as Box<dyn Fn() -> Spec>),
            ("degenerate:all-hold-3", Box::new(|| { let mut s = Spec::simple(3, 3, 1, 6); s.hold = vec![true; 3]; s.assertions = vec![AKind::Periodic { col: 1, first: 1, stride: 4 }, AKind::Single { col: 0, step: 7 }]; s })),
            ("degenerate:zero-trace", Box::new(|| { let mut s = Spec::simple(2, 4, 2, 7); s.constant_trace = true; s })),
            ("degenerate:zero-trace-deg3-aux", Box::new(|| { let mut s = Spec::simple(2, 3, 3, 8); s.constant_trace = true; s.aux_width = 2; s.aux_rands = 2; s })),
            ("degenerate:low-degree-x^1", Box::new(|| { let mut s = Spec::simple(1, 4, 1, 9); s.rot = vec![1]; s })),
            ("degenerate:low-degree-x^3,x^n/2", Box::new(|| { let mut s = Spec::simple(2, 5, 1, 10); s.rot = vec![3, 16]; s.assertions = vec![AKind::Sequence { col: 0, first: 1, stride: 2 }]; s })),
            ("degenerate:low-degree-mixed-hold", Box::new(|| { let mut s = Spec::simple(3, 4, 1, 11); s.rot = vec![2, 0, 5]; s.hold = vec![false, true, false]; s })),
            ("degenerate:one-full-degree-among-constants", Box::new(|| { let mut s = Spec::simple(3, 4, 2, 12); s.hold = vec![true, false, true]; s })),
        ] {
            for (ext, blowup) in [(1u8, 2usize), (2, 4), (3, 8)] {
                if !ext_supported(f, ext) { continue; }
                let s = mk();
                let lde = s.n() * blowup;
                let (fold, rem) = pick_fri(r, lde, blowup);
                let c = Case { x: None, lag: 0, field: f.into(), hasher: hashers_of(f)[r.below(3) as usize].into(), opts: Opts { q: 2, blowup, grind: 0, ext, fold, rem }, spec: s };
                check(&c, t, name);
            }
        }
    }
    // ---- width boundaries: 1, 2, 8, 9 (segment boundary), 16, 17, 254, 255, 254+1 aux, 1+254 aux
    for &(w, aw) in &[(1usize, 0usize), (2, 0), (8, 0), (9, 0), (16, 0), (17, 0), (64, 0), (254, 0), (255, 0), (254, 1), (1, 254), (128, 127), (7, 1), (8, 8), (9, 9)] {
        for rep in 0..(if thorough { 3 } else { 1 }) {
            let mut s = Spec::simple(w, 3 + (rep as u32 % 2), 1 + (r.below(3) as u32), r.next_u64());
            s.aux_width = aw; s.aux_rands = if aw > 0 { 1 + r.below(3) as usize } else { 0 };
            s.assertions = vec![AKind::Single { col: w - 1, step: s.n() - 1 }];
            let ext = 1 + r.below(3) as u8;
            let (f, h) = pick_fh(r, ext);
            let blowup = *r.pick(&[4usize, 8]);
            fit_degrees(&mut s, blowup);
            let (fold, rem) = pick_fri(r, s.n() * blowup, blowup);
            check(&Case { x: None, lag: 0, field: f, hasher: h, opts: Opts { q: 1 + r.below(6) as usize, blowup, grind: 0, ext, fold, rem }, spec: s }, t, &format!("width:{}+{}", w, aw));
        }
    }
    // ---- degree boundaries: every degree 1..=blowup+1 for blowup 2,4,8(,16), with and without a periodic column, x exemptions 1,2,d,blowup,n/2+1
    for &blowup in &[2usize, 4, 8, 16] {
        if blowup == 16 && !thorough { continue; }
        for d in 1..=(blowup as u32 + 1) {
            for per in [false, true] {
                for &log_n in &[3u32, 5] {
                    let n = 1usize << log_n;
                    let mut exs = vec![1usize, 2, d as usize, d as usize + 1, blowup, n / 2, n / 2 + 1];
                    exs.sort(); exs.dedup();
                    for ex in exs {
                        if ex < 1 || ex > n / 2 + 1 { continue; }
                        if !thorough && log_n == 5 && blowup == 8 && d % 2 == 0 { continue; }
                        let mut s = Spec::simple(2, log_n, d, r.next_u64());
                        if per { s.periodic = vec![*r.pick(&[2usize, 4, n])]; s.use_per = vec![true, false]; }
                        s.exemptions = ex;
                        let ext = 1 + r.below(3) as u8;
                        let (f, h) = pick_fh(r, ext);
                        let (fold, rem) = pick_fri(r, n * blowup, blowup);
                        check(&Case { x: None, lag: 0, field: f, hasher: h, opts: Opts { q: 1 + r.below(4) as usize, blowup, grind: 0, ext, fold, rem }, spec: s }, t,
                            &format!("degree:{}{}", if d as usize == blowup + 1 { "blowup+1" } else if d == 1 { "1" } else { "mid" }, if per { "+periodic" } else { "" }));
                    }
                }
            }
        }
    }
    // ---- assertion kinds: single (0, n-1, mid), periodic (first 0 / non-zero), sequence (first 0 / non-zero; 2 .. n/2 values incl. >= 64)
    for &log_n in &[3u32, 5, 7, 8] {
        if log_n == 8 && !thorough { continue; }
        let n = 1usize << log_n;
        let mut kinds: Vec<(String, AKind, bool)> = vec![
            ("single:first-step".into(), AKind::Single { col: 0, step: 0 }, false), ("single:last-step".into(), AKind::Single { col: 0, step: n - 1 }, false),
            ("single:mid".into(), AKind::Single { col: 0, step: n / 2 + 1 }, false),
            ("periodic:first=0".into(), AKind::Periodic { col: 0, first: 0, stride: 2 }, true), ("periodic:first=0,stride=n".into(), AKind::Periodic { col: 0, first: 0, stride: n }, true),
            ("periodic:first>0".into(), AKind::Periodic { col: 0, first: 1, stride: 2 }, true), ("periodic:first=stride-1".into(), AKind::Periodic { col: 0, first: n / 2 - 1, stride: n / 2 }, true),
        ];
        let mut stride = 2;
        while stride <= n {
            let nv = n / stride;
            let tag = if nv >= 64 { ">=64-values" } else if nv == 1 { "1-value" } else { "<64-values" };
            kinds.push((format!("sequence:first=0:{}", tag), AKind::Sequence { col: 0, first: 0, stride }, false));
            kinds.push((format!("sequence:first>0:{}", tag), AKind::Sequence { col: 0, first: stride - 1, stride }, false));
            if stride > 2 { kinds.push((format!("sequence:first>0:{}", tag), AKind::Sequence { col: 0, first: 1, stride }, false)); }
            stride *= 2;
        }
        for (name, a, hold) in kinds {
            let mut s = Spec::simple(2, log_n, 2, r.next_u64());
            if hold { s.hold[0] = true; }
            s.assertions = vec![a, AKind::Single { col: 1, step: r.below(n as u64) as usize }];
            let ext = 1 + r.below(3) as u8;
            let (f, h) = pick_fh(r, ext);
            let blowup = *r.pick(&[2usize, 4, 8]);
            let (fold, rem) = pick_fri(r, n * blowup, blowup);
            check(&Case { x: None, lag: 0, field: f, hasher: h, opts: Opts { q: 1 + r.below(5) as usize, blowup, grind: 0, ext, fold, rem }, spec: s }, t, &format!("assertion:{}", name));
        }
    }
    // ---- query-count boundaries: 1, 2, LDE-1, 254, 255 (needs LDE >= 256)
    for &(log_n, blowup, q) in &[(3u32, 2usize, 1usize), (3, 2, 15), (3, 2, 2), (4, 4, 63), (5, 8, 255), (6, 4, 255), (7, 2, 255), (5, 8, 254), (5, 8, 253), (4, 16, 255), (3, 32, 255), (3, 64, 255), (3, 128, 255), (3, 128, 1), (12, 64, 255), (13, 128, 255)] {
        if log_n == 13 && !thorough { continue; }
        for ext in 1..=3u8 {
            if !thorough && ext == 2 && q != 255 { continue; }
            let s = Spec::simple(1 + r.below(3) as usize, log_n, 2, r.next_u64());
            let (f, h) = pick_fh(r, ext);
            let (fold, rem) = pick_fri(r, s.n() * blowup, blowup);
            check(&Case { x: None, lag: 0, field: f, hasher: h, opts: Opts { q, blowup, grind: 0, ext, fold, rem }, spec: s }, t, &format!("queries:{}", if q == 255 { "255".to_string() } else if q + 1 == (1 << log_n) * blowup { "lde-1".into() } else { "other".into() }));
        }
    }
    // 255 columns AND 255 queries together
    {
        let s = Spec::simple(255, 3, 1, r.next_u64());
        check(&Case { x: None, lag: 0, field: "f64".into(), hasher: "blake3_256".into(), opts: Opts { q: 255, blowup: 32, grind: 0, ext: 1, fold: 4, rem: 7 }, spec: s }, t, "width:255+queries:255");
        let mut s = Spec::simple(200, 3, 1, r.next_u64()); s.aux_width = 55; s.aux_rands = 3;
        check(&Case { x: None, lag: 0, field: "f62".into(), hasher: "rp62_248".into(), opts: Opts { q: 255, blowup: 32, grind: 0, ext: 2, fold: 8, rem: 15 }, spec: s }, t, "width:255+queries:255");
    }
    // ---- FRI schedules: every (blowup, fold, rem) that is well formed for a few LDE sizes
    let mut sched = vec![];
    for &blowup in &[2usize, 4, 8, 16, 32, 64, 128] { for &fold in &[2usize, 4, 8, 16] { for &rem in &[0usize, 1, 3, 7, 15, 31, 63, 127, 255] { for &log_n in &[3u32, 4, 6] {
        let lde = (1usize << log_n) * blowup;
        if lde > (1 << 12) || !fri_wellformed(lde, blowup, fold, rem) { continue; }
        sched.push((blowup, fold, rem, log_n));
    } } } }
    let take = if thorough { sched.len() } else { 90 };
    let stepk = (sched.len() / take).max(1);
    for (i, &(blowup, fold, rem, log_n)) in sched.iter().enumerate() {
        if i % stepk != (r.0 as usize % stepk) && !thorough { continue; }
        let mut s = Spec::simple(1 + r.below(3) as usize, log_n, 1 + r.below(3) as u32, r.next_u64());
        fit_degrees(&mut s, blowup);
        let ext = 1 + r.below(3) as u8;
        let (f, h) = pick_fh(r, ext);
        let lde = s.n() * blowup;
        let nl = FriOptions::new(blowup, fold, rem).num_fri_layers(lde);
        check(&Case { x: None, lag: 0, field: f, hasher: h, opts: Opts { q: 1 + r.below(8.min(lde as u64 - 1)) as usize, blowup, grind: 0, ext, fold, rem }, spec: s }, t, &format!("fri:layers={}", nl.min(4)));
    }
    // ---- grinding 0..=16 (20 in thorough)
    for g in [0u32, 1, 2, 7, 8, 12, 16].into_iter().chain(if thorough { vec![20u32] } else { vec![] }) {
        let s = Spec::simple(2, 3, 2, r.next_u64());
        let ext = 1 + r.below(3) as u8;
        let (f, h) = pick_fh(r, ext);
        check(&Case { x: None, lag: 0, field: f, hasher: h, opts: Opts { q: 3, blowup: 4, grind: g, ext, fold: 2, rem: 1 }, spec: s }, t, "grinding");
    }
    // ---- every field x every hasher x every extension once, on a mid-size member with aux segment and periodic column
    for f in FIELDS { for h in hashers_of(f) { for ext in 1..=3u8 {
        if !ext_supported(f, ext) { continue; }
        let mut s = Spec::simple(3, 4, 3, r.next_u64());
        s.periodic = vec![4]; s.use_per = vec![false, true, false]; s.degs = vec![3, 2, 1]; s.exemptions = 2;
        s.aux_width = 2; s.aux_rands = 2;
        s.assertions = vec![AKind::Sequence { col: 0, first: 1, stride: 4 }, AKind::Single { col: 2, step: 15 }];
        check(&Case { x: None, lag: 0, field: f.into(), hasher: (*h).into(), opts: Opts { q: 4, blowup: 4, grind: 1, ext, fold: 4, rem: 3 }, spec: s }, t, &format!("matrix:{}:{}:ext{}", f, h, ext));
    } } }
    // ---- Lagrange-kernel auxiliary column (with 1, 2, 7, 253 ordinary auxiliary columns before it) on every field / extension
    for f in FIELDS { for ext in 1..=3u8 { for &(log_n, aw) in &[(3u32, 2usize), (5, 3), (4, 8), (3, 254), (10, 2)] {
        if !ext_supported(f, ext) || (log_n == 10 && !(thorough || ext == 2)) { continue; }
        let blowup = *r.pick(&[2usize, 4, 8]);
        let (fold, rem) = pick_fri(r, (1usize << log_n) * blowup, blowup);
        let hs = hashers_of(f);
        let c = Case { x: None, lag: aw, field: f.into(), hasher: hs[r.below(hs.len() as u64 - 1) as usize].into(), opts: Opts { q: 1 + r.below(7) as usize, blowup, grind: 0, ext, fold, rem }, spec: Spec::simple(1, log_n, 1, 0) };
        check(&c, t, "lagrange-kernel");
    } } }
    let _ = base_opts();
}

fn random_stream(r: &mut Rng, t: &mut Tally, n: usize) {
    let mut tries = 0;
    let start = t.evals;
    while t.evals - start < n && tries < n * 20 {
        tries += 1;
        let blowup = *r.pick(&[2usize, 2, 4, 4, 8, 16, 32]);
        let mx = if r.chance(1, 8) { 8 } else { 6 };
        let mut s = random_spec(r, mx, blowup);
        fit_degrees(&mut s, blowup);
        // exemptions from the whole allowed range, biased to the small ones
        let n_ = s.n();
        s.exemptions = match r.below(6) { 0 | 1 => 1, 2 => 2, 3 => 1 + r.below(4) as usize, 4 => n_ / 2 + 1, _ => 1 + r.below((n_ / 2 + 1) as u64) as usize };
        // degenerate variants
        match r.below(10) { 0 => s.constant_trace = true, 1 => { for h in s.hold.iter_mut() { *h = true; } }, 2 => { s.rot = (0..s.width).map(|_| r.below(n_ as u64 / 2) as u32).collect(); }, _ => {} }
        if r.chance(1, 12) { s.aux_assert_last = false; }
        let ext = 1 + r.below(3) as u8;
        let (f, h) = pick_fh(r, ext);
        let lde = n_ * blowup;
        let (fold, rem) = pick_fri(r, lde, blowup);
        let q = match r.below(8) { 0 => 1, 1 => (lde - 1).min(255), 2 => 255.min(lde - 1), _ => 1 + r.below(12.min(lde as u64 - 1)) as usize };
        let lag = if r.chance(1, 12) { 2 + r.below(6) as usize } else { 0 };
        let c = Case { x: None, lag, field: f, hasher: h, opts: Opts { q, blowup, grind: if r.chance(1, 4) { r.below(6) as u32 } else { 0 }, ext, fold, rem }, spec: s };
        check(&c, t, if lag > 0 { "random-lagrange" } else { "random" });
    }
}


// ------------------------------------------------------------------------------------------------ X stream (coverage round; run in BOTH profiles)
/// one member of the X family for the cell (aux shape, Lagrange column, #exemptions, use of the exempt rows); `rep` rotates the other
/// knobs: trace length 8..64, periodic column, assertion kinds (main: single / sequence / periodic; aux: single / sequence / periodic),
/// extension degree, field, hasher
fn x_cell_case(r: &mut Rng, shape: &str, lagx: bool, e: usize, rows: u8, rep: usize) -> Case {
    let log_n = 3 + (rep as u32 % 4);
    let n = 1usize << log_n;
    let blowup = *r.pick(&[4usize, 8]);
    let w = if shape == "none" { 1 + r.below(5) as usize } else { 3 + r.below(4) as usize };
    let mut s = Spec::simple(w, log_n, 1, r.next_u64());
    s.degs = (0..w).map(|_| 1 + r.below(3) as u32).collect();
    if rep % 2 == 1 { s.periodic = vec![*r.pick(&[2usize, 4, n])]; s.use_per = (0..w).map(|_| r.chance(1, 2)).collect(); }
    s.exemptions = e;
    let stride = pow2_le(r, 1, log_n.min(4));
    // (a constant column is degenerate as soon as there are >= 2 exemptions and its exempt rows are not used: keep those members for the degenerate stream)
    s.assertions = match if rows == 0 && e >= 2 && rep % 3 == 2 { 0 } else { rep % 3 } {
        0 => vec![AKind::Single { col: 0, step: if r.chance(1, 2) { 0 } else { r.below(n as u64) as usize } }],
        1 => vec![AKind::Sequence { col: 0, first: r.below(stride as u64) as usize, stride }],
        _ => { s.hold[w - 1] = true; let mut a = vec![AKind::Periodic { col: w - 1, first: r.below(stride as u64) as usize, stride }]; if w > 1 { a.push(AKind::Single { col: 0, step: n - 1 }); } a }
    };
    let mut x = X { lagx, rows, aux: 0, first: 0, stride: 2 };
    if shape != "none" {
        let l = lagx as usize;
        let total = match shape { "lt" => 1 + l + r.below((w - 1 - l) as u64) as usize, "eq" => w, _ => w + 1 + r.below(3) as usize };
        let mut xa = ((rep / 2) % 3) as u8;
        if xa == 2 && total < 2 + l { xa = 0; }
        if xa == 1 && total - l < 2 { xa = 0; }
        s.aux_width = total - l - (xa == 2) as usize;
        s.aux_rands = 1 + r.below(3) as usize;
        let st = pow2_le(r, 1, log_n.min(4));
        x = X { lagx, rows, aux: xa, stride: st, first: if xa == 1 { 1 + r.below(st as u64 - 1) as usize } else { r.below(st as u64) as usize } };
        if e >= 2 && r.chance(1, 3) { s.aux_assert_last = true; }
    }
    fit_degrees(&mut s, blowup);
    // the exemption rule bounds degree + exemptions: lower the largest degree until the documented rules accept the member
    for _ in 0..4 { if ref_ctx_accepts(&s, blowup) { break; } let m = *s.degs.iter().max().unwrap(); if m <= 1 { break; } for d in s.degs.iter_mut() { if *d == m { *d -= 1; } } }
    let ext = 1 + (rep % 3) as u8;
    let (f, h) = pick_fh(r, ext);
    let (fold, rem) = pick_fri(r, n * blowup, blowup);
    Case { x: Some(x), lag: 0, field: f, hasher: h, opts: Opts { q: 1 + r.below(4) as usize, blowup, grind: 0, ext, fold, rem }, spec: s }
}

const X_SHAPES: [&str; 4] = ["none", "lt", "eq", "gt"];

fn x_stream(r: &mut Rng, t: &mut Tally, n_random: usize, reps: usize) {
    // ---- cells: aux shape x Lagrange column x (#exemptions, exempt rows used or not); several members per cell.  A member whose
    // honest trace is not degree-exact by the reference computation (e.g. a periodic column with equal values) is replaced by another seed
    for shape in X_SHAPES { for lagx in [false, true] {
        if shape == "none" && lagx { continue; }
        for &(e, rows) in &[(1usize, 0u8), (2, 2), (3, 2), (2, 0), (2, 1), (4, 2)] {
            for rep in 0..reps {
                for _try in 0..12 {
                    let c = x_cell_case(r, shape, lagx, e, rows, rep);
                    if !admissible(&c) { continue; }
                    check(&c, t, &format!("x:aux-{}:lag{}:e{}:rows{}", shape, lagx as u8, e, rows));
                    if t.last_cell { break; }
                }
            }
        }
    } }
    // ---- degenerate valid traces through the same wrapper: must be proved in release; in debug they pass Trace::validate and then
    // may trip the degree diagnostic (tolerated only where the reference predicts it)
    for f in FIELDS { for (i, (name, mk)) in [
        ("x-degenerate:zero-trace-aux", Box::new(|| { let mut s = Spec::simple(2, 3, 2, 21); s.constant_trace = true; s.aux_width = 2; s.aux_rands = 2; s }) as Box<dyn Fn() -> Spec>),
        ("x-degenerate:hold-e2-unused", Box::new(|| { let mut s = Spec::simple(2, 4, 1, 22); s.hold = vec![true, false]; s.exemptions = 2; s.aux_width = 1; s.aux_rands = 1; s })),
        ("x-degenerate:all-hold-e3", Box::new(|| { let mut s = Spec::simple(3, 3, 1, 23); s.hold = vec![true; 3]; s.exemptions = 3; s.assertions = vec![AKind::Periodic { col: 1, first: 1, stride: 4 }]; s })),
        ("x-degenerate:low-degree-x^3-e2", Box::new(|| { let mut s = Spec::simple(2, 4, 1, 24); s.rot = vec![3, 0]; s.exemptions = 2; s.aux_width = 3; s.aux_rands = 1; s })),
        ("x-degenerate:equal-periodic-values", Box::new(|| { let mut s = Spec::simple(1, 3, 2, 0); s.periodic = vec![2]; s.use_per = vec![true];
            // a seed whose two periodic values coincide: the periodic polynomial is constant, the declared cycle degree is not attained
            s.seed = (0..10_000u64).find(|&sd| { let mut t = s.clone(); t.seed = sd; let p = t.periodic_values::<f64::BaseElement>(); p[0][0] == p[0][1] }).unwrap_or(0); s })),
    ].into_iter().enumerate() {
        let s = mk();
        let ext = 1 + ((i as u8 + f.len() as u8) % 3);
        if !ext_supported(f, ext) { continue; }
        let x = X { lagx: s.aux_width > 0 && i % 2 == 1, rows: 0, aux: 0, first: 0, stride: 2 };
        let c = Case { x: Some(x), lag: 0, field: f.into(), hasher: hashers_of(f)[r.below(3) as usize].into(), opts: Opts { q: 2, blowup: 4, grind: 0, ext, fold: 2, rem: 1 }, spec: s };
        check(&c, t, name);
    } }
    // ---- every declared degree 1..blowup+1 for blowup 2,4,8, with and without a periodic column, x exemptions {1,2,d} x n in {8,32}, exempt rows
    // used; in debug the reference decides which of them the degree validation accepts (e.g. n = 8, degree 5 with a cycle-2 periodic column:
    // the quotient degree is exactly 32 = half the evaluation domain, which the validation's domain-size assertion refuses)
    for &blowup in &[2usize, 4, 8] { for d in 1..=(blowup as u32 + 1) { for per in [false, true] { for &log_n in &[3u32, 5] { for ek in 0..3 {
        let n = 1usize << log_n;
        let e = [1usize, 2, d as usize][ek];
        if ek == 2 && (e <= 2 || e > n / 2 + 1) { continue; }
        let mut s = Spec::simple(2, log_n, d, r.next_u64());
        if per { s.periodic = vec![*r.pick(&[2usize, 4, n])]; s.use_per = vec![true, false]; }
        s.exemptions = e;
        if d % 2 == 0 { s.aux_width = 1 + r.below(3) as usize; s.aux_rands = 1 + r.below(2) as usize; }
        let x = X { lagx: s.aux_width > 0 && d % 4 == 0, rows: if e >= 2 { 2 } else { 0 }, aux: 0, first: 0, stride: 2 };
        let ext = 1 + r.below(3) as u8;
        let (f, h) = pick_fh(r, ext);
        let (fold, rem) = pick_fri(r, n * blowup, blowup);
        let c = Case { x: Some(x), lag: 0, field: f, hasher: h, opts: Opts { q: 1 + r.below(3) as usize, blowup, grind: 0, ext, fold, rem }, spec: s };
        if !admissible(&c) { continue; }
        check(&c, t, &format!("x-degree:{}{}", if d as usize == blowup + 1 { "blowup+1" } else if d == 1 { "1" } else { "mid" }, if per { "+periodic" } else { "" }));
    } } } } }
    // the corner named above, pinned (release: must be proved; debug: the domain-size diagnostic, predicted by the reference)
    // (likewise n = 8, degree 10 without periodic column, and n = 16, degree 9 with a cycle-2 column, both with blowup 16)
    for &(log_n, d, cyc, blowup) in &[(3u32, 5u32, 2usize, 8usize), (3, 10, 0, 16), (4, 9, 2, 16)] { for sd in 1..=3u64 {
        let mut s = Spec::simple(1, log_n, d, sd);
        if cyc > 0 { s.periodic = vec![cyc]; s.use_per = vec![true]; }
        let c = Case { x: Some(X { lagx: false, rows: 0, aux: 0, first: 0, stride: 2 }), lag: 0, field: "f64".into(), hasher: "blake3_256".into(), opts: Opts { q: 2, blowup, grind: 0, ext: 1, fold: 4, rem: 7 }, spec: s };
        check(&c, t, &format!("x-degree:n={},d={},cycle={}", 1 << log_n, d, cyc));
    } }
    // ---- wide traces (row-matrix segment boundaries) with wide auxiliary segments, 8 rows
    for &(w, aw) in &[(9usize, 0usize), (17, 0), (64, 0), (8, 8), (9, 9), (7, 17), (128, 125), (1, 253)] {
        let mut s = Spec::simple(w, 3, 2, r.next_u64());
        s.degs = (0..w).map(|_| 1 + r.below(3) as u32).collect();
        s.aux_width = aw; s.aux_rands = if aw > 0 { 1 + r.below(3) as usize } else { 0 };
        s.exemptions = 1 + r.below(2) as usize;
        s.assertions = vec![AKind::Single { col: w - 1, step: 7 }];
        let x = X { lagx: aw > 0, rows: 2, aux: if aw >= 2 { 1 + r.below(2) as u8 } else { 0 }, first: 1, stride: 4 };
        let ext = 1 + r.below(3) as u8;
        let (f, h) = pick_fh(r, ext);
        let c = Case { x: Some(x), lag: 0, field: f, hasher: h, opts: Opts { q: 2, blowup: 4, grind: 0, ext, fold: 2, rem: 3 }, spec: s };
        if !admissible(&c) { t.skipped += 1; continue; }
        check(&c, t, &format!("x-width:{}+{}", w, aw));
    }
    // ---- SEQUENCE assertion with >= 64 values on an AUXILIARY column (the boundary evaluator's large-polynomial path for the auxiliary segment), 128 / 256 rows
    for &(log_n, ext, lagx, e) in &[(7u32, 1u8, false, 1usize), (7, 2, true, 2), (7, 3, false, 3), (8, 2, true, 1)] {
        let mut s = Spec::simple(2, log_n, 2, r.next_u64());
        s.aux_width = 2 + r.below(2) as usize; s.aux_rands = 2; s.exemptions = e;
        let (f, h) = pick_fh(r, ext);
        let c = Case { x: Some(X { lagx, rows: 2, aux: 1, first: 1, stride: 2 }), lag: 0, field: f, hasher: h, opts: Opts { q: 3, blowup: 4, grind: 0, ext, fold: 4, rem: 7 }, spec: s };
        check(&c, t, "x-aux-sequence:>=64-values");
    }
    // ---- pinned minimal case of the "degrees" kind of the open finding F-C01-debug-degree-diagnostics: one constant column, 2 exemptions
    // (declared degree 1 -> expected quotient degree 1, actual 0); the "domain-size" kind is pinned by the strata x-degree:n=... above
    {
        let mut s = Spec::simple(1, 3, 1, 1); s.hold = vec![true]; s.exemptions = 2;
        let c = Case { x: Some(X { lagx: false, rows: 0, aux: 0, first: 0, stride: 2 }), lag: 0, field: "f64".into(), hasher: "blake3_256".into(), opts: Opts { q: 2, blowup: 4, grind: 0, ext: 1, fold: 2, rem: 1 }, spec: s };
        check(&c, t, "x-degenerate:constant-column-e2");
    }
    // ---- the plain Lagrange-kernel family (degree-1 constraints, one exemption: always degree-exact) on 8..64 rows
    for f in FIELDS { for ext in 1..=3u8 { for &(log_n, aw) in &[(3u32, 2usize), (4, 3), (5, 8), (6, 2)] {
        if !ext_supported(f, ext) { continue; }
        let blowup = *r.pick(&[2usize, 4, 8]);
        let (fold, rem) = pick_fri(r, (1usize << log_n) * blowup, blowup);
        let hs = hashers_of(f);
        let c = Case { x: None, lag: aw, field: f.into(), hasher: hs[r.below(hs.len() as u64 - 1) as usize].into(), opts: Opts { q: 1 + r.below(4) as usize, blowup, grind: 0, ext, fold, rem }, spec: Spec::simple(1, log_n, 1, 0) };
        check(&c, t, "x-plain-lagrange-kernel");
    } } }
    // ---- random members of the wrapper family
    let (start, mut tries) = (t.evals, 0);
    while t.evals - start < n_random && tries < n_random * 30 {
        tries += 1;
        let blowup = *r.pick(&[2usize, 4, 4, 8, 16]);
        let mut s = random_spec(r, 6, blowup);
        fit_degrees(&mut s, blowup);
        let n_ = s.n();
        s.exemptions = match r.below(6) { 0 | 1 => 1, 2 => 2, 3 => 3, 4 => 1 + r.below(5) as usize, _ => 1 + r.below((n_ / 2 + 1) as u64) as usize };
        if r.chance(1, 10) { match r.below(3) { 0 => s.constant_trace = true, 1 => { for h in s.hold.iter_mut() { *h = true; } }, _ => { s.rot = (0..s.width).map(|_| r.below(n_ as u64 / 2) as u32).collect(); } } }
        if r.chance(1, 2) && s.aux_width == 0 { s.aux_width = 1 + r.below(2 * s.width as u64 + 1) as usize; s.aux_rands = 1 + r.below(3) as usize; }
        let st = pow2_le(r, 1, s.log_n.min(5));
        let xa = if s.aux_width == 0 { 0 } else { r.below(3) as u8 };
        // constant columns stay constant unless the exempt rows are used: mostly use them, so that most members are degree-exact (debug profile)
        let rows = if s.exemptions >= 2 && (xa == 2 || s.hold.iter().any(|&h| h)) && r.chance(3, 4) { 2 } else { r.below(3) as u8 };
        let x = X { lagx: s.aux_width > 0 && r.chance(1, 2), rows, aux: xa, stride: st, first: if xa == 1 { 1 + r.below(st as u64 - 1) as usize } else { r.below(st as u64) as usize } };
        if s.aux_width > 0 && s.exemptions >= 2 && r.chance(1, 4) { s.aux_assert_last = true; }
        let ext = 1 + r.below(3) as u8;
        let (f, h) = pick_fh(r, ext);
        let lde = n_ * blowup;
        let (fold, rem) = pick_fri(r, lde, blowup);
        let c = Case { x: Some(x), lag: 0, field: f, hasher: h, opts: Opts { q: 1 + r.below(6.min(lde as u64 - 1)) as usize, blowup, grind: if r.chance(1, 6) { r.below(4) as u32 } else { 0 }, ext, fold, rem }, spec: s };
        if !admissible(&c) { continue; }
        check(&c, t, "x-random");
    }
}

/// cross-check of the reference validity predicates (is_valid for the main segment, x_aux_check for the auxiliary one) with the library's
/// `Trace::validate` called directly WITH an auxiliary segment (and a Lagrange column), on honest traces, traces that use the exempt
/// rows, and traces with one mutated main / auxiliary cell; degenerate traces included (no degree validation on this path)
fn x_crosscheck_one<B: Fx, E: FieldElement<BaseField = B>>(r: &mut Rng, t: &mut Tally, i: usize) {
    let shape = X_SHAPES[r.below(4) as usize];
    let e = 1 + r.below(4) as usize;
    let (lagx, rows, rep) = (shape != "none" && r.chance(1, 2), r.below(3) as u8, r.below(12) as usize);
    let mut c = x_cell_case(r, shape, lagx, e, rows, rep);
    c.field = B::NAME.into(); c.hasher = "blake3_256".into(); c.opts.ext = 1;
    if r.chance(1, 8) { c.spec.constant_trace = true; }
    if !admissible(&c) { return; }
    let (spec, x) = (c.spec.clone(), c.x.unwrap());
    let opts = make_opts(&c.opts).unwrap();
    let (n, w) = (spec.n(), spec.width);
    let mut cols = gen_main::<B>(&spec);
    if x.rows >= 1 && spec.exemptions >= 2 { x_use_exempt_rows(&spec, &mut cols); }
    let avals = assertion_values(&spec, &cols);
    let seq = x_seq_vals(&spec, &x, &cols);
    let pi = XPub { fam: PubInputs { spec: spec.clone(), avals: avals.clone() }, x, seq: seq.clone() };
    let mut coin = DefaultRandomCoin::<Blake3_256<B>>::new(&[B::from(r.next_u64() as u32)]);
    let rands: Vec<E> = (0..spec.aux_rands).map(|_| coin.draw().unwrap()).collect();
    let lag: Option<Vec<E>> = if x.lagx { Some((0..spec.log_n).map(|_| coin.draw().unwrap()).collect()) } else { None };
    let mut aux = if spec.aux_width > 0 { x_build_aux::<B, E>(&spec, &x, &ColMatrix::new(cols.clone()), &rands, lag.as_deref()) } else { vec![] };
    let mode = if spec.aux_width > 0 { i % 3 } else { i % 2 };
    match mode {
        1 => { let (cc, row) = (r.below(w as u64) as usize, r.below(n as u64) as usize); cols[cc][row] += B::from(1 + r.below(3) as u32); }
        2 => { let (cc, row) = (r.below((aux.len() - x.lagx as usize) as u64) as usize, r.below(n as u64) as usize); aux[cc][row] += E::ONE; }
        _ => {}
    }
    let plain = &aux[..aux.len() - (x.lagx && !aux.is_empty()) as usize];
    let mine = is_valid(&spec, &cols, &avals) && (spec.aux_width == 0 || x_aux_check::<B, E>(&spec, &x, &cols, plain, &rands, &seq).0);
    let trace = XTrace::new(&spec, &x, cols);
    let air = XAir::<B>::new(trace.info().clone(), pi, opts);
    let atm = if spec.aux_width > 0 { Some(winter_prover::AuxTraceWithMetadata::<E, usize> { aux_trace: ColMatrix::new(aux), aux_rand_elements: AuxRandElements::new_with_lagrange(rands, lag.map(LagrangeKernelRandElements::new)), gkr_proof: None }) } else { None };
    let theirs = catch(AssertUnwindSafe(|| trace.validate::<XAir<B>, E>(&air, atm.as_ref())));
    t.evals += 1;
    *t.strata.entry(format!("x-crosscheck:{}:aux{}:lag{}:{}", if mine { "valid" } else { "invalid" }, (spec.aux_width > 0) as u8, x.lagx as u8, if spec.exemptions == 1 { "e1" } else { "e>=2" })).or_insert(0) += 1;
    if mine != theirs.is_ok() {
        t.fails += 1;
        println!("{{\"what\":\"harness:oracle-disagrees-with-Trace::validate\",\"input\":{},\"expected\":\"reference validity (main and auxiliary segment) = {}\",\"actual\":\"Trace::validate: {}\",\"mutated\":{},\"ext\":{}}}",
            case_json(&c), mine, jstr(&match theirs { Ok(()) => "accepts".to_string(), Err(m) => format!("panics: {}", clip(&m)) }), mode, E::EXTENSION_DEGREE);
    }
}

fn x_crosscheck(r: &mut Rng, t: &mut Tally, n: usize) {
    use winter_math::fields::{CubeExtension, QuadExtension};
    type B62 = f62::BaseElement; type B64 = f64::BaseElement; type B128 = f128::BaseElement;
    for i in 0..n {
        match (i / 3) % 6 {
            0 => x_crosscheck_one::<B64, B64>(r, t, i), 1 => x_crosscheck_one::<B64, QuadExtension<B64>>(r, t, i), 2 => x_crosscheck_one::<B64, CubeExtension<B64>>(r, t, i),
            3 => x_crosscheck_one::<B62, CubeExtension<B62>>(r, t, i), 4 => x_crosscheck_one::<B128, QuadExtension<B128>>(r, t, i), _ => x_crosscheck_one::<B62, B62>(r, t, i),
        }
    }
}

/// cross-check of the falsifier's oracle `is_valid` with the library's own `Trace::validate` (which panics on an invalid trace):
/// honest traces and traces with one mutated cell (which stays valid only when the cell takes part in exempt transitions only
/// and in no assertion).  A disagreement is reported as a harness failure.
fn oracle_crosscheck(r: &mut Rng, t: &mut Tally, n: usize) {
    type B = f64::BaseElement;
    for i in 0..n {
        let blowup = *r.pick(&[4usize, 8]);
        let mut s = random_spec(r, 5, blowup);
        fit_degrees(&mut s, blowup);
        s.aux_width = 0; s.aux_rands = 0;
        s.exemptions = 1 + r.below(4.min(s.n() as u64 / 2 + 1)) as usize;
        let opts = ProofOptions::new(2, blowup, 0, FieldExtension::None, 2, 0);
        if !spec_wellformed(&s) || ctx_accepts::<B>(&s, &opts).is_none() { continue; }
        let mut cols = gen_main::<B>(&s);
        let avals = assertion_values(&s, &cols);
        if i % 2 == 1 { // mutate one cell AFTER the public assertion values were fixed
            let (c, row) = (r.below(s.width as u64) as usize, r.below(s.n() as u64) as usize);
            cols[c][row] += B::from(1 + r.below(3) as u32);
        }
        let mine = is_valid(&s, &cols, &avals);
        let trace = FamTrace::new(&s, cols);
        let air = FamAir::<B>::new(trace.info().clone(), PubInputs { spec: s.clone(), avals: avals.clone() }, opts.clone());
        let theirs = catch(AssertUnwindSafe(|| trace.validate::<FamAir<B>, B>(&air, None))).is_ok();
        t.evals += 1;
        *t.strata.entry(format!("oracle-crosscheck:{}", if mine { "valid" } else { "invalid" })).or_insert(0) += 1;
        if mine != theirs {
            t.fails += 1;
            let c = Case { x: None, lag: 0, field: "f64".into(), hasher: "blake3_256".into(), opts: Opts { q: 2, blowup, grind: 0, ext: 1, fold: 2, rem: 0 }, spec: s };
            println!("{{\"what\":\"harness:oracle-disagrees-with-Trace::validate\",\"input\":{},\"expected\":\"is_valid = {}\",\"actual\":\"Trace::validate accepts = {}\",\"mutated\":{}}}", case_json(&c), mine, theirs, i % 2 == 1);
        }
    }
}

// ------------------------------------------------------------------------------------------------ shape correspondence
fn deg_tok(b: usize, cyc: &[usize]) -> String { if cyc.is_empty() { format!("{}", b) } else { format!("{}:{}", b, cyc.iter().map(|c| c.to_string()).collect::<Vec<_>>().join(",")) } }

fn corr_opts(r: &mut Rng, n: usize, out: &mut Vec<String>) {
    let mut push = |q: usize, b: usize, g: u32, e: u8, f: usize, m: usize| {
        let res = catch(move || ProofOptions::new(q, b, g, ext_of(e), f, m));
        out.push(format!("opts {} {} {} {} {} {} => {}", q, b, g, e, f, m, match res {
            Ok(o) => { let fo = catch(AssertUnwindSafe(|| o.to_fri_options())); format!("ok {}", if fo.is_ok() { "fri-ok" } else { "fri-panic" }) }, Err(_) => "panic".into() }));
    };
    for q in [0usize, 1, 2, 254, 255, 256, 257, 1000] { push(q, 8, 0, 1, 4, 3); }
    for b in 0..=130usize { push(3, b, 0, 1, 4, 3); }
    for b in [255usize, 256, 512, 1 << 20] { push(3, b, 0, 1, 4, 3); }
    for g in [0u32, 1, 31, 32, 33, 64, 255, 256] { push(3, 8, g, 2, 4, 3); }
    for f in 0..=40usize { push(3, 8, 0, 3, f, 3); }
    for f in [64usize, 128, 256] { push(3, 8, 0, 3, f, 3); }
    for m in 0..=260usize { push(3, 8, 0, 1, 2, m); }
    for m in [511usize, 1023, (1usize << 61) - 1, 1usize << 61] { push(3, 8, 0, 1, 2, m); }
    for _ in 0..n {
        let q = *r.pick(&[0usize, 1, 7, 255, 256]) + r.below(2) as usize * r.below(200) as usize;
        let b = if r.chance(3, 4) { 1usize << r.below(9) } else { r.below(300) as usize };
        let g = r.below(40) as u32;
        let f = if r.chance(3, 4) { 1usize << r.below(6) } else { r.below(40) as usize };
        let m = if r.chance(3, 4) { (1usize << r.below(10)) - 1 } else { r.below(300) as usize };
        push(q, b, g, 1 + r.below(3) as u8, f, m);
    }
}

fn corr_tinfo(r: &mut Rng, n: usize, out: &mut Vec<String>) {
    let mut push = |main: usize, aux: usize, rands: usize, len: usize| {
        let a = catch(move || TraceInfo::new_multi_segment(main, aux, rands, len, vec![]));
        let b = catch(move || TraceInfo::new(main, len));
        out.push(format!("tinfo {} {} {} {} => {} {}", main, aux, rands, len, match a { Ok(t) => format!("ok:{}:{}", t.width(), t.is_multi_segment() as u8), Err(_) => "panic".into() }, if b.is_ok() { "ok" } else { "panic" }));
    };
    for w in [0usize, 1, 2, 254, 255, 256, 257] { for a in [0usize, 1, 2, 253, 254, 255, 256] { for rands in [0usize, 1, 255, 256] { push(w, a, rands, 8); } } }
    for len in (0..=40usize).chain([63, 64, 65, 1 << 10, (1 << 10) + 1, 1 << 20, 1 << 31, 1 << 40, (1usize << 61) + 1]) { push(3, 0, 0, len); push(3, 2, 1, len); }
    for _ in 0..n { push(r.below(300) as usize, if r.chance(1, 2) { 0 } else { r.below(300) as usize }, if r.chance(1, 2) { 0 } else { r.below(300) as usize }, if r.chance(3, 4) { 1usize << r.below(12) } else { r.below(100) as usize }); }
}

/// ctx <main_w> <aux_w> <rands> <log_n> <blowup> <n_assert> <n_aux_assert> <use_new(0/1)> <ex|-> M <main degs…> A <aux degs…>
fn corr_ctx(r: &mut Rng, n: usize, out: &mut Vec<String>) {
    let mut push = |mw: usize, aw: usize, rands: usize, log_n: u32, blowup: usize, na: usize, naa: usize, use_new: bool, ex: Option<usize>, md: Vec<(usize, Vec<usize>)>, ad: Vec<(usize, Vec<usize>)>| {
        let case = format!("ctx {} {} {} {} {} {} {} {} {} M {} A {}", mw, aw, rands, log_n, blowup, na, naa, use_new as u8, ex.map(|e| e.to_string()).unwrap_or("-".into()),
            md.iter().map(|(b, c)| deg_tok(*b, c)).collect::<Vec<_>>().join(" "), ad.iter().map(|(b, c)| deg_tok(*b, c)).collect::<Vec<_>>().join(" "));
        let res = catch(AssertUnwindSafe(|| {
            let mk = |v: &Vec<(usize, Vec<usize>)>| v.iter().map(|(b, c)| if c.is_empty() { TransitionConstraintDegree::new(*b) } else { TransitionConstraintDegree::with_cycles(*b, c.clone()) }).collect::<Vec<_>>();
            let (m, a) = (mk(&md), mk(&ad));
            let info = TraceInfo::new_multi_segment(mw, aw, rands, 1usize << log_n, vec![]);
            let opts = ProofOptions::new(1, blowup, 0, FieldExtension::None, 2, 0);
            let ctx: AirContext<f64::BaseElement> = if use_new { AirContext::new(info, m, na, opts) } else { AirContext::new_multi_segment(info, m, a, na, naa, None, opts) };
            let ctx = match ex { Some(e) => ctx.set_num_transition_exemptions(e), None => ctx };
            format!("ok ce={} cols={} lde={} ex={}", ctx.ce_domain_size(), ctx.num_constraint_composition_columns(), ctx.lde_domain_size(), ctx.num_transition_exemptions())
        }));
        out.push(format!("{} => {}", case, res.unwrap_or_else(|_| "panic".into())));
    };
    // boundary sweep: degree d (with 0..2 cycles) x blowup x exemptions x trace length
    for log_n in [3u32, 4, 6] {
        let nn = 1usize << log_n;
        for blowup in [2usize, 4, 8, 16] {
            for d in 0..=(blowup + 2) {
                for cyc in [vec![], vec![2usize], vec![nn], vec![4, 8], vec![1usize], vec![3usize], vec![2 * nn]] {
                    let mut exs: Vec<Option<usize>> = vec![None, Some(0), Some(1), Some(2), Some(d), Some(d + 1), Some(blowup), Some(blowup + 1), Some(nn / 2), Some(nn / 2 + 1), Some(nn / 2 + 2)];
                    if log_n == 3 { for e in 3..=6 { exs.push(Some(e)); } }
                    for ex in exs { push(2, 0, 0, log_n, blowup, 1, 0, true, ex, vec![(1, vec![]), (d, cyc.clone())], vec![]); }
                }
            }
        }
    }
    // structural rejections
    push(1, 0, 0, 3, 2, 0, 0, true, None, vec![(1, vec![])], vec![]);                 // no assertion
    push(1, 0, 0, 3, 2, 1, 0, true, None, vec![], vec![]);                             // no degrees
    push(1, 1, 1, 3, 2, 1, 1, true, None, vec![(1, vec![])], vec![]);                  // new() with multi-segment info
    push(1, 1, 1, 3, 2, 1, 1, false, None, vec![(1, vec![])], vec![]);                 // multi-segment, no aux degrees
    push(1, 1, 1, 3, 2, 1, 0, false, None, vec![(1, vec![])], vec![(1, vec![])]);      // multi-segment, no aux assertions
    push(1, 1, 1, 3, 2, 1, 1, false, Some(2), vec![(1, vec![])], vec![(2, vec![])]);   // fine
    push(1, 0, 0, 3, 2, 1, 0, false, None, vec![(1, vec![])], vec![(1, vec![])]);      // single-segment with aux degrees
    push(1, 0, 0, 3, 2, 1, 1, false, None, vec![(1, vec![])], vec![]);                 // single-segment with aux assertions
    push(1, 1, 0, 3, 2, 1, 1, false, None, vec![(1, vec![])], vec![(2, vec![])]);      // aux segment with zero random elements
    for _ in 0..n {
        let log_n = 3 + r.below(6) as u32; let nn = 1usize << log_n;
        let blowup = 1usize << (1 + r.below(5));
        let aw = if r.chance(1, 3) { 1 + r.below(3) as usize } else { 0 };
        let mw = 1 + r.below(4) as usize;
        let mut gen = |r: &mut Rng| -> (usize, Vec<usize>) { let b = match r.below(5) { 0 => blowup + 1, 1 => blowup, 2 => blowup + 2, _ => 1 + r.below(blowup as u64 + 1) as usize };
            let nc = *r.pick(&[0usize, 0, 0, 1, 1, 2]); (b, (0..nc).map(|_| 1usize << (1 + r.below(log_n as u64))).collect()) };
        let md: Vec<_> = (0..mw).map(|_| gen(r)).collect();
        let ad: Vec<_> = (0..aw).map(|_| gen(r)).collect();
        let ex = match r.below(6) { 0 => None, 1 => Some(1), 2 => Some(2), 3 => Some(nn / 2 + 1), 4 => Some(1 + r.below(nn as u64 / 2 + 2) as usize), _ => Some(1 + r.below(blowup as u64 + 2) as usize) };
        push(mw, aw, if aw > 0 { 1 } else { 0 }, log_n, blowup, 1, if aw > 0 { 1 } else { 0 }, aw == 0 && r.chance(1, 2), ex, md, ad);
    }
}

fn corr_fri(r: &mut Rng, n: usize, out: &mut Vec<String>) {
    let mut push = |lde: usize, blowup: usize, fold: usize, rem: usize| {
        let layers = catch(move || FriOptions::new(blowup, fold, rem).num_fri_layers(lde));
        out.push(format!("fri {} {} {} {} => {} wf={}", lde, blowup, fold, rem, match layers { Ok(l) => format!("layers={}", l), Err(_) => "panic".into() }, fri_wellformed(lde, blowup, fold, rem) as u8));
    };
    for log_lde in 4..=14u32 { for blowup in [2usize, 4, 8, 16, 32, 64, 128] { for fold in [2usize, 4, 8, 16] { for rem in [0usize, 1, 3, 7, 15, 31, 63, 127, 255] {
        let lde = 1usize << log_lde; if lde < 8 * blowup { continue; }
        push(lde, blowup, fold, rem);
    } } } }
    for _ in 0..n { let blowup = 1usize << (1 + r.below(7)); push(blowup << (3 + r.below(10)), blowup, 1usize << (1 + r.below(4)), (1usize << r.below(9)) - 1); }
}


// ------------------------------------------------------------------------------------------------ algebraic correspondence (group `deep`)
trait Fx: StarkField + ExtensibleField<2> + ExtensibleField<3> + 'static { const NAME: &'static str; fn hx(&self) -> String; fn rnd(r: &mut Rng) -> Self; }
impl Fx for f64::BaseElement { const NAME: &'static str = "f64"; fn hx(&self) -> String { format!("{:x}", self.as_int()) } fn rnd(r: &mut Rng) -> Self { Self::new(r.next_u64()) } }
impl Fx for f62::BaseElement { const NAME: &'static str = "f62"; fn hx(&self) -> String { format!("{:x}", self.as_int()) } fn rnd(r: &mut Rng) -> Self { Self::new(r.next_u64() >> 3) } }
impl Fx for f128::BaseElement { const NAME: &'static str = "f128"; fn hx(&self) -> String { format!("{:x}", self.as_int()) } fn rnd(r: &mut Rng) -> Self { Self::new(r.next_u128()) } }
fn hxs<B: Fx>(v: &[B]) -> String { if v.is_empty() { "-".into() } else { v.iter().map(|e| e.hx()).collect::<Vec<_>>().join(",") } }

fn corr_deep_one<B: Fx>(r: &mut Rng, log_n: u32, blowup: usize, width: usize, cols: usize, kind: u64, out: &mut Vec<String>) {
    use prover_src::composer::DeepCompositionPoly;
    use verifier_src::composer::DeepComposer;
    use winter_air::{proof::Table, DeepCompositionCoefficients};
    use winter_math::{fft, polynom};
    use winter_prover::{CompositionPoly, CompositionPolyTrace};
    let n = 1usize << log_n;
    // trace polynomials (coefficients): random / constant / low degree / zero
    let polys: Vec<Vec<B>> = (0..width).map(|c| (0..n).map(|i| match (kind + c as u64) % 4 {
        0 => B::rnd(r), 1 => if i == 0 { B::rnd(r) } else { B::ZERO }, 2 => if i <= 2 { B::rnd(r) } else { B::ZERO }, _ => if kind == 7 { B::ZERO } else { B::rnd(r) } }).collect()).collect();
    // composition polynomial H with at most n * cols coefficients (sometimes fewer / zero)
    let hlen = match kind % 3 { 0 => n * cols, 1 => n * cols - r.below(n as u64) as usize, _ => if kind == 8 { 0 } else { 1 + r.below((n * cols) as u64) as usize } };
    let mut h: Vec<B> = (0..hlen).map(|_| B::rnd(r)).collect();
    let z = B::rnd(r);
    let gam: Vec<B> = (0..width).map(|_| B::rnd(r)).collect();
    let del: Vec<B> = (0..cols).map(|_| B::rnd(r)).collect();
    let g = B::get_root_of_unity(log_n);
    let lde = n * blowup;
    let g_lde = B::get_root_of_unity(lde.ilog2());
    let npos = 4.min(lde);
    let mut positions: Vec<usize> = (0..npos).map(|_| r.below(lde as u64) as usize).collect();
    positions.sort_unstable(); positions.dedup();
    let xs: Vec<B> = positions.iter().map(|&p| B::GENERATOR * g_lde.exp((p as u64).into())).collect();
    let case = format!("deep {} {} {} z={} g={} G {} D {} T {} H {} X {}", B::NAME, n, cols, z.hx(), g.hx(), hxs(&gam), hxs(&del),
        polys.iter().map(|p| hxs(p)).collect::<Vec<_>>().join(";"), hxs(&h), hxs(&xs));
    let res = catch(AssertUnwindSafe(|| {
        let domain = StarkDomain::from_twiddles(fft::get_twiddles::<B>(n), blowup, B::GENERATOR);
        // real CompositionPoly: interpolate the evaluations of H over the constraint evaluation coset and cut into columns
        h.resize(n * blowup, B::ZERO);
        let ce_evals: Vec<B> = (0..n * blowup).map(|i| polynom::eval(&h, B::GENERATOR * g_lde.exp((i as u64).into()))).collect();
        let comp = CompositionPoly::new(CompositionPolyTrace::new(ce_evals), &domain, cols);
        let hz = comp.evaluate_at(z);
        let hrows: Vec<Vec<B>> = xs.iter().map(|&x| comp.evaluate_at(x)).collect();
        let tp = TracePolyTable::<B>::new(ColMatrix::new(polys.clone()));
        let ood = tp.get_ood_frame(z);
        let ood2 = tp.get_ood_frame(z);
        let cc = DeepCompositionCoefficients { trace: gam.clone(), constraints: del.clone(), lagrange: None };
        let mut d = DeepCompositionPoly::new(z, cc);
        d.add_trace_polys(tp, ood);
        d.add_composition_poly(comp, hz.clone());
        let deg = d.degree();
        let evals = d.evaluate(&domain);
        let pe: Vec<B> = positions.iter().map(|&p| evals[p]).collect();
        // real verifier composer on the opened rows
        let spec = Spec::simple(width, log_n, 1, 1);
        let air = FamAir::<B>::new(TraceInfo::new(width, n), PubInputs { spec: spec.clone(), avals: vec![vec![B::ZERO]] }, ProofOptions::new(1, blowup, 0, FieldExtension::None, 2, 0));
        let cc = DeepCompositionCoefficients { trace: gam.clone(), constraints: del.clone(), lagrange: None };
        let composer = DeepComposer::<B>::new(&air, &positions, z, cc);
        let trows: Vec<B> = xs.iter().flat_map(|&x| polys.iter().map(move |p| polynom::eval(p, x)).collect::<Vec<_>>()).collect();
        let mut tb = Vec::new(); winter_utils::Serializable::write_into(&trows, &mut tb);
        let tb = &tb[tb.len() - trows.len() * B::ELEMENT_BYTES..];
        let ttab = Table::<B>::from_bytes(tb, xs.len(), width).unwrap();
        let hflat: Vec<B> = hrows.iter().flatten().copied().collect();
        let mut hb = Vec::new(); winter_utils::Serializable::write_into(&hflat, &mut hb);
        let hb = &hb[hb.len() - hflat.len() * B::ELEMENT_BYTES..];
        let htab = Table::<B>::from_bytes(hb, xs.len(), cols).unwrap();
        let t = composer.compose_trace_columns(ttab, None, ood2.main_frame(), None, None);
        let c = composer.compose_constraint_evaluations(htab, hz.clone());
        let vd = composer.combine_compositions(t, c);
        format!("deg={} hz={} evals={} vdeep={}", deg, hxs(&hz), hxs(&pe), hxs(&vd))
    }));
    out.push(format!("{} => {}", case, res.unwrap_or_else(|m| format!("panic:{}", clip(&m)))));
}

fn corr_deep(r: &mut Rng, n: usize, out: &mut Vec<String>) {
    let mut k = 0u64;
    for i in 0..n {
        let log_n = if i % 10 == 9 { 5 } else { 3 + (i % 2) as u32 };
        let blowup = *r.pick(&[2usize, 4, 8]);
        let width = 1 + r.below(3) as usize;
        let cols = 1 + r.below(blowup as u64) as usize;
        k += 1;
        match i % 3 { 0 => corr_deep_one::<f64::BaseElement>(r, log_n, blowup, width, cols, k % 9, out), 1 => corr_deep_one::<f62::BaseElement>(r, log_n, blowup, width, cols, k % 9, out),
                      _ => corr_deep_one::<f128::BaseElement>(r, log_n, blowup, width, cols, k % 9, out) }
    }
}

// ------------------------------------------------------------------------------------------------ algebraic correspondence (group `deeplag`)
// The Lagrange-kernel DEEP term: the REAL DeepCompositionPoly::add_trace_polys on a TracePolyTable whose auxiliary segment ends in a kernel
// column (add_aux_segment(.., Some(idx)), DeepCompositionCoefficients.lagrange = Some(cc)) and the REAL DeepComposer::compose_trace_columns with
// the Lagrange OOD frame, against deep_trace + deep_lag / v_trace_lag of coq/Model/StarkLagrange.v; E = base field or its quadratic extension.
fn ehx<B: Fx, E: FieldElement<BaseField = B>>(e: &E) -> String {
    E::slice_as_base_elements(std::slice::from_ref(e)).iter().map(|b| b.hx()).collect::<Vec<_>>().join(".")
}
fn ehxs<B: Fx, E: FieldElement<BaseField = B>>(v: &[E]) -> String { if v.is_empty() { "-".into() } else { v.iter().map(|e| ehx::<B, E>(e)).collect::<Vec<_>>().join(",") } }
fn ernd<B: Fx, E: FieldElement<BaseField = B>>(r: &mut Rng) -> E {
    let bs: Vec<B> = (0..E::EXTENSION_DEGREE).map(|_| B::rnd(r)).collect();
    E::slice_from_base_elements(&bs)[0]
}

fn corr_deeplag_one<B: Fx, E: FieldElement<BaseField = B>>(r: &mut Rng, log_n: u32, blowup: usize, mw: usize, aw: usize, kind: u64, out: &mut Vec<String>) {
    use prover_src::composer::DeepCompositionPoly;
    use verifier_src::composer::DeepComposer;
    use winter_air::{proof::Table, DeepCompositionCoefficients};
    use winter_math::{fft, polynom};
    let n = 1usize << log_n;
    let v = log_n as usize;
    let mains: Vec<Vec<B>> = (0..mw).map(|c| (0..n).map(|i| match (kind + c as u64) % 3 { 0 => B::rnd(r), 1 => if i == 0 { B::rnd(r) } else { B::ZERO }, _ => if i <= 2 { B::rnd(r) } else { B::ZERO } }).collect()).collect();
    let auxs: Vec<Vec<E>> = (0..aw).map(|c| (0..n).map(|i| match (kind + c as u64) % 4 { 3 => if i <= 1 { ernd::<B, E>(r) } else { E::ZERO }, _ => ernd::<B, E>(r) }).collect()).collect();
    let g = B::get_root_of_unity(log_n);
    // the kernel polynomial: the interpolant of the HONEST kernel column for random r (kind even), an arbitrary polynomial (kind odd: the DEEP term
    // does not depend on honesty), a low-degree one (kind = 5)
    let lp: Vec<E> = if kind % 2 == 0 {
        let rr: Vec<E> = (0..v).map(|_| ernd::<B, E>(r)).collect();
        let mut col = lagrange_col(&rr, n);
        let inv_tw = fft::get_inv_twiddles::<B>(n);
        fft::interpolate_poly(&mut col, &inv_tw);
        col
    } else if kind == 5 { (0..n).map(|i| if i <= 1 { ernd::<B, E>(r) } else { E::ZERO }).collect() } else { (0..n).map(|_| ernd::<B, E>(r)).collect() };
    let z: E = ernd::<B, E>(r);
    let lcc: E = ernd::<B, E>(r);
    let gam: Vec<E> = (0..mw + aw).map(|_| ernd::<B, E>(r)).collect();
    let lde = n * blowup;
    let g_lde = B::get_root_of_unity(lde.ilog2());
    let mut positions: Vec<usize> = (0..4.min(lde)).map(|_| r.below(lde as u64) as usize).collect();
    positions.sort_unstable(); positions.dedup();
    let xs: Vec<B> = positions.iter().map(|&p| B::GENERATOR * g_lde.exp((p as u64).into())).collect();
    let case = format!("deeplag {} {} {} {} z={} g={} cc={} G {} T {} A {} L {} X {}", B::NAME, E::EXTENSION_DEGREE, n, v, ehx::<B, E>(&z), g.hx(), ehx::<B, E>(&lcc), ehxs::<B, E>(&gam),
        mains.iter().map(|p| hxs(p)).collect::<Vec<_>>().join(";"), if auxs.is_empty() { "-".to_string() } else { auxs.iter().map(|p| ehxs::<B, E>(p)).collect::<Vec<_>>().join(";") }, ehxs::<B, E>(&lp), hxs(&xs));
    let res = catch(AssertUnwindSafe(|| {
        let domain = StarkDomain::from_twiddles(fft::get_twiddles::<B>(n), blowup, B::GENERATOR);
        let mk_tp = || { let mut tp = TracePolyTable::<E>::new(ColMatrix::new(mains.clone())); let mut a = auxs.clone(); a.push(lp.clone()); tp.add_aux_segment(ColMatrix::new(a), Some(aw)); tp };
        let tp = mk_tp();
        let ood = tp.get_ood_frame(z);
        let ood2 = mk_tp().get_ood_frame(z);
        let lf: Vec<E> = ood.lagrange_kernel_frame().expect("lagrange frame").inner().to_vec();
        let mut d = DeepCompositionPoly::new(z, DeepCompositionCoefficients { trace: gam.clone(), constraints: vec![], lagrange: Some(lcc) });
        d.add_trace_polys(tp, ood);
        let deg = d.degree();
        let evals = d.evaluate(&domain);
        let pe: Vec<E> = positions.iter().map(|&p| evals[p]).collect();
        // the verifier's recomputation from the opened rows
        let mut spec = Spec::simple(mw, log_n, 1, 1); spec.aux_width = aw; spec.aux_rands = 1;
        let x = X { lagx: true, rows: 0, aux: 0, first: 0, stride: 2 };
        let air = XAir::<B>::new(x_info(&spec, &x), XPub { fam: PubInputs { spec: spec.clone(), avals: vec![vec![B::ZERO]] }, x, seq: vec![] }, ProofOptions::new(1, blowup, 0, FieldExtension::None, 2, 0));
        let composer = DeepComposer::<E>::new(&air, &positions, z, DeepCompositionCoefficients { trace: gam.clone(), constraints: vec![], lagrange: Some(lcc) });
        let mrows: Vec<B> = xs.iter().flat_map(|&x| mains.iter().map(move |p| polynom::eval(p, x)).collect::<Vec<_>>()).collect();
        let mut tb = Vec::new(); winter_utils::Serializable::write_into(&mrows, &mut tb);
        let mtab = Table::<B>::from_bytes(&tb[tb.len() - mrows.len() * B::ELEMENT_BYTES..], xs.len(), mw).unwrap();
        let arows: Vec<E> = xs.iter().flat_map(|&x| auxs.iter().chain(std::iter::once(&lp)).map(move |p| polynom::eval(p, E::from(x))).collect::<Vec<_>>()).collect();
        let mut ab = Vec::new(); winter_utils::Serializable::write_into(&arows, &mut ab);
        let atab = Table::<E>::from_bytes(&ab[ab.len() - arows.len() * E::ELEMENT_BYTES..], xs.len(), aw + 1).unwrap();
        let vt = composer.compose_trace_columns(mtab, Some(atab), ood2.main_frame(), ood2.aux_frame(), ood2.lagrange_kernel_frame());
        format!("deg={} lf={} evals={} vtrace={}", deg, ehxs::<B, E>(&lf), ehxs::<B, E>(&pe), ehxs::<B, E>(&vt))
    }));
    out.push(format!("{} => {}", case, res.unwrap_or_else(|m| format!("panic:{}", clip(&m)))));
}

fn corr_deeplag(r: &mut Rng, n: usize, out: &mut Vec<String>) {
    use winter_math::fields::QuadExtension;
    type B62 = f62::BaseElement; type B64 = f64::BaseElement; type B128 = f128::BaseElement;
    for i in 0..n {
        let log_n = [3u32, 4, 6][if i % 12 == 11 { 2 } else { i % 2 }];
        let blowup = *r.pick(&[2usize, 4, 8]);
        let (mw, aw) = (1 + r.below(2) as usize, 1 + r.below(3) as usize);
        let kind = (i as u64 / 5) % 6;
        match i % 5 {
            0 => corr_deeplag_one::<B64, B64>(r, log_n, blowup, mw, aw, kind, out), 1 => corr_deeplag_one::<B64, QuadExtension<B64>>(r, log_n, blowup, mw, aw, kind, out),
            2 => corr_deeplag_one::<B62, B62>(r, log_n, blowup, mw, aw, kind, out), 3 => corr_deeplag_one::<B62, QuadExtension<B62>>(r, log_n, blowup, mw, aw, kind, out),
            _ => corr_deeplag_one::<B128, B128>(r, log_n, blowup, mw, aw, kind, out),
        }
    }
}

/// group `lagshape`: the shape predicates of the Lagrange model on the Lagrange members the falsifier proves (X family with a kernel column):
/// what the real constructors build for the member (AirContext::new_multi_segment with Some(idx) + set_num_transition_exemptions), the number of rows
/// of the real LagrangeKernelEvaluationFrame, and the outcome of actually proving and verifying the member — against the model's
/// ctx_model / lag_pts / lag_new / lag_eval-defined / (v + 1 < n) guards of prove_lag, whose verdict is "run=ok" when all of them hold.
fn corr_lagshape(r: &mut Rng, n: usize, out: &mut Vec<String>) {
    type B = f64::BaseElement;
    let mut done = 0;
    let mut tries = 0;
    while done < n && tries < n * 40 {
        tries += 1;
        let shape = X_SHAPES[1 + r.below(3) as usize];
        let e = 1 + r.below(3) as usize;
        let rep = r.below(12) as usize;
        let rows = r.below(3) as u8;
        let c = x_cell_case(r, shape, true, e, rows, rep);
        if !admissible(&c) { continue; }
        let (s, x) = (c.spec.clone(), c.x.unwrap());
        let (md, mut ad) = match degrees_of(&s) { Some(d) => d, None => continue };
        if x.aux == 2 { ad.push(TransitionConstraintDegree::new(1)); }
        let dtok = |c: usize| -> String { if s.hold[c] || s.rot_of(c) > 0 { "1".into() } else { match s.per_index(c) { Some(i) => format!("{}:{}", s.degs[c], s.periodic[i]), None => format!("{}", s.degs[c]) } } };
        let mds: Vec<String> = (0..s.width).map(dtok).collect();
        let ads: Vec<String> = (0..ad.len()).map(|j| if j == 0 { "2".to_string() } else { "1".to_string() }).collect();
        let _ = md;
        let naa = s.aux_width + s.aux_assert_last as usize + (x.aux != 0) as usize;
        let case = format!("lagshape {} {} {} {} {} {} {} {} M {} A {}", s.log_n, s.width, x_aux_total(&s, &x), s.aux_rands, c.opts.blowup, s.assertions.len(), naa, s.exemptions, mds.join(" "), ads.join(" "));
        let opts = make_opts(&c.opts).unwrap();
        let ctx = catch(AssertUnwindSafe(|| {
            let air = XAir::<B>::new(x_info(&s, &x), XPub { fam: PubInputs { spec: s.clone(), avals: vec![] }, x, seq: vec![] }, opts.clone());
            let k = air.context();
            let fr = winter_air::LagrangeKernelEvaluationFrame::<B>::from_lagrange_kernel_column_poly(&vec![B::ONE; s.n()], B::new(12345));
            format!("ok ce={} cols={} lde={} ex={} lagidx={} frame={}", k.ce_domain_size(), k.num_constraint_composition_columns(), k.lde_domain_size(), k.num_transition_exemptions(),
                k.lagrange_kernel_aux_column_idx().map(|i| i as i64).unwrap_or(-1), fr.num_rows())
        })).unwrap_or_else(|_| "panic".into());
        let run = run_case(&c);
        // in a debug build a predicted degree diagnostic is the open finding, not a verdict of the model
        let run = if known_diagnostic(&c, &run).is_some() { "ok".to_string() } else { run };
        out.push(format!("{} => {} run={}", case, ctx, run));
        done += 1;
    }
}

/// diagnostic: what happens outside the well-formedness condition (never counted as failure)
fn probe(r: &mut Rng, n: usize) {
    let mut seen = std::collections::BTreeMap::<String, (usize, String)>::new();
    for _ in 0..n {
        let blowup = *r.pick(&[2usize, 4, 8, 16, 32]);
        let log_n = 3 + r.below(3) as u32;
        let lde = (1usize << log_n) * blowup;
        let fold = *r.pick(&[2usize, 4, 8, 16]);
        let rem = *r.pick(&[0usize, 1, 3, 7, 15, 31, 63, 127, 255]);
        let q = if r.chance(1, 3) { lde + r.below(3) as usize } else { 2 };
        let wf = fri_wellformed(lde, blowup, fold, rem);
        if wf && q < lde { continue; }
        if q > 255 { continue; }
        let c = Case { x: None, lag: 0, field: "f64".into(), hasher: "blake3_256".into(), opts: Opts { q, blowup, grind: 0, ext: 1, fold, rem }, spec: Spec::simple(1, log_n, 1, r.next_u64()) };
        let out = run_case(&c);
        let key = format!("wf={} q<lde={} -> {}", wf as u8, (q < lde) as u8, fail_class(&out));
        let e = seen.entry(key).or_insert((0, case_json(&c))); e.0 += 1;
    }
    for (k, (cnt, ex)) in seen { println!("{} x{} e.g. {}", k, cnt, ex); }
}

fn main() {
    silence_panics();
    let args: Vec<String> = std::env::args().collect();
    let seed: u64 = args.get(2).and_then(|s| s.parse().ok()).unwrap_or(1);
    let n: usize = args.get(3).and_then(|s| s.parse().ok()).unwrap_or(100);
    let mut r = Rng::new(seed);
    match args.get(1).map(|s| s.as_str()) {
        Some("corr") => {
            let mut out = Vec::new();
            match args.get(4).map(|s| s.as_str()).unwrap_or("") {
                "opts" => corr_opts(&mut r, n, &mut out),
                "tinfo" => corr_tinfo(&mut r, n, &mut out),
                "ctx" => corr_ctx(&mut r, n, &mut out),
                "fri" => corr_fri(&mut r, n, &mut out),
                "deep" => corr_deep(&mut r, n, &mut out),
                "deeplag" => corr_deeplag(&mut r, n, &mut out),
                "lagshape" => corr_lagshape(&mut r, n, &mut out),
                g => { eprintln!("unknown group {}", g); std::process::exit(2); }
            }
            let mut s = out.join("\n"); s.push('\n'); print!("{}", s);
        }
        Some("falsify") => {
            let thorough = args.get(4).map(|s| s == "thorough").unwrap_or(false);
            let mut t = Tally { diag_seen: vec![], last_cell: false, evals: 0, fails: 0, skipped: 0, classes: vec![], strata: Default::default() };
            boundary_stream(&mut r, &mut t, thorough);
            oracle_crosscheck(&mut r, &mut t, if thorough { 3000 } else { 300 });
            let b = t.evals;
            random_stream(&mut r, &mut t, n);
            let strata: Vec<String> = t.strata.iter().map(|(k, v)| format!("{}={}", k, v)).collect();
            eprintln!("strata: {}", strata.join(" "));
            println!("boundary={} random={} skipped-inadmissible={}", b, t.evals - b, t.skipped);
            println!("evaluations={} failures={}", t.evals, t.fails);
        }
        Some("xfalsify") => {
            // the X stream of the coverage round; meant to be run with the DEBUG build (debug-only self-checks of the prover) and the release build
            let reps: usize = args.get(4).and_then(|s| s.parse().ok()).unwrap_or(3);
            let mut t = Tally { diag_seen: vec![], last_cell: false, evals: 0, fails: 0, skipped: 0, classes: vec![], strata: Default::default() };
            x_stream(&mut r, &mut t, n, reps);
            x_crosscheck(&mut r, &mut t, (n / 2).max(60));
            let strata: Vec<String> = t.strata.iter().map(|(k, v)| format!("{}={}", k, v)).collect();
            println!("xstrata: {}", strata.join(" "));
            println!("profile={} skipped-inadmissible={}", if cfg!(debug_assertions) { "debug" } else { "release" }, t.skipped);
            println!("evaluations={} failures={}", t.evals, t.fails);
        }
        Some("replay") => {
            let c = case_of_json(args.get(2).expect("json"));
            let adm = admissible(&c);
            println!("admissible={} outcome={}", adm, run_case(&c));
            if c.x.is_some() { println!("profile={} reference: {:?} predicted-debug-diagnostic={:?}", if cfg!(debug_assertions) { "debug" } else { "release" }, xlog(), x_predicted_diagnostic()); }
        }
        Some("probe") => probe(&mut r, n),
        _ => { eprintln!("usage: c01 corr <seed> <n> <group> | c01 falsify <seed> <n> [thorough] | c01 replay '<json>' | c01 probe <seed> <n> | c01 xfalsify <seed> <n> [reps]"); std::process::exit(2); }
    }
}
